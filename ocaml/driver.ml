(* Line driver around the extracted Coq model (coq/model.ml): one request per line, whitespace separated tokens in
   prefix format, one answer line per request.  Mechanical glue only: token -> constructor. *)
open Model

let rec nat_of_int n = if n <= 0 then O else S (nat_of_int (n - 1))
let rec int_of_nat = function O -> 0 | S n -> 1 + int_of_nat n
let rec int_of_pos = function XH -> 1 | XO p -> 2 * int_of_pos p | XI p -> (2 * int_of_pos p) + 1
let rec pos_of_int i = if i <= 1 then XH else if i land 1 = 0 then XO (pos_of_int (i lsr 1)) else XI (pos_of_int (i lsr 1))
let int_of_n = function N0 -> 0 | Npos p -> int_of_pos p
let n_of_int i = if i <= 0 then N0 else Npos (pos_of_int i)
let int_of_z = function Z0 -> 0 | Zpos p -> int_of_pos p | Zneg p -> - (int_of_pos p)
let z_of_int i = if i = 0 then Z0 else if i > 0 then Zpos (pos_of_int i) else Zneg (pos_of_int (- i))
let ascii_of_char c =
  let b i = (Char.code c lsr i) land 1 = 1 in
  Ascii (b 0, b 1, b 2, b 3, b 4, b 5, b 6, b 7)
let char_of_ascii (Ascii (a, b, c, d, e, f, g, h)) =
  let v x i = if x then 1 lsl i else 0 in
  Char.chr (v a 0 + v b 1 + v c 2 + v d 3 + v e 4 + v f 5 + v g 6 + v h 7)
let coq_string s =
  let r = ref EmptyString in
  for i = String.length s - 1 downto 0 do r := String (ascii_of_char s.[i], !r) done; !r
let rec ocaml_string = function EmptyString -> "" | String (c, r) -> String.make 1 (char_of_ascii c) ^ ocaml_string r

let toks = ref []
let next () = match !toks with [] -> failwith "eof" | t :: r -> toks := r; t
let int () = int_of_string (next ())
let nat () = nat_of_int (int ())
let rec times k f = if k <= 0 then [] else let x = f () in x :: times (k - 1) f
let list f = let k = int () in times k f
let sgn () = match next () with "p" -> Pos | "n" -> Neg | "m" -> NegNeg | s -> failwith ("sgn " ^ s)
let weak () = match next () with "w" -> true | "s" -> false | s -> failwith ("weak " ^ s)
let rec tf () =
  match next () with
  | "bot" -> TBot
  | "top" -> TImp (TBot, TBot)
  | "at" -> TAt (nat ())
  | "at0" -> TAt0 (nat ())
  | "and" -> let x = tf () in let y = tf () in TAnd (x, y)
  | "or" -> let x = tf () in let y = tf () in TOr (x, y)
  | "imp" -> let x = tf () in let y = tf () in TImp (x, y)
  | "not" -> let x = tf () in TImp (x, TBot)
  | "nx" -> let w = weak () in let n = nat () in let x = tf () in TNx (w, n, x)
  | "pv" -> let w = weak () in let n = nat () in let x = tf () in TPv (w, n, x)
  | "un" -> let x = tf () in let y = tf () in TUn (x, y)
  | "rl" -> let x = tf () in let y = tf () in TRl (x, y)
  | "si" -> let x = tf () in let y = tf () in TSi (x, y)
  | "tr" -> let x = tf () in let y = tf () in TTr (x, y)
  | s -> failwith ("tf " ^ s)
let rec path () =
  match next () with
  | "skip" -> Skip
  | "testa" -> Test (TAtom (nat ()))
  | "testc" -> Test (TConst (int () <> 0))
  | "ch" -> let p = path () in let q = path () in Choice (p, q)
  | "sq" -> let p = path () in let q = path () in Seq (p, q)
  | "st" -> Star (path ())
  | s -> failwith ("path " ^ s)
let rec df () =
  match next () with
  | "datom" -> DAtom (nat ())
  | "dconst" -> DConst (int () <> 0)
  | "dfinal" -> DFinal
  | "dia" -> let p = path () in let d = df () in DDia (p, d)
  | "box" -> let p = path () in let d = df () in DBox (p, d)
  | s -> failwith ("df " ^ s)
let blit () =
  match next () with
  | "t" -> let s = sgn () in let f = tf () in (s, BTf f)
  | "d" -> let s = sgn () in let d = df () in (s, BDel d)
  | s -> failwith ("blit " ^ s)
let head () =
  match next () with
  | "f" -> SForm (tf ())
  | "c" -> SChoice (list nat)
  | s -> failwith ("head " ^ s)
let part () = match next () with "I" -> Initial | "A" -> Always | "D" -> Dynamic | "F" -> Final | s -> failwith ("part " ^ s)
let rule () = let p = part () in let h = head () in let b = list blit in { sp = p; sh = h; sb = b }
let bools l = String.concat "" (List.map (fun b -> if b then "1" else "0") l)
let res () = match next () with "S" -> SAT | "U" -> UNSAT | "K" -> UNKNOWN | s -> failwith ("res " ^ s)
let stop () = match next () with "S" -> StopSAT | "U" -> StopUNSAT | "K" -> StopUNKNOWN | s -> failwith ("stop " ^ s)
let root () = match next () with "A" -> RAlways | "D" -> RDynamic | "I" -> RInitial | s -> failwith ("root " ^ s)
let event = function
  | EvRelease t -> Printf.sprintf "R %d" (int_of_z t)
  | EvCleanup -> "C"
  | EvGround ps ->
    "G " ^ String.concat " " (List.map (fun ((nm, t), u) -> Printf.sprintf "%s/%d/%d" (ocaml_string nm) (int_of_z t) (int_of_z u)) ps)
  | EvTranslate s -> Printf.sprintf "T %d" (int_of_nat s)
  | EvAssign (t, v) -> Printf.sprintf "A %d %d" (int_of_z t) (if v then 1 else 0)
  | EvSolve (s, a) -> Printf.sprintf "S %d %s" (int_of_nat s) (String.concat "," (List.map (fun t -> string_of_int (int_of_nat t)) a))

let handle () =
  match next () with
  | "tsm" | "cls" as cmd ->
    let n = int () in let h = int () in let prog = list rule in
    let ms = (if cmd = "tsm" then tsm_enum else cls_enum) (nat_of_int n) (nat_of_int h) prog in
    String.concat " " (List.map (fun m -> string_of_int (int_of_n m)) ms)
  | "tfv" -> let n = int () in let h = int () in let t = int () in let f = tf () in
    bools (tf_values (nat_of_int n) (nat_of_int h) (n_of_int t) f)
  | "dfv" -> let n = int () in let h = int () in let t = int () in let d = df () in
    bools (df_values (nat_of_int n) (nat_of_int h) (n_of_int t) d)
  | "thtv" -> let n = int () in let h = int () in let hh = int () in let t = int () in let f = tf () in
    bools (tht_values (nat_of_int n) (nat_of_int h) (n_of_int hh) (n_of_int t) f)
  | "tfvs" -> let n = int () in let h = int () in let f = tf () in let ts = list int in
    String.concat " " (List.map (fun t -> bools (tf_values (nat_of_int n) (nat_of_int h) (n_of_int t) f)) ts)
  | "dfvs" -> let n = int () in let h = int () in let d = df () in let ts = list int in
    String.concat " " (List.map (fun t -> bools (df_values (nat_of_int n) (nat_of_int h) (n_of_int t) d)) ts)
  | "loop" ->
    let imax = (match next () with "-" -> None | s -> Some (nat_of_int (int_of_string s))) in
    let imin = nat () in let istop = stop () in
    let parts = list (fun () -> let r = root () in let nm = coq_string (next ()) in let rng = list nat in ((r, nm), rng)) in
    let results = Array.of_list (list res) in
    let futs = Array.of_list (list (fun () -> list nat)) in
    let fuel = nat () in
    let resf k = let i = int_of_nat k in if i < Array.length results then results.(i) else UNKNOWN in
    let futf k = let i = int_of_nat k in if i < Array.length futs then futs.(i) else [] in
    (match imain_run imax imin istop parts resf futf fuel with
     | Steps l -> "steps " ^ String.concat " ; " (List.map event l)
     | Raised l -> "raised " ^ String.concat " ; " (List.map event l))
  | "ctx" ->
    let b () = int () <> 0 in
    let ir = b () in let hl = b () in let bc = b () in let sy = b () in let v = b () in let ns = b () in
    let sh = { is_rule = ir; head_is_literal = hl; atom_is_boolconst = bc; atom_is_symbolic = sy; value = v; nosign = ns } in
    let pl = (match next () with "HL" -> HeadLit | "HE0" -> HeadElem false | "HE1" -> HeadElem true | "HC0" -> HeadCond false | "HC1" -> HeadCond true
              | "BL0" -> BodyLit false | "BL1" -> BodyLit true | "BC0" -> BodyCond false | "BC1" -> BodyCond true | s -> failwith ("place " ^ s)) in
    let lead = nat () in let stem = nat () in let trail = nat () in let ini = b () in
    (match decide sh pl lead stem trail ini with
     | Accept (r, la, ts, tz) -> Printf.sprintf "accept %d %d %d %d" (if r then 1 else 0) (if la then 1 else 0) (int_of_z ts) (if tz then 1 else 0)
     | RejectFuture -> "reject-future" | RejectPast -> "reject-past" | Raises -> "raises")
  | "thctx" ->
    let neg = int () <> 0 in let con = int () <> 0 in
    let s = function None -> "raises" | Some true -> "reject" | Some false -> "accept" in
    s (tel_ctx_reject_gen neg con) ^ " " ^ s (del_ctx_reject_gen neg con)
  | "loc" ->
    let bf = nat () in let bl = nat () in let bc = nat () in let ef = nat () in let el = nat () in let ec = nat () in
    String.concat "" (List.map (function LFile f -> Printf.sprintf "F%d" (int_of_nat f) | LNum n -> string_of_int (int_of_nat n) | LColon -> ":" | LDash -> "-")
                        (loc_shape { pfile = bf; pline = bl; pcol = bc } { pfile = ef; pline = el; pcol = ec }))
  | "print" ->
    let h = nat () in
    let syms = list (fun () -> let f = int () <> 0 in let d = int () <> 0 in let n = nat () in
                      let l = (match next () with "-" -> None | s -> Some (z_of_int (int_of_string s))) in let t = coq_string (next ()) in
                      { is_fun = f; dunder = d; nargs = n; last = l; txt = t }) in
    (match print_model syms h with
     | Printed sts -> String.concat " | " (List.map (fun st -> "[" ^ String.concat " " (List.map ocaml_string st) ^ "]") sts)
     | PRaises -> "raises")
  | "optparse" ->
    (* optparse imin|imax <empty 0/1> <iv | -> : iv = what Python's int(value) returns, - = ValueError (computed by the harness) *)
    let sb = function None -> "raises" | Some true -> "accept" | Some false -> "reject" in
    (match next () with
     | "imin" -> let _ = next () in let iv = (match next () with "-" -> None | s -> Some (z_of_int (int_of_string s))) in sb (parse_imin_gen iv)
     | "imax" -> let e = next () = "1" in let iv = (match next () with "-" -> None | s -> Some (z_of_int (int_of_string s))) in sb (parse_imax_gen e iv)
     | "istop" -> String.concat " " (List.map ocaml_string istop_values_gen)
     | s -> failwith ("optparse " ^ s))
  | "parse" ->
    (* parse <table> <k> u1..uk <leaf> <n> { <binop> <k> u1..uk <leaf> } ; leaves are numbered by the caller *)
    let tbl = (match next () with "body" -> tel_body_table_gen | "head" -> tel_head_table_gen | "py" -> py_head_table_gen | "del" -> del_table_gen
               | "doc" -> documented_tel | "dochead" -> documented_head | "docdel" -> documented_del | s -> failwith ("table " ^ s)) in
    let elem () = let us = list (fun () -> coq_string (next ())) in let n = nat () in (us, n) in
    let first = elem () in
    let rest = list (fun () -> let o = coq_string (next ()) in let e = elem () in (o, e)) in
    if not (known tbl first rest) then "unknown-operator" else
    let rec show = function
      | Leaf n -> string_of_int (int_of_nat n)
      | Un (o, t) -> "(" ^ ocaml_string o ^ " " ^ show t ^ ")"
      | Bin (o, l, r) -> "(" ^ ocaml_string o ^ " " ^ show l ^ " " ^ show r ^ ")" in
    show (parse_tbl tbl first rest)
  | "thy" ->
    (* thy <ini> <fin> <fuel> <nsteps> { <nroots> { <k> <raw> } } : the body theory model over several horizons; raw formulas are built
       through the regenerated create_formula table; answer: per horizon the events of the log and the pending list *)
    let ini = nat () in let fin = nat () in let fuel = nat () in
    let rec rpath () =
      match next () with
      | "pa" -> PAtom (nat ())
      | "pt" -> PTrue
      | "pca" -> PCheckA (nat ())
      | "pcc" -> PCheckC (int () <> 0)
      | "p1" -> let o = coq_string (next ()) in let p = rpath () in POp1 (o, p)
      | "p2" -> let o = coq_string (next ()) in let p = rpath () in let q = rpath () in POp2 (o, p, q)
      | s -> failwith ("rpath " ^ s) in
    let rec raw () =
      match next () with
      | "a" -> RAtom (nat ())
      | "kw" -> RKw (coq_string (next ()))
      | "o1" -> let o = coq_string (next ()) in let x = raw () in ROp1 (o, x)
      | "o2" -> let o = coq_string (next ()) in let x = raw () in let y = raw () in ROp2 (o, x, y)
      | "on" -> let o = coq_string (next ()) in let n = nat () in let y = raw () in ROpN (o, n, y)
      | "del" -> let o = coq_string (next ()) in let p = rpath () in let x = raw () in RDel (o, p, x)
      | s -> failwith ("raw " ^ s) in
    let bad = ref false in
    let steps = list (fun () -> list (fun () -> let k = nat () in let r = raw () in
                                         match build ini fin r with Some b -> (k, b) | None -> bad := true; (k, Cst false))) in
    if !bad then "error formula cannot be built from the regenerated create_formula table" else
    let lit (pos, v) = (if pos then "+" else "-") ^ (match v with VU (a, k) -> Printf.sprintf "U%d.%d" (int_of_nat a) (int_of_nat k) | VX n -> Printf.sprintf "X%d" (int_of_nat n)) in
    let ev = function
      | ENew (n, kd, _) -> Printf.sprintf "N %d %s" (int_of_nat n) (match kd with KChoice -> "choice" | KFalse -> "false" | KExt None -> "free" | KExt (Some true) -> "ext1" | KExt (Some false) -> "ext0")
      | EGroup (_, cs) -> "G " ^ String.concat " / " (List.map (fun c -> String.concat " " (List.map lit c)) cs)
      | EFree n -> Printf.sprintf "F %d" (int_of_nat n) in
    (match run_model fuel steps with
     | None -> "error model run fails (fuel or an entry set twice)"
     | Some res -> String.concat " || " (List.map (fun ((evs, pend), rl) -> String.concat " ; " (List.map ev evs) ^ " | " ^ string_of_int (List.length pend) ^ " | " ^
                                                        String.concat " " (List.map (function None -> "?" | Some l -> lit l) rl)) res))
  | "hds" ->
    (* hds <ini> <fin> <nelems> { <raw> } <nsteps> { <d> <nbase> { <atom> } } : Model/HeadRules.head_step - the clauses and rules of a head
       formula (built through the regenerated create_formula table of heads) at distance d from the state it was introduced at *)
    let ini = nat () in let fin = nat () in
    let rec raw () =
      match next () with
      | "a" -> RAtom (nat ())
      | "kw" -> RKw (coq_string (next ()))
      | "o1" -> let o = coq_string (next ()) in let x = raw () in ROp1 (o, x)
      | "o2" -> let o = coq_string (next ()) in let x = raw () in let y = raw () in ROp2 (o, x, y)
      | "on" -> let o = coq_string (next ()) in let n = nat () in let y = raw () in ROpN (o, n, y)
      | s -> failwith ("raw " ^ s) in
    let elems = list (fun () -> hbuild ini fin (raw ())) in
    let steps = list (fun () -> let d = nat () in let base = list nat in (d, base)) in
    if List.mem None elems then "error formula cannot be built from the regenerated create_formula table of heads" else
    (match helems (List.map (function Some x -> x | None -> HConst false) elems) with
     | None -> "error no element"
     | Some f ->
       let b x = if x then "1" else "0" in
       let i n = string_of_int (int_of_nat n) in
       let rec hf = function
         | HAt a -> "(at " ^ i a ^ ")" | HConst c -> "(cst " ^ b c ^ ")" | HNeg x -> "(neg " ^ hf x ^ ")" | HNx (n, w, x) -> "(nx " ^ i n ^ " " ^ b w ^ " " ^ hf x ^ ")"
         | HUn (u, l, r) -> "(un " ^ b u ^ " " ^ hf l ^ " " ^ hf r ^ ")" | HUn1 (u, r) -> "(un1 " ^ b u ^ " " ^ hf r ^ ")"
         | HAnd (x, y) -> "(and " ^ hf x ^ " " ^ hf y ^ ")" | HOr (x, y) -> "(or " ^ hf x ^ " " ^ hf y ^ ")" in
       let rec leaf = function
         | SAt a -> "(A " ^ i a ^ ")" | SBack (d, x) -> "(B " ^ i d ^ " " ^ hf x ^ ")" | SFwd (n, w, x) -> "(F " ^ i n ^ " " ^ b w ^ " " ^ hf x ^ ")"
         | SAnd (x, y) -> "(AND " ^ leaf x ^ " " ^ leaf y ^ ")" | SOr (x, y) -> "(OR " ^ leaf x ^ " " ^ leaf y ^ ")" in
       let bop = function OpAnd -> "&" | OpOr -> "|" | OpRImp -> "->" | OpLImp -> "<-" | OpEqv -> "<>" in
       let rec bf = function
         | At a -> "(at " ^ i a ^ ")" | Cst c -> "(cst " ^ b c ^ ")" | Neg0 x -> "(neg " ^ bf x ^ ")" | Bin0 (o, x, y) -> "(bin " ^ bop o ^ " " ^ bf x ^ " " ^ bf y ^ ")"
         | Pv (n, w, x) -> "(pv " ^ i n ^ " " ^ b w ^ " " ^ bf x ^ ")" | Ini x -> "(ini " ^ bf x ^ ")" | Nx (n, w, x) -> "(nx " ^ i n ^ " " ^ b w ^ " " ^ bf x ^ ")"
         | TN2 (u, l, r) -> "(tn2 " ^ b u ^ " " ^ bf l ^ " " ^ bf r ^ ")" | TN1 (u, r) -> "(tn1 " ^ b u ^ " " ^ bf r ^ ")"
         | TP2 (u, l, r) -> "(tp2 " ^ b u ^ " " ^ bf l ^ " " ^ bf r ^ ")" | TP1 (u, r) -> "(tp1 " ^ b u ^ " " ^ bf r ^ ")" in
       let step (d, base) =
         let (cs, rs) = head_step f d base in
         String.concat " / " (List.map (fun c -> String.concat " " (List.map leaf c)) cs) ^ " => " ^
         (match rs with
          | None -> "norules"
          | Some rs -> String.concat " / " (List.map (fun r -> String.concat " " (List.map i r.hd) ^ " : " ^ String.concat " " (List.map bf r.bd)) rs)) in
       hf f ^ " || " ^ String.concat " || " (List.map step steps))
  | "ctr" ->
    (* ctr <nrules> { <part I|A|D|F> <head n a | d k a.. | c k a.. | x> <nbody> { <sgn> <at a past | in a | kI | kF> } } : Model/CoreRun.transform *)
    let sg () = match next () with "p" -> Pos0 | "n" -> Neg1 | "m" -> NegNeg0 | s -> failwith ("sgn " ^ s) in
    let batom () = match next () with "at" -> let a = nat () in let p = nat () in BAt (a, p) | "in" -> BInit (nat ()) | "kI" -> BKwI | "kF" -> BKwF | s -> failwith ("batom " ^ s) in
    let hd () = match next () with "n" -> SNorm (nat ()) | "d" -> SDisj (list nat) | "c" -> SChoice0 (list nat) | "x" -> SCons | s -> failwith ("head " ^ s) in
    let pt () = match next () with "I" -> Initial0 | "A" -> Always0 | "D" -> Dynamic0 | "F" -> Final0 | s -> failwith ("part " ^ s) in
    let rules = list (fun () -> let p = pt () in let h = hd () in let b = list (fun () -> let s = sg () in let a = batom () in (s, a)) in { sp0 = p; sh0 = h; sb0 = b }) in
    let tm = function Tt n -> Printf.sprintf "t-%d" (int_of_nat n) | T0 -> "0" in
    let pa = function PU (a, t) -> Printf.sprintf "U%d@%s" (int_of_nat a) (tm t) | PI -> "I" | PF -> "F" in
    let sgs = function Pos0 -> "p" | Neg1 -> "n" | NegNeg0 -> "m" in
    let ids l = String.concat "," (List.map (fun a -> string_of_int (int_of_nat a)) l) in
    let show r =
      (match r.pp with OInitial -> "initial" | OAlways -> "always" | ODynamic -> "dynamic") ^ " | " ^
      (match r.ph with SNorm a -> "n " ^ string_of_int (int_of_nat a) | SDisj l -> "d " ^ ids l | SChoice0 l -> "c " ^ ids l | SCons -> "x") ^ " | " ^
      String.concat " " (List.map (fun (s, a) -> sgs s ^ pa a) r.pb) in
    String.concat " ;; " (List.map (fun r -> show (transform r)) rules)
  | "hdm" ->
    (* hdm <ini> <fin> <nelems> { <raw> } : Model/HeadDomain.entries - the (atom, lower bound, upper bound) entries of the domain rule of a ground head formula *)
    let ini = nat () in let fin = nat () in
    let rec raw () =
      match next () with
      | "a" -> RAtom (nat ())
      | "kw" -> RKw (coq_string (next ()))
      | "o1" -> let o = coq_string (next ()) in let x = raw () in ROp1 (o, x)
      | "o2" -> let o = coq_string (next ()) in let x = raw () in let y = raw () in ROp2 (o, x, y)
      | "on" -> let o = coq_string (next ()) in let n = nat () in let y = raw () in ROpN (o, n, y)
      | s -> failwith ("raw " ^ s) in
    let elems = list (fun () -> hbuild ini fin (raw ())) in
    if List.mem None elems then "error formula cannot be built from the regenerated create_formula table of heads" else
    (match helems (List.map (function Some x -> x | None -> HConst false) elems) with
     | None -> "error no element"
     | Some f ->
       let rec eqb a b = match a, b with O, O -> true | S x, S y -> eqb x y | _, _ -> false in
       String.concat " ; " (List.map (fun (a, (lo, hi)) -> Printf.sprintf "%d %d %s" (int_of_nat a) (int_of_z lo) (match hi with None -> "inf" | Some h -> string_of_int (int_of_z h))) (entries eqb f)))
  | ("ftr" | "ftri") as cmd ->
    (* ftr <nrules> { <part I|A|D|F> <head n a trail | d k a.. | c k a.. | x> <nbody> { <sgn> <at a lead trail | in a | kI | kF> } } :
       Model/FutTransform.transform_program (atoms are numbered in the order of sorted(future_predicates)) *)
    let sg () = match next () with "p" -> FPos | "n" -> FNeg | "m" -> FNegNeg | s -> failwith ("sgn " ^ s) in
    let batom () = match next () with
      | "at" -> let a = nat () in let l = nat () in let t = nat () in FAt (a, l, t) | "in" -> FInit (nat ()) | "kI" -> FKwI | "kF" -> FKwF | "tl" -> FTel | s -> failwith ("batom " ^ s) in
    let hd () = match next () with
      | "n" -> let a = nat () in let t = nat () in FNorm (a, t) | "d" -> FDisj (list nat) | "c" -> FChoice (list nat) | "x" -> FCons | "t" -> FTelHead | s -> failwith ("head " ^ s) in
    let pt () = match next () with "I" -> FInitial | "A" -> FAlways | "D" -> FDynamic | "F" -> FFinal | s -> failwith ("part " ^ s) in
    let rec leb a b = match a, b with O, _ -> true | S _, O -> false | S x, S y -> leb x y in
    let body () = list (fun () -> let s = sg () in let a = batom () in (s, a)) in
    (* ftri <ninputs> { <nitems> { P <name> | R <head> <nbody> {..} } } : Model/Inputs.transform_inputs (directives resolved by the regenerated visit_Program) *)
    let result =
      if cmd = "ftr" then transform_program leb (list (fun () -> let p = pt () in let h = hd () in let b = body () in { fp = p; fh = h; fb = b }))
      else transform_inputs leb (list (fun () -> list (fun () -> match next () with
             | "P" -> SProg (coq_string (next ())) | "R" -> let h = hd () in let b = body () in SRule (h, b) | s -> failwith ("item " ^ s)))) in
    let i n = string_of_int (int_of_nat n) in
    let tm = function QRel z -> Printf.sprintf "t%+d" (int_of_z z) | QZero -> "0" in
    let pa = function QU (a, t) -> "U" ^ i a ^ "@" ^ tm t | QFut (a, n, t) -> "X" ^ i a ^ "." ^ i n ^ "@" ^ tm t | QI -> "I" | QF -> "F" | QFU -> "FU" | QTel -> "T" in
    let sgs = function FPos -> "p" | FNeg -> "n" | FNegNeg -> "m" in
    let ids l = String.concat "," (List.map i l) in
    let rt = function ORInitial -> "initial" | ORAlways -> "always" | ORDynamic -> "dynamic" in
    let rule r = (match r.qh with QHAtom p -> "n " ^ pa p | QHDisj l -> "d " ^ ids l | QHChoice l -> "c " ^ ids l | QHCons -> "x" | QHAux k -> "n A" ^ i k) ^ " | " ^
                 String.concat " " (List.map (fun (s, a) -> sgs s ^ pa a) r.qb) in
    (match result with
     | None -> "rejected"
     | Some o ->
       String.concat " ;; " (List.map (fun (r, p) -> rt r ^ " | " ^ rule p) o.o_main) ^ " ## " ^
       String.concat " " (List.map (fun (a, n) -> i a ^ ":" ^ i n) o.o_bridge) ^ " ## " ^
       String.concat " ;; " (List.map (fun ((r, l), rs) -> rt r ^ " " ^ i l ^ " : " ^ String.concat " // " (List.map (fun (t, p) -> rule t ^ " => " ^ rule p) rs)) o.o_cons) ^ " ## " ^
       String.concat " ;; " (List.map (fun ((r, k), rng) -> rt r ^ " " ^ (match k with KMain -> "main" | KTmp l -> "tmp" ^ i l | KPerm l -> "perm" ^ i l) ^ " " ^ ids rng) o.o_parts) ^ " ## " ^ i o.o_naux)
  | "csym" ->
    (* csym <tterm> with tterm ::= N <int> | S <hex name> | F <hex name> <k> tterm.. | T <k> tterm.. | L <k> tterm.. : Model/Symbols.create_symbol,
       the result printed the way clingo prints a symbol *)
    let unhex h = String.init (String.length h / 2) (fun i -> Char.chr (int_of_string ("0x" ^ String.sub h (2 * i) 2))) in
    let name () = match next () with "-" -> coq_string "" | h -> coq_string (unhex h) in
    let rec tt () = match next () with
      | "N" -> TNum (z_of_int (int ())) | "S" -> TSym (name ()) | "F" -> let n = name () in TFun (n, list tt) | "T" -> TTup (list tt) | "L" -> TSeq (list tt)
      | s -> failwith ("tterm " ^ s) in
    let esc s = String.concat "" (List.map (fun c -> match c with '\\' -> "\\\\" | '"' -> "\\\"" | '\n' -> "\\n" | c -> String.make 1 c) (List.init (String.length s) (String.get s))) in
    let rec show = function
      | YNum z -> string_of_int (int_of_z z) | YStr x -> "\"" ^ esc (ocaml_string x) ^ "\"" | YInf -> "#inf" | YSup -> "#sup"
      | YFun (n, args, pos) ->
        let a = List.map show args in
        (if pos then "" else "-") ^
        (match ocaml_string n, a with
         | "", [x] -> "(" ^ x ^ ",)" | "", _ -> "(" ^ String.concat "," a ^ ")"
         | nm, [] -> nm | nm, _ -> nm ^ "(" ^ String.concat "," a ^ ")") in
    (match create_symbol (tt ()) with Some y -> show y | None -> "raises")
  | "wsym" ->
    (* wsym <wterm> with wterm ::= n <int> | s <hex> | c <hex> | i | u | f <hex> <k> wterm.. | t <k> wterm.. | g wterm | b <0|1> wterm wterm :
       a written ground term; prints  <create_symbol (in_body w)> | <eval (to_term (in_head w))>  (Model/Symbols.v) *)
    let unhex h = String.init (String.length h / 2) (fun i -> Char.chr (int_of_string ("0x" ^ String.sub h (2 * i) 2))) in
    let name () = match next () with "-" -> coq_string "" | h -> coq_string (unhex h) in
    let rec wt () = match next () with
      | "n" -> WNum (z_of_int (int ())) | "s" -> WStr (name ()) | "c" -> WConst (name ()) | "i" -> WInf | "u" -> WSup
      | "f" -> let n = name () in WFun (n, list wt) | "t" -> WTup (list wt) | "g" -> WNeg (wt ()) | "b" -> let p = int () <> 0 in let l = wt () in let r = wt () in WBin (p, l, r)
      | s -> failwith ("wterm " ^ s) in
    let esc s = String.concat "" (List.map (fun c -> match c with '\\' -> "\\\\" | '"' -> "\\\"" | '\n' -> "\\n" | c -> String.make 1 c) (List.init (String.length s) (String.get s))) in
    let rec show = function
      | YNum z -> string_of_int (int_of_z z) | YStr x -> "\"" ^ esc (ocaml_string x) ^ "\"" | YInf -> "#inf" | YSup -> "#sup"
      | YFun (n, args, pos) ->
        let a = List.map show args in
        (if pos then "" else "-") ^
        (match ocaml_string n, a with
         | "", [x] -> "(" ^ x ^ ",)" | "", _ -> "(" ^ String.concat "," a ^ ")"
         | nm, [] -> nm | nm, _ -> nm ^ "(" ^ String.concat "," a ^ ")") in
    let w = wt () in
    (match create_symbol (in_body w) with Some y -> show y | None -> "raises") ^ " | " ^
    (match to_term (in_head w) with None -> "raises" | Some a -> (match eval (fun _ -> YInf) a with Some y -> show y | None -> "undefined"))
  | "ivs" ->
    (* ivs <n> { <left> <right> } : Model/IntervalSet.of_list *)
    let xs = list (fun () -> let a = int () in let b = int () in (z_of_int a, z_of_int b)) in
    String.concat " " (List.map (fun (a, b) -> Printf.sprintf "[%d,%d)" (int_of_z a) (int_of_z b)) (of_list xs))
  | "defaults" ->
    Printf.sprintf "%d %s %s" (int_of_nat default_imin_gen)
      (match default_imax_gen with None -> "-" | Some m -> string_of_int (int_of_nat m))
      (match default_istop_gen with StopSAT -> "S" | StopUNSAT -> "U" | StopUNKNOWN -> "K")
  | s -> "error unknown request " ^ s

let () =
  try
    while true do
      let line = input_line stdin in
      toks := List.filter (fun s -> s <> "") (String.split_on_char ' ' line);
      (try print_endline (handle ()) with Failure m -> print_endline ("error " ^ m) | Stack_overflow -> print_endline "error stack");
      flush stdout
    done
  with End_of_file -> ()
