#!/bin/bash
# usage: harness/seedtest2.sh <agent out dir> <worktree> : property taken from each mutN/meta.json
OUT=$1; WT=$2
for M in $OUT/mut*; do
  [ -f $M/patch.diff ] || continue
  N=$(basename $M)
  PS=$(/venv/bin/python -c "import json,re;print(' '.join(re.findall(r'C\d\d', json.load(open('$M/meta.json')).get('property',''))))")
  git -C $WT checkout -q -- . ; git -C $WT clean -fdq
  PYTHONPATH=$WT /venv/bin/python $M/demo.py > /dev/null 2>&1; RC0=$?
  if ! git -C $WT apply $M/patch.diff; then echo "$N: patch does not apply"; continue; fi
  T=$(cd $WT && PYTHONPATH=$WT /venv/bin/python -m pytest -q -p no:cacheprovider telingo/tests 2>&1 | tail -1)
  PYTHONPATH=$WT /venv/bin/python $M/demo.py > /dev/null 2>&1; RC1=$?
  echo "== $(basename $OUT) $N [$PS]: tests: $T | demo clean rc=$RC0 mutated rc=$RC1"
  for Q in $PS; do
    R=$(cd ${VERIF_DIR:-/verif} && TELINGO_REPO=$WT ./check $Q 2>&1 | grep -E "^VIOLATION|^OK|^HARNESS" | cut -c1-70 | tr '\n' ' ')
    echo "   check $Q: $R"
  done
  git -C $WT checkout -q -- . ; git -C $WT clean -fdq
done
rm -f ${VERIF_DIR:-/verif}/replays/*.json
