"""Shared machinery of ./check: build (srcgen -> make -> Print Assumptions -> extraction -> OCaml driver), evidence,
violation reports, known findings."""
import os, sys, json, re, subprocess, fcntl, hashlib, time, glob, random

VERIF = os.path.dirname(os.path.dirname(os.path.abspath(__file__)))
REPO = os.environ.get('TELINGO_REPO', '/repo')
COQ = os.path.join(VERIF, 'coq')
BUILD = os.path.join(VERIF, '_build')
PY = '/venv/bin/python'
TRUSTED_BASE = [
    'Coq 8.16.1 kernel (coqc); vm_compute used for finite-table lemmas and Examples; no native_compute',
    'Coq standard library only; Print Assumptions of every property theorem: Closed under the global context',
    'harness/srcgen.py (Python ast -> Gallina, fail-closed) for the regenerated leaf definitions in coq/Gen/FromSource*.v',
    'extraction: ExtrOcamlBasic only (bool/option/unit/list/prod/sumbool/sumor mapped to OCaml, andb/orb inlined), no own directives; OCaml 4.13.1; ocaml/driver.ml token glue',
    'harness glue converting programs/formulas to telingo text and to model requests; harness/worker.py running /repo in-process',
    'clingo 5.8.2 (parser, grounder, solver, backend): modelled by its contract, exercised by the end-to-end correspondence',
]


def sh(cmd, cwd=None, timeout=1800, env=None):
    p = subprocess.run(cmd, shell=True, cwd=cwd, stdout=subprocess.PIPE, stderr=subprocess.STDOUT, timeout=timeout, env=env)
    return p.returncode, p.stdout.decode(errors='replace')


class Lock:
    def __enter__(self):
        os.makedirs(BUILD, exist_ok=True)
        self.f = open(os.path.join(BUILD, 'lock'), 'w')
        fcntl.flock(self.f, fcntl.LOCK_EX)
        return self

    def __exit__(self, *a):
        fcntl.flock(self.f, fcntl.LOCK_UN)
        self.f.close()


def file_hash(*paths):
    h = hashlib.sha256()
    for p in paths:
        h.update(open(p, 'rb').read() if os.path.exists(p) else b'<missing>')
    return h.hexdigest()


def theorem_names(vfile):
    txt = open(vfile).read()
    return re.findall(r'^\s*(?:Theorem|Corollary)\s+([A-Za-z0-9_\']+)', txt, re.M)


def scan_forbidden():
    """no Admitted/admit/Axiom/Parameter/Conjecture anywhere; Variable/Hypothesis/Context only inside a Section"""
    always = re.compile(r'\b(Admitted|admit|Axiom|Axioms|Parameter|Parameters|Conjecture|Conjectures|bypass_check|type-in-type|impredicative-set)\b|'
                        r'Unset\s+(Guard|Positivity|Universe)|Admit\s+Obligations')
    insec = re.compile(r'^\s*(Variable|Variables|Hypothesis|Hypotheses|Context)\b')
    bad = []
    for f in sorted(glob.glob(os.path.join(COQ, '**', '*.v'), recursive=True)):
        txt = open(f).read()
        txt = re.sub(r'\(\*.*?\*\)', lambda m: '\n' * m.group(0).count('\n'), txt, flags=re.S)
        depth = 0
        for ln, line in enumerate(txt.split('\n'), 1):
            if re.match(r'\s*Section\b', line):
                depth += 1
            elif re.match(r'\s*End\s+\w+\s*\.', line):
                depth = max(0, depth - 1)
            m = always.search(line)
            if m:
                bad.append('%s:%d: %s' % (os.path.relpath(f, VERIF), ln, m.group(0)))
            m = insec.match(line)
            if m and depth == 0:
                bad.append('%s:%d: %s outside a section' % (os.path.relpath(f, VERIF), ln, m.group(1)))
    return bad


class BuildResult:
    def __init__(self):
        self.broken = []          # names of obligations (files/theorems/fragments) that no longer check
        self.assumptions = {}     # theorem -> text printed by Print Assumptions
        self.theorems = []
        self.log = ''
        self.driver_ok = False
        self.wall = 0.0


def build(prop_file=None, need_driver=True, extra_targets=()):
    """Regenerate Gen/FromSource*.v from /repo, build the property's theorem file (and everything below it), check its
    assumptions, extract and build the OCaml driver.  Returns BuildResult; never raises on proof failure."""
    t0 = time.time()
    br = BuildResult()
    with Lock():
        # 1. regeneration (per source group; a group that cannot be regenerated falls back to its pinned copy and is
        #    recorded as broken, so that unrelated properties keep their build)
        rc, out = sh('%s %s/harness/srcgen.py' % (PY, VERIF), timeout=120)
        status = {}
        sp = os.path.join(BUILD, 'srcgen_status.json')
        if os.path.exists(sp):
            status = json.load(open(sp))
        br.srcgen = status
        br.log += out
        # 2. make
        if not os.path.exists(os.path.join(COQ, 'Makefile')) or os.path.getmtime(os.path.join(COQ, 'Makefile')) < os.path.getmtime(os.path.join(COQ, '_CoqProject')):
            sh('coq_makefile -f _CoqProject -o Makefile', cwd=COQ)
        targets = []
        if prop_file:
            targets.append(prop_file.replace('.v', '.vo'))
        targets += list(extra_targets)
        if need_driver:
            rc, out = sh('timeout 1500 make -j16 Oracle/Extract.vo 2>&1', cwd=COQ, timeout=1600)
            br.log += out
            if rc != 0:
                br.broken.append('extraction: Oracle/Extract.vo does not build: ' + last_error(out))
            else:
                odir = os.path.join(BUILD, 'ocaml')
                os.makedirs(odir, exist_ok=True)
                srcs = [os.path.join(COQ, 'model.ml'), os.path.join(COQ, 'model.mli'), os.path.join(VERIF, 'ocaml', 'driver.ml')]
                hv = file_hash(*srcs)
                stamp = os.path.join(odir, 'stamp')
                if not (os.path.exists(stamp) and open(stamp).read() == hv and os.path.exists(os.path.join(odir, 'driver'))):
                    for s in srcs:
                        sh('cp %s %s/' % (s, odir))
                    rc, out = sh('ocamlfind ocamlopt -w -a -O3 model.mli model.ml driver.ml -o driver 2>&1', cwd=odir, timeout=600)
                    br.log += out
                    if rc != 0:
                        br.broken.append('ocaml driver does not build')
                    else:
                        open(stamp, 'w').write(hv)
                br.driver_ok = os.path.exists(os.path.join(odir, 'driver'))
        if targets:
            rc, out = sh('timeout 1500 make -j16 %s 2>&1' % ' '.join(targets), cwd=COQ, timeout=1600)
            br.log += out
            if rc != 0:
                br.broken.append('proof: %s' % last_error(out))
        # 3. forbidden constructs
        bad = scan_forbidden()
        if bad:
            br.broken.append('forbidden constructs: ' + '; '.join(bad[:5]))
        # 4. Print Assumptions of the property theorems (fresh coqc run on a generated file, so the text is always available)
        if prop_file and not any(b.startswith('proof') for b in br.broken):
            names = theorem_names(os.path.join(COQ, prop_file))
            br.theorems = names
            mod = os.path.basename(prop_file)[:-2]
            os.makedirs(os.path.join(BUILD, 'assum'), exist_ok=True)
            af = os.path.join(BUILD, 'assum', 'Assum_%s.v' % mod)
            with open(af, 'w') as f:
                f.write('Require Import TV.Props.%s.\n' % mod)
                for n in names:
                    f.write('Print Assumptions %s.\n' % n)
            rc, out = sh('timeout 600 coqc -R %s TV %s 2>&1' % (COQ, af), cwd=os.path.join(BUILD, 'assum'), timeout=700)
            chunks = re.split(r'(?=Closed under the global context|Axioms:)', out)
            chunks = [c.strip() for c in chunks if c.strip().startswith(('Closed', 'Axioms'))]
            if rc != 0 or len(chunks) != len(names):
                br.broken.append('assumptions: Print Assumptions failed for %s' % mod)
            else:
                for n, c in zip(names, chunks):
                    br.assumptions[n] = c
                    if not c.startswith('Closed under the global context'):
                        br.broken.append('assumptions: %s depends on %s' % (n, c[:200]))
    br.wall = time.time() - t0
    return br


def last_error(out):
    m = re.findall(r'File "([^"]+)", line (\d+)[^\n]*\n(Error:[^\n]*(?:\n[^\n]+){0,3})', out)
    if m:
        f, l, e = m[-1]
        return '%s line %s: %s' % (f, l, ' '.join(e.split())[:300])
    m = re.findall(r'\*\*\* \[[^\]]*?([A-Za-z0-9_/]+\.vo)\]', out)
    return ('make failed at ' + m[0]) if m else 'make failed'


# ----------------------------------------------------------------------------------------------- reports
def write_replay(prop, seed, payload):
    os.makedirs(os.path.join(VERIF, 'replays'), exist_ok=True)
    n = 0
    while True:
        path = os.path.join(VERIF, 'replays', '%s-%d-%d.json' % (prop, seed, n))
        if not os.path.exists(path):
            break
        n += 1
    payload = dict(payload)
    payload['property'] = prop
    payload['seed'] = seed
    with open(path, 'w') as f:
        json.dump(payload, f, indent=1, sort_keys=True)
    return path


def known_findings():
    p = os.path.join(VERIF, 'known_findings.json')
    if not os.path.exists(p):
        return []
    return json.load(open(p)).get('findings', [])


def write_evidence(prop, tier, seed, level, coverage, wall, violations, assumptions):
    os.makedirs(os.path.join(VERIF, 'evidence'), exist_ok=True)
    ev = {'property_id': prop, 'tier': tier, 'seed': seed, 'level': level, 'coverage': coverage, 'wall_s': round(wall, 2),
          'violations': violations, 'assumptions': assumptions}
    with open(os.path.join(VERIF, 'evidence', prop + '.json'), 'w') as f:
        json.dump(ev, f, indent=1, sort_keys=True)
    return ev


def rng_for(seed, *salt):
    h = hashlib.sha256(('%d|' % seed + '|'.join(str(s) for s in salt)).encode()).digest()
    return random.Random(int.from_bytes(h[:8], 'big'))
