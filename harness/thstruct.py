"""Structural correspondence for the body theory layer: the executable model Model/BodyTheoryFull.v (extracted, driver command `thy`)
and telingo's Theory.translate are run on the same formulas over several horizons, and what each emits - integrity constraints over
symbolic atoms and auxiliary atoms, external placeholders with their values, placeholders made free - is compared event by event up to
the names of the auxiliary atoms (renamed in order of first occurrence).

Differences that are accounted for, not compared: telingo uses the literal of a ground theory atom as the representative of its formula
where the model allocates a choice atom (so choice rules are not compared; the kinds of auxiliary atoms are compared at the end, with
`theory literal` ~ `choice atom`), and it ties every further theory atom literal of a (formula, state) pair to the representative by
a make_equal pair (those pairs, recognisable by their first literal, are dropped).  Keywords &initial/&final and >> are not generated
here: their marker atoms exist in the atom base at one state only."""
import json
import gen, lang

UN = ['not', 'prev', 'wprev', 'next', 'wnext', 'since1', 'trigger1', 'until1', 'release1', 'initially']
BIN = ['and', 'or', 'impr', 'impl', 'eqv', 'since', 'trigger', 'until', 'release', 'seqnext', 'seqwnext', 'seqprev', 'seqwprev']
PARTS = {'initial': lambda t: t == 0, 'always': lambda t: True, 'dynamic': lambda t: t > 0, 'final': lambda t: True}


def cases(ctx, n):
    rng = ctx.rng('structure')
    out = []
    for i in range(n):
        atoms = ['a', 'b']
        pool = []
        fs = []
        for j in range(rng.randint(1, 3)):
            if pool and rng.random() < 0.35:
                f = gen.related(rng, rng.choice(fs)[1])
                if any(x[0] in ('initial', 'final', 'finally') for x in gen.subformulas(f)):
                    f = gen.formula(rng, atoms, rng.randint(1, 3), UN, BIN, pool, ['true', 'false'], nfold=0.35, leaf=0.2)
            else:
                f = gen.formula(rng, atoms, rng.randint(1, 3), UN, BIN, pool, ['true', 'false'], nfold=0.35, leaf=0.2)
            fs.append((rng.choice(['initial', 'always', 'always', 'dynamic', 'final']), f))
        out.append(fs)
    # fixed family: pending chains of next operators reached late (through past operators) and again at later steps / through a second parent
    fam = gen.revisit_family()
    for f in fam:
        out.append([('always', f)])
        sub = f[-1] if f[0] not in ('or', 'and') else f[1][-1]
        out.append([('always', f), ('dynamic', sub)])
    # fixed family: an atom and its classical complement below the same operators, in both orders
    a, na, b = ('atom', 'a'), ('atom', '-a'), ('atom', 'b')
    for w in [lambda x: x, lambda x: ('not', x), lambda x: ('prev', None, x), lambda x: ('next', None, x), lambda x: ('wnext', 2, x), lambda x: ('since', None, x), lambda x: ('until', b, x),
              lambda x: ('and', x, b), lambda x: ('impr', x, b), lambda x: ('initially', x), lambda x: ('release', x, b), lambda x: ('seqprev', b, x)]:
        out.append([('always', w(a)), ('always', w(na))])
        out.append([('always', w(na)), ('always', w(a))])
    out.append([('always', ('or', ('prev', None, a), ('prev', None, na)))])
    # several ground theory atoms for one (formula, state): the same conjunction written as one formula and as several elements, and atoms of
    # look-ahead constraints, which are grounded once more one step later - every one of them must be tied to the literal of the pair
    a_, b_ = ('atom', 'a'), ('atom', 'b')
    for part in ('always', 'dynamic'):
        out.append([(part, ('and', a_, b_)), (part, ('ELEMS', [a_, b_]))])
        out.append([(part, ('ELEMS', [b_, a_])), (part, ('and', a_, b_))])
        out.append([(part, ('ELEMS', [a_, b_])), ('always', ('and', ('and', a_, b_), ('true',))), ('always', ('prev', None, ('and', a_, b_)))])
    for f in [a_, ('and', a_, b_), ('prev', None, a_), ('next', None, a_), ('until', a_, b_), ('since', None, a_), ('or', a_, ('wnext', None, b_)), ('not', ('next', 2, a_)),
              ('DEL', ('dia', ('star', ('skip',)), a_)), ('DEL', ('box', ('seq', ('test', a_), ('skip',)), b_))]:
        for part in ('always+1', 'dynamic+1', 'initial+1'):
            out.append([(part, f)])
            out.append([(part, f), ('always', f)])
            out.append([('always', f if f[0] == 'DEL' else ('or', f, f)), (part, f)])
    # &del formulas in the documented normal form (iteration over step-consuming paths; tests are atoms or constants), alone, related to one
    # another (a sub-formula, the other modality) and next to &tel formulas over the same atoms
    for i in range(n // 2):
        d = nofinal(gen.dformula(rng, ['a', 'b'], rng.randint(1, 2), rng.randint(1, 3)))
        if d[0] not in ('dia', 'box'):
            d = ('dia', ('star', ('skip',)), d)
        fs = [(rng.choice(['initial', 'always', 'always', 'dynamic']), ('DEL', d))]
        k = rng.random()
        if k < 0.3:
            fs.append((rng.choice(['always', 'dynamic']), ('DEL', ({'dia': 'box', 'box': 'dia'}[d[0]], d[1], d[2]))))
        elif k < 0.5 and d[2][0] in ('dia', 'box'):
            fs.append(('always', ('DEL', d[2])))
        elif k < 0.7:
            fs.append((rng.choice(['always', 'dynamic']), gen.formula(rng, ['a', 'b'], 2, UN, BIN, None, ['true', 'false'], nfold=0.3, leaf=0.3)))
        out.append(fs)
    A_, B_ = ('atom', 'a'), ('atom', 'b')
    for m in ('dia', 'box'):
        for pth in [('skip',), ('patom', 'a'), ('test', A_), ('test', ('true',)), ('choice', ('patom', 'a'), ('skip',)), ('seq', ('test', A_), ('skip',)), ('star', ('skip',)), ('star', ('patom', 'a')),
                    ('star', ('choice', ('patom', 'a'), ('seq', ('skip',), ('skip',)))), ('seq', ('star', ('skip',)), ('test', A_)), ('star', ('seq', ('test', B_), ('patom', 'a')))]:
            out.append([('always', ('DEL', (m, pth, B_)))])
            out.append([('initial', ('DEL', (m, pth, (m, ('skip',), B_))))])
    return out


def ftxt(f):
    if f[0] == 'ELEMS':          # the conjunction written as several elements of one theory atom
        return ' ; '.join(lang.fml_txt(x) for x in f[1])
    return lang.dfml_txt(f[1]) if f[0] == 'DEL' else lang.fml_txt(f)


def rawf(f):
    """what the model is given: several elements are the conjunction of the elements sorted by their representation (translate_conjunction);
    the elements used here are atoms, whose representations sort like their names"""
    if f[0] == 'ELEMS':
        els = sorted(f[1], key=lambda x: x[1])
        g = els[0]
        for x in els[1:]:
            g = ('and', g, x)
        return g
    return f


def nofinal(d):
    if not isinstance(d, tuple):
        return d
    if d == ('final',):
        return ('true',)
    return tuple(nofinal(x) for x in d)


def program(fs):
    neg = any(g == ('atom', '-a') for _, f in fs if f[0] != 'DEL' for g in gen.subformulas(f))
    txt = '#program always.\n{ a; b%s }.\n' % ('; -a' if neg else '')
    for i, (part, f) in enumerate(fs):
        la = part.endswith('+1')      # a constraint that looks one state ahead: its theory atom of state t is grounded at step t (temporary copy) and again at step t+1
        txt += '#program %s.\n:- &%s { %s }, m(%d)%s.\n' % (part[:-2] if la else part, 'del' if f[0] == 'DEL' else 'tel', ftxt(f), i, ", not zz'" if la else '')
        txt += '#program always.\n{ m(%d) }.\n' % i
    return txt


def canon_stream(items):
    """items: ('ext', x, val) | ('free', x) | ('cons', [(sign, atom)]) with atom = ('U', name, k) or ('X', id); auxiliary ids renamed by first occurrence"""
    ren = {}

    def r(a):
        if a[0] == 'U':
            return a
        if a[1] not in ren:
            ren[a[1]] = len(ren)
        return ('X', ren[a[1]])
    out = []
    for it in items:
        if it[0] == 'cons':
            out.append(('cons', tuple((s, r(a)) for s, a in it[1])))
        elif it[0] == 'ext':
            out.append(('ext', r(it[1]), it[2]))
        else:
            out.append(('free', r(it[1])))
    return out, ren


def impl_items(steps):
    """the recorded backend calls of all steps as one stream of items (per step), plus the kind of every auxiliary atom"""
    per_step, kinds = [], {}
    ties = []          # per step: theory literal -> the literal it was made equal to (None: never tied), as (positive, atom) like the items
    for st in steps:
        tie = {}
        ties.append(tie)
        sym = {int(k): v for k, v in st['symbols'].items()}
        TL = {a[1] for a in st['atoms']}
        for l in TL:
            kinds.setdefault(l, 'theory')

        def lit(x):
            a = abs(x)
            if a in sym and sym[a][2] is not None:
                nm = ('-' if not sym[a][3] else '') + sym[a][0] + ('(%s)' % ','.join(sym[a][1]) if sym[a][1] else '')
                return (x > 0, ('U', nm, sym[a][2]))
            return (x > 0, ('X', a))
        evs = st['events']
        items, i = [], 0
        while i < len(evs):
            e = evs[i]
            if e[0] == 'atom':
                kinds.setdefault(e[1], 'plain')
            elif e[0] == 'ext':
                kinds[e[1]] = 'ext'
                items.append(('free', ('X', e[1])) if e[2] == 'free' else ('ext', ('X', e[1]), e[2] == 'true'))
            elif e[0] == 'rule':
                head, body, choice = e[1], e[2], e[3]
                if choice and len(head) == 1 and not body:
                    kinds[head[0]] = 'choice'
                elif head:
                    items.append(('cons', [(True, ('X', 'rule-with-head'))]))
                else:
                    # make_equal(theory literal, literal): two constraints [a, -b], [-a, b] with a a theory literal
                    if len(body) == 2 and body[0] in TL and i + 1 < len(evs) and evs[i + 1][0] == 'rule' and not evs[i + 1][1] \
                            and evs[i + 1][2] == [-body[0], -body[1]]:
                        tie.setdefault(body[0], []).append(lit(-body[1]))
                        i += 2
                        continue
                    items.append(('cons', [lit(x) for x in body]))
            i += 1
        per_step.append(items)
    return per_step, kinds, ties


def model_items(answer, names):
    per_step, kinds = [], {0: 'false'}
    roots = []

    def mlit(l):
        if l == '?':
            return None
        if l[1] == 'U':
            a, k = l[2:].split('.')
            return (l[0] == '+', ('U', names[int(a)], int(k)))
        return (l[0] == '+', ('X', int(l[2:])))
    for chunk in answer.split(' || '):
        parts_ = chunk.split(' | ')
        roots.append([mlit(x) for x in parts_[2].split()] if len(parts_) > 2 else [])
        evs = parts_[0].strip()
        items = []
        for e in (evs.split(' ; ') if evs else []):
            tk = e.split()
            if tk[0] == 'N':
                kinds[int(tk[1])] = tk[2]
                if tk[2].startswith('ext'):
                    items.append(('ext', ('X', int(tk[1])), tk[2] == 'ext1'))
            elif tk[0] == 'F':
                items.append(('free', ('X', int(tk[1]))))
            elif tk[0] == 'G':
                for c in e[2:].split(' / '):
                    lits = []
                    for l in c.split():
                        if l[1] == 'U':
                            a, k = l[2:].split('.')
                            lits.append((l[0] == '+', ('U', names[int(a)], int(k))))
                        else:
                            lits.append((l[0] == '+', ('X', int(l[2:]))))
                    items.append(('cons', lits))
        per_step.append(items)
    return per_step, kinds, roots


def compare(ctx, fss, H):
    """returns one record per case: status agree / differ / implerror / modelerror"""
    reqs = [{'cmd': 'theory', 'texts': [program(fs)], 'imax': H + 1} for fs in fss]
    impl = ctx.impl().run(reqs, timeout=60)
    out = []
    lines, idx = [], []
    for ci, (fs, r) in enumerate(zip(fss, impl)):
        if r.get('status') != 'ok':
            continue
        A = lang.Atoms(['a', 'b', '-a'])
        steps_tok = []
        ok = True
        for t, st in enumerate(r['steps']):
            roots = []
            for k, lit_, owner in st['atoms']:
                if owner is None or owner >= len(fs):
                    ok = False
                    break
                roots.append('%d %s' % (k, lang.raw_tok(rawf(fs[owner][1]), A)))
            steps_tok.append('%d %s' % (len(roots), ' '.join(roots)))
        if ok:
            lines.append('thy 90 91 4000 %d %s' % (len(steps_tok), ' '.join(steps_tok)))
            idx.append(ci)
    ans = dict(zip(idx, ctx.model().run(lines, timeout=120)))
    for ci, (fs, r) in enumerate(zip(fss, impl)):
        rec = {'program': program(fs), 'status': 'agree', 'events': 0}
        if r.get('status') == 'timeout':
            rec['status'] = 'skip-timeout'
        elif r.get('status') != 'ok':
            rec.update(status='implerror', what=json.dumps({k: r.get(k) for k in ('status', 'type', 'msg', 'where')}))
        elif ci not in ans:
            rec.update(status='implerror', what='a ground theory atom could not be attributed to its observer rule')
        elif ans[ci] is None or ans[ci].startswith('error'):
            rec.update(status='modelerror', what=str(ans[ci]))
        else:
            # the schedule of the theory atoms must be the one of the program parts
            for t, st in enumerate(r['steps']):
                want = {(t, ftxt(f)) for i, (part, f) in enumerate(fs) if PARTS[part[:-2] if part.endswith('+1') else part](t)}     # gringo keeps one theory atom per distinct text and step
                want |= {(t - 1, ftxt(f)) for i, (part, f) in enumerate(fs) if part.endswith('+1') and t >= 1 and PARTS[part[:-2]](t - 1)}
                want = sorted(want)
                got = sorted({(k, ftxt(fs[o][1])) for k, _, o in st['atoms']})
                if want != got:
                    rec.update(status='differ', what='theory atoms grounded at step %d are %s, the program parts say %s' % (t, got, want))
                    break
            if rec['status'] == 'agree':
                isteps, ikinds, ities = impl_items(r['steps'])
                msteps, mkinds, mroots = model_items(ans[ci], ['a', 'b', '-a'])
                ic, iren = canon_stream([x for s_ in isteps for x in s_])
                mc, mren = canon_stream([x for s_ in msteps for x in s_])
                rec['events'] = len(mc)
                if ic != mc:
                    k = next((j for j in range(min(len(ic), len(mc))) if ic[j] != mc[j]), min(len(ic), len(mc)))
                    rec.update(status='differ', what='event %d differs: telingo %s, model %s (telingo emits %d events, the model %d)' % (
                        k, json.dumps(ic[k]) if k < len(ic) else None, json.dumps(mc[k]) if k < len(mc) else None, len(ic), len(mc)))
                else:
                    inv = {v: k for k, v in iren.items()}
                    for mid, c in mren.items():
                        ik, mk = ikinds.get(inv.get(c)), mkinds.get(mid)
                        okk = (mk == 'choice' and ik in ('choice', 'theory')) or (mk and mk.startswith('ext') and ik == 'ext') or (mk == 'false' and ik == 'plain') or (mk == 'free' and ik == 'ext')
                        if not okk:
                            rec.update(status='differ', what='auxiliary atom %s: model kind %s, telingo kind %s' % (c, mk, ik))
                            break
                if rec['status'] == 'agree':
                    # the ties of the ground theory atoms: every theory literal is the literal of its (formula, state) pair itself (representative of a
                    # defining class) or has been made equal to it - the literal the model caches for that root (up to the renaming of the auxiliaries)
                    def canon_i(l):
                        return l if l[1][0] == 'U' else (l[0], ('X', iren.get(l[1][1], 'impl-%s' % l[1][1])))

                    def canon_m(l):
                        return l if l[1][0] == 'U' else (l[0], ('X', mren.get(l[1][1], 'model-%s' % l[1][1])))
                    for t, st in enumerate(r['steps']):
                        for j, (k, lit_, o) in enumerate(st['atoms']):
                            ml = mroots[t][j] if t < len(mroots) and j < len(mroots[t]) else None
                            if ml is None:
                                rec.update(status='differ', what='the model has no literal for the root of theory atom %d at step %d' % (j, t))
                                break
                            if ml[1][0] == 'X' and ml[1][1] not in mren and ml[1][1] != 0:
                                continue          # a literal that occurs in no constraint (e.g. a lone placeholder): nothing to compare it by
                            cands = [canon_i((True, ('X', lit_)))] + [canon_i(x) for x in ities[t].get(lit_, [])]
                            want_l = canon_m(ml) if ml[1] != ('X', 0) else None
                            if want_l is None:
                                continue          # tied to the constant literal: covered by the constraint stream
                            if want_l not in cands:
                                rec.update(status='differ', what='theory atom of `%s` at state %d (grounded at step %d) is tied to %s, the model ties it to %s' % (
                                    ftxt(fs[o][1]), k, t, json.dumps(cands), json.dumps(want_l)))
                                break
                            rec['ties'] = rec.get('ties', 0) + 1
                        if rec['status'] != 'agree':
                            break
        out.append(rec)
    return out
