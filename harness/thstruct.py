"""Structural correspondence for the body theory layer: the executable model Model/BodyTheoryFull.v (extracted, driver command `thy`)
and telingo's Theory.translate are run on the same formulas over several horizons, and what each emits - integrity constraints over
symbolic atoms and auxiliary atoms, external placeholders with their values, placeholders made free - is compared event by event up to
the names of the auxiliary atoms (renamed in order of first occurrence).

Differences that are accounted for, not compared: telingo uses the literal of a ground theory atom as the representative of its formula
where the model allocates a choice atom (so choice rules are not compared; the kinds of auxiliary atoms are compared at the end, with
`theory literal` ~ `choice atom`), and it ties every further theory atom literal of a (formula, state) pair to the representative by
a make_equal pair (those pairs, recognisable by their first literal, are dropped).  Keywords &initial/&final and >> are not generated
here: their marker atoms exist in the atom base at one state only."""
import json
import gen, lang

UN = ['not', 'prev', 'wprev', 'next', 'wnext', 'since1', 'trigger1', 'until1', 'release1', 'initially']
BIN = ['and', 'or', 'impr', 'impl', 'eqv', 'since', 'trigger', 'until', 'release', 'seqnext', 'seqwnext', 'seqprev', 'seqwprev']
PARTS = {'initial': lambda t: t == 0, 'always': lambda t: True, 'dynamic': lambda t: t > 0, 'final': lambda t: True}


def cases(ctx, n):
    rng = ctx.rng('structure')
    out = []
    for i in range(n):
        atoms = ['a', 'b']
        pool = []
        fs = []
        for j in range(rng.randint(1, 3)):
            if pool and rng.random() < 0.35:
                f = gen.related(rng, rng.choice(fs)[1])
                if any(x[0] in ('initial', 'final', 'finally') for x in gen.subformulas(f)):
                    f = gen.formula(rng, atoms, rng.randint(1, 3), UN, BIN, pool, ['true', 'false'], nfold=0.35, leaf=0.2)
            else:
                f = gen.formula(rng, atoms, rng.randint(1, 3), UN, BIN, pool, ['true', 'false'], nfold=0.35, leaf=0.2)
            fs.append((rng.choice(['initial', 'always', 'always', 'dynamic', 'final']), f))
        out.append(fs)
    # fixed family: pending chains of next operators reached late (through past operators) and again at later steps / through a second parent
    fam = gen.revisit_family()
    for f in fam:
        out.append([('always', f)])
        sub = f[-1] if f[0] not in ('or', 'and') else f[1][-1]
        out.append([('always', f), ('dynamic', sub)])
    # fixed family: an atom and its classical complement below the same operators, in both orders
    a, na, b = ('atom', 'a'), ('atom', '-a'), ('atom', 'b')
    for w in [lambda x: x, lambda x: ('not', x), lambda x: ('prev', None, x), lambda x: ('next', None, x), lambda x: ('wnext', 2, x), lambda x: ('since', None, x), lambda x: ('until', b, x),
              lambda x: ('and', x, b), lambda x: ('impr', x, b), lambda x: ('initially', x), lambda x: ('release', x, b), lambda x: ('seqprev', b, x)]:
        out.append([('always', w(a)), ('always', w(na))])
        out.append([('always', w(na)), ('always', w(a))])
    out.append([('always', ('or', ('prev', None, a), ('prev', None, na)))])
    # &del formulas in the documented normal form (iteration over step-consuming paths; tests are atoms or constants), alone, related to one
    # another (a sub-formula, the other modality) and next to &tel formulas over the same atoms
    for i in range(n // 2):
        d = nofinal(gen.dformula(rng, ['a', 'b'], rng.randint(1, 2), rng.randint(1, 3)))
        if d[0] not in ('dia', 'box'):
            d = ('dia', ('star', ('skip',)), d)
        fs = [(rng.choice(['initial', 'always', 'always', 'dynamic']), ('DEL', d))]
        k = rng.random()
        if k < 0.3:
            fs.append((rng.choice(['always', 'dynamic']), ('DEL', ({'dia': 'box', 'box': 'dia'}[d[0]], d[1], d[2]))))
        elif k < 0.5 and d[2][0] in ('dia', 'box'):
            fs.append(('always', ('DEL', d[2])))
        elif k < 0.7:
            fs.append((rng.choice(['always', 'dynamic']), gen.formula(rng, ['a', 'b'], 2, UN, BIN, None, ['true', 'false'], nfold=0.3, leaf=0.3)))
        out.append(fs)
    A_, B_ = ('atom', 'a'), ('atom', 'b')
    for m in ('dia', 'box'):
        for pth in [('skip',), ('patom', 'a'), ('test', A_), ('test', ('true',)), ('choice', ('patom', 'a'), ('skip',)), ('seq', ('test', A_), ('skip',)), ('star', ('skip',)), ('star', ('patom', 'a')),
                    ('star', ('choice', ('patom', 'a'), ('seq', ('skip',), ('skip',)))), ('seq', ('star', ('skip',)), ('test', A_)), ('star', ('seq', ('test', B_), ('patom', 'a')))]:
            out.append([('always', ('DEL', (m, pth, B_)))])
            out.append([('initial', ('DEL', (m, pth, (m, ('skip',), B_))))])
    return out


def ftxt(f):
    return lang.dfml_txt(f[1]) if f[0] == 'DEL' else lang.fml_txt(f)


def nofinal(d):
    if not isinstance(d, tuple):
        return d
    if d == ('final',):
        return ('true',)
    return tuple(nofinal(x) for x in d)


def program(fs):
    neg = any(g == ('atom', '-a') for _, f in fs if f[0] != 'DEL' for g in gen.subformulas(f))
    txt = '#program always.\n{ a; b%s }.\n' % ('; -a' if neg else '')
    for i, (part, f) in enumerate(fs):
        txt += '#program %s.\n{ m(%d) }.\n:- &%s { %s }, m(%d).\n' % (part, i, 'del' if f[0] == 'DEL' else 'tel', ftxt(f), i)
    return txt


def canon_stream(items):
    """items: ('ext', x, val) | ('free', x) | ('cons', [(sign, atom)]) with atom = ('U', name, k) or ('X', id); auxiliary ids renamed by first occurrence"""
    ren = {}

    def r(a):
        if a[0] == 'U':
            return a
        if a[1] not in ren:
            ren[a[1]] = len(ren)
        return ('X', ren[a[1]])
    out = []
    for it in items:
        if it[0] == 'cons':
            out.append(('cons', tuple((s, r(a)) for s, a in it[1])))
        elif it[0] == 'ext':
            out.append(('ext', r(it[1]), it[2]))
        else:
            out.append(('free', r(it[1])))
    return out, ren


def impl_items(steps):
    """the recorded backend calls of all steps as one stream of items (per step), plus the kind of every auxiliary atom"""
    per_step, kinds = [], {}
    for st in steps:
        sym = {int(k): v for k, v in st['symbols'].items()}
        TL = {a[1] for a in st['atoms']}
        for l in TL:
            kinds.setdefault(l, 'theory')

        def lit(x):
            a = abs(x)
            if a in sym and sym[a][2] is not None:
                nm = ('-' if not sym[a][3] else '') + sym[a][0] + ('(%s)' % ','.join(sym[a][1]) if sym[a][1] else '')
                return (x > 0, ('U', nm, sym[a][2]))
            return (x > 0, ('X', a))
        evs = st['events']
        items, i = [], 0
        while i < len(evs):
            e = evs[i]
            if e[0] == 'atom':
                kinds.setdefault(e[1], 'plain')
            elif e[0] == 'ext':
                kinds[e[1]] = 'ext'
                items.append(('free', ('X', e[1])) if e[2] == 'free' else ('ext', ('X', e[1]), e[2] == 'true'))
            elif e[0] == 'rule':
                head, body, choice = e[1], e[2], e[3]
                if choice and len(head) == 1 and not body:
                    kinds[head[0]] = 'choice'
                elif head:
                    items.append(('cons', [(True, ('X', 'rule-with-head'))]))
                else:
                    # make_equal(theory literal, literal): two constraints [a, -b], [-a, b] with a a theory literal
                    if len(body) == 2 and body[0] in TL and i + 1 < len(evs) and evs[i + 1][0] == 'rule' and not evs[i + 1][1] \
                            and evs[i + 1][2] == [-body[0], -body[1]]:
                        i += 2
                        continue
                    items.append(('cons', [lit(x) for x in body]))
            i += 1
        per_step.append(items)
    return per_step, kinds


def model_items(answer, names):
    per_step, kinds = [], {0: 'false'}
    for chunk in answer.split(' || '):
        evs = chunk.split(' | ')[0].strip()
        items = []
        for e in (evs.split(' ; ') if evs else []):
            tk = e.split()
            if tk[0] == 'N':
                kinds[int(tk[1])] = tk[2]
                if tk[2].startswith('ext'):
                    items.append(('ext', ('X', int(tk[1])), tk[2] == 'ext1'))
            elif tk[0] == 'F':
                items.append(('free', ('X', int(tk[1]))))
            elif tk[0] == 'G':
                for c in e[2:].split(' / '):
                    lits = []
                    for l in c.split():
                        if l[1] == 'U':
                            a, k = l[2:].split('.')
                            lits.append((l[0] == '+', ('U', names[int(a)], int(k))))
                        else:
                            lits.append((l[0] == '+', ('X', int(l[2:]))))
                    items.append(('cons', lits))
        per_step.append(items)
    return per_step, kinds


def compare(ctx, fss, H):
    """returns one record per case: status agree / differ / implerror / modelerror"""
    reqs = [{'cmd': 'theory', 'texts': [program(fs)], 'imax': H + 1} for fs in fss]
    impl = ctx.impl().run(reqs, timeout=60)
    out = []
    lines, idx = [], []
    for ci, (fs, r) in enumerate(zip(fss, impl)):
        if r.get('status') != 'ok':
            continue
        A = lang.Atoms(['a', 'b', '-a'])
        steps_tok = []
        ok = True
        for t, st in enumerate(r['steps']):
            roots = []
            for k, lit_, owner in st['atoms']:
                if owner is None or owner >= len(fs):
                    ok = False
                    break
                roots.append('%d %s' % (k, lang.raw_tok(fs[owner][1], A)))
            steps_tok.append('%d %s' % (len(roots), ' '.join(roots)))
        if ok:
            lines.append('thy 90 91 4000 %d %s' % (len(steps_tok), ' '.join(steps_tok)))
            idx.append(ci)
    ans = dict(zip(idx, ctx.model().run(lines, timeout=120)))
    for ci, (fs, r) in enumerate(zip(fss, impl)):
        rec = {'program': program(fs), 'status': 'agree', 'events': 0}
        if r.get('status') == 'timeout':
            rec['status'] = 'skip-timeout'
        elif r.get('status') != 'ok':
            rec.update(status='implerror', what=json.dumps({k: r.get(k) for k in ('status', 'type', 'msg', 'where')}))
        elif ci not in ans:
            rec.update(status='implerror', what='a ground theory atom could not be attributed to its observer rule')
        elif ans[ci] is None or ans[ci].startswith('error'):
            rec.update(status='modelerror', what=str(ans[ci]))
        else:
            # the schedule of the theory atoms must be the one of the program parts
            for t, st in enumerate(r['steps']):
                want = sorted({(t, ftxt(f)) for i, (part, f) in enumerate(fs) if PARTS[part](t)})     # gringo keeps one theory atom per distinct text and step
                got = sorted({(k, ftxt(fs[o][1])) for k, _, o in st['atoms']})
                if want != got:
                    rec.update(status='differ', what='theory atoms grounded at step %d are %s, the program parts say %s' % (t, got, want))
                    break
            if rec['status'] == 'agree':
                isteps, ikinds = impl_items(r['steps'])
                msteps, mkinds = model_items(ans[ci], ['a', 'b', '-a'])
                ic, iren = canon_stream([x for s_ in isteps for x in s_])
                mc, mren = canon_stream([x for s_ in msteps for x in s_])
                rec['events'] = len(mc)
                if ic != mc:
                    k = next((j for j in range(min(len(ic), len(mc))) if ic[j] != mc[j]), min(len(ic), len(mc)))
                    rec.update(status='differ', what='event %d differs: telingo %s, model %s (telingo emits %d events, the model %d)' % (
                        k, json.dumps(ic[k]) if k < len(ic) else None, json.dumps(mc[k]) if k < len(mc) else None, len(ic), len(mc)))
                else:
                    inv = {v: k for k, v in iren.items()}
                    for mid, c in mren.items():
                        ik, mk = ikinds.get(inv.get(c)), mkinds.get(mid)
                        okk = (mk == 'choice' and ik in ('choice', 'theory')) or (mk and mk.startswith('ext') and ik == 'ext') or (mk == 'false' and ik == 'plain') or (mk == 'free' and ik == 'ext')
                        if not okk:
                            rec.update(status='differ', what='auxiliary atom %s: model kind %s, telingo kind %s' % (c, mk, ik))
                            break
        out.append(rec)
    return out
