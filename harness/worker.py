#!/venv/bin/python
"""Implementation-side worker: runs /repo's telingo in-process on JSON requests (one per line on stdin) and answers one
JSON line per request.  Started by harness/pool.py with PYTHONPATH=/repo and a fixed PYTHONHASHSEED."""
import sys, json, os, io, time, traceback

import clingo
from clingo.ast import ProgramBuilder
import telingo
import telingo.transformers as tf
from telingo.theory import Theory


def sym_to_tuple(s):
    """clingo symbol with a time stamp -> [name, [args as str], time, positive]; symbols without a numeric last argument keep time None"""
    if s.type == clingo.SymbolType.Function and len(s.arguments) > 0 and s.arguments[-1].type == clingo.SymbolType.Number:
        return [s.name, [str(a) for a in s.arguments[:-1]], s.arguments[-1].number, s.positive]
    return [str(s), [], None, True]


def exc_info(e):
    tb = traceback.extract_tb(e.__traceback__)
    where = ''
    for fr in reversed(tb):
        if '/telingo/' in fr.filename:
            where = '%s:%d' % (fr.filename.split('/telingo/', 1)[1], fr.lineno)
            break
    return {'status': 'exc', 'type': type(e).__name__, 'msg': str(e)[:300], 'where': where}


def do_solve(req):
    """full pipeline with the real clingo: transform, imain; answer sets per horizon"""
    texts = req['texts']
    imax = req.get('imax')
    out = {'models': [], 'results': []}
    msgs = []
    t0 = time.time()
    # clasp's equivalence preprocessing is switched off unless the request asks for the default configuration: clasp 5.8.2
    # loses / duplicates stable models with it on programs telingo produces (findings F10, F14; DESIGN.md section 11)
    eq = [] if req.get('default_config') else ['--eq=0']
    prg = clingo.Control([str(req.get('limit', 0))] + eq + req.get('args', []), logger=lambda c, m: msgs.append(str(m)), message_limit=20)
    try:
        with ProgramBuilder(prg) as bld:
            fs, parts = tf.transform(texts, bld.add)
    except Exception as e:  # noqa
        r = exc_info(e)
        r['stage'] = 'transform'
        r['log'] = msgs[:3]
        return r
    atoms = req.get('atoms', False)
    top = [0]

    class MaxAtom(clingo.Observer):
        """largest program atom seen (rule heads/bodies, externals, output table): needed to recognise an answer that clasp reports twice"""
        def rule(self, choice, head, body):
            for x in head:
                top[0] = max(top[0], abs(x))
            for x in body:
                top[0] = max(top[0], abs(x))

        def weight_rule(self, choice, head, lower_bound, body):
            for x in head:
                top[0] = max(top[0], abs(x))
            for x, _ in body:
                top[0] = max(top[0], abs(x))

        def external(self, atom, value):
            top[0] = max(top[0], abs(atom))

        def output_atom(self, symbol, atom):
            top[0] = max(top[0], abs(atom))
    if not req.get('keep_exact_duplicates'):
        prg.register_observer(MaxAtom())
    seen = set()
    out['exact_duplicates'] = 0

    nested_done = [False]

    def on_model(m, step):
        if req.get('nested') and not nested_done[0] and step >= req.get('nested_at', 0):
            # a second, complete run (own Control, own imain call) from inside the model callback of this one: overlapping runs in one process
            nested_done[0] = True
            out['nested_result'] = do_solve(req['nested'])
        if top[0]:
            # clasp 5.8.2 sometimes reports one and the same assignment twice (identical on EVERY program atom, shown or not; findings
            # F10/F14, DESIGN.md section 11): such exact repetitions are collapsed and counted, everything else is kept with multiplicity
            sig = (step, tuple(a for a in range(1, top[0] + 1) if m.is_true(a)))
            if sig in seen:
                out['exact_duplicates'] += 1
                return
            seen.add(sig)
        syms = m.symbols(atoms=True) if atoms else m.symbols(shown=True)
        out['models'].append([step, sorted((sym_to_tuple(s) for s in syms), key=lambda x: (x[0], x[1], -1 if x[2] is None else x[2], x[3]))])
    calls = []

    class Counting:
        """the Control object with solve() counted (number of solve calls and their results, for the loop correspondences)"""
        def __getattr__(self, name):
            return getattr(prg, name)

        def solve(self, *a, **kw):
            r = prg.solve(*a, **kw)
            calls.append('S' if r.satisfiable else 'U' if r.unsatisfiable else 'K')
            return r
    out['calls'] = calls
    try:
        telingo.imain(Counting() if req.get('count_calls') else prg, fs, parts, on_model, imin=req.get('imin', 0), imax=imax, istop=req.get('istop', 'SAT'))
    except Exception as e:  # noqa
        r = exc_info(e)
        r['stage'] = 'imain'
        r['log'] = msgs[:3]
        r['models'] = out['models']
        return r
    out['status'] = 'ok'
    out['future_sigs'] = [list(x) for x in fs]
    out['wall'] = round(time.time() - t0, 3)
    return out


def do_transform(req):
    stmts = []
    try:
        fs, parts = tf.transform(req['texts'], lambda s: stmts.append(str(s)))
    except Exception as e:  # noqa
        r = exc_info(e)
        r['stage'] = 'transform'
        return r
    return {'status': 'ok', 'stmts': stmts, 'future_sigs': [list(x) for x in fs], 'parts': [[a, b, list(c)] for a, b, c in parts]}


class FakeSolveResult:
    def __init__(self, r):
        self.satisfiable = r == 'S'
        self.unsatisfiable = r == 'U'
        self.unknown = r == 'K'


class ScriptExhausted(Exception):
    pass


class FakeAtom:
    def __init__(self, t, lit):
        self.symbol = clingo.Function('__future_p', [clingo.Number(1), clingo.Number(t)])
        self.literal = lit


class FakeSymbolicAtoms:
    def __init__(self, ctl):
        self.ctl = ctl

    def by_signature(self, name, arity, positive=True):
        step = self.ctl.step
        ts = self.ctl.futures[step] if step < len(self.ctl.futures) else []
        return [FakeAtom(t, 1000 + t) for t in ts]

    def __getitem__(self, sym):
        return None


class FakeControl:
    """scripted Control: records the calls imain makes; solve() returns the scripted results"""

    def __init__(self, results, futures):
        self.results, self.futures = results, futures
        self.step = 0
        self.log = []
        self.symbolic_atoms = FakeSymbolicAtoms(self)
        self.theory_atoms = []

    def release_external(self, sym):
        self.log.append('R %d' % sym.arguments[0].number if sym.name == '__final' else 'R? %s' % sym)

    def cleanup(self):
        self.log.append('C')

    def ground(self, parts, context=None):
        self.log.append('G ' + ' '.join('%s/%s' % (n, '/'.join(str(a) for a in args)) for n, args in parts))

    def backend(self):
        raise AssertionError('backend requested without theory atoms')

    def assign_external(self, sym, value):
        self.log.append('A %d %d' % (sym.arguments[0].number, 1 if value is True else 0) if sym.name == '__final' else 'A? %s' % sym)

    def solve(self, on_model=None, assumptions=()):
        self.log.append('S %d %s' % (self.step, ','.join(str(-a - 1000) for a in assumptions)))
        if self.step >= len(self.results):
            raise ScriptExhausted()
        r = FakeSolveResult(self.results[self.step])
        self.step += 1
        return r


def do_loop(req):
    """imain on the scripted fake Control (seam S2)"""
    ctl = FakeControl(req['results'], req.get('futures', []))
    parts = [(r, n, rng) for r, n, rng in req['parts']]
    kw = {}
    if 'imin' in req:
        kw['imin'] = req['imin']
    if 'imax' in req:
        kw['imax'] = req['imax']
    if 'istop' in req:
        kw['istop'] = req['istop']
    orig = Theory.translate

    def logged(self, horizon, prg):
        prg.log.append('T %d' % horizon)
        return orig(self, horizon, prg)
    Theory.translate = logged
    try:
        telingo.imain(ctl, [('__future_p', 2, True)], parts, lambda m, s: None, **kw)
        return {'status': 'ok', 'log': ctl.log}
    except ScriptExhausted:
        return {'status': 'fuel', 'log': ctl.log}
    except Exception as e:  # noqa
        r = exc_info(e)
        r['log'] = ctl.log
        return r
    finally:
        Theory.translate = orig


def term_sexpr(t, leaves):
    """clingo.ast theory term (after TheoryParser.parse) -> S-expression with leaves numbered by first occurrence order in `leaves`"""
    from clingo import ast as _ast
    if t.ast_type == _ast.ASTType.TheoryFunction and t.name in OPNAMES and len(t.arguments) in (1, 2):
        return '(' + t.name + ' ' + ' '.join(term_sexpr(a, leaves) for a in t.arguments) + ')'
    return str(leaves[str(t)])


OPNAMES = set()


def do_pyparse(req):
    """TheoryParser.parse (transformers/head.py) on the unparsed terms of `&tel { t1 ; t2 ; ... }.`"""
    from clingo import ast as _ast
    import telingo.transformers.head as th
    OPNAMES.clear()
    OPNAMES.update(o for o, _ in th.TheoryParser.table)
    out = []
    holder = []
    _ast.parse_string('&tel { %s }.' % ' ; '.join(req['terms']), lambda s: holder.append(s))
    rule = [s for s in holder if s.ast_type == _ast.ASTType.Rule][0]
    leaves = {l: i for i, l in enumerate(req['leaves'])}
    for e in rule.head.elements:
        try:
            out.append(term_sexpr(th.parse_raw_formula(e.terms[0]), leaves))
        except RuntimeError as ex:
            out.append('error ' + str(ex).split(':')[0])
        except Exception as ex:  # noqa
            out.append('internal ' + type(ex).__name__)
    return {'status': 'ok', 'trees': out}


def tterm_sexpr(t, leaves, ops):
    if t.type == clingo.TheoryTermType.Function and t.name in ops and len(t.arguments) in (1, 2):
        return '(' + t.name + ' ' + ' '.join(tterm_sexpr(a, leaves, ops) for a in t.arguments) + ')'
    return str(leaves[str(t)])


def do_gparse(req):
    """gringo's parse of body / del theory terms with the #theory definitions telingo hands to the grounder"""
    theory = req['theory']
    text = '#program always.\n:- not &%s { %s }.\n' % (theory, ' ; '.join(req['terms']))
    prg = clingo.Control(['0'], message_limit=0)
    try:
        with ProgramBuilder(prg) as bld:
            fs, parts = tf.transform([text], bld.add)
        prg.ground([('always', [clingo.Number(0), clingo.Number(0)])])
    except Exception as e:  # noqa
        return exc_info(e)
    leaves = {l: i for i, l in enumerate(req['leaves'])}
    ops = set(req['ops'])
    out = {}
    for atom in prg.theory_atoms:
        for el in atom.elements:
            out[str(el.terms[0])] = tterm_sexpr(el.terms[0], leaves, ops)
    return {'status': 'ok', 'trees': out}


def do_history(req):
    """a sequence of operations in THIS process (state leakage between calls shows up here); op = ['transform'|'solve', texts, H?];
    with req['threads'] the operations are run concurrently in that many threads (interleaved translate/solve calls)"""
    ops = req['ops']

    def one(op):
        if op[0] == 'transform':
            return do_transform({'texts': op[1]})
        if op[0] == 'nested':      # ['nested', texts A, H, texts B, step of A at which B is run]
            return do_solve({'texts': op[1], 'imax': op[2] + 1, 'istop': 'UNKNOWN', 'nested_at': op[4], 'nested': {'texts': op[3], 'imax': op[2] + 1, 'istop': 'UNKNOWN'}})
        return do_solve({'texts': op[1], 'imax': op[2] + 1, 'istop': 'UNKNOWN'})
    if req.get('threads', 1) <= 1:
        return {'status': 'ok', 'results': [one(op) for op in ops]}
    import threading
    res = [None] * len(ops)

    def work(k):
        for i in range(k, len(ops), req['threads']):
            try:
                res[i] = one(ops[i])
            except BaseException as e:  # noqa
                res[i] = {'status': 'exc', 'type': type(e).__name__, 'msg': str(e)[:200]}
    ts = [threading.Thread(target=work, args=(k,)) for k in range(req['threads'])]
    for t in ts:
        t.start()
    for t in ts:
        t.join()
    return {'status': 'ok', 'results': res}



def do_theory(req):
    """runs transform + imain on a program whose &tel atoms occur as  :- &tel { phi_i }, m(i).  and records, per solving step, what
    Theory.translate does on clingo's backend (fresh atoms, rules, externals) together with the theory atoms of the step in the order
    Theory.translate sees them (with the index i of their observer) and the table literal -> symbolic atom"""
    texts, imax = req['texts'], req['imax']
    msgs = []
    prg = clingo.Control(['0', '--eq=0'], logger=lambda c, m: msgs.append(str(m)), message_limit=20)
    grules = []

    class Obs(clingo.Observer):
        def rule(self, choice, head, body):
            if not choice and len(head) == 0 and 2 <= len(body) <= 3:
                grules.append(tuple(body))
    prg.register_observer(Obs())
    try:
        with ProgramBuilder(prg) as bld:
            fs, parts = tf.transform(texts, bld.add)
    except Exception as e:  # noqa
        r = exc_info(e)
        r['stage'] = 'transform'
        return r
    steps = []
    cur = {'events': [], 'atoms': [], 'symbols': {}}

    class BackendProxy:
        def __init__(self, b):
            self.b = b

        def __enter__(self):
            self.inner = self.b.__enter__()
            return self

        def __exit__(self, *a):
            return self.b.__exit__(*a)

        def add_atom(self, sym=None):
            r = self.inner.add_atom(sym) if sym is not None else self.inner.add_atom()
            cur['events'].append(['atom', r])
            return r

        def add_rule(self, head, body=[], choice=False):
            cur['events'].append(['rule', list(head), list(body), bool(choice)])
            return self.inner.add_rule(head, body, choice)

        def add_external(self, atom, value=clingo.TruthValue.False_):
            cur['events'].append(['ext', atom, str(value).split('.')[-1].strip('_').lower()])
            return self.inner.add_external(atom, value)

    class CtlProxy:
        def __getattr__(self, name):
            return getattr(prg, name)

        def backend(self):
            return BackendProxy(prg.backend())

        def ground(self, parts_, context=None):
            del grules[:]
            prg.ground(parts_)
            cur['events'], cur['atoms'], cur['symbols'] = [], [], {}
            for a in prg.symbolic_atoms:
                cur['symbols'][a.literal] = sym_to_tuple(a.symbol)
            owner = {}
            for b in grules:
                ms = [cur['symbols'][y] for y in b if y in cur['symbols'] and cur['symbols'][y][0] == 'm' and len(cur['symbols'][y][1]) == 1]
                if len(ms) == 1:
                    for x in b:
                        if x not in cur['symbols']:
                            owner[x] = min(owner.get(x, 10 ** 9), int(ms[0][1][0]))
            for a in prg.theory_atoms:
                if a.term.name in ('tel', 'del') and len(a.term.arguments) == 1:
                    cur['atoms'].append([a.term.arguments[0].number, a.literal, owner.get(a.literal)])

        def solve(self, *a, **kw):
            steps.append({'events': cur['events'], 'atoms': cur['atoms'], 'symbols': {str(k): v for k, v in cur['symbols'].items()}})
            cur['events'] = []
            return prg.solve(*a, **kw)
    try:
        telingo.imain(CtlProxy(), fs, parts, lambda m, s: None, imin=imax, imax=imax, istop='UNKNOWN')
    except Exception as e:  # noqa
        r = exc_info(e)
        r['stage'] = 'imain'
        return r
    return {'status': 'ok', 'steps': steps}


def do_intervalset(req):
    """IntervalSet of transformers/head.py on a list of (left, right) pairs"""
    import telingo.transformers.head as th
    s = th.IntervalSet([tuple(x) for x in req['intervals']])
    return {'status': 'ok', 'set': ' '.join('[%d,%d)' % (a, b) for a, b in s)}


def hf_str(x):
    """head formula object (named tuples of theory/head.py) -> the model's notation, atoms by name"""
    t = getattr(x, 'ast_type', None)
    if t == 'TelAtom':
        return '(at %s%s%s)' % ('' if x.positive else '-', x.name, ('(%s)' % ','.join(str(a) for a in x.arguments)) if x.arguments else '')
    if t == 'TelNext':
        return '(nx %d %d %s)' % (x.lhs, 1 if x.weak else 0, hf_str(x.rhs))
    if t == 'TelUntil':
        if x.lhs is None:
            return '(un1 %d %s)' % (1 if x.until else 0, hf_str(x.rhs))
        return '(un %d %s %s)' % (1 if x.until else 0, hf_str(x.lhs), hf_str(x.rhs))
    if t == 'TelClause':
        els = [hf_str(e) for e in x.elements]
        r = els[0]
        for e in els[1:]:
            r = '(%s %s %s)' % ('and' if x.conjunctive else 'or', r, e)
        return r
    if t == 'TelNegation':
        return '(neg %s)' % hf_str(x.rhs)
    if t == 'TelConstant':
        return '(cst %d)' % (1 if x.value else 0)
    return '(?%s)' % t


def leaf_str(x):
    t = getattr(x, 'ast_type', None)
    if t == 'TelAtom':
        return '(A %s)' % hf_str(x)[4:-1]
    if t == 'TelShift':
        if x.lhs < 0:
            return '(B %d %s)' % (-x.lhs, hf_str(x.rhs))
        if x.lhs == 0 and getattr(x.rhs, 'ast_type', None) == 'TelNext':
            return '(F %d %d %s)' % (x.rhs.lhs, 1 if x.rhs.weak else 0, hf_str(x.rhs.rhs))
        if x.lhs == 0:
            return '(B 0 %s)' % hf_str(x.rhs)
        return '(SHIFT+%d %s)' % (x.lhs, hf_str(x.rhs))
    return '(?%s)' % t


def bf_str(f):
    """body formula object (classes of theory/body.py, read through their private attributes) -> the model's notation, atoms by name"""
    import telingo.theory.body as bd
    g = lambda cls, name: getattr(f, '_%s__%s' % (cls, name))
    if isinstance(f, bd.Atom):
        args = g('Atom', 'arguments')
        return '(at %s%s%s)' % ('' if g('Atom', 'positive') else '-', g('Atom', 'name'), ('(%s)' % ','.join(str(a) for a in args)) if args else '')
    if isinstance(f, bd.BooleanConstant):
        return '(cst %d)' % (1 if g('BooleanConstant', 'value') else 0)
    if isinstance(f, bd.Negation):
        return '(neg %s)' % bf_str(g('Negation', 'arg'))
    if isinstance(f, bd.BooleanFormula):
        return '(bin %s %s %s)' % (g('BooleanFormula', 'operator'), bf_str(g('BooleanFormula', 'lhs')), bf_str(g('BooleanFormula', 'rhs')))
    if isinstance(f, bd.Previous):
        return '(pv %d %d %s)' % (g('Previous', 'n'), 1 if g('Previous', 'weak') else 0, bf_str(g('Previous', 'arg')))
    if isinstance(f, bd.Next):
        return '(nx %d %d %s)' % (g('Next', 'n'), 1 if g('Next', 'weak') else 0, bf_str(g('Next', 'arg')))
    if isinstance(f, bd.TelFormulaN):
        u = {'>?': 1, '>*': 0}.get(f._op, 9)
        fut = g('TelFormulaN', 'future')
        ok = isinstance(fut, bd.Next) and getattr(fut, '_Next__arg') is f and getattr(fut, '_Next__n') == 1 and bool(getattr(fut, '_Next__weak')) == (u == 0)
        tag = '' if ok else '!future'
        if f._lhs is None:
            return '(tn1%s %d %s)' % (tag, u, bf_str(f._rhs))
        return '(tn2%s %d %s %s)' % (tag, u, bf_str(f._lhs), bf_str(f._rhs))
    return '(?%s)' % type(f).__name__


def do_headtheory(req):
    """what HeadFormula.translate does, call by call: the formula object, the clauses (shifted and unfolded), and the rule added for every clause
    (head atoms by name, body formulas as objects of the body theory); observed by wrapping functions of telingo.theory.head in THIS process"""
    import telingo.theory.head as th
    texts = req['texts']
    imax = req.get('imax')
    names = req['atoms']
    calls = []
    cur = [None]
    o_translate, o_clause, o_shift = th.HeadFormula.translate, th.translate_clause, th.ClauseToRule.visit_TelShift

    class FShim:
        def __init__(self, c):
            self._c, self.last = c, None

        def __getattr__(self, n):
            return getattr(self._c, n)

        def add_formula(self, f):
            self.last = self._c.add_formula(f)
            return self.last

    class BShim:
        def __init__(self, b):
            self._b, self.rules, self.named = b, [], {}

        def __getattr__(self, n):
            return getattr(self._b, n)

        def add_rule(self, head, body=[], choice=False):
            self.rules.append((list(head), list(body)))
            return self._b.add_rule(head, body, choice)

        def add_atom(self, sym=None):
            r = self._b.add_atom(sym) if sym is not None else self._b.add_atom()
            if sym is not None:
                self.named[r] = sym
            return r

    class CShim:
        def __init__(self, c, b):
            self._c, self.backend = c, b

        def __getattr__(self, n):
            return getattr(self._c, n)

    def sym_name(sym):
        s = clingo.Function(sym.name, sym.arguments[:-1], sym.positive)
        return str(s)

    def w_translate(self, ctx, step):
        base = []
        for n in names:
            sym = clingo.parse_term(n.lstrip('-'))
            sym = clingo.Function(sym.name, list(sym.arguments) + [clingo.Number(step)], not n.startswith('-'))
            if ctx.symbols[sym] is not None:
                base.append(n)
        rec = {'horizon': ctx.horizon, 'ts': getattr(self, '_HeadFormula__timestep'), 'step': step, 'formula': hf_str(getattr(self, '_HeadFormula__formula')),
               'literals': len(getattr(self, '_HeadFormula__literals')), 'base': base, 'clauses': [], 'rules': []}
        calls.append(rec)
        cur[0] = rec
        try:
            return o_translate(self, ctx, step)
        finally:
            cur[0] = None

    def w_clause(clause, ctx, step, body_literal):
        clause = list(clause)
        rec = cur[0]
        b = BShim(ctx.backend)
        rule = {'head': None, 'body': [], 'formula_literal_first': None}
        if rec is not None:
            rec['clauses'].append([leaf_str(l) for l in clause])
            rec['rules'].append(rule)
        cur.append(rule)
        try:
            r = o_clause(clause, CShim(ctx, b), step, body_literal)
        finally:
            cur.pop()
        if b.rules:
            head, body = b.rules[-1]
            lit2name = {}
            for a in ctx.symbols:
                if a.literal != 0:
                    lit2name.setdefault(a.literal, sym_name(a.symbol) + '@%d' % a.symbol.arguments[-1].number if a.symbol.arguments and a.symbol.arguments[-1].type == clingo.SymbolType.Number else str(a.symbol))
            for l, sym in b.named.items():
                lit2name[l] = sym_name(sym) + '@%d' % sym.arguments[-1].number
            rule['head'] = [lit2name.get(x, '?%d' % x) for x in head]
            rule['formula_literal_first'] = bool(body) and body[0] == body_literal
            rule['nbody'] = len(body)
        return r

    def w_shift(self, x, ctx, step):
        sh = FShim(ctx)
        r = o_shift(self, x, sh, step)
        if len(cur) > 1 and isinstance(cur[-1], dict):
            cur[-1]['body'].append(bf_str(sh.last) if sh.last is not None else '(none)')
        return r
    th.HeadFormula.translate, th.translate_clause, th.ClauseToRule.visit_TelShift = w_translate, w_clause, w_shift
    try:
        prg = clingo.Control(['0', '--eq=0'], message_limit=0)
        try:
            with ProgramBuilder(prg) as bld:
                fs, parts = tf.transform(texts, bld.add)
        except Exception as e:  # noqa
            r = exc_info(e)
            r['stage'] = 'transform'
            return r
        try:
            telingo.imain(prg, fs, parts, lambda m, s: None, imin=imax, imax=imax, istop='UNKNOWN')
        except Exception as e:  # noqa
            r = exc_info(e)
            r['stage'] = 'imain'
            r['calls'] = calls
            return r
    finally:
        th.HeadFormula.translate, th.translate_clause, th.ClauseToRule.visit_TelShift = o_translate, o_clause, o_shift
    return {'status': 'ok', 'calls': calls}


class _Pos:
    def __init__(self, f, l, c):
        self.filename, self.line, self.column = f, l, c


class _Loc:
    def __init__(self, b, e):
        self.begin, self.end = _Pos(*b), _Pos(*e)


def do_strloc(req):
    """str_location of /repo on the given (begin, end) positions"""
    from telingo.transformers import transformer as _tr
    return {'status': 'ok', 'out': [_tr.str_location(_Loc(b, e)) for b, e in req['locs']]}


def do_locations(req):
    """the locations of all nodes of the clingo AST of a text (begin file/line/column, end file/line/column), by the parser of clingo alone"""
    from clingo import ast as _a
    seen = set()

    def walk(n):
        if isinstance(n, _a.AST):
            if 'location' in n.keys():
                l = n.location
                seen.add((l.begin.filename, l.begin.line, l.begin.column, l.end.filename, l.end.line, l.end.column))
            for k in n.keys():
                if k != 'location':
                    walk(getattr(n, k))
        elif isinstance(n, (list, tuple)) or type(n).__name__ in ('ASTSequence', 'StrSequence'):
            for x in n:
                walk(x)
    try:
        _a.parse_string(req['text'], walk)
    except Exception as e:  # noqa
        return exc_info(e)
    return {'status': 'ok', 'locs': sorted(seen)}


def do_parsehead(req):
    """the first statement the parser of clingo delivers for each text (contract of Model/Inputs.v: `#program base.`)"""
    from clingo import ast as _a
    out = []
    for t in req['texts']:
        sts = []
        try:
            _a.parse_string(t, lambda s: sts.append(str(s)))
        except Exception as e:  # noqa
            return exc_info(e)
        out.append(sts[0] if sts else None)
    return {'status': 'ok', 'first': out}


def _ser_tterm(t):
    k = t.type
    hx = lambda n: n.encode('utf-8').hex() if n else '-'
    if k == clingo.TheoryTermType.Number:
        return 'N %d' % t.number
    if k == clingo.TheoryTermType.Symbol:
        return 'S %s' % hx(t.name)
    args = ' '.join(_ser_tterm(a) for a in t.arguments)
    if k == clingo.TheoryTermType.Function:
        return ('F %s %d %s' % (hx(t.name), len(t.arguments), args)).strip()
    if k == clingo.TheoryTermType.Tuple:
        return ('T %d %s' % (len(t.arguments), args)).strip()
    return ('L %d %s' % (len(t.arguments), args)).strip()


def do_symterms(req):
    """for every term text: the theory terms gringo delivers for the argument of p(..) inside a body formula - once with the term written out, once
    with a variable bound to it - serialized, what create_symbol of /repo makes of each, and the symbols clingo itself binds the variable to"""
    from telingo.theory import formula as _frm
    out = []
    for t in req['terms']:
        rec = {}
        for mode, text in (('subst', 'v(%s).\n#program initial.\n:- not &tel { p(X) }, v(X).\n' % t), ('written', '#program initial.\n:- not &tel { p(%s) }.\n' % t)):
            prg = clingo.Control(['0'], message_limit=0)
            try:
                with ProgramBuilder(prg) as bld:
                    tf.transform([text], bld.add)
                prg.ground([('initial', [clingo.Number(0), clingo.Number(0)]), ('always', [clingo.Number(0), clingo.Number(0)])])
            except Exception as e:  # noqa
                rec[mode] = {'error': type(e).__name__}
                continue
            items = []
            for ta in prg.theory_atoms:
                for e in ta.elements:
                    arg = e.terms[0].arguments[0]
                    try:
                        r = str(_frm.create_symbol(arg))
                    except RuntimeError:
                        r = 'raises'
                    except Exception as ex:  # noqa
                        r = 'internal:' + type(ex).__name__
                    items.append([_ser_tterm(arg), r])
            rec[mode] = {'items': sorted(items)}
            if mode == 'subst':
                rec['bound'] = sorted(str(a.symbol.arguments[0]) for a in prg.symbolic_atoms if a.symbol.name == 'v')
        out.append(rec)
    return {'status': 'ok', 'out': out}


def do_headterms(req):
    """for every term text t: the argument the atom p(t) of a HEAD formula is derived with (`&tel { p(t) }.` in the initial part, grounded at step 0):
    the symbol, 'raises' (RuntimeError), 'undefined' (gringo drops the instance: no atom p)"""
    out = []
    for t in req['terms']:
        prg = clingo.Control(['0'], message_limit=0)
        try:
            with ProgramBuilder(prg) as bld:
                tf.transform(['#program initial.\n&tel { p(%s) }.\n' % t], bld.add)
            prg.ground([('initial', [clingo.Number(0), clingo.Number(0)]), ('always', [clingo.Number(0), clingo.Number(0)])])
        except RuntimeError as e:
            out.append('raises')
            continue
        except Exception as e:  # noqa
            out.append('internal:' + type(e).__name__)
            continue
        got = sorted(str(a.symbol.arguments[0]) for a in prg.symbolic_atoms if a.symbol.name == 'p' and len(a.symbol.arguments) == 2)
        out.append(got[0] if len(got) == 1 else ('undefined' if not got else 'several:' + ','.join(got)))
    return {'status': 'ok', 'out': out}


HANDLERS = {'headterms': do_headterms, 'symterms': do_symterms, 'parsehead': do_parsehead, 'strloc': do_strloc, 'locations': do_locations, 'headtheory': do_headtheory, 'intervalset': do_intervalset, 'theory': do_theory, 'history': do_history, 'solve': do_solve, 'transform': do_transform, 'loop': do_loop, 'pyparse': do_pyparse, 'gparse': do_gparse}


def main():
    extra = os.environ.get('VERIF_WORKER_EXTRA')
    if extra:
        import importlib
        for m in extra.split(','):
            mod = importlib.import_module(m)
            HANDLERS.update(mod.HANDLERS)
    out = sys.stdout
    sys.stdout = io.StringIO()  # telingo/clingo must not write into the protocol stream
    for line in sys.stdin:
        req = json.loads(line)
        try:
            res = HANDLERS[req['cmd']](req)
        except BaseException as e:  # noqa
            res = {'status': 'worker-error', 'type': type(e).__name__, 'msg': str(e)[:300], 'tb': traceback.format_exc()[-600:]}
        sys.stdout.seek(0)
        sys.stdout.truncate()
        out.write(json.dumps(res) + '\n')
        out.flush()


if __name__ == '__main__':
    main()
