"""Structural correspondence for the program transformer on the fragment of C01 + C02 (future heads, look-ahead constraints, past / initially
atoms, &initial / &final, all four parts): Model/FutTransform.transform_program (extracted, driver command `ftr`; every per-atom decision is the
regenerated Ctx.decide) against telingo.transformers.transform.  Compared: the rewritten rules in order with the part in force (head, ordered
signed body literals with their time terms), the bridge rules of the future predicates and the returned future signatures (sorted, one per
predicate and depth), the look-ahead constraints grouped by (part, depth) with their temporary (`__final(__u)`) and permanent copies, the list
of parts to ground with their offsets, and the trailer.  A program one side rejects must be rejected by the other."""
import re, json
import lang

HEADS = ('norm', 'disj', 'choice', 'cons', 'tel')


def in_fragment(rules):
    for r in rules:
        if r['head'][0] not in HEADS:
            return False
        for s, b in r['body']:
            if b[0] == 'kw' and b[1] not in ('initial', 'final'):
                return False
            if b[0] not in ('patom', 'fatom', 'iatom', 'kw', 'tel', 'del', 'tels'):
                return False
        names = [r['head'][1]] if r['head'][0] == 'norm' else (r['head'][1] if r['head'][0] in ('disj', 'choice') else [])
        names += [b[1] for s, b in r['body'] if b[0] in ('patom', 'fatom', 'iatom')]
        if any('(' in n for n in names):
            return False
    return True


def atom_ids(rules):
    """atoms numbered in the order sorted(future_predicates) uses: name, then sign (classically negated first)"""
    names = set()
    for r in rules:
        h = r['head']
        if h[0] == 'norm':
            names.add(h[1])
        elif h[0] in ('disj', 'choice'):
            names.update(h[1])
        for s, b in r['body']:
            if b[0] in ('patom', 'fatom', 'iatom'):
                names.add(b[1])
    order = sorted(names, key=lambda n: (n.lstrip('-'), not n.startswith('-')))
    return {n: i for i, n in enumerate(order)}


def rule_tokens(r, ids):
    """head and body of a rule in the token language of the driver (without its part)"""
    if True:
        h = r['head']
        if h[0] == 'norm':
            hd = 'n %d %d' % (ids[h[1]], h[2])
        elif h[0] in ('disj', 'choice'):
            hd = '%s %d %s' % (h[0][0], len(h[1]), ' '.join(str(ids[a]) for a in h[1]))
        elif h[0] == 'tel':
            hd = 't'
        else:
            hd = 'x'
        body = []
        for s, b in r['body']:
            if b[0] == 'patom':
                body.append('%s at %d %d 0' % (s, ids[b[1]], b[2]))
            elif b[0] == 'fatom':
                body.append('%s at %d 0 %d' % (s, ids[b[1]], b[2]))
            elif b[0] == 'iatom':
                body.append('%s in %d' % (s, ids[b[1]]))
            elif b[0] in ('tel', 'del', 'tels'):
                body.append('%s tl' % s)
            else:
                body.append('%s %s' % (s, 'kI' if b[1] == 'initial' else 'kF'))
        return '%s %d %s' % (hd, len(body), ' '.join(body))


def model_line(rules, ids):
    toks = [str(len(rules))]
    for r in rules:
        toks.append('%s %s' % ({'initial': 'I', 'base': 'I', 'always': 'A', 'dynamic': 'D', 'final': 'F'}[r['part']], rule_tokens(r, ids)))
    return 'ftr ' + ' '.join(toks)


# ---- layouts: the statements of a program with ARBITRARY #program directives between them, cut into several input texts ----
def layout_texts(layout):
    return ['\n'.join(('#program %s.' % x[1]) if x[0] == 'P' else lang.rule_txt(x[1]) for x in inp) + '\n' for inp in layout]


def layout_line(layout, ids):
    toks = [str(len(layout))]
    for inp in layout:
        toks.append(str(len(inp)))
        for x in inp:
            toks.append('P %s' % x[1] if x[0] == 'P' else 'R ' + rule_tokens(x[1], ids))
    return 'ftri ' + ' '.join(toks)


def random_layout(rng, rules):
    """the rules in order, a directive in front of some of them (any of the five part names), cut at random places into 1-3 texts (a text may
    begin without a directive, may be empty, may end in any part)"""
    items = []
    for r in rules:
        if rng.random() < 0.45:
            items.append(('P', rng.choice(['base', 'initial', 'always', 'dynamic', 'final'])))
        items.append(('R', r))
    if rng.random() < 0.3:
        items.append(('P', rng.choice(['always', 'final', 'dynamic'])))
    k = rng.choice([1, 2, 2, 3])
    cuts = sorted(rng.randint(0, len(items)) for _ in range(k - 1))
    out, last = [], 0
    for c in cuts + [len(items)]:
        out.append(items[last:c])
        last = c
    return out


def compare_layouts(ctx, progs, seed_rng):
    prepared = []
    for p in progs:
        ids = atom_ids(p)
        lay = random_layout(seed_rng, p)
        prepared.append((layout_texts(lay), layout_line(lay, ids), ids))
    return compare_prepared(ctx, prepared, True), prepared


LIT = re.compile(r'^(not not |not )?(-?)([a-z_][A-Za-z0-9_]*)\((.*)\)$')


def tterm(t):
    t = t.replace(' ', '')
    if t == '__t':
        return 't+0'
    m = re.match(r'^\(__t\+(-?\d+)\)$', t)
    if m:
        return 't%+d' % int(m.group(1))
    if t == '0':
        return '0'
    return '?' + t


def canon_atom(sign, name, arg, ids):
    if name == '__initial' and arg == '__t' and not sign:
        return 'I'
    if name == '__final' and arg == '__t' and not sign:
        return 'F'
    if name == '__final' and arg == '__u' and not sign:
        return 'FU'
    if name.startswith('__future_'):
        m = re.match(r'^(\d+),(.*)$', arg)
        base = sign + name[len('__future_'):]
        if m and base in ids:
            return 'X%d.%d@%s' % (ids[base], int(m.group(1)), tterm(m.group(2)))
        return '?' + name + '(' + arg + ')'
    if sign + name in ids:
        return 'U%d@%s' % (ids[sign + name], tterm(arg))
    return '?' + sign + name + '(' + arg + ')'


THEORY = re.compile(r'^(not not |not )?&(tel|del)\(__t\) \{.*\}$')


def canon_lit(txt, ids):
    mt = THEORY.match(txt.strip())
    if mt:
        return {'not not ': 'm', 'not ': 'n', None: 'p'}[mt.group(1)] + 'T'
    m = LIT.match(txt.strip())
    if not m:
        return '?' + txt
    s = {'not not ': 'm', 'not ': 'n', None: 'p'}[m.group(1)]
    return s + canon_atom(m.group(2), m.group(3), m.group(4), ids)


def split_body(body):
    """body literals are separated by '; ' - outside the braces of theory atoms"""
    out, depth, cur = [], 0, ''
    i = 0
    while i < len(body):
        ch = body[i]
        if ch in '{(':
            depth += 1
        elif ch in '})':
            depth -= 1
        if depth == 0 and body.startswith('; ', i):
            out.append(cur)
            cur = ''
            i += 2
            continue
        cur += ch
        i += 1
    out.append(cur)
    return out


def canon_rule(st, ids):
    body = ''
    head = st[:-1]
    if ' :- ' in head:
        head, body = head.split(' :- ', 1)
    elif head.startswith(':- '):
        head, body = '#false', head[3:]
    lits = [canon_lit(x, ids) for x in split_body(body)] if body else []
    if head == '#false':
        hd = 'x'
    elif head.startswith('{'):
        hd = 'c ' + ','.join(canon_lit(x, ids)[1:].split('@')[0][1:] if canon_lit(x, ids).endswith('@t+0') else '?' + x for x in head[1:-1].strip().split(';') if x.strip())
    elif '; ' in head:
        hd = 'd ' + ','.join(canon_lit(x, ids)[1:].split('@')[0][1:] if canon_lit(x, ids).endswith('@t+0') else '?' + x for x in head.split('; '))
    elif re.match(r'^__aux_(\d+)\(__t\)$', head.strip()):
        hd = 'n A' + re.match(r'^__aux_(\d+)\(__t\)$', head.strip()).group(1)
    else:
        hd = 'n ' + canon_lit(head, ids)[1:]
    return ('%s | %s' % (hd, ' '.join(lits))).strip()


def canon_impl(a, ids):
    """-> dict(main=[...], bridge=[...], cons={(root,L): {'tmp': [...], 'perm': [...]}} in order, trailer=[...]) from the statements"""
    out = {'main': [], 'bridge': [], 'cons': [], 'trailer': [], 'odd': [], 'aux': []}
    part = None
    cons = {}
    for st in a['stmts']:
        if st.startswith('%') or st.startswith('#theory'):
            continue
        m = re.match(r'^#program (\w+)\(__t, __u\)\.$', st)
        if m:
            part = m.group(1)
            continue
        mt, mp = re.match(r'^(initial|always|dynamic)_0_(\d+)$', part or ''), re.match(r'^(initial|always|dynamic)_(\d+)$', part or '')
        if st.startswith('#external __false(__t)'):
            out['aux'].append('false-external')
        elif st.startswith('#external') or st == '__initial(__t).':
            out['trailer'].append('%s | %s' % (part, st))
        elif mt:
            key = (mt.group(1), int(mt.group(2)) + 1)
            if key not in cons:
                cons[key] = {'tmp': [], 'perm': []}
                out['cons'].append(key)
            cons[key]['tmp'].append(canon_rule(st, ids))
        elif mp:
            key = (mp.group(1), int(mp.group(2)))
            if key not in cons:
                cons[key] = {'tmp': [], 'perm': []}
                out['cons'].append(key)
            cons[key]['perm'].append(canon_rule(st, ids))
        elif st.startswith('#external __false(__t)'):
            out['aux'].append('false-external')
        elif st.startswith('&__tel_head(__t)'):
            m3 = re.search(r':- __aux_(\d+)\(__t\)\.$', st)
            out['aux'].append('head %s %s' % (part, m3.group(1) if m3 else '?'))
        elif re.search(r':- __aux_\d+\(__S\); __false\(__t\)\.$', st):
            out['aux'].append('domain')
        elif part in ('initial', 'always', 'dynamic'):
            c = canon_rule(st, ids)
            if re.search(r' \| p?X\d', c) or ' | pX' in c:
                out['bridge'].append('%s | %s' % (part, c))
            else:
                out['main'].append('%s | %s' % (part, c))
        else:
            out['odd'].append('%s | %s' % (part, st))
    out['consmap'] = cons
    return out


TRAILER = ['initial | __initial(__t).', 'always | #external __final(__t). [false]']


def texts_of(p, split):
    """the program as one input text, or cut into two input texts (the second restates its part, as every file must)"""
    if not split or len(p) < 2:
        return [lang.prog_txt(p)]
    return [lang.prog_txt(p[:len(p) // 2]), lang.prog_txt(p[len(p) // 2:])]


def compare(ctx, progs, split=False):
    idss = [atom_ids(p) for p in progs]
    return compare_prepared(ctx, [(texts_of(p, split), model_line(p, ids), ids) for p, ids in zip(progs, idss)], split)


def compare_prepared(ctx, prepared, split=False):
    impl = ctx.impl().run([{'cmd': 'transform', 'texts': t} for t, _, _ in prepared], timeout=20)
    mod = ctx.model().run([ml for _, ml, _ in prepared], timeout=20)
    out = []
    for (texts, _, ids), a, m in zip(prepared, impl, mod):
        rec = {'program': ' %%%% next input %%%% '.join(texts), 'status': 'agree', 'lookahead_groups': 0, 'future_predicates': 0}
        out.append(rec)
        inv = {v: k for k, v in ids.items()}
        if m is None or m.startswith('error'):
            rec.update(status='modelerror', what=str(m))
            continue
        if a.get('status') != 'ok' or m == 'rejected':
            if a.get('status') == 'exc' and a.get('type') == 'RuntimeError' and m == 'rejected':
                rec['status'] = 'agree-rejected'
            else:
                rec.update(status='differ', what='telingo: %s; the model: %s' % (json.dumps({k: a.get(k) for k in ('status', 'type', 'msg')}), 'rejected' if m == 'rejected' else 'accepted'))
            continue
        main, bridge, cons, parts, naux = [x.strip() for x in (m + ' ').split(' ## ')]
        ci = canon_impl(a, ids)
        mmain = [x.strip() for x in main.split(' ;; ')] if main else []
        diffs = []
        if ci['odd']:
            diffs.append('statements in unexpected parts: %s' % ci['odd'][:2])
        if ci['main'] != mmain:
            k = next((i for i in range(min(len(mmain), len(ci['main']))) if mmain[i] != ci['main'][i]), min(len(mmain), len(ci['main'])))
            diffs.append('rule %d: telingo `%s`, model `%s`' % (k, ci['main'][k] if k < len(ci['main']) else None, mmain[k] if k < len(mmain) else None))
        mb = [tuple(int(y) for y in x.split(':')) for x in bridge.split()]
        rec['future_predicates'] = len(mb)
        wb, wsig = [], []
        for aid, n in mb:
            wb.append('always | n U%d@t+0 | pX%d.%d@t+0' % (aid, aid, n))
            wsig.append(['__future_' + inv[aid].lstrip('-'), 2, not inv[aid].startswith('-')])
        if ci['bridge'] != wb:
            diffs.append('bridge rules: telingo %s, model %s' % (ci['bridge'], wb))
        if a['future_sigs'] != wsig:
            diffs.append('future signatures: telingo %s, model %s' % (a['future_sigs'], wsig))
        mcons = []
        for x in (cons.split(' ;; ') if cons else []):
            key, rs = x.split(' : ', 1)
            rt, L = key.split()
            pairs = [y.split(' => ') for y in rs.split(' // ')]
            mcons.append(((rt, int(L)), [t.strip() for t, _ in pairs], [q.strip() for _, q in pairs]))
        rec['lookahead_groups'] = len(mcons)
        icons = [(k, ci['consmap'][k]['tmp'], ci['consmap'][k]['perm']) for k in ci['cons']]
        if icons != mcons:
            diffs.append('look-ahead constraints: telingo %s, model %s' % (json.dumps(icons), json.dumps(mcons)))
        wparts = []
        for x in parts.split(' ;; '):
            rt, kind, rng = x.split()
            name = rt if kind == 'main' else ('%s_0_%d' % (rt, int(kind[3:]) - 1) if kind.startswith('tmp') else '%s_%d' % (rt, int(kind[4:])))
            wparts.append([rt, name, [int(y) for y in rng.split(',')]])
        if a['parts'] != wparts:
            diffs.append('parts to ground: telingo %s, model %s' % (a['parts'], wparts))
        heads_ = [x for x in ci['aux'] if x.startswith('head')]
        if heads_ != ['head always %d' % k for k in range(int(naux))]:
            diffs.append('auxiliary rules of the head formulas: telingo %s, the model numbers %s head formulas consecutively' % (heads_, naux))
        if ci['trailer'] != TRAILER:
            diffs.append('trailer: %s' % ci['trailer'])
        if diffs:
            rec.update(status='differ', what='; '.join(diffs)[:1500])
    return out
