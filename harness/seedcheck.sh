#!/bin/bash
# Re-run every seeded change against the quick check of the property it was written for (and extra checks given in
# seeded/<id>/meta.json "checks").  Usage: harness/seedcheck.sh [id-prefix]; prints one line per change; exit 1 if one is missed.
VERIF=$(cd $(dirname $0)/.. && pwd)
WT=/tmp/seedcheck_wt_$$
git -C /repo worktree add -q $WT HEAD || exit 2
MISS=0
for D in $VERIF/seeded/${1:-C}*-mut*; do
  ID=$(basename $D); P=${ID%%-*}
  git -C $WT checkout -q -- . ; git -C $WT clean -fdq
  if ! git -C $WT apply $D/patch.diff 2>/dev/null; then echo "$ID: patch does not apply (source moved on)"; continue; fi
  OWNER=$(/venv/bin/python -c "import json;m=json.load(open('$D/meta.json'));print(m.get('check_with') or m.get('property','$P').split(',')[0].strip()[:3])")
  R=$(cd $VERIF && TELINGO_REPO=$WT ./check $OWNER 2>&1 | grep -E "^VIOLATION|^OK|^HARNESS" | head -1 | cut -c1-70)
  echo "$ID [$OWNER]: $R"
  case "$R" in VIOLATION*) ;; *) MISS=1;; esac
done
git -C /repo worktree remove --force $WT
rm -f $VERIF/replays/*.json
exit $MISS
