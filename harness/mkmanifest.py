#!/venv/bin/python
"""Writes /verif/MANIFEST.json from the table below (kept next to the checks so they cannot drift apart)."""
import json, os
VERIF = os.path.dirname(os.path.dirname(os.path.abspath(__file__)))
NOTE = ('Trusted base: Coq 8.16.1 kernel, stdlib only, every property theorem closed under the global context (Print Assumptions re-run on every check); '
        'srcgen.py translator for the regenerated leaf definitions; ExtrOcamlBasic extraction + OCaml driver for the executable model; '
        'Python glue of the correspondence; clingo itself is modelled, not verified (see DESIGN.md section 9).')
CLAIMED = {
    'C08': dict(text='Proof (Coq): the loop condition, part selection, assumption filter, call order and option defaults are REGENERATED from '
                     'telingo/__init__.py on every run; theorems C08_trace/horizons/at_most_imax/at_least_min/stop_reason/no_early_stop/default_shortest '
                     'hold for every option triple, every result sequence, every part list and atom base (induction on the number of iterations). '
                     'Tie: regeneration + exhaustive differential run of telingo.imain on a scripted fake Control against the extracted model.',
                ref='8 (C08)', technique='Coq proof over regenerated loop decisions + exhaustive model/implementation call-trace correspondence'),
}
PENDING = {}
def main():
    ids = ['C%02d' % i for i in range(1, 18)]
    checks = []
    for i in ids:
        if i in CLAIMED:
            c = CLAIMED[i]
            checks.append({'property_id': i, 'quick_cmd': './check %s --tier quick' % i, 'thorough_cmd': './check %s --tier thorough' % i,
                           'evidence_file': 'evidence/%s.json' % i, 'replay_cmd_template': './check %s --replay {path}' % i, 'engine': 'coq-telingo',
                           'level_claimed': {'category': 'proof', 'text': c['text'], 'design_ref': c['ref']}, 'level_note': c.get('note', NOTE),
                           'technique': c['technique']})
    na = [{'property_id': i, 'reason': PENDING.get(i, 'check not built yet: the Coq model and correspondence for this property are still under construction (see DESIGN.md section 11)')}
          for i in ids if i not in CLAIMED]
    m = {'version': 1, 'setup_cmd': './check --setup',
         'hooks': {'guard': 'TELINGO_VERIF', 'enable': 'no source hooks: all seams are reached from outside (transform callback, Control proxy passed to imain, CLI subprocess)',
                   'baseline_off_cmd': 'cd /repo && /venv/bin/python -m pytest -ra -q -p no:cacheprovider --timeout=900', 'source_commits': [], 'add_only': True},
         'engines': [{'name': 'coq-telingo', 'path': 'check', 'serves_properties': sorted(CLAIMED), 'kind_free_text':
                      'Coq 8.16 development (coq/) with regenerated leaf layer (harness/srcgen.py), extracted executable model/oracle (ocaml/driver.ml) and Python correspondence harness'}],
         'checks': checks, 'not_applicable': na,
         'notes': 'Every check: regenerate Gen/FromSource*.v from /repo, make the property theorem file, Print Assumptions, extract, run the correspondence, write evidence.'}
    json.dump(m, open(os.path.join(VERIF, 'MANIFEST.json'), 'w'), indent=1)
if __name__ == '__main__':
    main()
