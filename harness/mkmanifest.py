#!/venv/bin/python
"""Writes /verif/MANIFEST.json from the table below (kept next to the checks so they cannot drift apart)."""
import json, os
VERIF = os.path.dirname(os.path.dirname(os.path.abspath(__file__)))
NOTE = ('Trusted base: Coq 8.16.1 kernel, stdlib only, every property theorem closed under the global context (Print Assumptions re-run on every check); '
        'srcgen.py translator for the regenerated leaf definitions; ExtrOcamlBasic extraction + OCaml driver for the executable model; '
        'Python glue of the correspondence; clingo itself is modelled, not verified (see DESIGN.md section 9).')
S4 = ' Tie: end-to-end correspondence of the real pipeline (telingo + clingo, one incremental run per program) with the oracle EXTRACTED from the Coq specification; on failure the shrunk program is the replay.'
CLAIMED = {
    'C01': dict(text='Proof (Coq): C01_core_exact - for every program of the ground core fragment and every horizon h the equilibrium models of the program accumulated by steps 0..h (model of transform + part selection + grounding) are exactly the temporal stable models over traces of length h+1; the part selection is the definition regenerated from imain.' + S4 +
                     ' Gringo simplification and non-ground programs are outside the theorem (C06).', ref='8 (C01)', technique='Coq proof (HT/THT_f, induction over steps) + extracted-oracle differential testing'),
    'C02': dict(text='Proof (Coq): C02_window_exact (temporary/permanent copies of look-ahead constraints, any depth, any h incl. h < n: no stale and no missing instance), C02_future_aux_elim_* (auxiliary __future atoms are a definitional extension), tied to the regenerated assumption filter and part selection.' + S4 +
                     ' Partial: the composition "future heads + constraints + core rules in one run" is proved per mechanism, not as one end-to-end theorem.', ref='8 (C02)', technique='Coq proof per mechanism + extracted-oracle differential testing'),
    'C03': dict(text='Proof (Coq): executable model of Theory.translate for the operator core {atom,~,&,>,>:,>?,<?} with invariant preservation across horizons, value = LTLf (C03_value_is_LTLf, C03_step) and existence+uniqueness of the Tseitin extension (C03_definitional); for the FULL operator set the semantic-layer theorem C03_equations_determine_LTLf.' + S4 +
                     ' (witness atoms at every state of every answer set vs extracted TEL.lsat, all operators, shared sub-formulas). Partial: the remaining operators are tied by the correspondence only.', ref='8 (C03), appendix A', technique='Coq refinement proof (reduced operator set) + extracted LTLf oracle on every state of every answer set'),
    'C04': dict(text='Proof (partial, Coq): C04_shift_origin_classical and C04_shift_is_consequence over a model of ShiftFormula (soundness direction: every emitted clause is a THT_f consequence of the head formula). Completeness is NOT proved; it is covered by the correspondence with Oracle.tsm_enum only (a test).' + S4 +
                     ' Open known findings F9, F10 (see known_findings.json): their input classes are excluded from generation while open.', ref='8 (C04)', technique='Coq proof of the key soundness lemma + extracted THT_f stable-model oracle'),
    'C05': dict(text='Proof (Coq): C05_diamond / C05_dia_formula / C05_box_formula: the executable continuation-style evaluator whose cases are those of DiamondFormula/BoxFormula.translate_* equals the relational LDLf semantics for ALL paths; runs stay inside the trace.' + S4 +
                     ' (witness atoms vs extracted LDL.dsat, normal-form paths). Partial: the translation into Boolean/next formulas inside the theory is tied by the correspondence, not by a refinement proof.', ref='8 (C05)', technique='Coq proof of LDLf evaluator = relational semantics + extracted oracle on every state'),
    'C07': dict(text='Proof (Coq): C07_parse_flat + C07_parse_respects - for EVERY table the operator-precedence parser (frame model of TheoryParser.parse / gringo) returns a tree with the input as frontier that respects priorities and associativities (spine-based table conformance, i.e. the fully parenthesised reading); C07_tables_agree (vm_compute over finite tables: a proof) - the three regenerated copies of the table equal the documented one; C07_reduce_test ties the regenerated reduction test of the Python parser to the model. Tie: TheoryParser and gringo (under the #theory texts telingo emits) against the extracted parser with the DOCUMENTED table on all operator pairs and triples; raw vs parenthesised programs through the pipeline.',
                ref='8 (C07)', technique='Coq proof of parser soundness for arbitrary tables + finite table equality + exhaustive pair/triple differential parsing'),
    'C10': dict(text='Proof (Coq): C10_total_and_states, C10_state_contents - print_model (guards regenerated from TelApp.print_model) never aborts, prints exactly states 0..h, and an atom appears under State k iff it is a shown, non-auxiliary function symbol with last argument k. Tie: regeneration + subprocess runs of the command line (files, two files, stdin) comparing the text output with the --outf=2 witnesses grouped by the extracted model. Partial: ordering of the model callback before print_model and threads are runtime behaviour of clingo, observed only through the subprocess.',
                ref='8 (C10)', technique='Coq proof over regenerated print guards + CLI text vs JSON witness correspondence'),
    'C11': dict(text='Proof (Coq): C11_atoms - for every statement shape, place, number of leading/trailing primes and the initially marker, the acceptance decision (flags, prime arithmetic and guards REGENERATED from program.py/transformer.py/term.py) equals the table [allowed] written from the property text, and never raises; C11_primes, C11_rewrite, C11_theory_context. Tie: regeneration + EXHAUSTIVE table of 34 syntactic positions x 25 atom forms x parts through transformers.transform (class, rewritten atom, look-ahead part, location) + theory-atom placements. The traversal model (which flags a position sees) is hand-written and tied by that table.',
                ref='8 (C11)', technique='Coq proof over regenerated context decisions + exhaustive position x form correspondence'),
    'C15': dict(text='Proof (partial, Coq): the regenerated decision fragments never take the raising branch (C15_loop_never_raises, C15_atom_decision_total, C15_theory_context_total). The bulk of the property is decided by the fuzz correspondence: a grammar of valid and near-valid inputs through transform+imain under a watchdog (exception type is the oracle) and command-line runs (exit status, message, option values). That the grammar reaches every internal failure is not a theorem.',
                ref='8 (C15)', technique='Coq totality of regenerated decisions + grammar-based fuzzing with exception-type oracle'),
    'C08': dict(text='Proof (Coq): the loop condition, part selection, assumption filter, call order and option defaults are REGENERATED from telingo/__init__.py on every run; C08_trace/horizons/at_most_imax/at_least_min/stop_reason/no_early_stop/default_shortest hold for every option triple, result sequence, part list and atom base. Tie: regeneration + exhaustive differential run of telingo.imain on a scripted fake Control against the extracted model.',
                ref='8 (C08)', technique='Coq proof over regenerated loop decisions + exhaustive model/implementation call-trace correspondence'),
    'C09': dict(text='Proof (Coq) for the ground core fragment: C09_time_in_range, C09_initial_marker, C09_final_marker follow from the characterisation of the stable models of the incremental run; C09_future_atoms_determined from the auxiliary-atom elimination. For arbitrary (non-ground, theory) programs and the shipped examples the four facts are checked on ALL atoms of the real answer sets (the theorem statement is the oracle).',
                ref='8 (C09)', technique='Coq proof (core fragment) + well-formedness oracle on real answer sets incl. shipped examples'),
    'C12': dict(text='Proof (Coq) for the core fragment: C12_order_dup_split / C12_tsm_same - the accumulated program is a set of instances, so reordering, duplication and splitting statements cannot change the stable models. Theory atoms / auxiliary numbering: metamorphic correspondence on the real pipeline (permutation, duplication, shared sub-formulas, 2-3 input files).',
                ref='8 (C12)', technique='Coq proof (set semantics of the accumulated program) + metamorphic testing of the pipeline'),
    'C13': dict(text='Proof (Coq): C13_frozen_choice (auxiliary choice atoms fixed by constraints never take part in minimisation) and C13_unique_extension (existence and uniqueness of the auxiliary assignment, operator core). Tie: four-way metamorphic comparison on the real pipeline (P, P+observer, P+constraint, P+negated constraint), tel and del formulas, with multiplicity.',
                ref='8 (C13)', technique='Coq proof (frozen choice + unique definitional extension) + metamorphic testing'),
    'C16': dict(text='Proof (Coq): every documented abbreviation as a THT_f law (heads and bodies), the classical dualities and the mirror symmetry as LTLf laws, and congruence (a law may be applied at any sub-formula position). Tie: a law applied at a random position of generated body/head formulas must not change the answer sets of the real pipeline (and reversed traces for the mirror law). What create_formula BUILDS for each abbreviation is tied by C03/C04 correspondences.',
                ref='8 (C16)', technique='Coq proofs of the laws + congruence; metamorphic law substitution on the pipeline'),
    'C17': dict(text='Proof (Coq): C17_prefix_closed - for programs with past-only bodies and present-only heads every temporal stable model of length h+2 cut to h+1 states is a temporal stable model of length h+1 (all h). Tie: consecutive horizons of one incremental run on random past-only programs and the shipped planning domains without final part.',
                ref='8 (C17)', technique='Coq proof at the specification level + prefix oracle on consecutive horizons'),
}
PENDING = {}
def main():
    ids = ['C%02d' % i for i in range(1, 18)]
    checks = []
    for i in ids:
        if i in CLAIMED:
            c = CLAIMED[i]
            checks.append({'property_id': i, 'quick_cmd': './check %s --tier quick' % i, 'thorough_cmd': './check %s --tier thorough' % i,
                           'evidence_file': 'evidence/%s.json' % i, 'replay_cmd_template': './check %s --replay {path}' % i, 'engine': 'coq-telingo',
                           'level_claimed': {'category': 'proof', 'text': c['text'], 'design_ref': c['ref']}, 'level_note': c.get('note', NOTE),
                           'technique': c['technique']})
    na = [{'property_id': i, 'reason': PENDING.get(i, 'check not built yet: the Coq model and correspondence for this property are still under construction (see DESIGN.md section 11)')}
          for i in ids if i not in CLAIMED]
    m = {'version': 1, 'setup_cmd': './check --setup',
         'hooks': {'guard': 'TELINGO_VERIF', 'enable': 'no source hooks: all seams are reached from outside (transform callback, Control proxy passed to imain, CLI subprocess)',
                   'baseline_off_cmd': 'cd /repo && /venv/bin/python -m pytest -ra -q -p no:cacheprovider --timeout=900', 'source_commits': [], 'add_only': True},
         'engines': [{'name': 'coq-telingo', 'path': 'check', 'serves_properties': sorted(CLAIMED), 'kind_free_text':
                      'Coq 8.16 development (coq/) with regenerated leaf layer (harness/srcgen.py), extracted executable model/oracle (ocaml/driver.ml) and Python correspondence harness'}],
         'checks': checks, 'not_applicable': na,
         'notes': 'Every check: regenerate Gen/FromSource*.v from /repo, make the property theorem file, Print Assumptions, extract, run the correspondence, write evidence.'}
    json.dump(m, open(os.path.join(VERIF, 'MANIFEST.json'), 'w'), indent=1)
if __name__ == '__main__':
    main()
