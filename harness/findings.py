"""Open known findings: syntactic class predicates over the harness' program representation (lang.py).
While a finding is open the generators do not emit inputs of its class (the loss of coverage is counted in the evidence),
a failing input inside the class is reported as KNOWN-FINDING, and a failing input outside every class is a violation."""
import json, os

VERIF = os.path.dirname(os.path.dirname(os.path.abspath(__file__)))


def fml_atoms(f, acc):
    if isinstance(f, (tuple, list)) and f:
        if f[0] == 'atom':
            acc.add(f[1])
        else:
            for x in f[1:]:
                fml_atoms(x, acc)
    return acc


def fml_has(f, tags):
    if isinstance(f, (tuple, list)) and f:
        if f[0] in tags:
            return True
        return any(fml_has(x, tags) for x in f[1:])
    return False


def head_formulas(rules):
    return [r['head'][1] for r in rules if r['head'][0] == 'tel']


def class_F9(rules):
    """a head formula over >= 2 distinct atoms one of which is also the head of a normal rule (so it may be a fact when the
    domain rule of the head formula is grounded, and gringo then drops the whole disjunctive domain rule)"""
    norm_heads = {r['head'][1] for r in rules if r['head'][0] == 'norm'}
    for f in head_formulas(rules):
        atoms = fml_atoms(f, set())
        if len(atoms) >= 2 and atoms & norm_heads:
            return True
    return False


# F10 and F14 (clasp 5.8.2 equivalence preprocessing duplicates / loses a stable model) are no classes any more: every
# implementation run of the correspondences switches that preprocessing off (worker.do_solve), so head formulas with &final / >>
# and head formulas in the final part are generated and compared like all others; the two findings are identified by their
# specific inputs (corpus/C04/F10_*.json, F14*.json), which are replayed under clasp's DEFAULT configuration.
CLASSES = {}      # F9 was repaired (ed73928): no input class is excluded from generation any more


def open_findings(prop=None):
    p = os.path.join(VERIF, 'known_findings.json')
    if not os.path.exists(p):
        return []
    return [f for f in json.load(open(p)).get('findings', []) if f.get('status') == 'open' and (prop is None or prop == f.get('property') or prop in f.get('also_affects', []))]


def open_classes(prop=None):
    return [(f['id'], CLASSES[f['id']]) for f in open_findings(prop) if f['id'] in CLASSES]


def in_open_class(rules, prop=None):
    for fid, pred in open_classes(prop):
        try:
            if pred(rules):
                return fid
        except Exception:
            pass
    return None
