"""Metamorphic comparisons on the implementation: answer sets per horizon of program variants."""
import json
import lang


def atom_txt(a):
    name, args, t, pos = a
    return '%s%s%s@%s' % ('' if pos else '-', name, '(%s)' % ','.join(args) if args else '', t)


def answer_sets(ctx, inputs, H, hide=(), timeout=40, atoms=False, keep_aux=False, args=None, limit=None):
    """inputs: list of lists of texts (several files per program).  Returns per input either
    {'ok': {h: sorted list of tuples of atom strings}} or {'error': {...}}."""
    reqs = [dict({'cmd': 'solve', 'texts': t, 'imax': H + 1, 'istop': 'UNKNOWN', 'atoms': atoms}, **({'args': args} if args else {}), **({'limit': limit} if limit else {})) for t in inputs]
    out = []
    for ans in ctx.impl().run(reqs, timeout=timeout):
        if ans.get('status') != 'ok':
            out.append({'error': {k: ans.get(k) for k in ('status', 'type', 'msg', 'where', 'stage')}, 'timeout': ans.get('status') == 'timeout'})
            continue
        by = {h: [] for h in range(H + 1)}
        for h, ats in ans['models']:
            m = tuple(sorted(atom_txt(a) for a in ats if (keep_aux or not a[0].startswith('__')) and a[0] not in hide))
            by.setdefault(h, []).append(m)
        out.append({'ok': {h: sorted(v) for h, v in by.items()}})
    return out


def same(a, b):
    if a.get('timeout') or b.get('timeout'):
        return True      # a watchdog hit is not a wrong answer (performance is outside the properties)
    if 'error' in a or 'error' in b:
        return ('error' in a) == ('error' in b) and a.get('error', {}).get('type') == b.get('error', {}).get('type')
    return a['ok'] == b['ok']


def first_diff(a, b):
    if 'error' in a or 'error' in b:
        return {'a': a.get('error', 'ok'), 'b': b.get('error', 'ok')}
    for h in sorted(a['ok']):
        if a['ok'][h] != b['ok'].get(h):
            return {'horizon': h, 'a': [' '.join(m) for m in a['ok'][h]][:8], 'b': [' '.join(m) for m in b['ok'].get(h, [])][:8]}
    return None


# ------------------------------------------------------------------------------------------------ renaming of atoms
# Answer sets are invariant under an injective renaming of the atoms.  Renaming the propositional atoms of a generated program to atoms WITH
# ARGUMENTS (negative numbers, strings with escape sequences, tuples, nested terms) sends every argument through the places of the code that
# rebuild symbols from theory terms (formula atoms in bodies, heads and path expressions), with the unrenamed program as the reference.
AMAP = {'a': 'pa(-1,(2,))', 'b': 'qb("x\\"y",f(-2),"")', 'c': 'rc((1,2),"")', 'd': 'sd("\\\\",-3)'}
# the theory of &del atoms has no unary minus (gringo rejects `&del { p(-1) .>? q }` with "missing definition for operator"): no negative numbers there
AMAP_DEL = {'a': 'pa(1,(2,))', 'b': 'qb("x\\"y",f(2),"")', 'c': 'rc((1,2),"")', 'd': 'sd("\\\\",3)'}


def rename(x, amap=AMAP):
    if isinstance(x, str):
        if x in amap:
            return amap[x]
        if x.startswith('-') and x[1:] in amap:
            return '-' + amap[x[1:]]
        return x
    if isinstance(x, tuple):
        return tuple(rename(y, amap) for y in x)
    if isinstance(x, list):
        return [rename(y, amap) for y in x]
    if isinstance(x, dict):
        return {k: (v if k == 'part' else rename(v, amap)) for k, v in x.items()}
    return x


def rename_atom_txt(s, amap):
    neg = s.startswith('-')
    body, t = (s[1:] if neg else s).rsplit('@', 1)
    body = amap.get(body, body)
    return ('-' if neg else '') + body + '@' + t


def renaming_results(ctx, progs, H, timeout=40, amap=AMAP):
    inputs = []
    for p in progs:
        inputs += [[lang.prog_txt(p)], [lang.prog_txt(rename(p, amap))]]
    res = answer_sets(ctx, inputs, H, timeout=timeout)
    out = []
    for i, p in enumerate(progs):
        a, b = res[2 * i], res[2 * i + 1]
        if 'ok' in a:
            a = {'ok': {h: sorted(tuple(sorted(rename_atom_txt(x, amap) for x in m)) for m in ms) for h, ms in a['ok'].items()}}
        out.append((inputs[2 * i][0], inputs[2 * i + 1][0], a, b))
    return out


def renaming_cex(ctx, progs, H, prop, timeout=40, amap=AMAP):
    """returns (counterexamples, number of programs compared with at least one answer set)"""
    cex, nontriv = [], 0
    for p, (t0, t1, a, b) in zip(progs, renaming_results(ctx, progs, H, timeout, amap)):
        if not same(a, b):
            cex.append({'key': '%s:renaming:%s' % (prop.lower(), t1.replace('\n', ' ')), 'what': 'the program and the same program with its atoms renamed to atoms with arguments report different answer sets (after renaming back): %s' % json.dumps(first_diff(a, b)),
                        'input': {'renaming': amap, 'rules': p, 'H': H, 'program': t0, 'renamed_program': t1}})
        elif 'ok' in a and any(a['ok'].values()):
            nontriv += 1
    return cex, nontriv


def renaming_replay(ctx, payload):
    inp = payload['input']
    p = inp['rules']
    (t0, t1, a, b), = renaming_results(ctx, [p], inp['H'], amap=inp['renaming'])
    return not same(a, b)
