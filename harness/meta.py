"""Metamorphic comparisons on the implementation: answer sets per horizon of program variants."""
import lang


def atom_txt(a):
    name, args, t, pos = a
    return '%s%s%s@%s' % ('' if pos else '-', name, '(%s)' % ','.join(args) if args else '', t)


def answer_sets(ctx, inputs, H, hide=(), timeout=40, atoms=False, keep_aux=False):
    """inputs: list of lists of texts (several files per program).  Returns per input either
    {'ok': {h: sorted list of tuples of atom strings}} or {'error': {...}}."""
    reqs = [{'cmd': 'solve', 'texts': t, 'imax': H + 1, 'istop': 'UNKNOWN', 'atoms': atoms} for t in inputs]
    out = []
    for ans in ctx.impl().run(reqs, timeout=timeout):
        if ans.get('status') != 'ok':
            out.append({'error': {k: ans.get(k) for k in ('status', 'type', 'msg', 'where', 'stage')}, 'timeout': ans.get('status') == 'timeout'})
            continue
        by = {h: [] for h in range(H + 1)}
        for h, ats in ans['models']:
            m = tuple(sorted(atom_txt(a) for a in ats if (keep_aux or not a[0].startswith('__')) and a[0] not in hide))
            by.setdefault(h, []).append(m)
        out.append({'ok': {h: sorted(v) for h, v in by.items()}})
    return out


def same(a, b):
    if a.get('timeout') or b.get('timeout'):
        return True      # a watchdog hit is not a wrong answer (performance is outside the properties)
    if 'error' in a or 'error' in b:
        return ('error' in a) == ('error' in b) and a.get('error', {}).get('type') == b.get('error', {}).get('type')
    return a['ok'] == b['ok']


def first_diff(a, b):
    if 'error' in a or 'error' in b:
        return {'a': a.get('error', 'ok'), 'b': b.get('error', 'ok')}
    for h in sorted(a['ok']):
        if a['ok'][h] != b['ok'].get(h):
            return {'horizon': h, 'a': [' '.join(m) for m in a['ok'][h]][:8], 'b': [' '.join(m) for m in b['ok'].get(h, [])][:8]}
    return None
