#!/bin/bash
# usage: harness/seedtest.sh <PROP> <agent out dir> <worktree> [extra properties to run]
# For each mutN in the out dir: apply the patch in the worktree, run the 39 tests and the demo (must fail), run ./check PROP against it, undo.
P=$1; OUT=$2; WT=$3; shift 3; EXTRA="$@"
for M in $OUT/mut*; do
  [ -f $M/patch.diff ] || continue
  N=$(basename $M)
  git -C $WT checkout -q -- . ; git -C $WT clean -fdq
  PYTHONPATH=$WT /venv/bin/python $M/demo.py > /tmp/seed_demo_clean.txt 2>&1; RC0=$?
  if ! git -C $WT apply $M/patch.diff; then echo "$P $N: patch does not apply"; continue; fi
  T=$(cd $WT && PYTHONPATH=$WT /venv/bin/python -m pytest -q -p no:cacheprovider telingo/tests 2>&1 | tail -1)
  PYTHONPATH=$WT /venv/bin/python $M/demo.py > /tmp/seed_demo_mut.txt 2>&1; RC1=$?
  echo "== $P $N: tests: $T | demo clean rc=$RC0 mutated rc=$RC1"
  for Q in $P $EXTRA; do
    R=$(cd ${VERIF_DIR:-/verif} && TELINGO_REPO=$WT ./check $Q 2>&1 | grep -E "^VIOLATION|^OK|^HARNESS|^KNOWN" | cut -c1-60 | tr '\n' ' ')
    echo "   check $Q: $R"
  done
  git -C $WT checkout -q -- . ; git -C $WT clean -fdq
done
rm -f ${VERIF_DIR:-/verif}/replays/*.json
