"""Seeded generators of temporal programs and formulas (see lang.py for the syntax).  Every choice comes from the rng passed in."""
import lang

PARTS = ['initial', 'always', 'dynamic', 'final']
PARTS_B = ['initial', 'always', 'dynamic', 'final', 'base', 'always', 'dynamic', 'final']      # with the alias `base`
SGNS = ['p', 'n', 'm']


# ------------------------------------------------------------------------------------------------ core rules (C01/C02)
def core_body_lit(rng, atoms, future_ok=False, maxpast=3, maxfut=2):
    s = rng.choice(SGNS)
    k = rng.random()
    if future_ok and k < 0.35:
        return (s, ('fatom', rng.choice(atoms), rng.randint(1, maxfut)))
    if k < 0.5:
        return (s, ('patom', rng.choice(atoms), 0))
    if k < 0.75:
        return (s, ('patom', rng.choice(atoms), rng.choice([1, 1, 2, 2, 3, 4][:maxpast + 2] if maxpast >= 3 else list(range(1, maxpast + 1)))))
    if k < 0.87:
        return (s, ('iatom', rng.choice(atoms)))
    return (s, ('kw', rng.choice(['initial', 'final', 'initial', 'final', 'true', 'false'])))


def core_head(rng, atoms, future=0.0, maxfut=2):
    k = rng.random()
    if k < future:
        return ('norm', rng.choice(atoms), rng.randint(1, maxfut))
    if k < 0.40:
        return ('norm', rng.choice(atoms), 0)
    if k < 0.55:
        return ('disj', rng.sample(atoms, rng.randint(2, min(3, len(atoms)))))
    if k < 0.78:
        return ('choice', rng.sample(atoms, rng.randint(1, min(2, len(atoms)))))
    if k < 0.92:
        return ('cons',)
    return ('neghead', rng.choice(['n', 'm']), rng.choice(atoms), 0)


def core_rule(rng, atoms, future_head=0.0, lookahead=0.0, maxfut=2):
    part = rng.choice(PARTS_B)
    head = core_head(rng, atoms, future_head, maxfut)
    fut_ok = head[0] in ('cons', 'neghead') and rng.random() < lookahead
    if head[0] == 'neghead' and rng.random() < lookahead * 0.5:
        head = ('neghead', head[1], head[2], rng.randint(1, maxfut))
    nb = rng.choice([0, 1, 1, 2, 2, 3]) if head[0] != 'cons' else rng.choice([1, 2, 2, 3])
    body = [core_body_lit(rng, atoms, fut_ok, maxfut=maxfut) for _ in range(nb)]
    if fut_ok and not any(l[1][0] == 'fatom' for l in body):
        body.append((rng.choice(SGNS), ('fatom', rng.choice(atoms), rng.randint(1, maxfut))))
    return {'part': part, 'head': head, 'body': body}


def core_program(rng, atoms, nrules=(1, 4), future_head=0.0, lookahead=0.0, maxfut=2):
    n = rng.randint(*nrules)
    rules = [core_rule(rng, atoms, future_head, lookahead, maxfut) for _ in range(n)]
    # bias towards satisfiable, non-empty programs: most programs get a generator of atoms
    if rng.random() < 0.7:
        rules.insert(0, {'part': rng.choice(['always', 'initial', 'dynamic', 'always']), 'head': ('choice', rng.sample(atoms, rng.randint(1, len(atoms)))), 'body': []})
    return rules


def exhaustive_core(atoms=('a', 'b')):
    """every head form x body literal form x part, each in a small fixed context"""
    a, b = atoms[0], atoms[1]
    heads = [('norm', a, 0), ('disj', [a, b]), ('choice', [a]), ('cons',), ('neghead', 'n', a, 0), ('neghead', 'm', a, 0),
             ('kw', 'initial'), ('kw', 'final'), ('kw', 'true'), ('kw', 'false')]
    lits = [None]
    for s in SGNS:
        lits += [(s, ('patom', b, 0)), (s, ('patom', b, 1)), (s, ('patom', b, 2)), (s, ('patom', b, 3)), (s, ('iatom', b)), (s, ('kw', 'initial')), (s, ('kw', 'final')),
                 (s, ('kw', 'true')), (s, ('kw', 'false'))]
    ctxs = [[{'part': 'always', 'head': ('choice', [b]), 'body': []}],
            [{'part': 'initial', 'head': ('choice', [b]), 'body': []}, {'part': 'dynamic', 'head': ('choice', [a, b]), 'body': []}]]
    out = []
    for part in PARTS:
        for h in heads:
            for l in lits:
                for ci, c in enumerate(ctxs):
                    if ci == 1 and h[0] not in ('cons', 'neghead', 'norm'):
                        continue
                    out.append(c + [{'part': part, 'head': h, 'body': [l] if l else []}])
    return out


# ------------------------------------------------------------------------------------------------ temporal formulas
BODY_UN = ['not', 'prev', 'wprev', 'next', 'wnext', 'since1', 'trigger1', 'until1', 'release1', 'initially', 'finally']
BODY_BIN = ['and', 'or', 'impr', 'impl', 'eqv', 'since', 'trigger', 'until', 'release', 'seqnext', 'seqwnext', 'seqprev', 'seqwprev']
PAST_UN = ['not', 'prev', 'wprev', 'since1', 'trigger1', 'initially']
PAST_BIN = ['and', 'or', 'impr', 'impl', 'eqv', 'since', 'trigger', 'seqprev', 'seqwprev']
HEAD_UN = ['not', 'next', 'wnext', 'until1', 'release1', 'finally']
HEAD_BIN = ['and', 'or', 'until', 'release', 'seqnext', 'seqwnext']
KEYWORDS = ['true', 'false', 'initial', 'final']


def formula(rng, atoms, depth, un=BODY_UN, bi=BODY_BIN, pool=None, kw=KEYWORDS, nfold=0.25, leaf=0.25):
    """random formula; `pool` (list) is a sub-formula pool: sub-formulas are drawn from it with probability 0.3 and added to it"""
    if pool and rng.random() < 0.3:
        return rng.choice(pool)
    if depth <= 0 or rng.random() < leaf:
        if kw and rng.random() < 0.2:
            f = (rng.choice(kw),)
        else:
            f = ('atom', rng.choice(atoms))
    elif rng.random() < 0.5:
        op = rng.choice(un)
        x = formula(rng, atoms, depth - 1, un, bi, pool, kw, nfold, leaf)
        if op in ('prev', 'wprev', 'next', 'wnext'):
            n = None
            if rng.random() < nfold:
                n = rng.choice([0, 1, 2, 2, 3, '(1+1)', '(3-1)', '(2-2)'])
            f = (op, n, x)
        elif op.endswith('1'):
            f = (op[:-1], None, x)
        else:
            f = (op, x)
    else:
        op = rng.choice(bi)
        f = (op, formula(rng, atoms, depth - 1, un, bi, pool, kw, nfold, leaf), formula(rng, atoms, depth - 1, un, bi, pool, kw, nfold, leaf))
    if pool is not None and f[0] not in ('atom',):
        pool.append(f)
    return f


def size(f):
    if not isinstance(f, tuple):
        return 0
    return 1 + sum(size(x) for x in f[1:])


def ops_of(f, acc=None):
    acc = {} if acc is None else acc
    if isinstance(f, tuple):
        k = f[0] + ('1' if f[0] in ('since', 'trigger', 'until', 'release') and f[1] is None else '') + \
            ('N' if f[0] in ('prev', 'wprev', 'next', 'wnext') and f[1] is not None else '')
        acc[k] = acc.get(k, 0) + 1
        for x in f[1:]:
            ops_of(x, acc)
    return acc


# ------------------------------------------------------------------------------------------------ dynamic formulas
def consuming_path(rng, atoms, depth):
    """a path every run of which takes at least one step (bodies of * in the documented normal form)"""
    k = rng.random()
    if depth <= 0 or k < 0.3:
        return rng.choice([('skip',), ('patom', rng.choice(atoms))])
    if k < 0.55:
        return ('choice', consuming_path(rng, atoms, depth - 1), consuming_path(rng, atoms, depth - 1))
    if k < 0.8:
        if rng.random() < 0.5:
            return ('seq', consuming_path(rng, atoms, depth - 1), path(rng, atoms, depth - 1))
        return ('seq', path(rng, atoms, depth - 1), consuming_path(rng, atoms, depth - 1))
    return ('seq', ('test', test(rng, atoms)), consuming_path(rng, atoms, depth - 1))


def test(rng, atoms):
    return rng.choice([('atom', rng.choice(atoms)), ('atom', rng.choice(atoms)), ('true',), ('false',)])


def path(rng, atoms, depth):
    k = rng.random()
    if depth <= 0 or k < 0.25:
        return rng.choice([('skip',), ('patom', rng.choice(atoms)), ('test', test(rng, atoms))])
    if k < 0.45:
        return ('choice', path(rng, atoms, depth - 1), path(rng, atoms, depth - 1))
    if k < 0.7:
        return ('seq', path(rng, atoms, depth - 1), path(rng, atoms, depth - 1))
    if k < 0.88:
        return ('star', consuming_path(rng, atoms, depth - 1))
    return ('test', test(rng, atoms))


def dformula(rng, atoms, depth, pdepth=2):
    if depth <= 0 or rng.random() < 0.2:
        return rng.choice([('atom', rng.choice(atoms)), ('atom', rng.choice(atoms)), ('true',), ('false',), ('final',)])
    return (rng.choice(['dia', 'box']), path(rng, atoms, pdepth), dformula(rng, atoms, depth - 1, pdepth))


# ------------------------------------------------------------------------------------------------ context programs
def context_program(rng, atoms):
    """a small base program that makes many different traces possible (choices at every state) with some structure"""
    k = rng.random()
    rules = []
    if k < 0.5:
        rules.append({'part': 'always', 'head': ('choice', list(atoms)), 'body': []})
    elif k < 0.8:
        rules.append({'part': 'initial', 'head': ('choice', rng.sample(atoms, rng.randint(1, len(atoms)))), 'body': []})
        rules.append({'part': 'dynamic', 'head': ('choice', list(atoms)), 'body': []})
    else:
        rules.append({'part': 'always', 'head': ('choice', list(atoms[:-1]) or list(atoms)), 'body': []})
        rules.append({'part': 'dynamic', 'head': ('norm', atoms[-1], 0), 'body': [('p', ('patom', atoms[0], 1))]})
    if rng.random() < 0.3:
        rules.append(core_rule(rng, atoms))
    return rules


# ------------------------------------------------------------------------------------------------ related formulas
FLIP = {'next': 'wnext', 'wnext': 'next', 'prev': 'wprev', 'wprev': 'prev', 'until': 'release', 'release': 'until', 'since': 'trigger', 'trigger': 'since',
        'seqnext': 'seqwnext', 'seqwnext': 'seqnext', 'seqprev': 'seqwprev', 'seqwprev': 'seqprev', 'and': 'or', 'or': 'and', 'dia': 'box', 'box': 'dia',
        'initially': 'finally', 'finally': 'initially', 'choice': 'seq', 'seq': 'choice', 'true': 'false', 'false': 'true'}


def subformulas(f, acc=None, head_ok=None):
    acc = [] if acc is None else acc
    if isinstance(f, tuple) and f and isinstance(f[0], str):
        acc.append(f)
        for x in f[1:]:
            if isinstance(x, tuple):
                subformulas(x, acc)
    return acc


def sibling(rng, f, allowed=None):
    """f with one operator replaced by its weak/strong sibling or dual (a formula that shares most sub-formulas with f)"""
    nodes = []

    def walk(g, path):
        if isinstance(g, tuple) and g and isinstance(g[0], str):
            if g[0] in FLIP and (allowed is None or FLIP[g[0]] in allowed):
                nodes.append(path)
            for i, x in enumerate(g[1:], 1):
                walk(x, path + (i,))
    walk(f, ())
    if not nodes:
        return f
    path = rng.choice(nodes)

    def rep(g, pth):
        if not pth:
            return (FLIP[g[0]],) + tuple(g[1:])
        i = pth[0]
        return g[:i] + (rep(g[i], pth[1:]),) + g[i + 1:]
    return rep(f, path)


def leaf_variants(f, atoms):
    """every formula that differs from f in ONE place: an atom replaced by another atom, or the two operands of a binary operator exchanged
    (formulas whose textual representations are as close as two different formulas can be)"""
    out = []

    def walk(g, rebuild):
        if not (isinstance(g, tuple) and g and isinstance(g[0], str)):
            return
        if g[0] in ('atom', 'patom') and len(g) == 2 and isinstance(g[1], str):
            for x in atoms:
                if x != g[1]:
                    out.append(rebuild((g[0], x)))
            return
        if len(g) == 3 and g[0] not in ('dia', 'box') and all(isinstance(x, tuple) and x and isinstance(x[0], str) for x in g[1:]) and g[1] != g[2]:
            out.append(rebuild((g[0], g[2], g[1])))
        for i, x in enumerate(g[1:], 1):
            walk(x, lambda y, i=i, g=g: rebuild(g[:i] + (y,) + g[i + 1:]))
    walk(f, lambda y: y)
    seen, res = set(), []
    for g in out:
        if g != f and g not in seen:
            seen.add(g)
            res.append(g)
    return res


def consumes(p):
    """every run of the path takes at least one step"""
    t = p[0]
    if t in ('skip', 'patom'):
        return True
    if t == 'test' or t == 'star':
        return False
    if t == 'choice':
        return consumes(p[1]) and consumes(p[2])
    if t == 'seq':
        return consumes(p[1]) or consumes(p[2])
    return False


def normal_form(d):
    """documented normal form of &del formulas: iteration only over paths that consume a step"""
    if not isinstance(d, tuple):
        return True
    if d[0] == 'star' and not consumes(d[1]):
        return False
    return all(normal_form(x) for x in d[1:] if isinstance(x, tuple))


def related(rng, f, kind='tel'):
    g = related0(rng, f, kind)
    return g if (kind != 'del' or normal_form(g)) else f


def related0(rng, f, kind='tel'):
    """a formula related to f: f itself, a sub-formula, a sibling, or f seen late through a past operator"""
    k = rng.random()
    if k < 0.2:
        return f
    if k < 0.45:
        subs = [g for g in subformulas(f) if g[0] not in ('atom', 'skip', 'patom', 'test', 'choice', 'seq', 'star')]
        if kind == 'del':
            subs = [g for g in subs if g[0] in ('dia', 'box')]
        return rng.choice(subs) if subs else f
    if k < 0.8 or kind == 'del':
        return sibling(rng, f)
    return rng.choice([('initially', f), ('prev', None, f), ('since', None, f), ('seqprev', f, ('true',))])


def late_future(rng, atoms, depth=1):
    """a (counted) future formula that is FIRST reached when its target state already exists: n-fold next / until / release
    below enough past operators (the first translation then takes the 'inside the horizon' branch)"""
    n = rng.choice([1, 2, 2, 3])
    inner = formula(rng, atoms, depth, kw=None, nfold=0.0)
    k = rng.random()
    if k < 0.6:
        f = (rng.choice(['next', 'wnext']), rng.choice([n, n, '(%d+%d)' % (n - 1, 1)]) if n > 1 or rng.random() < 0.5 else None, inner)
    elif k < 0.8:
        f = (rng.choice(['until', 'release']), rng.choice([None, ('atom', rng.choice(atoms))]), inner)
    else:
        f = (rng.choice(['seqnext', 'seqwnext']), ('atom', rng.choice(atoms)), inner)
    for _ in range(rng.randint(1, 2)):
        w = rng.random()
        if w < 0.4:
            f = (rng.choice(['prev', 'wprev']), rng.choice([n, n + 1, 2, None]), f)
        elif w < 0.6:
            f = ('initially', f)
        elif w < 0.8:
            f = (rng.choice(['since', 'trigger']), None, f)
        else:
            f = (rng.choice(['seqprev', 'seqwprev']), f, ('atom', rng.choice(atoms)))
    return f


def revisit_family(atom='a'):
    """fixed family: a chain of next operators whose tail is still pending (n-fold next beyond the horizon) below a past operator, so that the
    same (sub-formula, state) is first translated when its target state exists already and is reached again at later solving steps / through a
    second parent, while its argument is still a placeholder"""
    q = ('atom', atom)
    chains = [('next', None, ('next', 2, q)), ('next', None, ('next', None, q)), ('next', None, ('next', None, ('next', None, q))), ('next', 2, ('next', 2, q)),
              ('wnext', None, ('next', 2, q)), ('next', None, ('wnext', 2, q)), ('until', None, ('next', 2, q)), ('next', None, ('release', None, ('next', None, q)))]
    past = [lambda g: ('prev', None, g), lambda g: ('prev', 2, g), lambda g: ('wprev', None, g), lambda g: ('since', None, g), lambda g: ('trigger', None, g), lambda g: ('initially', g),
            lambda g: ('or', ('prev', None, g), ('prev', 2, g)), lambda g: ('and', ('wprev', None, g), ('prev', None, ('wprev', None, g)))]
    return [w(c) for c in chains for w in past]


_A, _B = ('atom', 'a'), ('atom', 'b')
CONFUSABLE = [(('initially', _A), ('trigger', None, _A)), (('initially', _A), ('since', None, _A)), (('finally', _A), ('release', None, _A)), (('finally', _A), ('until', None, _A)),
              (('prev', None, _A), ('since', None, _A)), (('wprev', None, _A), ('trigger', None, _A)), (('next', None, _A), ('until', None, _A)), (('wnext', None, _A), ('release', None, _A)),
              (('seqprev', _A, _B), ('and', ('prev', None, _A), _B)), (('eqv', _A, _B), ('impl', _A, _B)), (('impr', _A, _B), ('since', _A, _B)), (('impl', _A, _B), ('until', _A, _B)),
              (('prev', 2, _A), ('prev', None, ('prev', None, _A))), (('not', ('not', _A)), _A)]


def sibling_pairs():
    """fixed family: a formula and every formula that differs from it in one weak / strong or dual flag"""
    import random as _r, json as _j
    a, b = ('atom', 'a'), ('atom', 'b')
    out = []
    for f in [('prev', None, a), ('wprev', None, a), ('prev', 2, a), ('next', None, a), ('wnext', None, a), ('next', 2, a), ('until', a, b), ('release', a, b), ('since', a, b), ('trigger', a, b),
              ('until', None, a), ('since', None, a), ('seqnext', a, b), ('seqprev', a, b), ('and', a, ('prev', None, b)), ('initially', a), ('or', ('wprev', None, a), ('wnext', None, b))]:
        sibs = set()
        for j in range(8):
            sibs.add(sibling(_r.Random(j), f))
        for g in sorted(sibs - {f}, key=_j.dumps):
            out.append((f, g))
    # ... and operators whose symbols share characters (<< and <*, >> and >*, < and <?, <: and <*, ...): two formulas whose texts are a character apart
    out += CONFUSABLE
    return out
