#!/bin/bash
# Robustness of the detection: every seeded change against the check of its property under several VERIF_SEED values.
# usage: harness/seedrobust.sh "<seeds>" <lanes>     prints one line per (change, seed); summary of misses at the end
VERIF=$(cd $(dirname $0)/.. && pwd)
SEEDS=${1:-"1 2 3"}; LANES=${2:-4}
OUT=$(mktemp -d /tmp/seedrobust.XXXX)
ALL=($VERIF/seeded/C*-mut1[3-6]*)
lane() {
  L=$1; WT=/tmp/seedrobust_wt_$$_$L
  git -C /repo worktree add -q -f $WT HEAD || exit 2
  # every lane works in its own copy of /verif (own regenerated Gen files, own build, own extracted driver): lanes must not see each other's changes
  V=/tmp/seedrobust_verif_$$_$L
  rm -rf $V; mkdir -p $V; (cd $VERIF && tar cf - --exclude=_build --exclude='*.vo' --exclude='*.vos' --exclude='*.vok' --exclude='*.glob' --exclude=.git --exclude=replays --exclude=seeded .) | (cd $V && tar xf -)
  (cd $V && ./check --setup > /dev/null 2>&1)
  for ((i=L; i<${#ALL[@]}; i+=LANES)); do
    D=${ALL[$i]}; ID=$(basename $D); P=${ID%%-*}
    git -C $WT checkout -q -- . ; git -C $WT clean -fdq
    if ! git -C $WT apply $D/patch.diff 2>/dev/null; then echo "$ID: patch does not apply" >> $OUT/$L; continue; fi
    OWNER=$(/venv/bin/python -c "import json;m=json.load(open('$D/meta.json'));print(m.get('check_with') or m.get('property','$P').split(',')[0].strip()[:3])")
    for S in $SEEDS; do
      R=$(cd $V && VERIF_SEED=$S TELINGO_REPO=$WT ./check $OWNER 2>&1 | grep -E "^VIOLATION|^OK|^HARNESS" | head -1 | cut -c1-60)
      echo "$ID [$OWNER] seed $S: $R" >> $OUT/$L
    done
  done
  git -C /repo worktree remove --force $WT
  rm -rf $V
}
for ((l=0; l<LANES; l++)); do lane $l & done
wait
cat $OUT/* | sort
echo "== not reported as a violation:"
cat $OUT/* | grep -v ": VIOLATION" | sort
rm -rf $OUT; rm -f $VERIF/replays/*.json
