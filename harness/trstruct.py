"""Structural correspondence for the program transformer on the core fragment: Model/CoreRun.transform (extracted, driver command `ctr`)
against telingo.transformers.transform - rule by rule: program part, head, and the body literals with their signs and time terms
(__t, __t-n, 0, the markers __initial(__t) / __final(__t)); bodies are compared as multisets (the model puts the __final literal of final
rules first, telingo appends it); the trailer of the rewritten program (__initial(__t) in part initial, #external __final(__t) in part
always) is compared with its expected text."""
import re, json
import lang

CORE_HEADS = ('norm', 'disj', 'choice', 'cons')


def in_fragment(rules):
    for r in rules:
        if r['head'][0] not in CORE_HEADS or (r['head'][0] == 'norm' and r['head'][2] != 0):
            return False
        for s, b in r['body']:
            if b[0] == 'kw' and b[1] not in ('initial', 'final'):
                return False
            if b[0] not in ('patom', 'iatom', 'kw'):
                return False
    return True


def model_line(rules, A):
    toks = [str(len(rules))]
    for r in rules:
        part = {'initial': 'I', 'base': 'I', 'always': 'A', 'dynamic': 'D', 'final': 'F'}[r['part']]
        h = r['head']
        if h[0] == 'norm':
            hd = 'n %d' % A.id(h[1])
        elif h[0] == 'disj':
            hd = 'd %d %s' % (len(h[1]), ' '.join(str(A.id(a)) for a in h[1]))
        elif h[0] == 'choice':
            hd = 'c %d %s' % (len(h[1]), ' '.join(str(A.id(a)) for a in h[1]))
        else:
            hd = 'x'
        body = []
        for s, b in r['body']:
            if b[0] == 'patom':
                body.append('%s at %d %d' % (s, A.id(b[1]), b[2]))
            elif b[0] == 'iatom':
                body.append('%s in %d' % (s, A.id(b[1])))
            else:
                body.append('%s %s' % (s, 'kI' if b[1] == 'initial' else 'kF'))
        toks.append('%s %s %d %s' % (part, hd, len(body), ' '.join(body)))
    return 'ctr ' + ' '.join(toks)


ATOM = re.compile(r'^(not not |not )?([a-z_][A-Za-z0-9_]*)\((.*)\)$')


def tterm(t):
    t = t.replace(' ', '')
    if t == '__t':
        return 't-0'
    m = re.match(r'^\(__t\+-(\d+)\)$', t) or re.match(r'^\(__t-(\d+)\)$', t)
    if m:
        return 't-%d' % int(m.group(1))
    if t == '0':
        return '0'
    return '?' + t


def canon_lit(txt, A):
    m = ATOM.match(txt.strip())
    if not m:
        return '?' + txt
    s = {'not not ': 'm', 'not ': 'n', None: 'p'}[m.group(1)]
    name, arg = m.group(2), m.group(3)
    if name == '__initial' and arg == '__t':
        return s + 'I'
    if name == '__final' and arg == '__t':
        return s + 'F'
    return '%sU%d@%s' % (s, A.id(name), tterm(arg))


def canon_impl(stmts, A):
    """telingo's rewritten statements (text) -> list of 'part | head | sorted body' and the trailer"""
    out, part = [], None
    for st in stmts:
        if st.startswith('%') or st.startswith('#theory'):
            continue
        m = re.match(r'^#program (\w+)\(__t, __u\)\.$', st)
        if m:
            part = m.group(1)
            continue
        if st.startswith('#external'):
            out.append('%s | external | %s' % (part, st))
            continue
        body = ''
        head = st[:-1]
        if ' :- ' in head:
            head, body = head.split(' :- ', 1)
        elif head.startswith(':- '):
            head, body = '#false', head[3:]
        lits = sorted(canon_lit(x, A) for x in body.split('; ')) if body else []
        if head == '#false':
            hd = 'x'
        elif head.startswith('{'):
            hd = 'c ' + ','.join(str(A.id(ATOM.match(x.strip()).group(2))) for x in head[1:-1].split(';') if x.strip())
        elif '; ' in head:
            hd = 'd ' + ','.join(str(A.id(ATOM.match(x.strip()).group(2))) for x in head.split('; '))
        else:
            m2 = ATOM.match(head.strip())
            hd = ('n %d' % A.id(m2.group(2)) if m2 and tterm(m2.group(3)) == 't-0' else '?' + head)
            if m2 and m2.group(2) == '__initial':
                hd = 'marker-initial'
        out.append('%s | %s | %s' % (part, hd, ' '.join(lits)))
    return out


def canon_model(ans):
    out = []
    for r in ans.split(' ;; '):
        part, hd, body = [x.strip() for x in r.split(' | ')]
        lits = sorted(x.replace('@t-0', '@t-0') for x in body.split())
        out.append('%s | %s | %s' % (part, hd, ' '.join(lits)))
    return out


TRAILER = ['initial | marker-initial | ', 'always | external | #external __final(__t). [false]']


def compare(ctx, progs):
    """progs: list of rule lists inside the core fragment; one record per program"""
    As = [lang.atoms_of(p) for p in progs]
    impl = ctx.impl().run([{'cmd': 'transform', 'texts': [lang.prog_txt(p)]} for p in progs], timeout=20)
    mod = ctx.model().run([model_line(p, A) for p, A in zip(progs, As)], timeout=20)
    out = []
    for p, A, a, m in zip(progs, As, impl, mod):
        rec = {'program': lang.prog_txt(p), 'status': 'agree'}
        if a.get('status') != 'ok':
            rec.update(status='implerror', what=json.dumps({k: a.get(k) for k in ('status', 'type', 'msg')}))
        elif m is None or m.startswith('error'):
            rec.update(status='modelerror', what=str(m))
        else:
            ci, cm = canon_impl(a['stmts'], A), canon_model(m)
            body, trailer = ci[:len(ci) - len(TRAILER)], ci[len(ci) - len(TRAILER):]
            if trailer != TRAILER:
                rec.update(status='differ', what='trailer of the rewritten program is %s' % trailer)
            elif body != cm:
                k = next((i for i in range(min(len(body), len(cm))) if body[i] != cm[i]), min(len(body), len(cm)))
                rec.update(status='differ', what='rule %d: telingo `%s`, model `%s`' % (k, body[k] if k < len(body) else None, cm[k] if k < len(cm) else None))
        out.append(rec)
    return out
