"""C01 — core temporal rules yield exactly the temporal stable models at every horizon.
Theorems: coq/Props/C01.v.  Correspondence S4: answer sets of the real pipeline at every horizon 0..H of one incremental
run vs Oracle.tsm_enum (extracted) on the same program: exhaustive one-rule programs (head form x body literal form x
part, in two contexts) plus random 1-4 rule programs."""
import json
import gen, s4, lang, trstruct

PROP_FILE = 'Props/C01.v'
GROUPS = ['imain']
LEAF_LEMMAS = ['part_selected_gen_spec']
ASSUMPTIONS = ['gringo instantiates the time parameters and simplifies against the atom base as modelled (G1, G2); clasp returns exactly the stable models (G4)',
               'the brute-force oracle is used while atoms x states <= the bit bound stated in the coverage; larger cases are skipped and counted']
ATOMS = ['a', 'b', 'c']


def programs(ctx):
    rng = ctx.rng('programs')
    progs = [('exhaustive', p) for p in gen.exhaustive_core()]
    n = 400 if ctx.quick else 1500
    for i in range(n):
        atoms = ATOMS[:rng.choice([2, 3, 3])]
        progs.append(('random', gen.core_program(rng, atoms, (1, 4))))
    return progs


# the final part is the always part guarded by &final - for every statement that has a body, not for rules only: each statement below, written in
# `#program final.`, against the same statement in `#program always.` with `&final` added to its body (answer sets and shown atoms)
FINAL_BASE = '#program always.\n{ p; q }.\n'
FINAL_STATEMENTS = [('r :- p.', 'r :- p, &final.'), (':- p, not q.', ':- p, not q, &final.'), ('{ r } :- q.', '{ r } :- q, &final.'), ('r ; s :- not p.', 'r ; s :- not p, &final.'),
                    ('#show goal : p.', '#show goal : p, &final.'), ('#show goal(q) : q, not p.', '#show goal(q) : q, not p, &final.'), ('r :- \'p.\n#show r/0.', 'r :- \'p, &final.\n#show r/0.'),
                    ('not r :- p.\n{ r }.', 'not r :- p, &final.\n{ r } :- &final.'), ('#show.\n#show p : p.', '#show.\n#show p : p, &final.'), ('r :- #count { 1 : p ; 2 : q } > 1.', 'r :- #count { 1 : p ; 2 : q } > 1, &final.')]


PART_LAWS = [('initial', '&initial'), ('dynamic', 'not &initial')]
PART_STATEMENTS = [('r :- p.', 'r :- p, {G}.'), (':- p, not q.', ':- p, not q, {G}.'), ('{ r } :- q.', '{ r } :- q, {G}.'), ('r ; s :- not p.', 'r ; s :- not p, {G}.'), ('#show goal : p.', '#show goal : p, {G}.'),
                   ("r :- 'p.\n#show r/0.", "r :- 'p, {G}.\n#show r/0.")]


def part_law_pairs():
    pairs = [('final', FINAL_BASE + '#program final.\n' + a + '\n', FINAL_BASE + '#program always.\n' + b + '\n') for a, b in FINAL_STATEMENTS]
    for part, guard in PART_LAWS:
        for a, b in PART_STATEMENTS:
            if part == 'initial' and "'p" in a:
                continue
            pairs.append((part, FINAL_BASE + '#program %s.\n' % part + a + '\n', FINAL_BASE + '#program always.\n' + b.replace('{G}', guard) + '\n'))
    return pairs


def final_cases(ctx, H, pairs=None):
    import meta
    pairs = part_law_pairs() if pairs is None else pairs
    inputs = []
    for _, t1, t2 in pairs:
        inputs += [[t1], [t2]]
    res = meta.answer_sets(ctx, inputs, H, timeout=60)
    cex = []
    for i, (part, t1, t2) in enumerate(pairs):
        if not meta.same(res[2 * i], res[2 * i + 1]):
            cex.append({'key': 'c01:part-law:' + t1.replace('\n', ' '), 'what': 'a statement in the %s part and the same statement in the always part with the guard of that part in its body differ: %s' % (
                part, json.dumps(meta.first_diff(res[2 * i], res[2 * i + 1]))), 'input': {'part_law': [part, t1, t2], 'H': H, 'program': t1}})
    return cex, len(inputs)


def run(ctx):
    H = 3 if ctx.quick else 4
    maxbits = 12 if ctx.quick else 13
    progs = programs(ctx)
    recs = s4.compare(ctx, [p for _, p in progs], H, maxbits)
    res = summarize(ctx, progs, recs, H, maxbits, 'C01')
    # structural correspondence: the rewritten rules of telingo's transformer against Model/CoreRun.transform, rule by rule
    sp = [p for _, p in progs if trstruct.in_fragment(p)]
    srecs = trstruct.compare(ctx, sp)
    sstat = {}
    for p, r in zip(sp, srecs):
        sstat[r['status']] = sstat.get(r['status'], 0) + 1
        if r['status'] != 'agree':
            res['counterexamples'].append({'key': 'c01:transform:' + r['program'].replace('\n', ' '), 'what': 'transform() and Model/CoreRun.transform differ: %s' % r.get('what'),
                                           'input': {'transform_rules': p, 'program': r['program']}})
    # atoms with arguments (primes, classical negation and the time stamp around argument lists): the programs with their atoms renamed against the programs themselves
    import meta
    rcex, rnon = meta.renaming_cex(ctx, [p for _, p in progs][:40 if ctx.quick else 200], H, 'C01')
    res['counterexamples'] += rcex
    res['coverage']['renamed_programs_with_answer_sets'] = rnon
    fcex, fn = final_cases(ctx, 3)
    res['counterexamples'] += fcex
    res['coverage']['evaluations'] += fn
    res['coverage']['evaluations'] += len(srecs)
    res['coverage']['transform_structure_status'] = sstat
    res['coverage']['rule'] += '; structure: the rewritten statements of transformers.transform for the %d programs inside the fragment of Model/CoreRun.v compared rule by rule (part, head, signed body literals with time terms, trailer) with the extracted model' % len(srecs)
    return res


def summarize(ctx, progs, recs, H, maxbits, prop, nontrivial_extra=None):
    cex = []
    stat = {}
    nontriv = set()
    kinds = {}
    for (kind, p), r in zip(progs, recs):
        stat[r['status']] = stat.get(r['status'], 0) + 1
        kinds[kind] = kinds.get(kind, 0) + 1
        if r['status'] == 'agree' and r['models'] > 0:
            nontriv.add(r['program'])
        if r['status'] in ('differ', 'implerror', 'oracleerror'):
            cex.append((p, r))
    out = []
    for p, r in cex[:3]:
        small = s4.shrink_rules(ctx, p, H, s4.differs(ctx, H, maxbits), maxbits)
        r2 = s4.compare(ctx, [small], H, maxbits)[0]
        if r2['status'] not in ('differ', 'implerror'):
            r2, small = r, p
        what = ('answer sets at horizon %d differ from the temporal stable models' % r2.get('horizon', -1)) if r2['status'] == 'differ' \
            else 'pipeline fails: %s' % json.dumps(r2.get('error'))
        out.append({'key': 's4:' + r2['program'].replace('\n', ' '), 'what': what,
                    'input': {'program': r2['program'], 'horizon': r2.get('horizon'), 'rules': small, 'H': H, 'maxbits': maxbits},
                    'expected': r2.get('expected'), 'got': r2.get('got'), 'oracle': 'Oracle.tsm_enum (extracted from Coq)'})
    for p, r in cex[3:10]:
        out.append({'key': 's4:' + r['program'].replace('\n', ' '), 'what': 'differs', 'input': {'program': r['program'], 'horizon': r.get('horizon'), 'rules': p, 'H': H, 'maxbits': maxbits},
                    'expected': r.get('expected'), 'got': r.get('got')})
    cov = {'evaluations': len(recs), 'distinct_nontrivial': len(nontriv),
           'rule': 'programs from the seeded generators (kinds: %s); each is run through telingo+clingo for horizons 0..%d in ONE incremental run and compared, '
                   'horizon by horizon and with multiplicity, with the oracle while atoms x states <= %d; distinct = distinct program text; non-trivial = agreeing '
                   'program with at least one temporal stable model at some compared horizon' % (json.dumps(kinds), H, maxbits),
           'status_histogram': stat, 'horizons_compared': sum(r['horizons'] for r in recs), 'stable_models_compared': sum(r['models'] for r in recs),
           'samples': [{'program': recs[i]['program'], 'status': recs[i]['status'], 'models': recs[i]['models']} for i in (0, len(recs) // 2, len(recs) - 1)]}
    return {'counterexamples': out, 'coverage': cov}


def replay(ctx, payload):
    inp = payload['input']
    if 'renaming' in inp:
        import meta
        return meta.renaming_replay(ctx, payload)
    if 'part_law' in inp:
        return bool(final_cases(ctx, inp.get('H', 3), [tuple(inp['part_law'])])[0])
    if 'transform_rules' in inp:
        return trstruct.compare(ctx, [inp['transform_rules']])[0]['status'] != 'agree'
    r = s4.compare(ctx, [inp['rules']], inp.get('H', 3), inp.get('maxbits', 12), default_config=bool(inp.get('default_config')))[0]
    return r['status'] in ('differ', 'implerror')
