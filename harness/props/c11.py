"""C11 — unsupported placements of temporal constructs are rejected, all others accepted.
Theorems: coq/Props/C11.v over decisions regenerated from transformers/{program,transformer,term}.py.
Correspondence S1 (telingo.transformers.transform): EXHAUSTIVE table syntactic position x atom form x program part; outcome class,
diagnostic class and location, and for accepted atoms the rewritten atom (time term, __future_ renaming, look-ahead part) are compared
with the extracted model (Model/Ctx.decide).  Theory atoms: context x sign table, element arity, primes inside formulas, head operators."""
import json, re

PROP_FILE = 'Props/C11.v'
GROUPS = ['transformers', 'loc']
LEAF_LEMMAS = ['flags_spec', 'shift_of_spec', 'tel_ctx_spec', 'literal_flags_spec', 'lookahead_part_spec', 'initially_spec']
ASSUMPTIONS = ['clingo parses the statement templates as the AST node types named in the table (checked: every template is accepted for the plain atom form)',
               'the traversal model (which flags a position sees) is hand-written and tied by this exhaustive table only']

# shape = (is_rule, head_is_literal, atom_is_boolconst, atom_is_symbolic, value, nosign)
NORMAL = (1, 1, 0, 1, 0, 1)
NONLIT = (1, 0, 0, 0, 0, 1)
CONSTR = (1, 1, 1, 0, 0, 1)
NEGHD = (1, 1, 0, 1, 0, 0)
NORULE = (0, 0, 0, 0, 0, 1)
TRUEHD = (1, 1, 1, 0, 1, 1)      # `#true :- ...` : a Boolean constant head that is not a constraint
POSITIONS = [
    ('normal_head', '{X} :- q.', NORMAL, 'HL'), ('fact', '{X}.', NORMAL, 'HL'),
    ('disj_elem', '{X} ; r :- q.', NONLIT, 'HE1'), ('disj_elem_not', 'not {X} ; r :- q.', NONLIT, 'HE0'),
    ('disj_cond', 'r : {X} ; s :- q.', NONLIT, 'HC1'), ('disj_cond_not', 'r : not {X} ; s :- q.', NONLIT, 'HC0'),
    ('choice_elem', '{{ {X} }} :- q.', NONLIT, 'HE1'), ('choice_cond', '{{ r : {X} }} :- q.', NONLIT, 'HC1'),
    ('head_agg_elem', '1 <= #count {{ 1 : {X} : r }} :- q.', NONLIT, 'HE1'), ('head_agg_cond', '1 <= #count {{ 1 : r : {X} }} :- q.', NONLIT, 'HC1'),
    ('body_pos', 'r :- {X}.', NORMAL, 'BL1'), ('body_not', 'r :- not {X}.', NORMAL, 'BL0'), ('body_notnot', 'r :- not not {X}.', NORMAL, 'BL0'),
    ('body_of_disj', 'r ; s :- {X}.', NONLIT, 'BL1'), ('body_of_choice', '{{ r }} :- not {X}.', NONLIT, 'BL0'),
    ('body_condlit', 'r :- {X} : q.', NORMAL, 'BL1'), ('body_condcond', 'r :- q : {X}.', NORMAL, 'BC1'),
    ('body_agg', 'r :- 1 <= #count {{ 1 : {X} }}.', NORMAL, 'BL1'), ('body_agg_not', 'r :- 1 <= #count {{ 1 : not {X} }}.', NORMAL, 'BL0'),
    ('true_head_body', '#true :- {X}.', TRUEHD, 'BL1'),
    ('neg_head', 'not {X} :- q.', NEGHD, 'HL'), ('notnot_head', 'not not {X} :- q.', NEGHD, 'HL'), ('neg_head_body', 'not r :- {X}.', NEGHD, 'BL1'),
    ('neg_head_fact', 'not {X}.', NEGHD, 'HL'), ('notnot_head_fact', 'not not {X}.', NEGHD, 'HL'),          # negative head without a body: a constraint all the same
    ('constraint_body', ':- {X}, q.', CONSTR, 'BL1'), ('constraint_not', ':- not {X}.', CONSTR, 'BL0'), ('constraint_cond', ':- q : {X}.', CONSTR, 'BC1'),
    ('constraint_agg', ':- 1 <= #count {{ 1 : {X} }}.', CONSTR, 'BL1'), ('constraint_theory_cond', ':- not &tel {{ r : {X} }}.', CONSTR, 'BC1'),
    ('rule_theory_cond', 's :- not &tel {{ r : {X} }}.', NORMAL, 'BC1'),
    ('external_atom', '#external {X}.', NORULE, 'BL1'), ('external_body', '#external r : {X}.', NORULE, 'BL1'),
    ('show_body', '#show r : {X}.', NORULE, 'BL1'), ('weak_body', ':~ {X}. [1]', NORULE, 'BL1'), ('minimize', '#minimize {{ 1 : {X} }}.', NORULE, 'BL1'),
]
# atom forms: (text, lead, stem length, trail, initially, stem name for the rewritten atom, classically negated, arguments)
FORMS = [
    ('p', 0, 1, 0, 0, 'p'), ("'p", 1, 1, 0, 0, 'p'), ("''p", 2, 1, 0, 0, 'p'), ("p'", 0, 1, 1, 0, 'p'), ("p''", 0, 1, 2, 0, 'p'), ("p'''", 0, 1, 3, 0, 'p'),
    ('_p', 0, 2, 0, 1, 'p'), ("'p''", 1, 1, 2, 0, 'p'), ("''p'", 2, 1, 1, 0, 'p'), ("'p'", 1, 1, 1, 0, 'p'), ("'''p'", 3, 1, 1, 0, 'p'),
    ("p'q", 0, 3, 0, 0, "p'q"), ("'p'q", 1, 3, 0, 0, "p'q"), ("p'q'", 0, 3, 1, 0, "p'q"), ('__p', 0, 3, 0, 0, '__p'), ("__p'", 0, 3, 1, 0, '__p'), ("'__p", 1, 3, 0, 0, '__p'),
    ('-p', 0, 1, 0, 0, '-p'), ("-'p", 1, 1, 0, 0, '-p'), ("-p'", 0, 1, 1, 0, '-p'), ('-_p', 0, 2, 0, 1, '-p'),
    ("p(1)", 0, 1, 0, 0, 'p(1'), ("'p(1)", 1, 1, 0, 0, 'p(1'), ("p'(1)", 0, 1, 1, 0, 'p(1'), ('_p(1)', 0, 2, 0, 1, 'p(1'),
    # names with underscores inside and with TWO underscores at the end (one leading underscore is the initially marker, two underscores at either end are part of the name)
    ('p__', 0, 3, 0, 0, 'p__'), ("p__'", 0, 3, 1, 0, 'p__'), ("'p__", 1, 3, 0, 0, 'p__'), ('p_q', 0, 3, 0, 0, 'p_q'), ('__p__', 0, 5, 0, 0, '__p__'), ('-p__', 0, 3, 0, 0, '-p__'),
]
PARTS = ['always', 'final', 'initial', 'dynamic']


def expected_atom(form, verdict):
    """the rewritten atom text for an accepted atom"""
    _, r, la, ts, tz = verdict
    stem = form[5]
    neg = stem.startswith('-')
    name = stem[1:] if neg else stem
    args = ''
    if '(' in name:
        name, args = name.split('(')
        args += ','
    t = '0' if tz else ('__t' if ts == 0 else '(__t+%d)' % ts)
    if r:
        return '%s%s%s(%s%d,%s)' % ('-' if neg else '', '__future_', name, args, ts, t)
    return '%s%s(%s%s)' % ('-' if neg else '', name, args, t)


def classify(ans):
    if ans.get('status') == 'ok':
        return 'accept'
    if ans.get('type') == 'RuntimeError':
        m = ans.get('msg', '')
        if 'future atoms not supported' in m:
            return 'reject-future'
        if 'past atoms not supported' in m:
            return 'reject-past'
        return 'reject-other:' + m.split(':')[0]
    return 'internal:' + str(ans.get('type', ans.get('status')))


CONSTRAINT_POS = {'neg_head', 'notnot_head', 'neg_head_fact', 'notnot_head_fact', 'neg_head_body', 'constraint_body', 'constraint_not', 'constraint_cond', 'constraint_agg', 'constraint_theory_cond'}
POS_HEAD_NONNORMAL = {'disj_elem', 'choice_elem', 'head_agg_elem'}


def property_class(position, form):
    """the property's own reading, independent of the regenerated decisions (which a change of the source would drag along):
    future atoms only in normal-rule heads and anywhere in constraints (rules with a negative head count as constraints); past and
    initially atoms not in positive head positions"""
    pos = position.split('@')[0]
    net = form[3] - form[1]
    past = net < 0 or form[4] == 1
    if pos in CONSTRAINT_POS:
        return 'accept'
    if pos in ('normal_head', 'fact'):
        return 'reject-past' if past else 'accept'
    if pos in POS_HEAD_NONNORMAL:
        return 'reject-future' if net > 0 else ('reject-past' if past else 'accept')
    return 'reject-future' if net > 0 else 'accept'


PRECEDING = ['', ':- zz1, zz2.\n', 'not zz1 :- zz2.\n', 'zz1 :- zz2.\n', 'zz1 ; zz2 :- zz3.\n', "zz1' :- zz2.\n", ":- zz1, zz2'.\n",
             # the SAME names, in every prime form, at placements where they are allowed (a decision about one occurrence must not be reused for another)
             ":- p', p'', 'p, ''p, _p, p, -p', -'p, not p'''.\n", "p' :- zz1.\np'' :- zz2.\n-p' :- zz3.\np :- 'p, _p, -'p.\n"]


def table(ctx):
    """every position x form x part, alone and preceded by statements of other kinds (flags must not leak between statements)"""
    rows = []
    parts = PARTS if not ctx.quick else ['always', 'final']
    for part in parts:
        for pname, tmpl, shape, place in POSITIONS:
            for form in FORMS:
                for pi, pre in enumerate(PRECEDING if part == 'always' else PRECEDING[:1]):
                    if pi > 0 and ctx.quick and form[0] not in ('p', "'p", "p'", '_p', "''p'", "-p'"):
                        continue
                    text = '#program %s.\n%s%s\n' % (part, pre, tmpl.format(X=form[0]))
                    line = 'ctx %s %s %d %d %d %d' % (' '.join(str(b) for b in shape), place, form[1], form[2], form[3], form[4])
                    rows.append({'part': part, 'position': pname + ('' if pi == 0 else '@after:' + pre.strip()), 'form': form[0], 'text': text, 'line': line, 'f': form})
    return rows


THEORY = [
    # (name, text, expected class)
    ('tel_body_pos_rule', 'r :- &tel { a }.', 'reject'), ('tel_body_not_rule', 'r :- not &tel { a }.', 'accept'), ('tel_body_notnot_rule', 'r :- not not &tel { a }.', 'accept'),
    ('tel_constraint_pos', ':- &tel { a }.', 'accept'), ('tel_constraint_not', ':- not &tel { a }.', 'accept'), ('tel_neghead_body', 'not r :- &tel { a }.', 'accept'),
    ('tel_disj_body', 'r ; s :- &tel { a }.', 'reject'), ('tel_choice_body', '{ r } :- &tel { a }.', 'reject'), ('tel_choice_body_not', '{ r } :- not &tel { a }.', 'accept'),
    ('del_body_pos_rule', 'r :- &del { a .>? b }.', 'reject'), ('del_body_not_rule', 'r :- not &del { a .>? b }.', 'accept'), ('del_constraint_pos', ':- &del { a .>? b }.', 'accept'),
    ('tel_two_terms', ':- not &tel { a, b }.', 'reject'), ('tel_two_elements', ':- not &tel { a; b }.', 'accept'), ('tel_cond', ':- not &tel { a : q }.', 'accept'),
    ('tel_head', '&tel { a }.', 'accept'), ('tel_head_body', '&tel { a | > b } :- q.', 'accept'),
    ('tel_head_past_op', '&tel { < a }.', 'reject'), ('tel_head_since', '&tel { a <? b }.', 'reject'), ('tel_head_impl', '&tel { a -> b }.', 'reject'), ('tel_head_eqv', '&tel { a <> b }.', 'reject'),
    ('tel_head_two_terms', '&tel { a, b }.', 'reject'), ('tel_head_prime_trail', "&tel { a' }.", 'reject'), ('tel_head_prime_lead', "&tel { 'a }.", 'reject'), ('tel_head_prime_nested', "&tel { b | > a' }.", 'reject'),
    ('tel_head_atom_named_final', '&tel { > final }.', 'accept'), ('tel_head_atoms_named_like_keywords', '&tel { true | initial ;> false }.', 'accept'), ('tel_body_atoms_named_like_keywords', ':- not &tel { final & < true }.', 'accept'),
    ('del_atoms_named_like_keywords', ':- not &del { true .>? final }.', 'accept'),
    ('future_head_cond_body', "p' :- r : q.", 'accept'), ('future_head_cond_body_vars', "p'(X) :- d(X), r(Y) : d(Y).", 'accept'), ('future_head_agg_body', "p' :- 1 <= #count { 1 : q ; 2 : r }.", 'accept'),
    ('neg_future_head_cond_body', "-p'' :- not r : q.", 'accept'), ('future_in_cond_of_rule', "s :- r : q'.", 'reject'), ('future_in_cond_of_constraint', ":- r : q'.", 'accept'),
    ('tel_cond_rule', 'r :- not &tel { a : q }.', 'accept'), ('tel_cond_rule_notnot', 'r :- not not &tel { > a : q, b }.', 'accept'), ('tel_cond_choice', '{ r } :- not &tel { a : q }.', 'accept'),
    ('del_cond_rule', 'r :- not &del { a .>? b : q }.', 'accept'), ('tel_cond_rule_pos', 'r :- &tel { a : q }.', 'reject'), ('tel_cond_show', '#show r : not &tel { a : q }.', 'accept'),
    ('tel_cond_two_elements', 'r :- not &tel { a : q ; > b : not q }.', 'accept'),
    ('tel_head_prime_args', "&tel { p'(X) } :- q(X).", 'reject'), ('tel_head_prime_lead_args', "&tel { > 'p(1,2) } :- q.", 'reject'), ('tel_head_prime_neg_args', "&tel { b | -p'(1) } :- q.", 'reject'),
    ('tel_head_two_terms_next', '&tel { a, > b } :- q.', 'reject'), ('tel_head_cond_two', '&tel { > a : b ; >> c }.', 'reject'),
    ('tel_head_inner_prime', "&tel { a'b }.", 'accept'), ('del_two_terms', ':- not &del { a .>? b, b }.', 'reject'), ('del_two_elements', ':- not &del { a .>? b ; &true .>* b }.', 'accept'), ('del_cond', ':- not &del { a .>? b : q }.', 'accept'), ('tel_head_cond', '&tel { a : q }.', 'reject'),
    ('tel_body_prime_lead', ":- not &tel { 'a }.", 'reject-solve'), ('tel_body_prime_trail', ":- not &tel { a' }.", 'reject-solve'), ('tel_body_inner_prime', ":- not &tel { a'b }.", 'accept-solve'),
]


def whole_rules():
    A_, F_ = ('atom', 'a'), ('next', None, ('atom', 'b'))
    heads = [('norm', 'a', 0), ('norm', 'a', 1), ('norm', 'a', 2), ('disj', ['a', 'b']), ('choice', ['a', 'b']), ('cons',), ('tel', ('or', A_, F_))]
    lits = [('patom', 'b', 0), ('patom', 'b', 1), ('patom', 'b', 3), ('fatom', 'b', 1), ('fatom', 'b', 2), ('iatom', 'b'), ('kw', 'initial'), ('kw', 'final'), ('tel', ('prev', None, A_)), ('del', ('dia', ('skip',), A_))]
    out = []
    for part in ('initial', 'always', 'dynamic', 'final'):
        for h in heads:
            for l in lits:
                for s in 'pnm':
                    out.append([{'part': part, 'head': h, 'body': [(s, l)]}])
            out.append([{'part': part, 'head': h, 'body': [('p', ('patom', 'b', 0)), ('n', ('fatom', 'b', 1)), ('m', ('tel', A_))]}])
    return out


# rejected constructs that span several lines (the end line is part of the location)
MULTILINE = ["#program always.\n{ p'(1,\n 2) }.\n", "#program always.\n&tel { a\n -> b }.\n", "#program always.\nq :- &tel {\n a }.\n", "#program always.\n'p(1,\n2).\n",
             "#program always.\nq :- not p'(1,\n\n 2), r.\n", "#program always.\n&tel { a,\n b }.\n", "#program always.\n&tel { < \n\n a }.\n", "#program always.\nq ;\n _p(1\n,2).\n",
             "#program always.\n:- not &tel { a,\n b }.\n", "#program always.\nq :- &del { a\n .>? b }.\n"]
LOC_RE = re.compile(r'(<string>:\d+:\d+(?:-[\d:]+)?)\s*$')


def located(ctx, items):
    """items: (text, diagnostic).  None where the location at the end of the diagnostic is the rendering of a node location of the text, else what is wrong"""
    locs = ctx.impl().run([{'cmd': 'locations', 'text': t} for t, _ in items], timeout=30)
    lines, spans = [], []
    for l in locs:
        ls = [x for x in (l.get('locs') or []) if x[0] == '<string>' and x[3] == '<string>']
        spans.append((len(lines), len(lines) + len(ls)))
        lines += ['loc 0 %d %d 0 %d %d' % (x[1], x[2], x[4], x[5]) for x in ls]
    rend = ctx.model().run(lines, timeout=60) if lines else []
    out = []
    for (t, msg), (i, j) in zip(items, spans):
        m = LOC_RE.search(msg)
        names = {(r or '').replace('F0', '<string>') for r in rend[i:j]}
        if not m:
            out.append('diagnostic carries no source location: %s' % msg)
        elif m.group(1) not in names:
            out.append('the location %s of the diagnostic %r is not the location of any construct of the text (locations of the syntax tree, rendered in the documented shape, Model/Loc.loc_shape: %s)' % (m.group(1), msg, sorted(names)[:12]))
        else:
            out.append(None)
    return out


def run(ctx):
    rows = table(ctx)
    impl = ctx.impl().run([{'cmd': 'transform', 'texts': [r['text']]} for r in rows], timeout=20)
    mod = ctx.model().run([r['line'] for r in rows], timeout=20)
    cex, hist = [], {}
    for r, a, m in zip(rows, impl, mod):
        got = classify(a)
        want = (m or 'model-error').split()[0]
        # the initially form combined with primes is rejected earlier by the code ("cannot be used with primes"); not generated here
        hist[want] = hist.get(want, 0) + 1
        bad = None
        prop = property_class(r['position'], r['f'])
        if got != prop:
            bad = 'position %s, form %s, part %s: telingo %s, the property says %s' % (r['position'], r['form'], r['part'], got, prop)
        elif got != want:
            bad = 'position %s, form %s, part %s: telingo %s, property/model %s' % (r['position'], r['form'], r['part'], got, want)
        elif got == 'accept':
            v = m.split()
            exp = expected_atom(r['f'], ('accept', v[1] == '1', v[2] == '1', int(v[3]), v[4] == '1'))
            stm = [s for s in a['stmts'] if not s.startswith('%') and '#theory' not in s]
            if not any(exp in s for s in stm):
                bad = 'position %s, form %s, part %s: rewritten atom %s not found in %s' % (r['position'], r['form'], r['part'], exp, json.dumps(stm[:6]))
            elif v[2] == '1' and r['part'] != 'final' and not any(re.search(r'_0_%d$' % (int(v[3]) - 1), p[1]) for p in a['parts']):
                bad = 'position %s, form %s: look-ahead %s but no regrounding part in %s' % (r['position'], r['form'], v[3], json.dumps(a['parts']))
        elif got.startswith('reject') and not re.search(r':\d+:\d+', a.get('msg', '')):
            bad = 'position %s, form %s: diagnostic carries no source location: %s' % (r['position'], r['form'], a.get('msg'))
        if bad:
            cex.append({'key': 'c11:%s:%s:%s' % (r['position'], r['form'], r['part']), 'what': bad, 'input': {'text': r['text'], 'line': r['line'], 'position': r['position'], 'form': r['form']}})
    # theory atoms
    treqs, tnames = [], []
    for part in ('always', 'final'):
        for name, text, exp in THEORY:
            t = '#program %s.\n{a;b;q}.\n%s\n' % (part, text)
            treqs.append({'cmd': 'solve', 'texts': [t], 'imax': 2, 'istop': 'UNKNOWN'} if exp.endswith('solve') else {'cmd': 'transform', 'texts': [t]})
            tnames.append((name, part, exp, t))
    tres = ctx.impl().run(treqs, timeout=20)
    for (name, part, exp, t), a in zip(tnames, tres):
        got = 'accept' if a.get('status') == 'ok' else ('reject' if a.get('type') == 'RuntimeError' else 'internal:' + str(a.get('type', a.get('status'))))
        if got != exp.split('-')[0]:
            cex.append({'key': 'c11:theory:%s:%s' % (name, part), 'what': 'theory placement %s in part %s: telingo %s (%s), property %s' % (name, part, got, a.get('msg', ''), exp),
                        'input': {'text': t, 'theory': name, 'expected': exp}})
        elif got == 'reject' and 'solve' not in exp and not re.search(r':\d+:\d+', a.get('msg', '')):
            cex.append({'key': 'c11:theory-loc:%s:%s' % (name, part), 'what': 'diagnostic of %s carries no source location: %s' % (name, a.get('msg')), 'input': {'text': t, 'theory': name, 'expected': exp}})
    tm = ctx.model().run(['thctx %d %d' % (n, c) for n in (0, 1) for c in (0, 1)])
    if tm != ['reject reject', 'accept accept', 'accept accept', 'accept accept']:
        cex.append({'key': 'c11:thctx', 'what': 'regenerated theory-atom context test is %s' % tm, 'input': {'text': 'theory context table'}})
    # whole rules: every head form x every body literal form x sign x part, accepted or rejected, against the transformer model (which rejects a rule
    # exactly if an atom stands at a forbidden placement: C11_rule_accepted_iff_every_placement_is_allowed) - and, when accepted, rewritten alike
    import ftstruct
    wr = whole_rules()
    wstat = {}
    for p_, r_ in zip(wr, ftstruct.compare(ctx, wr)):
        wstat[r_['status']] = wstat.get(r_['status'], 0) + 1
        if r_['status'] not in ('agree', 'agree-rejected'):
            cex.append({'key': 'c11:rule:' + r_['program'].replace('\n', ' '), 'what': 'transform() and Model/FutTransform.transform_program differ: %s' % r_.get('what'), 'input': {'transform_rules': p_, 'program': r_['program']}})
    # the location named in the diagnostic.  (1) str_location of /repo against Model/Loc.str_location on every pair of positions of a small domain
    # and on random ones; (2) for rejected inputs - every rejected row of the table and constructs that span several lines - the location in the message
    # is the rendering (by the model) of the location of a node of the clingo AST of the text (found with the parser of clingo alone)
    lrng = ctx.rng('locations')
    dom = [(f, l, c) for f in (0, 1) for l in (1, 2, 3) for c in (1, 2, 10)]
    lcases = [(b, e) for b in dom for e in dom] + [((lrng.randint(0, 2), lrng.randint(1, 400), lrng.randint(1, 120)), (lrng.randint(0, 2), lrng.randint(1, 400), lrng.randint(1, 120))) for _ in range(300)]
    la = ctx.impl().run([{'cmd': 'strloc', 'locs': [[['F%d' % b[0], b[1], b[2]], ['F%d' % e[0], e[1], e[2]]] for b, e in lcases]}], timeout=30)[0]
    lm = ctx.model().run(['loc %d %d %d %d %d %d' % (b + e) for b, e in lcases], timeout=30)
    for (b, e), x, y in zip(lcases, la.get('out') or [None] * len(lcases), lm):
        if x != y:
            cex.append({'key': 'c11:strloc:%s:%s' % (b, e), 'what': 'str_location renders begin %s end %s (file, line, column) as %r, the documented shape (Model/Loc.loc_shape) is %r' % (b, e, x, y), 'input': {'strloc': [list(b), list(e)]}})
            break
    ltexts = [(r['text'], a.get('msg', '')) for r, a in zip(rows, impl) if classify(a).startswith('reject')][::7 if ctx.quick else 1]
    mres = ctx.impl().run([{'cmd': 'transform', 'texts': [t]} for t in MULTILINE], timeout=20)
    for t, a in zip(MULTILINE, mres):
        if a.get('type') != 'RuntimeError':
            cex.append({'key': 'c11:multiline:' + t.replace('\n', ' '), 'what': 'a rejected construct written over several lines is %s' % ('accepted' if a.get('status') == 'ok' else a.get('type')), 'input': {'located': t}})
        else:
            ltexts.append((t, a.get('msg', '')))
    nloc = 0
    for (t, msg), bad in zip(ltexts, located(ctx, ltexts)):
        nloc += 1
        if bad:
            cex.append({'key': 'c11:location:' + t.replace('\n', ' '), 'what': bad, 'input': {'located': t}})
    cov = {'evaluations': len(rows) + len(treqs) + len(wr) + len(lcases) + nloc, 'str_location_cases': len(lcases), 'diagnostics_with_location_checked': nloc, 'whole_rule_status': wstat, 'distinct_nontrivial': len(rows) + len(treqs), 'exhaustive': True,
           'rule': 'exhaustive: %d syntactic positions x %d atom forms x %d parts through transformers.transform, compared with the extracted Model/Ctx.decide (class, rewritten atom, '
                   'look-ahead part, location in the diagnostic); plus %d theory-atom placements x 2 parts; every case is distinct and decides acceptance' % (
                       len(POSITIONS), len(FORMS), len(PARTS if not ctx.quick else ['always', 'final']), len(THEORY)),
           'expected_class_histogram': hist,
           'samples': [{'text': rows[i]['text'], 'model': mod[i], 'telingo': classify(impl[i])} for i in (0, 7, len(rows) // 2, len(rows) - 1)]}
    return {'counterexamples': cex[:10], 'coverage': cov}


def replay(ctx, payload):
    inp = payload['input']
    if 'theory' in inp:
        exp = inp['expected']
        req = {'cmd': 'solve', 'texts': [inp['text']], 'imax': 2, 'istop': 'UNKNOWN'} if exp.endswith('solve') else {'cmd': 'transform', 'texts': [inp['text']]}
        a = ctx.impl().run([req])[0]
        got = 'accept' if a.get('status') == 'ok' else ('reject' if a.get('type') == 'RuntimeError' else 'internal')
        return got != exp.split('-')[0]
    if 'strloc' in inp:
        b, e = inp['strloc']
        x = ctx.impl().run([{'cmd': 'strloc', 'locs': [[['F%d' % b[0], b[1], b[2]], ['F%d' % e[0], e[1], e[2]]]]}])[0].get('out', [None])[0]
        return x != ctx.model().run(['loc %d %d %d %d %d %d' % tuple(b + e)])[0]
    if 'located' in inp:
        a = ctx.impl().run([{'cmd': 'transform', 'texts': [inp['located']]}])[0]
        return a.get('type') != 'RuntimeError' or located(ctx, [(inp['located'], a.get('msg', ''))])[0] is not None
    if 'transform_rules' in inp:
        import ftstruct
        return ftstruct.compare(ctx, [inp['transform_rules']])[0]['status'] not in ('agree', 'agree-rejected')
    if 'line' not in inp:
        return False
    a = ctx.impl().run([{'cmd': 'transform', 'texts': [inp['text']]}])[0]
    m = ctx.model().run([inp['line']])[0]
    f = next((x for x in FORMS if x[0] == inp.get('form')), None)
    if f is not None and inp.get('position') and classify(a) != property_class(inp['position'], f):
        return True
    return classify(a) != (m or 'x').split()[0]
