"""C06 — non-ground programs mean the same as their ground instances.
Theorems: coq/Props/C06.v (the rewriting commutes with substitution; a ground theory atom with conditional elements means the
conjunction of the implications).  Correspondence (metamorphic, real pipeline incl. gringo): rule schemata over a finite domain with
variables, pools, intervals, arithmetic, comparisons, classical negation, conditional literals, aggregates, #show/#external, variables
in body/head formulas, element conditions and n-fold prefixes, against the program in which every schema is replaced by its ground
instances (substitution done by the harness); answer sets compared at every horizon."""
import itertools, json, re
import gen, lang, meta, findings

PROP_FILE = 'Props/C06.v'
GROUPS = ['transformers', 'bodyform', 'tables']
LEAF_LEMMAS = []
ASSUMPTIONS = ['that gringo instantiates rules as the substitution semantics says (G1) is trusted and tested here, not proved',
               'the harness instantiates schemata by textual substitution of the variables X, Y over the domain {1,2}']
DOM = [1, 2]
PRE = '#program always.\nd(1..2).\n{ q(X) } :- d(X).\n{ a }.\n'
PRE_G = '#program always.\nd(1). d(2).\n{ q(1) }. { q(2) }.\n{ a }.\n'


def inst(tmpl, vars_, guard=None):
    out = []
    for vals in itertools.product(DOM, repeat=len(vars_)):
        env = dict(zip(vars_, vals))
        if guard and not guard(env):
            continue
        t = tmpl
        for v, x in env.items():
            t = re.sub(r'\b%s\b' % v, str(x), t)
        out.append(t)
    return '\n'.join(out)


# (schema, ground instantiation) pairs; each is appended to the common prefix
def schemata():
    S = []
    def rule(part, tmpl, vars_='X', guard=None):
        S.append((part, tmpl, inst(tmpl, list(vars_), guard)))
    for part in ('always', 'dynamic', 'initial', 'final'):
        rule(part, 'p(X) :- q(X).')
        rule(part, "p(X) :- 'q(X), d(X).")
        rule(part, "p(X) :- _q(X), d(X).")
        rule(part, "p(X) :- not ''q(X), d(X).")
        rule(part, 'p(X+1) :- q(X).')
        rule(part, 'p(X,Y) :- q(X), q(Y), X < Y.', 'XY', lambda e: True)
        rule(part, 'p(X) :- q(X), X != 1.')
        rule(part, '-p(X) :- not q(X), d(X).')
        rule(part, '{ p(X) } :- q(X).')
        rule(part, 'p(X) ; r(X) :- q(X).')
        rule(part, ':- q(X), not a, X > 1.')
        rule(part, 'not p(X) :- q(X).')
    for part in ('always', 'dynamic', 'initial'):
        rule(part, "p'(X) :- q(X).")
        rule(part, "-p''(X) :- q(X), not a.")
        rule(part, ":- q(X), not q'(X), d(X).")
        rule(part, ":- q'(X), q''(3-X), d(X).")
    # pools and intervals
    S.append(('always', 'p(1;2) :- a.', 'p(1) :- a.\np(2) :- a.'))
    S.append(('dynamic', "p(1..2) :- 'a.", "p(1) :- 'a.\np(2) :- 'a."))
    S.append(('always', 'p(X) :- X = 1..2, q(X).', 'p(1) :- q(1).\np(2) :- q(2).'))
    S.append(('always', "p((1;2)) :- not 'a.", "p(1) :- not 'a.\np(2) :- not 'a."))
    # ... with primes and classical negation around them (future heads, past and future atoms in bodies, look-ahead constraints)
    for part in ('always', 'initial', 'dynamic'):
        S.append((part, "p'(1;2) :- a.", "p'(1) :- a.\np'(2) :- a."))
        S.append((part, "-p'(1;2) :- a.", "-p'(1) :- a.\n-p'(2) :- a."))
        S.append((part, "-p''(1..2) :- not a.", "-p''(1) :- not a.\n-p''(2) :- not a."))
        S.append((part, "-p'((1;2),3) :- a.", "-p'(1,3) :- a.\n-p'(2,3) :- a."))
        S.append((part, ":- -q'(1;2), a.\n-q(X) :- d(X), not q(X).", ":- -q'(1), a.\n:- -q'(2), a.\n-q(X) :- d(X), not q(X)."))
        S.append((part, "r :- not -'q(1;2), a.\n-q(X) :- d(X), not q(X).", "r :- not -'q(1), a.\nr :- not -'q(2), a.\n-q(X) :- d(X), not q(X)."))
    # conditional literals and aggregates (domain predicate d is a fact at every state)
    S.append(('always', 'r :- q(X) : d(X).', 'r :- q(1), q(2).'))
    S.append(('dynamic', "r :- 'q(X) : d(X).", "r :- 'q(1), 'q(2)."))
    S.append(('always', 'p(X) : d(X) :- a.', 'p(1) ; p(2) :- a.'))
    S.append(('always', '{ p(X) : d(X) } :- a.', '{ p(1) ; p(2) } :- a.'))
    S.append(('always', 'r :- #count { X : q(X) } > 1.', 'r :- #count { 1 : q(1) ; 2 : q(2) } > 1.'))
    S.append(('dynamic', "r :- #count { X : 'q(X) } = 1.", "r :- #count { 1 : 'q(1) ; 2 : 'q(2) } = 1."))
    S.append(('always', ':- #sum { X : q(X) } > 2.', ':- #sum { 1 : q(1) ; 2 : q(2) } > 2.'))
    S.append(('final', ':- not q(X) : d(X).', ':- not q(1), not q(2).'))
    # show / external
    S.append(('always', '#show q/1. #show r(X) : q(X).', '#show q/1. #show r(1) : q(1). #show r(2) : q(2).'))
    S.append(('always', '#external e(X) : d(X). p(X) :- e(X), q(X).', '#external e(1). #external e(2). p(1) :- e(1), q(1). p(2) :- e(2), q(2).'))
    # theory atoms: variables in formulas, element conditions, n-fold prefixes
    for part in ('always', 'initial', 'final'):
        rule(part, 's(X) :- d(X), not &tel { > q(X) }.')
        rule(part, 's(X) :- d(X), not not &tel { q(X) >? a }.')
        rule(part, 's(X) :- d(X), not &tel { X > a }.')
        rule(part, 's(X) :- d(X), not &tel { X-1 < q(X) }.')
        rule(part, 's(X) :- d(X), not &tel { (X+1) >: a }.')
        rule(part, ':- d(X), &tel { q(X) & > q(3-X) }.')
        rule(part, 's(X) :- d(X), not &del { q(X) .>? a }.')
        rule(part, 's(X) :- d(X), not &del { ? q(X) ;; &true .>* q(X) }.')
        S.append((part, ':- not &tel { >? q(X) : d(X) }.', ':- not &tel { >? q(1) : d(1) ; >? q(2) : d(2) }.'))
        S.append((part, 's :- not &tel { q(X) : d(X), X > 1 }.', 's :- not &tel { q(2) : d(2) }.'))
        S.append((part, ':- not &tel { a : q(X) }, d(X).', ':- not &tel { a : q(1) }.\n:- not &tel { a : q(2) }.'))
        S.append((part, 's :- not &tel { q(X) : q(3-X), d(X) }.', 's :- not &tel { (q(2) -> q(1)) & (q(1) -> q(2)) }.'))
        S.append((part, ':- not &tel { > q(X) : d(X) }.', ':- not &tel { (> q(1)) & (> q(2)) }.'))
        S.append((part, ':- not &del { q(X) .>* a : d(X) }.', ':- not &del { q(1) .>* a }.\n:- not &del { q(2) .>* a }.'))
        S.append((part, 's :- not &del { &true .>? q(X) : q(3-X), d(X) }.', 's :- not &tel { (q(2) -> > q(1)) & (q(1) -> > q(2)) }.'))
        # the same atom as element condition positively and default-negated in one program
        S.append((part, 's :- not not &tel { a : q(X), d(X) }.\nu :- not not &tel { a : d(X), not q(X) }.',
                  's :- not not &tel { (q(1) -> a) & (q(2) -> a) }.\nu :- not not &tel { (~ q(1) -> a) & (~ q(2) -> a) }.'))
        S.append((part, 's :- not &tel { > a : q(X) ; a : not q(X), d(X) }.', 's :- not &tel { (q(1) -> > a) & (q(2) -> > a) & (~ q(1) -> a) & (~ q(2) -> a) }.'))
        # conditions of two or more literals none of which is decided by the grounder
        S.append((part, 's :- not &tel { > a : q(X), not q(3-X) }.', 's :- not &tel { ((q(1) & ~ q(2)) -> > a) & ((q(2) & ~ q(1)) -> > a) }.'))
        S.append((part, ':- not &tel { q(X) : q(3-X), a }, d(X).', ':- not &tel { (q(2) & a) -> q(1) }.\n:- not &tel { (q(1) & a) -> q(2) }.'))
        S.append((part, 's :- not not &del { &true .>? a : q(X), not a }.', 's :- not not &tel { ((q(1) & ~ a) -> > a) & ((q(2) & ~ a) -> > a) }.'))
    for part in ('always', 'initial', 'dynamic'):
        rule(part, '&tel { > p(X) } :- q(X).')
        rule(part, '&tel { p(X) | > r(X) } :- q(X), not a.')
        rule(part, '&tel { X > p(X) } :- q(X).')
        rule(part, '&tel { p(X) >? r(3-X) } :- d(X), a.')
        rule(part, '&tel { > (X > p(X)) } :- q(X).')
        rule(part, '&tel { X > (> p(X)) | (X+1) >: r(X) } :- q(X).')
        rule(part, '&tel { (X-1) > (X > p(X)) } :- d(X), not a.')
    # arithmetic chains in the arguments of atoms inside formulas: the instance is the VALUE (left-associative + and -, nested parentheses)
    for part in ('always', 'initial', 'dynamic'):
        S.append((part, '&tel { > p(X-1-1) } :- q(X).', '&tel { > p(-1) } :- q(1).\n&tel { > p(0) } :- q(2).'))
        S.append((part, '&tel { p(3-X-1) | > r(X+1-1) } :- q(X), not a.', '&tel { p(1) | > r(1) } :- q(1), not a.\n&tel { p(0) | > r(2) } :- q(2), not a.'))
        S.append((part, '&tel { > p(2-(X-1)) & p(X-2+1) } :- q(X).', '&tel { > p(2) & p(0) } :- q(1).\n&tel { > p(1) & p(1) } :- q(2).'))
        S.append((part, '&tel { >* p(X-1-1+2) } :- q(X), a.', '&tel { >* p(1) } :- q(1), a.\n&tel { >* p(2) } :- q(2), a.'))
    for part in ('always', 'initial', 'final'):
        S.append((part, 's(X) :- d(X), not &tel { < q(4-X-1) }.', 's(1) :- not &tel { < q(2) }.\ns(2) :- not &tel { < q(1) }.'))
        S.append((part, 's(X) :- d(X), not &tel { q(X+1-1) >? q(5-X-2) }.', 's(1) :- not &tel { q(1) >? q(2) }.\ns(2) :- not &tel { q(2) >? q(1) }.'))
        # (no arithmetic inside &del: its theory has no arithmetic operators, + is the choice of paths)
    # theory atoms in look-ahead constraints: their permanent copy (and with it a new theory atom for state t) is grounded n steps after state t
    for part in ('always', 'initial', 'dynamic'):
        rule(part, ":- q'(X), &tel { q(X) & a }.")
        rule(part, ":- not q'(X), d(X), not &tel { q(X) | < a }.")
        rule(part, ":- q''(X), &tel { > q(X) }.")
        S.append((part, ":- a', not &tel { q(X) : d(X) }.", ":- a', not &tel { q(1) & q(2) }."))
        S.append((part, ":- not a', &tel { > q(X) : d(X) }.\ns :- &tel { (> q(1)) & (> q(2)) }.", ":- not a', &tel { (> q(1)) & (> q(2)) }.\ns :- &tel { (> q(1)) & (> q(2)) }."))
        S.append((part, ":- a'', not &del { ? q(X) .>? a : d(X) }.", ":- a'', not &tel { (q(1) & a) & (q(2) & a) }."))
    # theory atoms with several elements, conditioned and unconditioned ones in either order, conditions that are not facts (f : c means c -> f)
    for part in ('always', 'initial', 'dynamic'):
        S.append((part, ':- not &tel { a : q(1) ; q(2) }.', ':- not &tel { (~ q(1) | a) & q(2) }.'))
        S.append((part, ':- not &tel { q(2) ; a : q(1) }.', ':- not &tel { q(2) & (~ q(1) | a) }.'))
        S.append((part, 's :- not &tel { > a : q(1), q(2) ; < q(1) ; a : not q(2) }.', 's :- not &tel { (~ (q(1) & q(2)) | > a) & (< q(1)) & (q(2) | a) }.'))
        S.append((part, ':- &tel { q(X) : d(X), not a ; a }.', ':- &tel { (a | q(1)) & (a | q(2)) & a }.'))
    # head formulas whose instances have argument lists that print almost alike, against plain future heads (a reference that does not go through the theory)
    for part in ('always', 'initial', 'dynamic'):
        S.append((part, 'rr(1,12). rr(11,2).\n&tel { > p(X,Y) } :- rr(X,Y), a.', "rr(1,12). rr(11,2).\np'(1,12) :- rr(1,12), a.\np'(11,2) :- rr(11,2), a."))
        S.append((part, 'rr(1,12). rr(11,2).\n&tel { p(X,Y) | > p(Y,X) } :- rr(X,Y), not a.',
                  'rr(1,12). rr(11,2).\n&tel { p(1,12) | > p(12,1) } :- rr(1,12), not a.\n&tel { p(11,2) | > p(2,11) } :- rr(11,2), not a.'))
    # elements one of which is textually part of another; variables that differ in a trailing prime; a future head over a body with a conditional literal
    for part in ('always', 'initial', 'dynamic'):
        S.append((part, ':- not &tel { > a ; a }.', ':- not &tel { (> a) & a }.'))
        S.append((part, 's :- not &tel { X > a : X = 0..1 }.', 's :- not &tel { (0 > a) & (1 > a) }.'))
        S.append((part, ':- not &tel { q(1) ; q(1) | a ; > q(1) }.', ':- not &tel { q(1) & (q(1) | a) & (> q(1)) }.'))
        S.append((part, "&tel { > p(X,X') } :- q(X), q(X'), X < X'.", '&tel { > p(1,2) } :- q(1), q(2).'))
        S.append((part, "p'(X) :- d(X), q(Y) : d(Y).", "p'(1) :- q(1), q(2).\np'(2) :- q(1), q(2)."))
        S.append((part, "-p'(X) :- d(X), not q(Y) : d(Y), Y < X.", "-p'(1).\n-p'(2) :- not q(1)."))
    # &del elements with conditions that are not facts, alone and next to an unconditioned element
    for part in ('always', 'initial', 'dynamic'):
        S.append((part, ':- not &del { a .>? q(2) : q(1) }.', ':- q(1), not &del { a .>? q(2) }.'))
        S.append((part, ':- not &del { &true .>* a : not q(1) ; ? q(2) .>? &true }.', ':- not q(1), not &del { &true .>* a }.\n:- not &del { ? q(2) .>? &true }.'))
        S.append((part, 's :- not &del { ? q(X) .>? a : d(X), q(2) }.', 's :- q(2), not &del { ? q(1) .>? a }.\ns :- q(2), not &del { ? q(2) .>? a }.'))
    # classical negation inside formulas
    for part in ('always', 'initial', 'dynamic'):
        rule(part, '&tel { -p(X) | > r(X) } :- q(X).')
        rule(part, '&tel { > -p(X) & ~ -r(X) } :- q(X), not a.')
        rule(part, 's(X) :- d(X), not &tel { < -p(X) }.\n-p(X) :- q(X), not a.')
    # atoms with string / tuple / function arguments inside formulas; a body formula without temporal operator means its atom, so the instances may be
    # written with plain literals (a reference that does not go through the theory at all)
    # (strings with escape sequences: the theory term of a string is its quoted, escaped text; negative numbers: a unary minus applied to a number)
    vals = ['""', '"a"', '(1,2)', 'f(1)', r'"a\"b"', r'"x\\y"', r'"l\nm"', r'g("\"")', '-1', 'f(-2,"")']
    pre = ' '.join('e(%s).' % v for v in vals) + '\nqs(X) :- e(X), q(1), X != "a".\nqs("a") :- q(2).\n'
    for part in ('always', 'initial', 'dynamic'):
        S.append((part, pre + 's2(X) :- e(X), not not &tel { qs(X) }.', pre + '\n'.join('s2(%s) :- not not qs(%s).' % (v, v) for v in vals)))
        S.append((part, pre + 's2(X) :- e(X), not &tel { qs(X) | a }.', pre + '\n'.join('s2(%s) :- not qs(%s), not a.' % (v, v) for v in vals)))
        S.append((part, pre + ':- e(X), &tel { qs(X) & a }.', pre + '\n'.join(':- qs(%s), a.' % v for v in vals)))
        S.append((part, pre + '&tel { ps(X) | a } :- e(X), qs(X).', pre + '\n'.join('ps(%s) ; a :- qs(%s).' % (v, v) for v in vals)))
        S.append((part, pre + 's2(X) :- e(X), not &tel { > qs(X) }.', pre + '\n'.join('s2(%s) :- not &tel { > qs(%s) }.' % (v, v) for v in vals)))
    return S


# atom arguments inside body formulas: ground terms, written out and substituted for a variable
SYMTERMS = ['1', '-1', '0', '-0', 'a', '-a', '"s"', '""', r'"a\"b"', r'"x\\y"', r'"l\nm"', r'"\\"', r'"\"\""', 'f(1)', 'f(-2)', '-f(1)', 'f(-a)', '(1,2)', '(1,)', '()', 'f((1,2),"")', '#inf', '#sup', 'f(#inf)',
            '-f(-g(-1))', 'f(a,b)', 'g("")', '((1,2),3)', '- -1', 'f("#inf")', '"#inf"', '"-1"', 'f(1+2)', '3-1', '1-3', '2-(1-3)', 'f(2-1-1)', 'f(-(1+1))', '1..2', 'a;b', 'f(a;b)', '_x', "x'y", 'ab_1("")', 'f(g(h(i(-1,"",()))))',
            '"&"', '"~"', 'f(">")', '-"a"', '-#inf', '1+a', 'f(1+a)', '-(1,2)', 'f(-(1,2))']


def symbol_cases(ctx):
    """create_symbol of /repo against Model/Symbols.create_symbol on the theory terms gringo delivers, and against the symbols clingo binds the variable to"""
    res = ctx.impl().run([{'cmd': 'symterms', 'terms': SYMTERMS}], timeout=60)[0]
    cex, n = [], 0
    if res.get('status') != 'ok':
        return [{'key': 'c06:symterms', 'what': 'the term run fails: %s' % json.dumps({k: res.get(k) for k in ('status', 'type', 'msg')}), 'input': {'symterm': SYMTERMS[0]}}], 0
    lines, index = [], []
    for t, rec in zip(SYMTERMS, res['out']):
        for mode in ('subst', 'written'):
            for tok, r in rec.get(mode, {}).get('items', []):
                lines.append('csym ' + tok)
                index.append((t, mode, tok, r))
    mod = ctx.model().run(lines, timeout=30) if lines else []
    for (t, mode, tok, r), m in zip(index, mod):
        n += 1
        if (m or '').strip() != r:
            cex.append({'key': 'c06:symbol:%s:%s' % (mode, t), 'what': 'argument %s of an atom inside a body formula (%s): create_symbol gives %s, Model/Symbols.create_symbol gives %s (theory term %s)' % (t, mode, r, m, tok), 'input': {'symterm': t}})
    for t, rec in zip(SYMTERMS, res['out']):
        if 'items' in rec.get('subst', {}) and '-(' not in t:       # (gringo drops the sign of a negated tuple when it writes it into a theory term)
            got = sorted(r for _, r in rec['subst']['items'])
            if got != rec.get('bound') and 'raises' not in got:
                cex.append({'key': 'c06:bound:%s' % t, 'what': 'a variable bound to %s inside a body formula: the atom is looked up with %s, the variable is bound to %s' % (t, got, rec.get('bound')), 'input': {'symterm': t}})
    return cex, n


# written ground terms as arguments of an atom in a body formula and in a head formula (Model/Symbols.v: in_body / create_symbol, in_head / to_term / eval)
def wtext(w):
    k = w[0]
    if k == 'num':
        return str(w[1])
    if k == 'str':
        return '"' + w[1].replace('\\', '\\\\').replace('"', '\\"').replace('\n', '\\n') + '"'
    if k == 'const':
        return w[1]
    if k in ('inf', 'sup'):
        return '#' + k
    if k == 'fun':
        return '%s(%s)' % (w[1], ','.join(wtext(x) for x in w[2]))
    if k == 'tup':
        return '(%s%s)' % (','.join(wtext(x) for x in w[1]), ',' if len(w[1]) == 1 else '')
    if k == 'neg':
        return '-' + wtext(w[1]) if w[1][0] in ('num', 'const', 'fun', 'tup', 'str', 'inf', 'sup') else '-(%s)' % wtext(w[1])
    return '(%s %s %s)' % (wtext(w[2]), '+' if w[1] else '-', wtext(w[3]))      # (blanks: adjacent operator characters would be read as ONE theory operator)


def wtok(w):
    hx = lambda n: n.encode('utf-8').hex() if n else '-'
    k = w[0]
    if k == 'num':
        return 'n %d' % w[1]
    if k in ('str', 'const'):
        return '%s %s' % (k[0], hx(w[1]))
    if k == 'inf':
        return 'i'
    if k == 'sup':
        return 'u'
    if k == 'fun':
        return 'f %s %d %s' % (hx(w[1]), len(w[2]), ' '.join(wtok(x) for x in w[2]))
    if k == 'tup':
        return ('t %d %s' % (len(w[1]), ' '.join(wtok(x) for x in w[1]))).strip()
    if k == 'neg':
        return 'g ' + wtok(w[1])
    return 'b %d %s %s' % (1 if w[1] else 0, wtok(w[2]), wtok(w[3]))


def wrandom(rng, d):
    k = rng.random()
    if d <= 0 or k < 0.3:
        return rng.choice([('num', rng.randint(0, 4)), ('num', 0), ('const', rng.choice(['a', 'b', 'c1', '_x'])), ('str', rng.choice(['', 'a', 'a"b', 'x\\y', 'l\nm', '#inf', '-1', '&'])), ('inf',), ('sup',)])
    if k < 0.5:
        return ('fun', rng.choice(['f', 'g', 'h_1']), [wrandom(rng, d - 1) for _ in range(rng.randint(1, 3))])
    if k < 0.65:
        return ('tup', [wrandom(rng, d - 1) for _ in range(rng.randint(0, 3))])
    if k < 0.82:
        return ('neg', wrandom(rng, d - 1))
    return ('bin', rng.random() < 0.5, wrandom(rng, d - 1), wrandom(rng, d - 1))


WFIXED = [('neg', ('num', 1)), ('neg', ('neg', ('num', 1))), ('neg', ('const', 'a')), ('neg', ('fun', 'f', [('num', 1)])), ('neg', ('tup', [('num', 1), ('num', 2)])), ('neg', ('str', 'a')), ('neg', ('inf',)),
          ('bin', True, ('num', 1), ('num', 2)), ('bin', False, ('num', 1), ('num', 3)), ('bin', False, ('bin', False, ('num', 2), ('num', 1)), ('num', 1)), ('bin', False, ('num', 2), ('bin', False, ('num', 1), ('num', 1))),
          ('bin', True, ('num', 1), ('const', 'a')), ('bin', True, ('neg', ('num', 1)), ('num', 1)), ('neg', ('bin', True, ('num', 1), ('num', 1))), ('fun', 'f', [('bin', True, ('num', 1), ('str', ''))]),
          ('tup', []), ('tup', [('num', 1)]), ('tup', [('tup', []), ('str', '')]), ('fun', 'f', [('neg', ('tup', [('num', 1), ('num', 2)]))]), ('str', 'a"b'), ('str', '\\'), ('str', '\n'), ('fun', 'f', [('str', '"')]),
          ('bin', True, ('tup', [('num', 1)]), ('num', 1)), ('neg', ('neg', ('const', 'a'))), ('neg', ('bin', False, ('num', 1), ('num', 2)))]


def written_term_cases(ctx):
    rng = ctx.rng('wterms')
    ws = list(WFIXED) + [wrandom(rng, 3) for _ in range(120 if ctx.quick else 600)]
    texts = [wtext(w) for w in ws]
    body = ctx.impl().run([{'cmd': 'symterms', 'terms': texts}], timeout=120)[0]
    head = ctx.impl().run([{'cmd': 'headterms', 'terms': texts}], timeout=120)[0]
    mod = ctx.model().run(['wsym ' + wtok(w) for w in ws], timeout=60)
    cex = []
    if body.get('status') != 'ok' or head.get('status') != 'ok':
        return [{'key': 'c06:wterms', 'what': 'the term run fails: %s' % json.dumps([{k: x.get(k) for k in ('status', 'type', 'msg')} for x in (body, head)]), 'input': {'wterm': list(ws[0])}}], 0
    for w, t, b, h, m in zip(ws, texts, body['out'], head['out'], mod):
        wr = b.get('written', {})
        bi = wr['items'][0][1] if wr.get('items') else 'raises'
        mb, mh = [x.strip() for x in (m or 'error | error').split(' | ')]
        if bi != mb:
            cex.append({'key': 'c06:wterm-body:' + t, 'what': 'argument %s of an atom inside a body formula: create_symbol gives %s, the model (in_body, create_symbol) %s' % (t, bi, mb), 'input': {'wterm': w}})
        elif h != mh:
            cex.append({'key': 'c06:wterm-head:' + t, 'what': 'argument %s of an atom inside a head formula: telingo derives the atom with %s, the model (in_head, to_term, eval) %s' % (t, h, mh), 'input': {'wterm': w}})
    return cex, len(ws)


# classical negation against a fresh positive predicate: -p written as np (with the constraint that p and np exclude each other) gives the same answer sets
# and the same SHOWN atoms - with #show statements for the negated and for the positive signature, in every part, with primes
NEG_RENAMED = [
    ('#program always.\n{ p(1,2) }.\n-p(X,Y) :- not p(X,Y), X = 1, Y = 2.\ns :- not &tel { < -p(1,2) }.\nu(X) :- X = 1, not not &tel { -p(X,2) | > p(X,X+1) }.\n#show -p/2.\n#show s/0.\n#show u/1.\n', '#program always.\n{ p(1,2) }.\nnp(X,Y) :- not p(X,Y), X = 1, Y = 2.\n:- p(X,Y), np(X,Y).\ns :- not &tel { < np(1,2) }.\nu(X) :- X = 1, not not &tel { np(X,2) | > p(X,X+1) }.\n#show np/2.\n#show s/0.\n#show u/1.\n'),
    ('#program always.\n{ p }.\n-p :- not p.\nr.\n#show -p/0.\n#show r/0.\n', '#program always.\n{ p }.\nnp :- not p.\n:- p, np.\nr.\n#show np/0.\n#show r/0.\n'),
    ('#program always.\n{ p(1..2) }.\n-p(X) :- not p(X), X = 1..2.\n#show -p/1.\n', '#program always.\n{ p(1..2) }.\nnp(X) :- not p(X), X = 1..2.\n:- p(X), np(X).\n#show np/1.\n'),
    ('#program always.\n{ p(1..2) }.\n-p(X) :- not p(X), X = 1..2.\n#show p/1.\n', '#program always.\n{ p(1..2) }.\nnp(X) :- not p(X), X = 1..2.\n:- p(X), np(X).\n#show p/1.\n'),
    ('#program always.\n{ p }.\n-p :- not p.\n#show -p/0.\n#show p/0.\n#program dynamic.\nq :- -\'p.\n#show q/0.\n', '#program always.\n{ p }.\nnp :- not p.\n:- p, np.\n#show np/0.\n#show p/0.\n#program dynamic.\nq :- \'np.\n#show q/0.\n'),
    ("#program initial.\n{ a }.\n-p' :- a.\n#program always.\n#show -p/0.\n#show a/0.\n", "#program initial.\n{ a }.\nnp' :- a.\n#program always.\n:- p, np.\n#show np/0.\n#show a/0.\n"),
    ('#program always.\n{ p }.\n-p :- not p.\n#show.\n#show -p : -p.\n', '#program always.\n{ p }.\nnp :- not p.\n:- p, np.\n#show.\n#show np : np.\n'),
]


# an even number of classical negation signs in front of an atom is no sign at all - in bodies, in formulas of either kind, in heads
DOUBLE_NEG = [('#program always.\n{ q }.\n#program initial.\n:- not &tel { > - -q }.\n', '#program always.\n{ q }.\n#program initial.\n:- not &tel { > q }.\n'),
              ('#program always.\n{ q(1) }.\n-q(1) :- not q(1).\ns :- not &tel { < - - -q(1) }.\n', '#program always.\n{ q(1) }.\n-q(1) :- not q(1).\ns :- not &tel { < -q(1) }.\n'),
              ('#program initial.\n{ c }.\n&tel { - -q | > - - -r(1) } :- c.\n', '#program initial.\n{ c }.\n&tel { q | > -r(1) } :- c.\n'),
              ('#program always.\n{ q }.\n:- not &del { ? q .>? q }.\n', '#program always.\n{ q }.\n:- not &del { ? q ;; &true .>? q } , not q.\n:- not &del { ? q .>? q }.\n')]


def negation_cases(ctx, H):
    inputs = []
    for a, b in NEG_RENAMED:
        inputs += [[a], [b]]
    res = meta.answer_sets(ctx, inputs, H, timeout=60)
    cex = []
    dres = meta.answer_sets(ctx, [[x] for ab in DOUBLE_NEG[:3] for x in ab], H, timeout=60)
    dcex = [{'key': 'c06:double-negation:' + a.replace('\n', ' '), 'what': 'an even number of classical negation signs changes the answer sets: %s' % json.dumps(meta.first_diff(dres[2 * i], dres[2 * i + 1])),
             'input': {'negated': a, 'renamed': b, 'H': H, 'plain': True}} for i, (a, b) in enumerate(DOUBLE_NEG[:3]) if not meta.same(dres[2 * i], dres[2 * i + 1])]
    for i, (a, b) in enumerate(NEG_RENAMED):
        ra, rb = res[2 * i], res[2 * i + 1]
        if 'ok' in rb:
            rb = {'ok': {h: sorted(tuple(sorted(('-' + x[1:]) if x.startswith('np') else x for x in m)) for m in ms) for h, ms in rb['ok'].items()}}
        if not meta.same(ra, rb):
            cex.append({'key': 'c06:negation:' + a.replace('\n', ' '), 'what': 'the program with a classically negated predicate and the program with a fresh positive predicate in its place show different atoms: %s' % json.dumps(meta.first_diff(ra, rb)),
                        'input': {'negated': a, 'renamed': b, 'H': H}})
    return cex + dcex, len(inputs) + len(dres)


# #project p/n. concerns the atoms p(args,k): with --project the answer sets, cut to the projected atoms, are those of the program without the other choices
PROJECTED = [('#program always.\n1 { p(1..2) } 1.\n{ q }.\n#project p/1.\n', '#program always.\n1 { p(1..2) } 1.\n', 'p('),
             ('#program always.\n{ p }.\n-p :- not p.\n{ q(1..2) }.\n#project -p/0.\n#project p/0.\n', '#program always.\n{ p }.\n-p :- not p.\n', 'p@')]


def project_cases(ctx, H):
    cex = []
    for full, ref, mark in PROJECTED:
        a = meta.answer_sets(ctx, [[full]], H, timeout=60, args=['--project'])[0]
        b = meta.answer_sets(ctx, [[ref]], H, timeout=60)[0]
        if 'ok' in a:
            a = {'ok': {h: sorted(tuple(x for x in m if mark in x) for m in ms) for h, ms in a['ok'].items()}}
        if 'ok' in b:
            b = {'ok': {h: sorted(tuple(x for x in m if mark in x) for m in ms) for h, ms in b['ok'].items()}}
        if not meta.same(a, b):
            cex.append({'key': 'c06:project:' + full.replace('\n', ' '), 'what': 'with --project the answer sets cut to the projected atoms differ from those of the program without the other choices: %s' % json.dumps(meta.first_diff(a, b)),
                        'input': {'projected': [full, ref, mark], 'H': H}})
    return cex, 2 * len(PROJECTED)


def run(ctx):
    S = schemata()
    rng = ctx.rng('combos')
    cases = [[s] for s in S]
    # a schema with classically negated atoms textually before a schema with a future head (sign bookkeeping across statements), and back
    negs = [x for x in S if '-p' in x[1]]
    futs = [x for x in S if "p'(" in x[1] or "p''(" in x[1]]
    for a in negs:
        for b in futs:
            if a is not b and a[0] in ('always', 'dynamic') and b[0] in ('always', 'dynamic'):
                cases.append([a, b])
    n = 150 if ctx.quick else 500
    for i in range(n):
        cases.append(rng.sample(S, rng.randint(2, 3)))
    inputs = []
    for c in cases:
        sch = PRE + ''.join('#program %s.\n%s\n' % (p, t) for p, t, g in c)
        grd = PRE_G + ''.join('#program %s.\n%s\n' % (p, g) for p, t, g in c)
        inputs += [[sch], [grd]]
    H = 2 if ctx.quick else 3
    res = meta.answer_sets(ctx, inputs, H, timeout=90)
    cex, nontriv, rejected = [], set(), 0
    for i, c in enumerate(cases):
        a, b = res[2 * i], res[2 * i + 1]
        if 'error' in a and 'error' in b:
            rejected += 1
        if not meta.same(a, b):
            cex.append({'key': 'c06:' + inputs[2 * i][0].replace('\n', ' '), 'what': 'schema and its ground instantiation report different answer sets: %s' % json.dumps(meta.first_diff(a, b)),
                        'input': {'schema': inputs[2 * i][0], 'ground': inputs[2 * i + 1][0], 'H': H}})
        elif 'ok' in a and any(a['ok'].values()):
            nontriv.add(inputs[2 * i][0])
    scex, sn = symbol_cases(ctx)
    cex += scex
    wcex, wn = written_term_cases(ctx)
    cex += wcex
    sn += 2 * wn
    ncex, nn = negation_cases(ctx, H)
    cex += ncex
    sn += nn
    pcex, pn = project_cases(ctx, H)
    cex += pcex
    sn += pn
    cov = {'evaluations': len(inputs) + sn, 'atom_argument_terms': len(SYMTERMS), 'atom_argument_theory_terms_compared': sn, 'distinct_nontrivial': len(nontriv),
           'rule': '%d rule schemata (variables, arithmetic, comparisons, pools, intervals, classical negation, primes, conditional literals, aggregates, #show/#external, variables in &tel/&del '
                   'bodies and &tel heads, element conditions, n-fold prefixes) in every applicable program part, alone and in random combinations of 2-3, over the domain {1,2}; each paired with '
                   'its instantiation; horizons 0..%d compared with multiplicity; non-trivial = distinct schema program with at least one answer set' % (len(S), H),
           'pairs_rejected_by_both': rejected, 'samples': [{'schema': inputs[2 * i][0], 'ground': inputs[2 * i + 1][0]} for i in (0, 60, len(cases) - 1)]}
    return {'counterexamples': cex[:8], 'coverage': cov}


def replay(ctx, payload):
    inp = payload['input']
    if 'projected' in inp:
        global PROJECTED
        keep, PROJECTED = PROJECTED, [tuple(inp['projected'])]
        try:
            return bool(project_cases(ctx, inp.get('H', 2))[0])
        finally:
            PROJECTED = keep
    if 'negated' in inp and inp.get('plain'):
        r = meta.answer_sets(ctx, [[inp['negated']], [inp['renamed']]], inp.get('H', 2), timeout=60)
        return not meta.same(r[0], r[1])
    if 'negated' in inp:
        global NEG_RENAMED
        keep, NEG_RENAMED = NEG_RENAMED, [(inp['negated'], inp['renamed'])]
        try:
            return bool(negation_cases(ctx, inp.get('H', 2))[0])
        finally:
            NEG_RENAMED = keep
    if 'wterm' in inp:
        tt = lambda x: tuple(tt(y) if isinstance(y, list) and y and isinstance(y[0], str) else ([tt(z) for z in y] if isinstance(y, list) else y) for y in x)
        global WFIXED
        keep, WFIXED = WFIXED, [tt(inp['wterm'])]
        try:
            class Q:      # no random terms in a replay
                quick = True
                impl, model = ctx.impl, ctx.model
                rng = staticmethod(lambda *a: __import__('random').Random(0))
            cexs, _ = written_term_cases(Q)
            return any(c['input'].get('wterm') == WFIXED[0] for c in cexs)
        finally:
            WFIXED = keep
    if 'symterm' in inp:
        global SYMTERMS
        keep, SYMTERMS = SYMTERMS, [inp['symterm']]
        try:
            return bool(symbol_cases(ctx)[0])
        finally:
            SYMTERMS = keep
    res = meta.answer_sets(ctx, [[inp['schema']], [inp['ground']]], inp.get('H', 2), timeout=90)
    return not meta.same(res[0], res[1])
