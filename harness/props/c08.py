"""C08 — the solving loop.  Theorems: coq/Props/C08.v over the loop decisions regenerated from telingo/__init__.py.
Correspondence S2: telingo.imain on a scripted fake Control vs the extracted Model/Loop.v on the same options, part lists,
atom bases and result sequences (exhaustive over small option values and all result sequences of a fixed length)."""
import itertools, json, os, subprocess

PROP_FILE = 'Props/C08.v'
GROUPS = ['imain', 'app']
LEAF_LEMMAS = ['loop_cond_gen_spec', 'part_selected_gen_spec', 'part_params_gen_spec', 'assume_false_gen_spec', 'loop_body_gen_spec',
               'defaults_gen_spec']
ASSUMPTIONS = ['clingo Control is replaced by a scripted fake in the correspondence (its solve results are the quantified sequence)',
               'option values reach imain as Python ints / None / upper-case strings (TelApp parsers, checked separately through the CLI)']

PARTS = [
    [['always', 'always', [0]], ['dynamic', 'dynamic', [0]], ['initial', 'initial', [0]]],
    [['always', 'always_0_1', [0, 1]], ['always', 'always_2', [2]], ['dynamic', 'dynamic_0_0', [0]], ['dynamic', 'dynamic_1', [1]],
     ['initial', 'initial_0_2', [0, 1, 2]], ['initial', 'initial_3', [3]], ['always', 'always', [0]], ['dynamic', 'dynamic', [0]],
     ['initial', 'initial', [0]]],
]
ROOT = {'always': 'A', 'dynamic': 'D', 'initial': 'I'}


def futures_for(L, variant):
    if variant == 0:
        return [[] for _ in range(L + 1)]
    return [[t for t in range(0, s + 3)] for s in range(L + 1)]


def model_line(imax, imin, istop, parts, results, futures, fuel):
    toks = ['loop', '-' if imax is None else str(imax), str(imin), istop[0] if istop != 'UNKNOWN' else 'K', str(len(parts))]
    for r, n, rng in parts:
        toks += [ROOT[r], n, str(len(rng))] + [str(i) for i in rng]
    toks += [str(len(results))] + list(results)
    toks += [str(len(futures))]
    for f in futures:
        toks += [str(len(f))] + [str(t) for t in f]
    toks.append(str(fuel))
    return ' '.join(toks)


def cases(ctx):
    L = 4 if ctx.quick else 6
    rng = ctx.rng('cases')
    seqs = [''.join(s) for s in itertools.product('SUK', repeat=L)]
    imins = [None, 0, 1, 2, 3, L, L + 2]
    imaxs = ['absent', None, 0, 1, 2, 3, L + 3]
    istops = [None, 'SAT', 'UNSAT', 'UNKNOWN']
    out = []
    for imin in imins:
        for imax in imaxs:
            for istop in istops:
                for s in seqs:
                    pv = rng.randrange(len(PARTS))
                    fv = rng.randrange(2)
                    out.append({'imin': imin, 'imax': imax, 'istop': istop, 'results': s, 'parts': pv, 'futures': fv, 'L': L})
    return out


def run_cases(ctx, cs):
    """returns list of (case, impl answer, model answer, agree)"""
    reqs, lines = [], []
    for c in cs:
        L = c['L']
        fut = futures_for(L, c['futures'])
        req = {'cmd': 'loop', 'results': list(c['results']), 'futures': fut, 'parts': PARTS[c['parts']]}
        if c['imin'] is not None:
            req['imin'] = c['imin']
        if c['imax'] != 'absent':
            req['imax'] = c['imax']
        if c['istop'] is not None:
            req['istop'] = c['istop']
        reqs.append(req)
        lines.append(None)
    # defaults of the model come from the regenerated definitions
    dflt = ctx.model().run(['defaults'])[0].split()
    d_imin, d_imax, d_istop = int(dflt[0]), (None if dflt[1] == '-' else int(dflt[1])), {'S': 'SAT', 'U': 'UNSAT', 'K': 'UNKNOWN'}[dflt[2]]
    for i, c in enumerate(cs):
        L = c['L']
        imin = d_imin if c['imin'] is None else c['imin']
        imax = d_imax if c['imax'] == 'absent' else c['imax']
        istop = d_istop if c['istop'] is None else c['istop']
        lines[i] = model_line(imax, imin, istop, PARTS[c['parts']], c['results'], futures_for(L, c['futures']), L + 1)
    impl = ctx.impl().run(reqs, timeout=20)
    mod = ctx.model().run(lines, timeout=20)
    res = []
    for c, a, m in zip(cs, impl, mod):
        if a.get('status') in ('ok', 'fuel'):
            ia = ('steps', [e.strip() for e in a['log']])
        else:
            ia = ('raised:' + a.get('type', a.get('status', '?')), [e.strip() for e in a.get('log', [])])
        if m is None or m == 'DIED' or m.startswith('error'):
            ma = ('model-error', [str(m)])
        else:
            kind, _, rest = m.partition(' ')
            ma = (kind, [e.strip() for e in rest.split(';')] if rest.strip() else [])
        agree = (ia[0] == 'steps' and ma[0] == 'steps' and ia[1] == ma[1]) or (ia[0].startswith('raised') and ma[0] == 'raised' and ia[1] == ma[1])
        res.append((c, ia, ma, agree))
    return res


def oracle_violation(c, ia):
    """the property's own reading (independent of the model): decide a concrete failing input from the implementation's call log"""
    if ia[0] != 'steps':
        return 'imain raised %s' % ia[0]
    L = c['L']
    log = ia[1]
    solves = [int(e.split()[1]) for e in log if e.startswith('S ')]
    if solves != list(range(len(solves))):
        return 'horizons solved are %s (gaps or repetitions)' % solves
    imin = 0 if c['imin'] is None else c['imin']
    imax = None if c['imax'] in ('absent', None) else c['imax']
    istop = 'SAT' if c['istop'] is None else c['istop']
    n = len(solves)
    if imax is not None and n > imax:
        return 'more than imax=%d solve calls (%d)' % (imax, n)
    if n > L:
        return None  # script exhausted: the loop was still running, nothing more to decide
    if imax is not None and n < min(imin, imax):
        return 'fewer than min(imin,imax) solve calls (%d)' % n
    if imax is None and n < imin:
        return 'fewer than imin solve calls (%d)' % n
    stop = {'SAT': 'S', 'UNSAT': 'U', 'UNKNOWN': 'K'}[istop]
    if imax is not None and n == imax:
        pass
    else:
        if n == 0:
            return 'no solve call although imax does not forbid it'
        if c['results'][n - 1] != stop:
            return 'stopped after horizon %d whose result %s does not match the stop criterion %s' % (n - 1, c['results'][n - 1], istop)
    for k in range(1, n):
        if k >= imin and c['results'][k - 1] == stop:
            return 'continued past horizon %d although its result matched the stop criterion' % (k - 1)
    # per-horizon calls must not depend on the options: compare with the canonical body
    return None


OPT_VALUES = ['0', '3', '12', '-1', '-0', 'x', '1.5', '', ' 2', '+2', '1_0', '0x10', '1e3', 'None', '2 ', '--1']
ISTOP_VALUES = ['sat', 'SAT', 'Sat', 'unsat', 'UNSAT', 'unknown', 'Unknown', 'foo', '', 'satisfiable', 'sat ']


def option_cases(ctx):
    """command-line option values vs the regenerated parsers (invalid values must be rejected before solving)"""
    repo = os.environ.get('TELINGO_REPO', '/repo')
    env = dict(os.environ, PYTHONPATH=repo, PYTHONHASHSEED='0')
    bad, n = [], 0
    stops = ctx.model().run(['optparse istop'])[0].split()
    for opt in ('imin', 'imax'):
        for val in OPT_VALUES:
            if val == '':
                continue      # clingo's own option parser rejects an empty value before telingo's callback is reached
            try:
                iv = str(int(val))
            except ValueError:
                iv = '-'
            m = ctx.model().run(['optparse %s %d %s' % (opt, 1 if val == '' else 0, iv)])[0]
            args = ['--%s=%s' % (opt, val)] + (['--imax=2'] if opt == 'imin' else [])
            p = subprocess.run(['/venv/bin/python', '-m', 'telingo'] + args, input=b'a.\n', stdout=subprocess.PIPE, stderr=subprocess.PIPE, env=env, cwd='/', timeout=60)
            n += 1
            out = p.stdout.decode(errors='replace') + p.stderr.decode(errors='replace')
            solved = 'Solving...' in out
            clean_reject = (not solved) and p.returncode not in (0, 10, 20, 30) and 'Traceback' not in out and 'PANIC' not in out
            got = 'accept' if (solved or (p.returncode in (0, 10, 20, 30))) else ('reject' if clean_reject else 'raises')
            if got != m:
                bad.append({'key': 'c08:option:%s=%s' % (opt, val), 'what': 'option --%s=%r: command line %s (exit %d), regenerated parser %s' % (opt, val, got, p.returncode, m),
                            'input': {'option': opt, 'value': val}})
    for val in ISTOP_VALUES:
        want = 'accept' if val.upper() in stops else 'reject'
        p = subprocess.run(['/venv/bin/python', '-m', 'telingo', '--istop=%s' % val, '--imax=2'], input=b'a.\n', stdout=subprocess.PIPE, stderr=subprocess.PIPE, env=env, cwd='/', timeout=60)
        n += 1
        out = p.stdout.decode(errors='replace') + p.stderr.decode(errors='replace')
        got = 'accept' if 'Solving...' in out else ('reject' if ('Traceback' not in out and 'PANIC' not in out) else 'raises')
        if got != want:
            bad.append({'key': 'c08:option:istop=%s' % val, 'what': 'option --istop=%r: command line %s, regenerated value list %s says %s' % (val, got, stops, want), 'input': {'option': 'istop', 'value': val}})
    return n, bad


def run(ctx):
    cs = cases(ctx)
    res = run_cases(ctx, cs)
    cex = []
    disagreements = 0
    lens = {}
    for c, ia, ma, agree in res:
        n = sum(1 for e in ia[1] if e.startswith('S '))
        lens[n] = lens.get(n, 0) + 1
        v = oracle_violation(c, ia)
        if not agree:
            disagreements += 1
        if v or not agree:
            if v is None:
                # model and implementation differ but the closed-form oracle is satisfied: per-horizon calls differ
                v = 'call trace differs from the model: impl %s vs model %s' % (ia[1][:12], ma[1][:12])
            cex.append({'key': 'loop:%s' % v.split(' (')[0], 'what': v, 'input': c, 'impl': ia, 'model': ma})
    cex.sort(key=lambda x: (len(x['input']['results']), json.dumps(x['input'], sort_keys=True)))
    nopt, optbad = option_cases(ctx)
    cex += optbad
    distinct = len({json.dumps((c['imin'], c['imax'], c['istop'], c['results'])) for c, _, _, _ in res})
    cov = {'evaluations': len(res) + nopt, 'distinct_nontrivial': distinct, 'exhaustive': True, 'option_value_cases': nopt,
           'rule': 'exhaustive: imin in {absent,0,1,2,3,L,L+2} x imax in {absent,None,0,1,2,3,L+3} x istop in {absent,SAT,UNSAT,UNKNOWN} x all 3^L result '
                   'sequences (L=%d); part list and atom base variant drawn from the seed; every case is distinct; non-trivial = at least one solve call '
                   'is decided by the loop condition (all are)' % cs[0]['L'],
           'solve_calls_histogram': {str(k): v for k, v in sorted(lens.items())},
           'disagreements_model_vs_impl': disagreements,
           'samples': [{'input': res[i][0], 'impl_log': res[i][1][1][:14]} for i in (0, len(res) // 2, len(res) - 1)]}
    return {'counterexamples': cex[:10], 'coverage': cov}


def replay(ctx, payload):
    c = payload['input']
    if 'option' in c:
        n, bad = option_cases(ctx)
        return any(b['input'] == c for b in bad)
    r = run_cases(ctx, [c])[0]
    return bool(oracle_violation(c, r[1]) or not r[3])
