"""C08 — the solving loop.  Theorems: coq/Props/C08.v over the loop decisions regenerated from telingo/__init__.py.
Correspondence S2: telingo.imain on a scripted fake Control vs the extracted Model/Loop.v on the same options, part lists,
atom bases and result sequences (exhaustive over small option values and all result sequences of a fixed length)."""
import itertools, json, os, subprocess

PROP_FILE = 'Props/C08.v'
GROUPS = ['imain', 'app']
LEAF_LEMMAS = ['loop_cond_gen_spec', 'part_selected_gen_spec', 'part_params_gen_spec', 'assume_false_gen_spec', 'loop_body_gen_spec',
               'defaults_gen_spec']
ASSUMPTIONS = ['clingo Control is replaced by a scripted fake in the correspondence (its solve results are the quantified sequence)',
               'option values reach imain as Python ints / None / upper-case strings (TelApp parsers, checked separately through the CLI)']

PARTS = [
    [['always', 'always', [0]], ['dynamic', 'dynamic', [0]], ['initial', 'initial', [0]]],
    [['always', 'always_0_1', [0, 1]], ['always', 'always_2', [2]], ['dynamic', 'dynamic_0_0', [0]], ['dynamic', 'dynamic_1', [1]],
     ['initial', 'initial_0_2', [0, 1, 2]], ['initial', 'initial_3', [3]], ['always', 'always', [0]], ['dynamic', 'dynamic', [0]],
     ['initial', 'initial', [0]]],
]
ROOT = {'always': 'A', 'dynamic': 'D', 'initial': 'I'}


def futures_for(L, variant):
    if variant == 0:
        return [[] for _ in range(L + 1)]
    return [[t for t in range(0, s + 3)] for s in range(L + 1)]


def model_line(imax, imin, istop, parts, results, futures, fuel):
    toks = ['loop', '-' if imax is None else str(imax), str(imin), istop[0] if istop != 'UNKNOWN' else 'K', str(len(parts))]
    for r, n, rng in parts:
        toks += [ROOT[r], n, str(len(rng))] + [str(i) for i in rng]
    toks += [str(len(results))] + list(results)
    toks += [str(len(futures))]
    for f in futures:
        toks += [str(len(f))] + [str(t) for t in f]
    toks.append(str(fuel))
    return ' '.join(toks)


def cases(ctx):
    L = 4 if ctx.quick else 6
    rng = ctx.rng('cases')
    seqs = [''.join(s) for s in itertools.product('SUK', repeat=L)]
    imins = [None, 0, 1, 2, 3, L, L + 2]
    imaxs = ['absent', None, 0, 1, 2, 3, L + 3]
    istops = [None, 'SAT', 'UNSAT', 'UNKNOWN']
    out = []
    for imin in imins:
        for imax in imaxs:
            for istop in istops:
                for s in seqs:
                    pv = rng.randrange(len(PARTS))
                    fv = rng.randrange(2)
                    out.append({'imin': imin, 'imax': imax, 'istop': istop, 'results': s, 'parts': pv, 'futures': fv, 'L': L})
    return out


def run_cases(ctx, cs):
    """returns list of (case, impl answer, model answer, agree)"""
    reqs, lines = [], []
    for c in cs:
        L = c['L']
        fut = futures_for(L, c['futures'])
        req = {'cmd': 'loop', 'results': list(c['results']), 'futures': fut, 'parts': PARTS[c['parts']]}
        if c['imin'] is not None:
            req['imin'] = c['imin']
        if c['imax'] != 'absent':
            req['imax'] = c['imax']
        if c['istop'] is not None:
            req['istop'] = c['istop']
        reqs.append(req)
        lines.append(None)
    # defaults of the model come from the regenerated definitions
    dflt = ctx.model().run(['defaults'])[0].split()
    d_imin, d_imax, d_istop = int(dflt[0]), (None if dflt[1] == '-' else int(dflt[1])), {'S': 'SAT', 'U': 'UNSAT', 'K': 'UNKNOWN'}[dflt[2]]
    for i, c in enumerate(cs):
        L = c['L']
        imin = d_imin if c['imin'] is None else c['imin']
        imax = d_imax if c['imax'] == 'absent' else c['imax']
        istop = d_istop if c['istop'] is None else c['istop']
        lines[i] = model_line(imax, imin, istop, PARTS[c['parts']], c['results'], futures_for(L, c['futures']), L + 1)
    impl = ctx.impl().run(reqs, timeout=20)
    mod = ctx.model().run(lines, timeout=20)
    res = []
    for c, a, m in zip(cs, impl, mod):
        if a.get('status') in ('ok', 'fuel'):
            ia = ('steps', [e.strip() for e in a['log']])
        else:
            ia = ('raised:' + a.get('type', a.get('status', '?')), [e.strip() for e in a.get('log', [])])
        if m is None or m == 'DIED' or m.startswith('error'):
            ma = ('model-error', [str(m)])
        else:
            kind, _, rest = m.partition(' ')
            ma = (kind, [e.strip() for e in rest.split(';')] if rest.strip() else [])
        agree = (ia[0] == 'steps' and ma[0] == 'steps' and ia[1] == ma[1]) or (ia[0].startswith('raised') and ma[0] == 'raised' and ia[1] == ma[1])
        res.append((c, ia, ma, agree))
    return res


def oracle_violation(c, ia):
    """the property's own reading (independent of the model): decide a concrete failing input from the implementation's call log"""
    if ia[0] != 'steps':
        return 'imain raised %s' % ia[0]
    L = c['L']
    log = ia[1]
    solves = [int(e.split()[1]) for e in log if e.startswith('S ')]
    if solves != list(range(len(solves))):
        return 'horizons solved are %s (gaps or repetitions)' % solves
    imin = 0 if c['imin'] is None else c['imin']
    imax = None if c['imax'] in ('absent', None) else c['imax']
    istop = 'SAT' if c['istop'] is None else c['istop']
    n = len(solves)
    if imax is not None and n > imax:
        return 'more than imax=%d solve calls (%d)' % (imax, n)
    if n > L:
        return None  # script exhausted: the loop was still running, nothing more to decide
    if imax is not None and n < min(imin, imax):
        return 'fewer than min(imin,imax) solve calls (%d)' % n
    if imax is None and n < imin:
        return 'fewer than imin solve calls (%d)' % n
    stop = {'SAT': 'S', 'UNSAT': 'U', 'UNKNOWN': 'K'}[istop]
    if imax is not None and n == imax:
        pass
    else:
        if n == 0:
            return 'no solve call although imax does not forbid it'
        if c['results'][n - 1] != stop:
            return 'stopped after horizon %d whose result %s does not match the stop criterion %s' % (n - 1, c['results'][n - 1], istop)
    for k in range(1, n):
        if k >= imin and c['results'][k - 1] == stop:
            return 'continued past horizon %d although its result matched the stop criterion' % (k - 1)
    # per-horizon calls must not depend on the options: compare with the canonical body
    return None


OPT_VALUES = ['0', '3', '12', '-1', '-0', 'x', '1.5', '', ' 2', '+2', '1_0', '0x10', '1e3', 'None', '2 ', '--1']
ISTOP_VALUES = ['sat', 'SAT', 'Sat', 'unsat', 'UNSAT', 'unknown', 'Unknown', 'foo', '', 'satisfiable', 'sat ', 'un', 'known', 't', 'nsa', 'sat|unsat', 'S', 'AT',
                'SAT|UNSAT|UNKNOWN', 'u', '|', 'UNSA', 'NOWN']


def option_cases(ctx):
    """command-line option values vs the regenerated parsers (invalid values must be rejected before solving)"""
    repo = os.environ.get('TELINGO_REPO', '/repo')
    env = dict(os.environ, PYTHONPATH=repo, PYTHONHASHSEED='0')
    bad, n = [], 0
    stops = ctx.model().run(['optparse istop'])[0].split()
    for opt in ('imin', 'imax'):
        for val in OPT_VALUES:
            try:
                iv = str(int(val))
            except ValueError:
                iv = '-'
            m = ctx.model().run(['optparse %s %d %s' % (opt, 1 if val == '' else 0, iv)])[0]
            # the empty value can only be given as a separate argument (`--imax ""`: no limit; `--imax=` is rejected by clingo's own option parser)
            args = (['--%s' % opt, ''] if val == '' else ['--%s=%s' % (opt, val)]) + (['--imax=2'] if opt == 'imin' else [])
            p = subprocess.run(['/venv/bin/python', '-m', 'telingo'] + args, input=b'a.\n', stdout=subprocess.PIPE, stderr=subprocess.PIPE, env=env, cwd='/', timeout=60)
            n += 1
            out = p.stdout.decode(errors='replace') + p.stderr.decode(errors='replace')
            solved = 'Solving...' in out
            clean_reject = (not solved) and p.returncode not in (0, 10, 20, 30) and 'Traceback' not in out and 'PANIC' not in out
            got = 'accept' if (solved or (p.returncode in (0, 10, 20, 30))) else ('reject' if clean_reject else 'raises')
            # the property's own reading, independent of the regenerated parser: a value is valid iff it is a non-negative integer (for imax also the empty value)
            spec = 'accept' if ((iv != '-' and int(iv) >= 0) or (val == '' and opt == 'imax')) else 'reject'
            if got == m and got != spec:
                bad.append({'key': 'c08:option-spec:%s=%s' % (opt, val), 'what': 'option --%s=%r: command line %s (exit %d); a value is valid exactly if it is a non-negative integer%s' % (
                    opt, val, got, p.returncode, ' or empty' if opt == 'imax' else ''), 'input': {'option': opt, 'value': val}})
            if got != m:
                bad.append({'key': 'c08:option:%s=%s' % (opt, val), 'what': 'option --%s=%r: command line %s (exit %d), regenerated parser %s' % (opt, val, got, p.returncode, m),
                            'input': {'option': opt, 'value': val}})
    for val in ISTOP_VALUES:
        want = 'accept' if val.upper() in stops else 'reject'
        p = subprocess.run(['/venv/bin/python', '-m', 'telingo', '--istop=%s' % val, '--imax=2'], input=b'a.\n', stdout=subprocess.PIPE, stderr=subprocess.PIPE, env=env, cwd='/', timeout=60)
        n += 1
        out = p.stdout.decode(errors='replace') + p.stderr.decode(errors='replace')
        got = 'accept' if 'Solving...' in out else ('reject' if ('Traceback' not in out and 'PANIC' not in out) else 'raises')
        if got != want:
            bad.append({'key': 'c08:option:istop=%s' % val, 'what': 'option --istop=%r: command line %s, regenerated value list %s says %s' % (val, got, stops, want), 'input': {'option': 'istop', 'value': val}})
    return n, bad


CLI_PROGRAMS = [
    # (text, result of horizon k as a function of k); the number of answer sets per horizon is constant (<= 2), so that a loop that
    # wrongly goes on does not explode
    ("#program initial.\ns.\n{ x }.\n#program dynamic.\nt :- 's.\nt :- 't.\nu :- 't.\n#program final.\n:- not u.\n", lambda k: 'S' if k >= 2 else 'U'),
    ("#program initial.\n{ x }.\n#program dynamic.\nz :- 'x.\n", lambda k: 'S'),
    ("#program always.\ny.\n:- y.\n", lambda k: 'U'),
    ("#program always.\n{ x }.\n#program initial.\n:- not x.\n#program dynamic.\n:- x, 'x.\n:- not x, not 'x.\n#program final.\n:- x, not &initial.\n", lambda k: 'S' if k % 2 == 1 or k == 0 else 'U'),
]


def cli_loop_cases(ctx):
    """the command line tool under option settings vs imain in-process with the same options: number of solve calls, results and the
    answer sets of every call (all of them enumerated), and the closed-form reading of the property on the observed calls"""
    repo = os.environ.get('TELINGO_REPO', '/repo')
    env = dict(os.environ, PYTHONPATH=repo, PYTHONHASHSEED='0')
    rng = ctx.rng('cli-loop')
    grid = []
    for pi, (txt, resf) in enumerate(CLI_PROGRAMS):
        for imin in (None, 0, 1, 3):
            for imax in (None, 0, 1, 2, 4):
                for istop in (None, 'sat', 'unsat', 'unknown'):
                    stop = {'sat': 'S', 'unsat': 'U', 'unknown': 'K', None: 'S'}[istop]
                    if imax is None and not any(resf(k) == stop for k in range(max(imin or 0, 1) - 1, 6)):
                        continue      # would not terminate by the property itself
                    grid.append((pi, imin, imax, istop))
    if ctx.quick:
        keep = [g for g in grid if g[2] == 0 or (g[1] == 3 and g[2] in (None, 4))]
        grid = keep + rng.sample([g for g in grid if g not in keep], 40)
    bad, n = [], 0
    reqs = []
    for pi, imin, imax, istop in grid:
        r = {'cmd': 'solve', 'texts': [CLI_PROGRAMS[pi][0]], 'imax': imax, 'count_calls': True, 'default_config': True}
        if imin is not None:
            r['imin'] = imin
        if istop is not None:
            r['istop'] = istop.upper()
        reqs.append(r)
    inproc = ctx.impl().run(reqs, timeout=60)
    from concurrent.futures import ThreadPoolExecutor

    def cli(args_txt):
        args, txt = args_txt
        try:
            p = subprocess.run(['/venv/bin/python', '-m', 'telingo'] + args, input=txt.encode(), stdout=subprocess.PIPE, stderr=subprocess.PIPE, env=env, cwd='/', timeout=25)
            pt = subprocess.run(['/venv/bin/python', '-m', 'telingo'] + [a for a in args if a != '--outf=2'], input=txt.encode(), stdout=subprocess.PIPE, stderr=subprocess.PIPE, env=env, cwd='/', timeout=25)
            return p, pt
        except subprocess.TimeoutExpired:
            return None
    jobs = []
    for pi, imin, imax, istop in grid:
        args = ['0', '--outf=2'] + (['--imin=%d' % imin] if imin is not None else []) + (['--imax=%d' % imax] if imax is not None else []) + (['--istop=%s' % istop] if istop else [])
        jobs.append((args, CLI_PROGRAMS[pi][0]))
    with ThreadPoolExecutor(8) as ex:
        outs = list(ex.map(cli, jobs))
    for (pi, imin, imax, istop), ip, (args, _), o in zip(grid, inproc, jobs, outs):
        txt, resf = CLI_PROGRAMS[pi]
        inp = {'cli_program': txt, 'args': args}
        n += 1
        if o is None:
            bad.append({'key': 'c08:cli:%d:%s' % (pi, ' '.join(args)), 'what': 'command line run with %s does not terminate within 25 s' % ' '.join(args), 'input': inp})
            continue
        p, pt = o
        try:
            js = json.loads(p.stdout.decode(errors='replace'))
        except ValueError:
            bad.append({'key': 'c08:cli:%d:%s' % (pi, ' '.join(args)), 'what': 'no JSON output (exit %d): %s' % (p.returncode, p.stderr.decode(errors='replace')[-200:]), 'input': inp})
            continue
        nsolve = pt.stdout.decode(errors='replace').count('Solving...')     # the JSON output lists one Call entry even when no solve call is made
        calls = js.get('Call', [])[:nsolve]
        if nsolve > len(js.get('Call', [])):
            calls = js.get('Call', []) + [{}] * (nsolve - len(js.get('Call', [])))
        got = [sorted(' '.join(sorted(w.get('Value', []))) for w in c.get('Witnesses', [])) for c in calls]
        if ip.get('status') != 'ok':
            bad.append({'key': 'c08:cli:%d:%s' % (pi, ' '.join(args)), 'what': 'in-process run fails: %s' % json.dumps({k: ip.get(k) for k in ('status', 'type', 'msg')}), 'input': inp})
            continue
        want = [[] for _ in ip['calls']]
        for step, atoms in ip['models']:
            if step < len(want):
                want[step].append(' '.join(sorted(('-' if not pos else '') + nm + ('(%s)' % ','.join(a + [str(t)]) if t is not None else '') for nm, a, t, pos in atoms)))
        want = [sorted(w) for w in want]
        L = 8
        c = {'L': L, 'imin': imin, 'imax': 'absent' if imax is None else imax, 'istop': istop.upper() if istop else None, 'results': ''.join(resf(k) for k in range(L))}
        v = oracle_violation(c, ('steps', ['S %d' % k for k in range(len(calls))]))
        if v:
            bad.append({'key': 'c08:cli:%d:%s' % (pi, ' '.join(args)), 'what': 'command line with %s: %s' % (' '.join(args), v), 'input': inp})
        elif len(got) != len(want):
            bad.append({'key': 'c08:cli:%d:%s' % (pi, ' '.join(args)), 'what': 'command line makes %d solve calls, imain with the same options %d' % (len(got), len(want)), 'input': inp})
        elif got != want:
            k = next(i for i in range(len(got)) if got[i] != want[i])
            bad.append({'key': 'c08:cli:%d:%s' % (pi, ' '.join(args)), 'what': 'answer sets of horizon %d differ between the command line (%d) and imain with the same options (%d)' % (k, len(got[k]), len(want[k])), 'input': inp})
    return n, bad


def run(ctx):
    cs = cases(ctx)
    res = run_cases(ctx, cs)
    cex = []
    disagreements = 0
    lens = {}
    for c, ia, ma, agree in res:
        n = sum(1 for e in ia[1] if e.startswith('S '))
        lens[n] = lens.get(n, 0) + 1
        v = oracle_violation(c, ia)
        if not agree:
            disagreements += 1
        if v or not agree:
            if v is None:
                # model and implementation differ but the closed-form oracle is satisfied: per-horizon calls differ
                v = 'call trace differs from the model: impl %s vs model %s' % (ia[1][:12], ma[1][:12])
            cex.append({'key': 'loop:%s' % v.split(' (')[0], 'what': v, 'input': c, 'impl': ia, 'model': ma})
    cex.sort(key=lambda x: (len(x['input']['results']), json.dumps(x['input'], sort_keys=True)))
    nopt, optbad = option_cases(ctx)
    cex += optbad
    ncli, clibad = cli_loop_cases(ctx)
    cex += clibad
    distinct = len({json.dumps((c['imin'], c['imax'], c['istop'], c['results'])) for c, _, _, _ in res})
    cov = {'evaluations': len(res) + nopt + ncli, 'cli_loop_cases': ncli, 'distinct_nontrivial': distinct, 'exhaustive': True, 'option_value_cases': nopt,
           'rule': 'exhaustive: imin in {absent,0,1,2,3,L,L+2} x imax in {absent,None,0,1,2,3,L+3} x istop in {absent,SAT,UNSAT,UNKNOWN} x all 3^L result '
                   'sequences (L=%d); part list and atom base variant drawn from the seed; every case is distinct; non-trivial = at least one solve call '
                   'is decided by the loop condition (all are)' % cs[0]['L'],
           'solve_calls_histogram': {str(k): v for k, v in sorted(lens.items())},
           'disagreements_model_vs_impl': disagreements,
           'samples': [{'input': res[i][0], 'impl_log': res[i][1][1][:14]} for i in (0, len(res) // 2, len(res) - 1)]}
    return {'counterexamples': cex[:10], 'coverage': cov}


def replay(ctx, payload):
    c = payload['input']
    if 'option' in c:
        n, bad = option_cases(ctx)
        return any(b['input'] == c for b in bad)
    if 'cli_program' in c:
        n, bad = cli_loop_cases(ctx)
        return any(b['input'] == c for b in bad)
    r = run_cases(ctx, [c])[0]
    return bool(oracle_violation(c, r[1]) or not r[3])
