"""C09 — every reported answer set is a well-formed finite trace.
Theorems: coq/Props/C09.v.  Correspondence (real pipeline, symbols(atoms=True)): random programs from all generators and the shipped
examples; in every answer set at horizon h every time-stamped atom has a time point in [0,h], __initial(t) holds exactly for t=0,
__final(t) exactly for t=h, and __future_p(x,n,t) implies p(x,t)."""
import json, os, re
import gen, lang, meta, findings
from props import c04, c17

PROP_FILE = 'Props/C09.v'
GROUPS = ['imain']
LEAF_LEMMAS = ['assume_false_gen_spec', 'loop_body_gen_spec']
ASSUMPTIONS = ['gringo/clasp contract G1-G6 (DESIGN.md 5.3)', 'for non-ground programs and the shipped examples the statement is checked on the real answer sets only']
REPO = os.environ.get('TELINGO_REPO', '/repo')
ATOM = re.compile(r'^(-?)([^(@]+)(?:\((.*)\))?@(-?\d+|None)$')


def wf_violation(res, H):
    if 'error' in res:
        return 'pipeline fails: ' + json.dumps(res['error'])
    for h, ms in res['ok'].items():
        for m in ms:
            atoms = set(m)
            ini = [a for a in m if a.startswith('__initial@')]
            fin = [a for a in m if a.startswith('__final@')]
            if ini != ['__initial@0']:
                return {'horizon': h, 'initial_markers': ini}
            if fin != ['__final@%d' % h]:
                return {'horizon': h, 'final_markers': fin}
            for a in m:
                mo = ATOM.match(a)
                if not mo or mo.group(4) == 'None':
                    continue
                t = int(mo.group(4))
                if not 0 <= t <= h:
                    return {'horizon': h, 'atom_outside_trace': a}
                if mo.group(2).startswith('__future_'):
                    args = mo.group(3).split(',') if mo.group(3) else []
                    tgt = '%s%s%s@%d' % (mo.group(1), mo.group(2)[len('__future_'):], '(%s)' % ','.join(args[:-1]) if len(args) > 1 else '', t)
                    if tgt not in atoms:
                        return {'horizon': h, 'future_atom': a, 'missing_target': tgt}
    return None


def programs(ctx, n):
    rng = ctx.rng('programs')
    out = []
    for i in range(n):
        atoms = ['a', 'b'] + (['c'] if rng.random() < 0.3 else [])
        k = rng.random()
        if k < 0.3:
            p = gen.core_program(rng, atoms, (1, 4))
        elif k < 0.65:
            p = gen.core_program(rng, atoms, (1, 4), future_head=0.5, lookahead=0.5, maxfut=3)
            if rng.random() < 0.3:
                p.append({'part': 'initial', 'head': ('norm', 'q(1)', rng.randint(1, 3)), 'body': []})
                p.append({'part': 'dynamic', 'head': ('norm', '-q(2)', rng.randint(1, 2)), 'body': [('n', ('patom', 'a', 0))]})
            if rng.random() < 0.4:
                # classically negated atoms (an odd or even number of them) textually BEFORE positive future heads: sign bookkeeping of future predicates
                pre = [{'part': 'always', 'head': ('norm', '-c', 0), 'body': [('n', ('patom', 'a', 0))]}]
                if rng.random() < 0.5:
                    pre.append({'part': 'always', 'head': ('norm', 'zz', 0), 'body': [('n', ('patom', '-c', 0)), ('p', ('patom', '-c', 1))][:rng.randint(1, 2)]})
                p = pre + p + [{'part': rng.choice(['always', 'dynamic']), 'head': ('norm', rng.choice(atoms), rng.randint(1, 2)), 'body': [('p', ('patom', rng.choice(atoms), 0))]}]
        elif k < 0.8:
            p = gen.context_program(rng, atoms)
            for _ in range(rng.randint(1, 2)):
                p.append({'part': rng.choice(gen.PARTS), 'head': ('norm', 'c', 0), 'body': [(rng.choice('nm'), ('tel', gen.formula(rng, atoms, 3)))]})
        elif k < 0.92:
            p = gen.context_program(rng, atoms) + [c04.head_rule(rng, atoms, 3) for _ in range(rng.randint(1, 2))]
        else:
            p = gen.context_program(rng, atoms)
            p.append({'part': rng.choice(gen.PARTS), 'head': ('norm', 'c', 0), 'body': [(rng.choice('nm'), ('del', ('dia', gen.path(rng, atoms, 2), ('atom', 'a'))))]})
        out.append(p)
    return out


def examples():
    ex = []
    def rd(*p):
        return open(os.path.join(REPO, 'examples', *p)).read()
    try:
        ex.append(('hanoi-n2', [rd('hanoi', 'encoding.lp'), rd('hanoi', 'instance.lp').replace('#const n=4.', '#const n=2.')], 4))
        ex.append(('river-crossing', [rd('river-crossing', 'encoding.lp')], 7))
        ex.append(('monkey', [rd('monkey', 'encoding.lp')], 4))
        ex.append(('simple', [rd('simple', 'encoding.lp'), rd('simple', 'instance.lp')], 4))
        ex.append(('del-ex1', [rd('del', 'ex1.lp')], 3))
        ex.append(('moore-basic', [rd('moore', 'moore-basic.lp')], 3))
        ex.append(('logistics', [rd('logistics', 'encoding.lp'), rd('logistics', 'instance.lp')], 2))
    except OSError:
        pass
    return ex


def run(ctx):
    H = 3 if ctx.quick else 4
    progs = programs(ctx, 400 if ctx.quick else 1500)
    inputs = [[lang.prog_txt(p)] for p in progs]
    res = meta.answer_sets(ctx, inputs, H, atoms=True, keep_aux=True)
    cex, nontriv, fut = [], set(), 0
    for p, t, r in zip(progs, inputs, res):
        v = wf_violation(r, H)
        if v and not ('error' in r):
            cex.append({'key': 'c09:' + t[0].replace('\n', ' '), 'what': 'ill-formed answer set: ' + json.dumps(v), 'input': {'rules': p, 'texts': t, 'H': H}})
        elif 'ok' in r and any(r['ok'].values()):
            nontriv.add(t[0])
            if any(a.startswith('__future_') or a.startswith('-__future_') for ms in r['ok'].values() for m in ms for a in m):
                fut += 1
    exs = examples()
    ran = []
    for name, texts, eh in exs:
        r = meta.answer_sets(ctx, [texts], eh, timeout=180, atoms=True, keep_aux=True)[0]
        v = wf_violation(r, eh)
        ran.append({'example': name, 'horizons': eh + 1, 'answer_sets': sum(len(x) for x in r['ok'].values()) if 'ok' in r else None, 'error': r.get('error')})
        if v and 'ok' in r:
            cex.append({'key': 'c09:example:' + name, 'what': 'ill-formed answer set in shipped example %s: %s' % (name, json.dumps(v)), 'input': {'texts': texts, 'H': eh}})
        elif 'ok' in r and any(r['ok'].values()):
            nontriv.add(name)
    cov = {'evaluations': len(inputs) + len(exs), 'distinct_nontrivial': len(nontriv),
           'rule': 'random programs from the core / future-head / look-ahead / body-formula / head-formula / del generators, horizons 0..%d, and the shipped examples; ALL atoms of every '
                   'answer set (symbols(atoms=True)) are checked; non-trivial = distinct program with at least one answer set' % H,
           'programs_with_future_atoms_in_answer_sets': fut, 'examples': ran,
           'answer_sets_checked': sum(sum(len(v) for v in r['ok'].values()) for r in res if 'ok' in r),
           'samples': [{'program': inputs[i][0]} for i in (0, len(inputs) // 2)]}
    return {'counterexamples': cex[:8], 'coverage': cov}


def replay(ctx, payload):
    inp = payload['input']
    r = meta.answer_sets(ctx, [inp['texts']], inp.get('H', 3), timeout=180, atoms=True, keep_aux=True)[0]
    return 'ok' in r and wf_violation(r, inp.get('H', 3)) is not None
