"""C13 — body temporal formulas are pure observers of the trace.
Theorems: coq/Props/C13.v (frozen choice + unique definitional extension).  Correspondence (metamorphic, real pipeline): for base
programs P from the C01-C05 generators and the shipped examples, and formulas phi (tel and del): AS(P + observer) projected = AS(P);
AS(P + `:- &tel{phi}` in initial) and AS(P + `:- not &tel{phi}` in initial) are disjoint and together AS(P), at every horizon,
with multiplicity."""
import json, os, glob
import gen, lang, meta, findings
from props import c04, c05, c03

PROP_FILE = 'Props/C13.v'
GROUPS = ['imain', 'theory']
LEAF_LEMMAS = []
ASSUMPTIONS = ['gringo/clasp contract G1-G6 (DESIGN.md 5.3)']


def base_programs(ctx, n):
    rng = ctx.rng('base')
    out = []
    late = [p for _, p in c03.constraint_programs(ctx, n // 4)] + [p for _, p in c05.constraint_programs(ctx, n // 8)]
    for i in range(n):
        atoms = ['a', 'b'] + (['c'] if rng.random() < 0.4 else [])
        k = rng.random()
        if late and rng.random() < 0.3:
            p = late.pop()        # look-ahead constraints with theory atoms: atoms that reach the theory after their state was translated
        elif k < 0.35:
            p = gen.core_program(rng, atoms, (1, 4))
        elif k < 0.55:
            p = gen.core_program(rng, atoms, (1, 4), future_head=0.35, lookahead=0.6)
        elif k < 0.75:
            p = gen.context_program(rng, atoms)
            p.append({'part': rng.choice(gen.PARTS), 'head': ('cons',), 'body': [(rng.choice('pnm'), ('tel', gen.formula(rng, atoms, 2)))]})
        elif k < 0.9:
            p = gen.context_program(rng, atoms) + [c04.head_rule(rng, atoms, 2)]
            if findings.in_open_class(p, 'C04'):
                p = gen.context_program(rng, atoms)
        else:
            p = gen.context_program(rng, atoms)
            p.append({'part': rng.choice(gen.PARTS), 'head': ('cons',), 'body': [(rng.choice('pnm'), ('del', ('dia', gen.path(rng, atoms, 2), ('atom', 'a'))))]})
        if rng.random() < 0.6:
            f = ('tel', gen.formula(rng, atoms, rng.randint(1, 3)))
        else:
            f = ('del', gen.dformula(rng, atoms, rng.randint(1, 2), 2))
            if f[1][0] not in ('dia', 'box'):
                f = ('del', ('box', ('star', ('skip',)), f[1]))
        # half of the time the observed formula is RELATED to a formula the base program already mentions (same formula, a
        # sub-formula, the weak/strong or dual sibling, the formula reached late through a past operator)
        mentioned = [(l[1] if l[1][0] != 'tels' else ('tel', ('and', l[1][1][0], l[1][1][1]))) for r in p for l in r['body'] if l[1][0] in ('tel', 'del', 'tels')]
        if mentioned and rng.random() < 0.6:
            kind, g = rng.choice(mentioned)
            f = (kind, gen.related(rng, g, kind))
        elif rng.random() < 0.3 and f[0] == 'tel':
            # ... or the base program gets a constraint that reaches a related formula late
            g = gen.related(rng, f[1], 'tel')
            p = p + [{'part': rng.choice(['dynamic', 'always', 'final']), 'head': ('cons',), 'body': [(rng.choice('nm'), ('tel', rng.choice([('initially', g), ('prev', None, g), ('since', None, g)])))]}]
        out.append((p, f, rng.choice(gen.PARTS)))
    # fixed family: pending chains of next operators below past operators (the same sub-formula and state is reached again at later solving steps)
    fam = gen.revisit_family()
    for f in fam:
        out.append(([{'part': 'always', 'head': ('choice', ['a', 'b']), 'body': []}], ('tel', f), 'always'))
    # fixed family: the base program mentions a formula, the observer its weak / strong or dual sibling (two formulas that differ in one flag only)
    a, b = ('atom', 'a'), ('atom', 'b')
    for f in [('prev', None, a), ('wprev', None, a), ('prev', 2, a), ('next', None, a), ('wnext', None, a), ('next', 2, a), ('until', a, b), ('release', a, b), ('since', a, b), ('trigger', a, b),
              ('until', None, a), ('since', None, a), ('seqnext', a, b), ('seqprev', a, b), ('and', a, ('prev', None, b)), ('initially', a), ('or', ('wprev', None, a), ('wnext', None, b))]:
        for g in sorted({gen.sibling(ctx.rng('sib', json.dumps(f), j), f) for j in range(6)} - {f}, key=json.dumps):
            for sg in 'nm':
                out.append(([{'part': 'always', 'head': ('choice', ['a', 'b']), 'body': []}, {'part': 'always', 'head': ('norm', 'c', 0), 'body': [(sg, ('tel', f))]}], ('tel', g), 'always'))
    # ... and operators whose symbols share characters (gen.CONFUSABLE), both ways round
    for f, g in gen.CONFUSABLE:
        for x, y in ((f, g), (g, f)):
            out.append(([{'part': 'always', 'head': ('choice', ['a', 'b']), 'body': []}, {'part': 'always', 'head': ('norm', 'c', 0), 'body': [('m', ('tel', x))]}], ('tel', y), 'always'))
    # fixed family: the base program mentions a formula, the observer a formula that differs from it in ONE place (another atom, operands exchanged):
    # the closest two different formulas can be - their values, and whatever the translation shares between them, must stay apart
    c = ('atom', 'c')
    ta, tb, pa, pb = ('test', a), ('test', b), ('patom', 'a'), ('patom', 'b')
    close = [('tel', f) for f in [('and', a, b), ('or', a, ('prev', None, b)), ('until', a, b), ('since', a, b), ('seqnext', a, b), ('release', a, ('next', None, b)), ('next', 2, a)]]
    close += [('del', f) for f in [('dia', ('choice', ta, tb), c), ('box', ('choice', ta, tb), c), ('dia', ('seq', ta, pb), c), ('dia', ('choice', pa, pb), c), ('box', ('star', pa), b),
                                   ('dia', ('seq', pa, ('star', pb)), c), ('dia', ('choice', ta, ('seq', tb, ('skip',))), c)]]
    j = 0
    for kind, f in close:
        for g in gen.leaf_variants(f, ['a', 'b', 'c']):
            j += 1
            out.append(([{'part': 'always', 'head': ('choice', ['a', 'b', 'c']), 'body': []}, {'part': 'always', 'head': ('norm', 'd', 0), 'body': [('nm'[j % 2], (kind, f))]}], (kind, g), 'always'))
    return out


def variants(p, f, wpart):
    base = lang.prog_txt(p)
    obs = lang.prog_txt(p + [{'part': wpart, 'head': ('norm', 'wobs', 0), 'body': [('m', f)]}])
    pos = lang.prog_txt(p + [{'part': 'initial', 'head': ('cons',), 'body': [('p', f)]}])
    neg = lang.prog_txt(p + [{'part': 'initial', 'head': ('cons',), 'body': [('n', f)]}])
    return [[base], [obs], [pos], [neg]]


# raw-text family: theory atoms the formula generators cannot write (no element at all; several elements; the constant next to the empty atom)
RAW_BASE = '#program always.\n{ a; b }.\n'
RAW_CASES = [('', ['&tel { }']), ('x :- not not &tel { &true }.\n', ['&tel { }']), ('x :- not not &tel { }.\n', ['&tel { &true }']), ('x :- not not &del { }.\n', ['&tel { }']),
             ('x :- not not &tel { }.\n', ['&del { }']), ('', ['&del { }']), ('x :- not &tel { }.\n', ['&tel { a ; &true }']), ('x :- not not &tel { a }.\n', ['&tel { a ; &true }']),
             ('x :- not not &tel { a ; b }.\n', ['&tel { a & b }']), ('x :- not not &tel { > a ; b }.\n', ['&tel { b & > a }', '&tel { }']), ('y :- not not &del { &true .>? a }.\n', ['&del { }', '&tel { > a }'])]


def raw_variants(base, atom, part='always'):
    b = RAW_BASE + base
    return [[b], [b + '#program %s.\nwobs :- not not %s.\n' % (part, atom)], [b + '#program initial.\n:- %s.\n' % atom], [b + '#program initial.\n:- not %s.\n' % atom]]


def judge(rs):
    """rs = results of base, observer, positive constraint, negated constraint"""
    b, o, p, n = rs
    if any(r.get('timeout') for r in rs):
        return None      # watchdog hit: performance, not a wrong answer
    if any('error' in r for r in rs):
        if all('error' in r for r in rs):
            return None      # the base program itself is rejected (e.g. unsupported placement): nothing to compare
        return 'one variant fails: ' + json.dumps([r.get('error', 'ok') for r in rs])
    for h in sorted(b['ok']):
        if o['ok'][h] != b['ok'][h]:
            return 'observer changes the answer sets at horizon %d' % h
        if sorted(p['ok'][h] + n['ok'][h]) != b['ok'][h]:
            return 'constraint / negated constraint do not partition the answer sets at horizon %d' % h
        if set(p['ok'][h]) & set(n['ok'][h]):
            return 'an answer set satisfies both the constraint and its negation at horizon %d' % h
    return None


def run(ctx):
    H = 3 if ctx.quick else 4
    items = base_programs(ctx, 300 if ctx.quick else 1200)
    inputs = []
    for p, f, w in items:
        inputs += variants(p, f, w)
    res = meta.answer_sets(ctx, inputs, H, hide=('wobs',))
    cex, nontriv, rejected = [], set(), 0
    for i, (p, f, w) in enumerate(items):
        rs = res[4 * i:4 * i + 4]
        v = judge(rs)
        if all('error' in r for r in rs):
            rejected += 1
        if v:
            cex.append({'key': 'c13:' + inputs[4 * i + 1][0].replace('\n', ' '), 'what': v,
                        'input': {'rules': p, 'formula': f, 'wpart': w, 'H': H, 'program': inputs[4 * i][0], 'observer_program': inputs[4 * i + 1][0]}})
        elif all('ok' in r for r in rs) and any(rs[2]['ok'][h] and rs[3]['ok'][h] for h in rs[0]['ok']):
            nontriv.add(inputs[4 * i + 1][0])
    # shipped examples without show statements interfering: observer over their own atoms is covered in C09/C17; here a fixed small one
    rinputs, rmeta = [], []
    for base, atoms in RAW_CASES:
        for atom in atoms:
            for part in ('always', 'dynamic'):
                rinputs += raw_variants(base, atom, part)
                rmeta.append((base, atom, part))
    rres = meta.answer_sets(ctx, rinputs, H, hide=('wobs',))
    for i, (base, atom, part) in enumerate(rmeta):
        v = judge(rres[4 * i:4 * i + 4])
        if v:
            cex.append({'key': 'c13:raw:' + rinputs[4 * i + 1][0].replace('\n', ' '), 'what': v, 'input': {'raw': [base, atom, part], 'H': H, 'program': rinputs[4 * i][0], 'observer_program': rinputs[4 * i + 1][0]}})
    cov = {'evaluations': 4 * len(items) + len(rinputs), 'raw_text_cases': len(rmeta), 'distinct_nontrivial': len(nontriv),
           'rule': 'base programs from the core / future / body-formula / head-formula / del generators x one tel or del formula; four pipeline runs each (P, P+observer, '
                   'P+constraint, P+negated constraint), horizons 0..%d compared with multiplicity; non-trivial = both classes of the split are non-empty at some horizon' % H,
           'base_programs': len(items), 'base_programs_rejected_by_telingo': rejected,
           'samples': [{'observer_program': inputs[4 * i + 1][0]} for i in (0, len(items) // 2)]}
    return {'counterexamples': cex[:8], 'coverage': cov}


def totuple(x):
    return tuple(totuple(y) for y in x) if isinstance(x, list) else x


def replay(ctx, payload):
    inp = payload['input']
    if 'raw' in inp:
        base, atom, part = inp['raw']
        return judge(meta.answer_sets(ctx, raw_variants(base, atom, part), inp.get('H', 3), hide=('wobs',))) is not None
    f = totuple(inp['formula'])
    res = meta.answer_sets(ctx, variants(inp['rules'], f, inp['wpart']), inp.get('H', 3), hide=('wobs',))
    return judge(res) is not None
