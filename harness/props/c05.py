"""C05 — &del formulas are evaluated with LDLf.
Theorems: coq/Props/C05.v.  Correspondence: witness rules w_i :- not not &del{delta_i} at every state; in every answer set at
every horizon, w_i(k) iff LDL.dsat (extracted from Coq) of delta_i at k; paths in the documented normal form (iteration only over
step-consuming bodies), atoms with and without arguments as test-then-step; plus constraints over &del atoms vs Oracle.tsm_enum."""
import json
import gen, s4, lang, thstruct, meta
from props import c01, c03

PROP_FILE = 'Props/C05.v'
GROUPS = ['imain', 'theory', 'dynamic', 'reps']
LEAF_LEMMAS = ['reduce_eqs_hold']
ASSUMPTIONS = ['gringo/clasp contract G1-G6 (DESIGN.md 5.3)', 'non-normal paths (iteration over bodies that may not consume a step) are outside the property and only checked for their outcome class in C15']


def items(ctx, n=None):
    rng = ctx.rng('items')
    n = n or (400 if ctx.quick else 1500)
    out = []
    for i in range(n):
        atoms = ['a', 'b'] if rng.random() < 0.7 else ['a', 'p(1)']
        k = rng.choice([1, 2, 2, 3])
        fs = [('del', gen.dformula(rng, atoms, rng.randint(1, 3), rng.randint(1, 3))) for _ in range(k)]
        fs = [f for f in fs if f[1][0] in ('dia', 'box')] or [('del', ('dia', ('skip',), ('atom', 'a')))]
        out.append((gen.context_program(rng, atoms), fs))
    # fixed family: two formulas whose paths differ in the bracketing only (choice / sequence nested either way), in both orders
    ctxp = [{'part': 'always', 'head': ('choice', ['a', 'b', 'c']), 'body': []}]
    for leaves in ([('test', ('atom', 'a')), ('test', ('atom', 'b')), ('skip',)], [('patom', 'a'), ('skip',), ('patom', 'b')], [('skip',), ('test', ('atom', 'a')), ('patom', 'b')]):
        x, y, z = leaves
        for o1 in ('choice', 'seq'):
            for o2 in ('choice', 'seq'):
                p1, p2 = (o2, (o1, x, y), z), (o1, x, (o2, y, z))
                for m in ('dia', 'box'):
                    f1, f2 = ('del', (m, p1, ('atom', 'c'))), ('del', (m, p2, ('atom', 'c')))
                    out.append((ctxp, [f1, f2]))
                    out.append((ctxp, [f2, f1]))
    return out


def constraint_programs(ctx, n=None):
    rng = ctx.rng('constraints')
    n = n or (120 if ctx.quick else 500)
    out = []
    for i in range(n):
        atoms = ['a', 'b']
        rules = gen.context_program(rng, atoms)
        for _ in range(rng.choice([1, 1, 2])):
            f = gen.dformula(rng, atoms, rng.randint(1, 2), 2)
            if f[0] not in ('dia', 'box'):
                f = ('dia', ('patom', 'a'), f)
            part = rng.choice(gen.PARTS)
            k = rng.random()
            if k < 0.3:
                # look-ahead constraint: the &del atom of state t reaches the theory one or two steps late
                rules.append({'part': rng.choice(['initial', 'always', 'dynamic']), 'head': ('cons',),
                              'body': [(rng.choice('pnm'), ('del', f)), (rng.choice('pn'), ('fatom', rng.choice(atoms), rng.randint(1, 2)))]})
                if rng.random() < 0.7:      # ... while a sub-formula of it was already translated for another atom
                    subs = [g for g in gen.subformulas(f) if g[0] in ('dia', 'box')]
                    rules.append({'part': 'always', 'head': ('norm', 'c', 0), 'body': [(rng.choice('nm'), ('del', rng.choice(subs)))]})
            elif k < 0.65:
                rules.append({'part': part, 'head': ('cons',), 'body': [(rng.choice('pnm'), ('del', f))]})
            else:
                rules.append({'part': part, 'head': ('norm', 'c', 0), 'body': [(rng.choice('nm'), ('del', f))]})
        out.append(('constraint', rules))
    return out


def path_ops(p, acc):
    if isinstance(p, tuple):
        acc[p[0]] = acc.get(p[0], 0) + 1
        for x in p[1:]:
            path_ops(x, acc)


def run(ctx):
    H = 3 if ctx.quick else 4
    its = items(ctx)
    recs = s4.value_check(ctx, its, H)
    cex = c03.value_cex(recs, its)
    if cex:
        c0 = cex[0]
        c, fs = c03.shrink_value(ctx, c0['input']['context'], [tuple(x) for x in c0['input']['formulas']], H)
        r = s4.value_check(ctx, [(c, fs)], H)[0]
        if r['status'] in ('differ', 'implerror'):
            cex.insert(0, c03.value_cex([r], [(c, fs)])[0])
    # the deterministic trace of the C03 long-run family, observed to horizon 8 by &del formulas (iterations that run over many states, nested modalities)
    a_, b_ = ('atom', 'a'), ('atom', 'b')
    pa_, pb_, sk_ = ('patom', 'a'), ('patom', 'b'), ('skip',)
    dfs = [('dia', ('star', sk_), b_), ('box', ('star', ('seq', sk_, sk_)), a_), ('dia', ('star', ('choice', pa_, ('seq', sk_, pb_))), ('final',)),
           ('box', ('seq', ('star', pa_), ('test', b_)), ('dia', ('seq', sk_, sk_), a_)), ('dia', ('seq', ('seq', sk_, sk_), ('seq', sk_, ('seq', sk_, sk_))), a_), ('box', ('star', ('seq', ('test', a_), sk_)), ('dia', sk_, ('true',))),
           ('dia', ('star', ('seq', sk_, ('seq', sk_, sk_))), ('box', sk_, ('false',))), ('box', ('choice', ('star', pb_), ('seq', sk_, ('star', pa_))), ('dia', ('star', sk_), b_))]
    lctx = c03.long_run_items()[0][0]
    lits = [(lctx, [('del', f) for f in dfs[i:i + 4]]) for i in range(0, len(dfs), 4)]
    lrecs = s4.value_check(ctx, lits, 8)
    cex += c03.value_cex(lrecs, lits)
    progs = constraint_programs(ctx)
    maxbits = 12 if ctx.quick else 13
    H2 = 3 if ctx.quick else 4
    recs2 = s4.compare(ctx, [p for _, p in progs], H2, maxbits)
    res2 = c01.summarize(ctx, progs, recs2, H2, maxbits, 'C05')
    # structural correspondence: the operational model with the dynamic layer (Model/BodyTheoryFull.v, Dia / Box over the regenerated construction
    # tables) and Theory.translate emit the same constraints, event by event, for programs with &del atoms
    # atoms with arguments in path expressions and formulas: the programs with their atoms renamed against the programs themselves
    rcex, rnon = meta.renaming_cex(ctx, [p for _, p in progs][:40 if ctx.quick else 200], 3, 'C05', amap=meta.AMAP_DEL)
    cex += rcex
    scs = [fs for fs in thstruct.cases(ctx, 120 if ctx.quick else 500) if any(f[0] == 'DEL' for _, f in fs)]
    srecs = thstruct.compare(ctx, scs, H)
    sstat = {}
    for fs, r in zip(scs, srecs):
        sstat[r['status']] = sstat.get(r['status'], 0) + 1
        if r['status'] in ('differ', 'implerror', 'modelerror'):
            cex.append({'key': 'c05:structure:' + r['program'].replace('\n', ' '), 'what': 'Theory.translate and the model Model/BodyTheoryFull.v differ on a program with &del atoms: %s' % r.get('what'),
                        'input': {'structure': [[p_, f] for p_, f in fs], 'H': H, 'program': r['program']}})
    ops = {}
    for c, fs in its:
        for _, f in fs:
            path_ops(f, ops)
    stat = {}
    for r in recs:
        stat[r['status']] = stat.get(r['status'], 0) + 1
    nontriv = len({r['program'] for r in recs if r['status'] == 'agree' and 0 < r['true_values'] < r['values']})
    cov = {'evaluations': len(recs) + len(recs2) + len(srecs), 'long_run_status': [r['status'] for r in lrecs], 'structure_status_histogram': sstat, 'structure_events_compared': sum(r['events'] for r in srecs), 'distinct_nontrivial': nontriv + res2['coverage']['distinct_nontrivial'],
           'rule': 'witness programs: random context + 1-3 witness rules over &del formulas (nesting <= 3, normal-form paths of depth <= 3, atoms a, b, p(1)); horizons 0..%d of one '
                   'incremental run; every state of (a seeded sample of) the answer sets compared with LDL.dsat; non-trivial = witness values neither all true nor all false; '
                   'constraint programs: %s; structure: %d programs with &del atoms (normal-form paths; alone, next to the other modality / a sub-formula / &tel formulas), the backend calls of Theory.translate compared event by event with the extracted operational model' % (H, res2['coverage']['rule'], len(srecs)),
           'answer_sets_checked': sum(r['models'] for r in recs), 'values_checked': sum(r['values'] for r in recs), 'operator_histogram': dict(sorted(ops.items())),
           'status_histogram': stat, 'constraint_status_histogram': res2['coverage']['status_histogram'],
           'samples': [{'program': recs[i]['program'], 'status': recs[i]['status'], 'values': recs[i]['values']} for i in (0, len(recs) // 2)]}
    return {'counterexamples': cex[:6] + res2['counterexamples'], 'coverage': cov}


replay = c03.replay
