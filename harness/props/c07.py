"""C07 — temporal formulas are parsed with the documented precedence and associativity.
Theorems: coq/Props/C07.v (parser soundness for every table; all regenerated tables equal the documented ones).
Correspondence: (a) TheoryParser.parse (head formulas) and (b) gringo's parse of &tel / &del body terms under the #theory texts telingo
emits, against the extracted Model/Parser instantiated with the regenerated table, on ALL operator pairs and (quick: sampled, thorough:
all) triples unary x binary x unary x binary x unary; (c) S4: a formula printed with minimal parentheses according to the DOCUMENTED
table and its fully parenthesised form give the same answer sets (witness programs, body and head)."""
import itertools, json
import gen, lang, meta, findings

PROP_FILE = 'Props/C07.v'
GROUPS = ['tables', 'bodyform']
LEAF_LEMMAS = ['parse_respects', 'parse_flat']
ASSUMPTIONS = ['gringo parses theory terms by operator precedence with the table of the #theory definition (tested here for every pair/triple)',
               'the documented table is the constant Spec/DocTables.v, copied once from the commented theory definition / property text']

TEL_UN = ['&', '-', '~', '<', '<:', '<?', '<*', '<<', '>', '>:', '>?', '>*', '>>']
TEL_BIN = ['+', '-', '<', '<:', '>', '>:', '>*', '>?', '<*', '<?', '&', '|', '<-', '->', '<>', ';>', ';>:', '<;', '<:;']
HEAD_UN = ['&', '-', '~', '>', '>:', '>?', '>*', '>>']
HEAD_BIN = ['+', '-', '>', '>:', '>*', '>?', '&', '|', ';>', ';>:']
DEL_UN = ['&', '?', '*']
DEL_BIN = ['+', ';;', '.>?', '.>*']


def sequences(ctx, un, bi, salt):
    """token sequences [u1] a b1 [u2] b (pairs, exhaustive) and [u1] a b1 [u2] b b2 [u3] c (triples: exhaustive in thorough, sampled in quick)"""
    uopt = [None] + un
    pairs = [((u1,), [(b1, (u2,))]) for u1 in uopt for b1 in bi for u2 in uopt]
    triples = [((u1,), [(b1, (u2,)), (b2, (u3,))]) for u1 in uopt for b1 in bi for u2 in uopt for b2 in bi for u3 in uopt]
    if ctx.quick and len(triples) > 6000:
        rng = ctx.rng('triples', salt)
        # all binary-binary combinations with random unaries, plus a random sample
        base = [((rng.choice(uopt),), [(b1, (rng.choice(uopt),)), (b2, (rng.choice(uopt),))]) for b1 in bi for b2 in bi for _ in range(3)]
        triples = base + rng.sample(triples, 5000)
    # two stacked prefix operators
    stacked = [((u1, u2), [(b1, ())]) for u1 in un for u2 in un for b1 in bi]
    return pairs + triples + stacked


def term_text(seq, i):
    first, rest = seq
    leaves = ['x%da' % i, 'x%db' % i, 'x%dc' % i]
    toks = [u for u in first if u] + [leaves[0]]
    for j, (b, us) in enumerate(rest):
        toks += [b] + [u for u in us if u] + [leaves[j + 1]]
    return ' '.join(toks), leaves[:len(rest) + 1]


def model_line(table, seq, base):
    first, rest = seq
    us = [u for u in first if u]
    toks = ['parse', table, str(len(us))] + us + [str(base)]
    toks.append(str(len(rest)))
    for j, (b, us2) in enumerate(rest):
        us2 = [u for u in us2 if u]
        toks += [b, str(len(us2))] + us2 + [str(base + j + 1)]
    return ' '.join(toks)


def compare_parser(ctx, which, seqs, table, un, bi, chunk=400):
    """which = 'py' (TheoryParser) | 'tel' | 'del' (gringo).  Returns (n compared, mismatches)"""
    reqs, metas = [], []
    for c in range(0, len(seqs), chunk):
        part = seqs[c:c + chunk]
        terms, leaves = [], []
        for i, s in enumerate(part):
            t, ls = term_text(s, i)
            terms.append(t)
            leaves += ['x%da' % i, 'x%db' % i, 'x%dc' % i]
        if which == 'py':
            reqs.append({'cmd': 'pyparse', 'terms': terms, 'leaves': leaves})
        else:
            reqs.append({'cmd': 'gparse', 'theory': which, 'terms': terms, 'leaves': leaves, 'ops': sorted(set(un + bi))})
        metas.append((part, terms))
    impl = ctx.impl().run(reqs, timeout=120)
    lines = []
    for part, terms in metas:
        for i, s in enumerate(part):
            lines.append(model_line(table, s, 3 * i))
    mod = ctx.model().run(lines, timeout=60)
    bad, n, k = [], 0, 0
    for (part, terms), a in zip(metas, impl):
        if a.get('status') != 'ok':
            bad.append({'what': 'parser run fails: %s' % json.dumps({x: a.get(x) for x in ('status', 'type', 'msg')}), 'terms': terms[:3], 'which': which})
            k += len(part)
            continue
        if which == 'py':
            got = a['trees']
        else:
            byleaf = {}
            for tree in a['trees'].values():
                nums = [int(x) for x in tree.replace('(', ' ').replace(')', ' ').split() if x.isdigit()]
                if nums:
                    byleaf[min(nums) // 3] = tree
            got = [byleaf.get(i, 'missing') for i in range(len(part))]
        for i, s in enumerate(part):
            n += 1
            m = mod[k]
            k += 1
            if got[i] != m:
                bad.append({'what': '%s parses `%s` as %s, the table says %s' % ({'py': 'TheoryParser', 'tel': 'gringo (#theory tel)', 'del': 'gringo (#theory del)'}[which], terms[i], got[i], m),
                            'term': terms[i], 'which': which, 'line': lines[k - 1]})
    return n, bad


# ---- (c) minimal-parentheses printer according to the DOCUMENTED table (third, independent copy in Python)
DOC = {('and',): ('&', 3, 'l'), ('or',): ('|', 2, 'l'), ('impr',): ('->', 1, 'l'), ('impl',): ('<-', 1, 'l'), ('eqv',): ('<>', 1, 'l'),
       ('until',): ('>?', 4, 'l'), ('release',): ('>*', 4, 'l'), ('since',): ('<?', 4, 'l'), ('trigger',): ('<*', 4, 'l'),
       ('seqnext',): (';>', 0, 'r'), ('seqwnext',): (';>:', 0, 'r'), ('seqprev',): ('<;', 0, 'l'), ('seqwprev',): ('<:;', 0, 'l')}
UNOP = {'not': '~', 'prev': '<', 'wprev': '<:', 'next': '>', 'wnext': '>:', 'initially': '<<', 'finally': '>>', 'since': '<?', 'trigger': '<*', 'until': '>?', 'release': '>*'}


def info(f):
    """(kind, op, prio, assoc) of the root"""
    t = f[0]
    if t in ('atom', 'true', 'false', 'initial', 'final'):
        return ('leaf', None, 9, None)
    if t in ('prev', 'wprev', 'next', 'wnext') and f[1] is not None:
        return ('bin', UNOP[t], 5, 'r')
    if (t,) in DOC and not (t in ('until', 'release', 'since', 'trigger') and f[1] is None):
        op, p, a = DOC[(t,)]
        return ('bin', op, p, a)
    return ('un', UNOP[t], 5, None)


def rspine(f):
    k, op, p, a = info(f)
    if k == 'leaf':
        return []
    return [(p, k)] + rspine(f[-1])


def lspine(f):
    k, op, p, a = info(f)
    if k != 'bin':
        return []
    left = f[1] if f[0] not in ('prev', 'wprev', 'next', 'wnext') else None
    return [(p, a)] + (lspine(left) if left is not None else [])


def mintxt(f):
    k, op, p, a = info(f)
    t = f[0]
    if k == 'leaf':
        return lang.fml_txt(f)
    if k == 'un':
        x = f[-1]
        s = mintxt(x)
        # operand of a prefix operator: every operator on its left spine must bind tighter, or equally and be right associative
        if any(not (cp > p or (cp == p and ca == 'r')) for cp, ca in lspine(x)):
            s = '(%s)' % s
        return '%s %s' % (op, s)
    if t in ('prev', 'wprev', 'next', 'wnext'):
        l = lang.num_txt(f[1])
        r = f[2]
        rs = mintxt(r)
        if any(not (cp > p or (cp == p and ca == 'r')) for cp, ca in lspine(r)):
            rs = '(%s)' % rs
        return '%s %s %s' % (l, op, rs)
    l, r = f[1], f[2]
    ls, rs = mintxt(l), mintxt(r)
    if any(not (cp > p or (cp == p and a == 'l')) for cp, _ in rspine(l)):
        ls = '(%s)' % ls
    if any(not (cp > p or (cp == p and ca == 'r')) for cp, ca in lspine(r)):
        rs = '(%s)' % rs
    return '%s %s %s' % (ls, op, rs)


def semantic_cases(ctx, n):
    rng = ctx.rng('semantic')
    out = []
    for i in range(n):
        atoms = ['a', 'b']
        head = rng.random() < 0.3
        if head:
            f = gen.formula(rng, atoms, rng.randint(2, 3), gen.HEAD_UN, gen.HEAD_BIN, None, ['true', 'false', 'initial'], nfold=0.3, leaf=0.15)
        else:
            f = gen.formula(rng, atoms, rng.randint(2, 3), nfold=0.3, leaf=0.15)
        c = gen.context_program(rng, atoms)
        ctxt = lang.prog_txt(c)
        if head:
            part = rng.choice(['initial', 'always', 'dynamic'])
            if findings.in_open_class(c + [{'part': part, 'head': ('tel', f), 'body': []}], 'C04'):
                continue
            mk = lambda s: ctxt + '#program %s.\n&tel { %s }.\n' % (part, s)
        else:
            mk = lambda s: ctxt + '#program always.\nw :- not not &tel { %s }.\n' % s
        out.append({'raw': mk(mintxt(f)), 'paren': mk(lang.fml_txt(f)), 'formula_raw': mintxt(f), 'formula_paren': lang.fml_txt(f), 'head': head})
    return out


def nesting_cases(ctx):
    """a chain `x op y op z` next to the OTHER nesting of the same chain in a second theory atom of the same program (an observer `u` that is
    hidden): the chain still denotes its fully parenthesised form, whatever else the program mentions"""
    rng = ctx.rng('nesting')
    a, b, c = ('atom', 'a'), ('atom', 'b'), ('atom', 'c')
    out = []
    for op in gen.BODY_BIN:
        fl, fr = (op, (op, a, b), c), (op, a, (op, b, c))
        for f, g in ((fl, fr), (fr, fl)):
            for upart, wpart in (('initial', 'always'), ('always', 'dynamic'), ('always', 'always')):
                ctxt = '#program always.\n{ a; b; c }.\n'
                raw = ctxt + '#program %s.\nu :- not not &tel { %s }.\n#program %s.\nw :- not not &tel { %s }.\n' % (upart, lang.fml_txt(g), wpart, mintxt(f))
                par = ctxt + '#program %s.\nw :- not not &tel { %s }.\n' % (wpart, lang.fml_txt(f))
                out.append({'raw': raw, 'paren': par, 'formula_raw': mintxt(f) + '   [next to ' + lang.fml_txt(g) + ']', 'formula_paren': lang.fml_txt(f), 'head': False})
    return out


ARITH = [('0', 0), ('1-2+3', 2), ('0-1+2', 1), ('2-3+2', 1), ('3-1-1', 1), ('1+2-3', 0), ('2-(1-1)', 2), ('1-(2-3)', 2), ('1+1', 2), ('3-2', 1), ('0+0', 0), ('2-2+1', 1),
         ('1-3+3', 1), ('(1-2)+2', 1), ('0-2+4', 2)]


def arith_cases(ctx):
    """arithmetic in n-fold prefixes is evaluated: `e op phi` means `n op phi` for the value n of e (left-associative + and -, also
    through negative intermediate values), for the four prefix operators in bodies and the two future ones in heads"""
    rng = ctx.rng('arith')
    out = []
    for e, n in ARITH:
        for op in ('<', '<:', '>', '>:'):
            ctxt = lang.prog_txt(gen.context_program(rng, ['a', 'b']))
            mk = lambda s: ctxt + '#program always.\nw :- not not &tel { %s %s a }.\n' % (s, op)
            out.append({'raw': mk(e), 'paren': mk(str(n)), 'formula_raw': '%s %s a' % (e, op), 'formula_paren': '%d %s a' % (n, op), 'head': False})
            if n == 0:        # a count that evaluates to 0: the operand itself
                out.append({'raw': mk(e), 'paren': ctxt + '#program always.\nw :- not not &tel { a }.\n', 'formula_raw': '%s %s a' % (e, op), 'formula_paren': 'a', 'head': False})
        for op in ('>', '>:'):
            part = rng.choice(['initial', 'always', 'dynamic'])
            mk = lambda s: '#program always.\n{ b }.\n#program %s.\n&tel { b | %s %s a }.\n' % (part, s, op)
            out.append({'raw': mk(e), 'paren': mk(str(n)), 'formula_raw': 'b | %s %s a' % (e, op), 'formula_paren': 'b | %d %s a' % (n, op), 'head': True})
    return out


def run(ctx):
    cex, counts = [], {}
    for which, table, un, bi in (('py', 'dochead', HEAD_UN, HEAD_BIN), ('tel', 'doc', TEL_UN, TEL_BIN), ('del', 'docdel', DEL_UN, DEL_BIN)):
        seqs = sequences(ctx, un, bi, which)
        n, bad = compare_parser(ctx, which, seqs, table, un, bi)
        counts[which] = n
        for b in bad[:5]:
            cex.append({'key': 'c07:%s:%s' % (which, b.get('term', '')), 'what': b['what'], 'input': b})
    sem = semantic_cases(ctx, 250 if ctx.quick else 1000) + arith_cases(ctx) + nesting_cases(ctx)
    inputs = []
    for c in sem:
        inputs += [[c['raw']], [c['paren']]]
    H = 3
    res = meta.answer_sets(ctx, inputs, H, hide=('u',))
    nontriv = set()
    for i, c in enumerate(sem):
        a, b = res[2 * i], res[2 * i + 1]
        if not meta.same(a, b):
            cex.append({'key': 'c07:sem:' + c['formula_raw'], 'what': 'formula `%s` does not mean its fully parenthesised form `%s`: %s' % (c['formula_raw'], c['formula_paren'], json.dumps(meta.first_diff(a, b))),
                        'input': {'raw': c['raw'], 'paren': c['paren'], 'H': H}})
        elif 'ok' in a and any(a['ok'].values()) and c['formula_raw'] != c['formula_paren']:
            nontriv.add(c['formula_raw'])
    total = sum(counts.values())
    cov = {'evaluations': total + len(inputs), 'distinct_nontrivial': total + len(nontriv), 'exhaustive': not ctx.quick,
           'rule': 'token sequences unary? a binary unary? b [binary unary? c] and stacked prefix operators over the operators of each table: TheoryParser %d, gringo tel %d, gringo del %d '
                   '(pairs exhaustive; triples exhaustive in thorough, all binary-binary combinations + sample in quick), every sequence distinct; plus %d raw/parenthesised program pairs through the pipeline (among them arithmetic n-fold prefixes, also with negative intermediate values, against their value; chains of one binary operator next to the other nesting of the same chain in a second atom) '
                   '(non-trivial = formula whose minimal form differs from the parenthesised one and has answer sets)' % (counts['py'], counts['tel'], counts['del'], len(sem)),
           'samples': [{'raw': sem[i]['formula_raw'], 'parenthesised': sem[i]['formula_paren']} for i in (0, 1, 2)]}
    return {'counterexamples': cex[:10], 'coverage': cov}


def replay(ctx, payload):
    inp = payload['input']
    if 'raw' in inp:
        res = meta.answer_sets(ctx, [[inp['raw']], [inp['paren']]], inp.get('H', 3), hide=('u',))
        return not meta.same(res[0], res[1])
    if 'line' in inp:
        which = inp['which']
        t = inp['term']
        leaves = sorted(set(x for x in t.split() if x.startswith('x')), key=lambda x: x)
        idx = int(leaves[0][1:-1]) if leaves else 0
        allleaves = []
        for i in range(idx + 1):
            allleaves += ['x%da' % i, 'x%db' % i, 'x%dc' % i]
        if which == 'py':
            a = ctx.impl().run([{'cmd': 'pyparse', 'terms': [t], 'leaves': allleaves}])[0]
            got = a.get('trees', ['?'])[0]
        else:
            a = ctx.impl().run([{'cmd': 'gparse', 'theory': which, 'terms': [t], 'leaves': allleaves, 'ops': sorted(set(TEL_UN + TEL_BIN + DEL_UN + DEL_BIN))}])[0]
            got = list(a.get('trees', {'': '?'}).values())[0]
        m = ctx.model().run([inp['line']])[0]
        return got != m
    return False
