"""C03 — &tel body formulas are evaluated with LTLf.
Theorems: coq/Props/C03.v.  Correspondence: (a) witness rules w_i :- not not &tel{phi_i} at every state of random context
programs: in every answer set at every horizon of one incremental run, w_i(k) holds iff the extracted Coq LTLf value
(TEL.lsat) of phi_i at k is true; formulas share sub-formulas through a pool; (b) constraints over &tel atoms compared
with Oracle.tsm_enum."""
import json
import meta
import gen, s4, lang, thstruct
from props import c01

PROP_FILE = 'Props/C03.v'
GROUPS = ['imain', 'theory', 'reps']
LEAF_LEMMAS = ['tel_clauses_spec', 'boolean_clauses_spec', 'make_equal_spec', 'make_disjunction_spec', 'prev_guards_spec', 'next_guards_spec', 'telp_guards_spec']
ASSUMPTIONS = ['gringo/clasp contract G1-G6 (DESIGN.md 5.3)',
               'the operational model BodyTheoryFull covers every &tel and &del formula class; where telingo takes the first attached theory literal as the literal of a (formula, state) pair the model keeps a choice atom of its own (an equality that holds by construction; the ties are compared)']
ATOMS = ['a', 'b']


def items(ctx, un=gen.BODY_UN, bi=gen.BODY_BIN, n=None, depth=None, salt='items'):
    rng = ctx.rng(salt)
    n = n or (500 if ctx.quick else 1500)
    depth = depth or (3 if ctx.quick else 4)
    out = []
    for i in range(n):
        atoms = ATOMS + (['c'] if rng.random() < 0.3 else []) + (['-a'] if rng.random() < 0.2 else [])
        pool = []
        k = rng.choice([1, 2, 2, 3, 4])
        fs = [('tel', gen.late_future(rng, atoms) if (un is gen.BODY_UN and rng.random() < 0.25) else gen.formula(rng, atoms, rng.randint(1, depth), un, bi, pool)) for _ in range(k)]
        out.append((gen.context_program(rng, atoms), fs))
    if un is gen.BODY_UN:
        # fixed family: an atom and its classical complement below the same operators, in both orders (two formulas that differ in the sign only)
        a, na, b = ('atom', 'a'), ('atom', '-a'), ('atom', 'b')
        ctxp = [{'part': 'always', 'head': ('choice', ['a', 'b', '-a']), 'body': []}]
        for w in [lambda x: x, lambda x: ('not', x), lambda x: ('prev', None, x), lambda x: ('next', None, x), lambda x: ('wnext', 2, x), lambda x: ('since', None, x), lambda x: ('until', b, x),
                  lambda x: ('and', x, b), lambda x: ('impr', x, b), lambda x: ('initially', x), lambda x: ('finally', x), lambda x: ('release', x, b), lambda x: ('seqprev', b, x)]:
            out.append((ctxp, [('tel', w(a)), ('tel', w(na))]))
            out.append((ctxp, [('tel', w(na)), ('tel', w(a))]))
        out.append((ctxp, [('tel', ('or', ('prev', None, a), ('prev', None, na)))]))
        # ... negation and double negation directly over every operator (their values at the first and at the last state differ from operator to operator)
        ctxn = [{'part': 'always', 'head': ('choice', ['a', 'b']), 'body': []}]
        for w in [lambda x: ('prev', None, x), lambda x: ('wprev', None, x), lambda x: ('prev', 2, x), lambda x: ('wprev', 2, x), lambda x: ('next', None, x), lambda x: ('wnext', None, x), lambda x: ('next', 2, x),
                  lambda x: ('wnext', 2, x), lambda x: ('initially', x), lambda x: ('finally', x), lambda x: ('since', None, x), lambda x: ('trigger', None, x), lambda x: ('until', None, x), lambda x: ('release', None, x),
                  lambda x: ('since', b, x), lambda x: ('trigger', b, x), lambda x: ('until', b, x), lambda x: ('release', b, x), lambda x: ('seqnext', b, x), lambda x: ('seqprev', b, x)]:
            out.append((ctxn, [('tel', ('not', w(a))), ('tel', ('not', ('not', w(a))))]))
            # ... and every operator directly over a constant, as the only formula of its program (the constant is first met at a state other than the current one)
            out.append((ctxn, [('tel', w(('true',)))]))
            out.append((ctxn, [('tel', w(('false',)))]))
        # ... a formula and its weak / strong or dual sibling (two formulas that differ in one flag only), in both orders
        for f, g in gen.sibling_pairs():
            out.append((ctxp, [('tel', f), ('tel', g)]))
            out.append((ctxp, [('tel', g), ('tel', f)]))
        # ... and the two nestings of a chain of one binary operator (two formulas that differ in the bracketing only)
        c = ('atom', 'c')
        ctxq = [{'part': 'always', 'head': ('choice', ['a', 'b', 'c']), 'body': []}]
        for op in bi:
            fl, fr = (op, (op, a, b), c), (op, a, (op, b, c))
            out.append((ctxq, [('tel', fl), ('tel', fr)]))
            out.append((ctxq, [('tel', fr), ('tel', fl)]))
    return out


def constraint_programs(ctx, n=None):
    rng = ctx.rng('constraints')
    own = n is None       # (the fixed family at the end is for the C03 check itself; other checks borrow the random programs only)
    n = n or (200 if ctx.quick else 800)
    out = []
    for i in range(n):
        atoms = ATOMS
        pool = []
        rules = gen.context_program(rng, atoms)
        fs = []
        for _ in range(rng.choice([1, 1, 2, 2, 3])):
            # later formulas are often RELATED to earlier ones: equal, a sub-formula, a weak/strong or dual sibling, the same
            # conjunction written as several elements - so that formula objects and per-step caches are shared between atoms
            if fs and rng.random() < 0.6:
                f = gen.related(rng, rng.choice(fs))
            else:
                f = gen.formula(rng, atoms, rng.randint(1, 3), pool=pool)
            fs.append(f)
            part = rng.choice(gen.PARTS)
            tel = ('tel', f)
            if f[0] == 'and' and rng.random() < 0.5:
                tel = ('tels', [f[1], f[2]])
            k = rng.random()
            if k < 0.3:
                rules.append({'part': part, 'head': ('cons',), 'body': [(rng.choice('pnm'), tel)]})
            elif k < 0.5:
                rules.append({'part': part, 'head': ('norm', 'c', 0), 'body': [(rng.choice('nm'), tel)]})
            elif k < 0.75:
                # a look-ahead constraint: its permanent copy is grounded only n steps later, so the theory atom of state t
                # reaches the theory when state t may already have been translated for another atom
                rules.append({'part': rng.choice(['initial', 'always', 'dynamic']), 'head': ('cons',),
                              'body': [(rng.choice('pnm'), tel), (rng.choice('pn'), ('fatom', rng.choice(atoms), rng.randint(1, 2)))]})
            else:
                rules.append({'part': part, 'head': ('cons',), 'body': [(rng.choice('pnm'), tel), (rng.choice('pn'), ('patom', rng.choice(atoms), rng.choice([0, 1])))]})
        rng.shuffle(rules)
        out.append(('constraint', rules))
    # fixed family: formulas over an atom that is in the atom base of the grounder WITHOUT a definition (the head of a rule whose body can never hold):
    # it is false at every state, under every operator and sign
    if not own:
        return out
    A_, B_ = ('atom', 'a'), ('atom', 'b')
    undef = {'part': 'always', 'head': ('norm', 'b', 0), 'body': [('n', ('patom', 'b', 0)), ('p', ('patom', 'c', 0))]}
    for f in (B_, ('not', B_), ('or', A_, B_), ('prev', None, B_), ('wnext', None, B_), ('since', None, B_), ('release', A_, B_), ('until', B_, A_), ('and', ('not', B_), ('next', None, A_))):
        for sg in 'pnm':
            out.append(('undefined-atom', [{'part': 'always', 'head': ('choice', ['a']), 'body': []}, undef, {'part': 'always', 'head': ('cons',), 'body': [(sg, ('tel', f))]}]))
            out.append(('undefined-atom', [{'part': 'always', 'head': ('choice', ['a']), 'body': []}, {'part': 'initial', 'head': ('norm', 'd', 0), 'body': [('mn'[sg == 'n'], ('tel', f))]}, undef]))
    return out


def value_cex(recs, its, kind='tel'):
    cex = []
    for (c, fs), r in zip(its, recs):
        if r['status'] in ('differ', 'implerror', 'oracleerror'):
            what = ('value of %s at horizon %d is %s, LTLf/LDLf value is %s on trace %s' % (r.get('formula'), r.get('horizon', -1), r.get('got'), r.get('expected'), r.get('trace'))) \
                if r['status'] == 'differ' else 'pipeline fails: %s' % json.dumps(r.get('error'))
            cex.append({'key': 'value:' + r['program'].replace('\n', ' '), 'what': what,
                        'input': {'program': r['program'], 'context': c, 'formulas': fs, 'horizon': r.get('horizon')},
                        'expected': r.get('expected'), 'got': r.get('got'), 'oracle': 'TEL.lsat / LDL.dsat (extracted from Coq)'})
    return cex


def shrink_value(ctx, c, fs, H):
    """smallest failing sub-list of formulas, then fewer context rules"""
    def fails(c2, fs2):
        r = s4.value_check(ctx, [(c2, fs2)], H)[0]
        return r['status'] in ('differ', 'implerror')
    for f in fs:
        if fails(c, [f]):
            fs = [f]
            break
    else:
        for i in range(len(fs)):
            cand = fs[:i] + fs[i + 1:]
            if cand and fails(c, cand):
                fs = cand
                break
    changed = True
    while changed and len(c) > 1:
        changed = False
        for i in range(len(c)):
            cand = c[:i] + c[i + 1:]
            if fails(cand, fs):
                c, changed = cand, True
                break
    return c, fs


# many instances of one schema in one run: the instances do not interact, so the atoms of the instances 1..3 are the same whether the program has 3 or
# 100 instances (some hundred distinct formulas in the tables of one run; every reference instance is itself checked by the value check above)
SCALE_FORMULAS = ['> >? b(X)', '< <? b(X)', 'b(X) >* (> b(X) | < b(X))', '2 > b(X) & <* b(X)', '>* (b(X) | > b(X)) & << b(X)']


def scale_program(n):
    t = '#program always.\nn(1..%d).\n#program initial.\nb(X) :- n(X), X \\ 2 == 0.\n#program dynamic.\nb(X) :- n(X), not \'b(X).\n#program always.\n' % n
    for i, f in enumerate(SCALE_FORMULAS):
        t += 'w%d(X) :- n(X), %s &tel { %s }.\n' % (i, 'not not' if i % 2 == 0 else 'not', f)
    return t


def scale_cex(ctx, H):
    import re
    small, big = meta.answer_sets(ctx, [[scale_program(3)], [scale_program(100)]], H, timeout=120, limit=4)      # (the trace is deterministic: one answer set per horizon; at most 4 are asked for)
    if small.get('timeout') or big.get('timeout'):
        return []
    if 'error' in small or 'error' in big:
        return [{'key': 'c03:scale', 'what': 'the program with many instances fails: %s' % json.dumps([small.get('error', 'ok'), big.get('error', 'ok')]), 'input': {'scale': 100, 'H': H}}]
    keep = lambda m: tuple(sorted(a for a in m if re.search(r'\(([123])\)@', a) and not a.startswith('n(')))
    for h in sorted(small['ok']):
        a = sorted(keep(m) for m in small['ok'][h])
        b = sorted(keep(m) for m in big['ok'][h])
        if a != b:
            return [{'key': 'c03:scale', 'what': 'the instances 1..3 of %d formula schemata have other values in a program with 100 instances than in a program with 3 (horizon %d): %s' % (
                len(SCALE_FORMULAS), h, json.dumps({'three': [' '.join(x) for x in a][:2], 'hundred': [' '.join(x) for x in b][:2]})), 'input': {'scale': 100, 'H': H, 'program': scale_program(100)}}]
    return []


def long_run_items():
    """a deterministic trace (one answer set per horizon: a alternates, b holds at every third state) observed to horizon 8 by formulas with counts
    larger than small horizons, deep nestings and operators that stay pending over many steps"""
    R = lambda part, head, body: {'part': part, 'head': head, 'body': body}
    ctxp = [R('initial', ('norm', 'c0', 0), []), R('dynamic', ('norm', 'c1', 0), [('p', ('patom', 'c0', 1))]), R('dynamic', ('norm', 'c2', 0), [('p', ('patom', 'c1', 1))]),
            R('dynamic', ('norm', 'c0', 0), [('p', ('patom', 'c2', 1))]), R('always', ('norm', 'b', 0), [('p', ('patom', 'c0', 0))]),
            R('initial', ('norm', 'a', 0), []), R('dynamic', ('norm', 'a', 0), [('n', ('patom', 'a', 1))])]
    a, b = ('atom', 'a'), ('atom', 'b')
    fs = [('next', 5, a), ('wnext', 7, b), ('prev', 4, b), ('wprev', 6, a), ('until', a, ('and', b, ('next', 4, a))), ('trigger', None, ('or', a, ('prev', 2, b))),
          ('release', None, ('or', a, ('next', None, ('next', None, ('next', None, b))))), ('since', ('or', a, b), ('and', b, ('wprev', 3, a))),
          ('until', None, ('and', ('prev', 3, b), ('next', 3, b))), ('and', ('next', 2, ('next', 3, ('prev', 4, a))), ('wnext', 8, ('false',))),
          ('not', ('until', ('not', a), ('not', ('release', b, ('next', None, a))))), ('initially', ('next', 6, b)), ('finally', ('prev', 5, a)),
          ('seqnext', b, ('seqnext', a, ('seqnext', b, a))), ('release', ('next', 2, a), ('or', b, ('wnext', 2, b)))]
    return [(ctxp, [('tel', f) for f in fs[i:i + 4]]) for i in range(0, len(fs), 4)]


def run(ctx):
    H = 3 if ctx.quick else 4
    its = items(ctx)
    recs = s4.value_check(ctx, its, H)
    cex = value_cex(recs, its)
    if cex:
        c0 = cex[0]
        c, fs = shrink_value(ctx, c0['input']['context'], [tuple(x) for x in c0['input']['formulas']], H)
        r = s4.value_check(ctx, [(c, fs)], H)[0]
        if r['status'] in ('differ', 'implerror'):
            cex.insert(0, value_cex([r], [(c, fs)])[0])
    lits = long_run_items()
    lrecs = s4.value_check(ctx, lits, 8)
    cex += value_cex(lrecs, lits)
    progs = constraint_programs(ctx)
    maxbits = 12 if ctx.quick else 13
    recs2 = s4.compare(ctx, [p for _, p in progs], 3 if ctx.quick else 4, maxbits)
    res2 = c01.summarize(ctx, progs, recs2, 3 if ctx.quick else 4, maxbits, 'C03')
    # structural correspondence: the executable full-operator model and Theory.translate emit the same constraints, event by event
    scs = thstruct.cases(ctx, 150 if ctx.quick else 600)
    srecs = thstruct.compare(ctx, scs, H)
    sstat = {}
    for fs, r in zip(scs, srecs):
        sstat[r['status']] = sstat.get(r['status'], 0) + 1
        if r['status'] in ('differ', 'implerror', 'modelerror'):
            cex.append({'key': 'c03:structure:' + r['program'].replace('\n', ' '), 'what': 'Theory.translate and the model Model/BodyTheoryFull.v differ: %s' % r.get('what'),
                        'input': {'structure': [[p_, f] for p_, f in fs], 'H': H, 'program': r['program']}})
    # atoms with arguments: the constraint programs with their atoms renamed to atoms with arguments against the programs themselves
    # (among the renamed programs: classically negated atoms below past and future operators - after renaming they have two and more arguments)
    A_, NA_, B_ = ('atom', 'a'), ('atom', '-a'), ('atom', 'b')
    negp = [[{'part': 'always', 'head': ('choice', ['a', 'b', '-a']), 'body': []}, {'part': 'always', 'head': ('cons',), 'body': [(sg, ('tel', f))]}]
            for sg in 'nm' for f in (('prev', None, NA_), ('or', NA_, ('next', None, B_)), ('since', NA_, A_), ('until', B_, NA_), ('and', ('wnext', None, NA_), ('not', NA_)))]
    rcex, rnon = meta.renaming_cex(ctx, negp + [p for _, p in progs][:40 if ctx.quick else 200], 3, 'C03')
    cex += rcex
    cex += scale_cex(ctx, 3)
    ops = {}
    shared = 0
    for c, fs in its:
        subs = {}
        for _, f in fs:
            gen.ops_of(f, ops)
            collect(f, subs)
        shared += sum(1 for v in subs.values() if v > 1)
    stat = {}
    for r in recs:
        stat[r['status']] = stat.get(r['status'], 0) + 1
    nontriv = len({r['program'] for r in recs if r['status'] == 'agree' and 0 < r['true_values'] < r['values']})
    cov = {'evaluations': len(recs) + len(recs2) + len(srecs) + len(lrecs) + 2 * (40 if ctx.quick else 200), 'long_run_status': [r['status'] for r in lrecs], 'renamed_programs_with_answer_sets': rnon, 'structure_status_histogram': sstat, 'structure_events_compared': sum(r['events'] for r in srecs), 'distinct_nontrivial': nontriv + res2['coverage']['distinct_nontrivial'],
           'rule': 'witness programs: random context program over a,b(,c) + 1-4 witness rules over formulas of depth <= %d drawn with a shared sub-formula pool; horizons 0..%d '
                   'of one incremental run; every state of every answer set is compared with TEL.lsat; non-trivial = a program whose witness values are neither all true nor all false; '
                   'constraint programs: %s; structure: %d programs of 1-3 observer constraints over related formulas (all operators except the keywords &initial/&final and >>), '
                   'the calls of Theory.translate on the backend compared event by event with the extracted model BodyTheoryFull (formulas built through the regenerated create_formula table)' % (3 if ctx.quick else 4, H, res2['coverage']['rule'], len(srecs)),
           'answer_sets_checked': sum(r['models'] for r in recs), 'values_checked': sum(r['values'] for r in recs),
           'operator_histogram': dict(sorted(ops.items())), 'shared_subformula_occurrences': shared, 'status_histogram': stat,
           'constraint_status_histogram': res2['coverage']['status_histogram'],
           'samples': [{'program': recs[i]['program'], 'status': recs[i]['status'], 'values': recs[i]['values']} for i in (0, len(recs) // 2)] + res2['coverage']['samples'][:1]}
    return {'counterexamples': cex[:6] + res2['counterexamples'], 'coverage': cov}


def collect(f, acc):
    if isinstance(f, tuple) and f[0] != 'atom':
        k = json.dumps(f)
        acc[k] = acc.get(k, 0) + 1
        for x in f[1:]:
            collect(x, acc)


def totuple(x):
    return tuple(totuple(y) for y in x) if isinstance(x, list) else x


def replay(ctx, payload):
    inp = payload['input']
    if 'scale' in inp:
        return bool(scale_cex(ctx, inp.get('H', 3)))
    if 'renaming' in inp:
        return meta.renaming_replay(ctx, payload)
    if 'structure' in inp:
        r = thstruct.compare(ctx, [[(p_, totuple(f)) for p_, f in inp['structure']]], inp.get('H', 3))[0]
        return r['status'] in ('differ', 'implerror', 'modelerror')
    if 'formulas' in inp:
        r = s4.value_check(ctx, [(inp['context'], [totuple(f) for f in inp['formulas']])], inp.get('horizon') or 3)[0]
        return r['status'] in ('differ', 'implerror')
    return c01.replay(ctx, payload)
