"""C16 — documented abbreviations and dualities hold in every context.
Theorems: coq/Props/C16.v (laws in THT_f / LTLf + congruence + mirror symmetry).  Correspondence (metamorphic, real pipeline):
a law is applied (in either direction) at a random sub-formula position of a formula from the C03/C04 generators; the program with
the original formula and the program with the rewritten one must report the same answer sets at every horizon (body: witness and
constraint rules; head: head-admissible laws in &tel heads); the mirror law is checked on time-symmetric context programs."""
import json
import gen, lang, meta, findings

PROP_FILE = 'Props/C16.v'
GROUPS = ['imain', 'bodyform']
LEAF_LEMMAS = []
ASSUMPTIONS = ['gringo/clasp contract G1-G6 (DESIGN.md 5.3)']
T, F = ('true',), ('false',)


def nest(op, n, p):
    for _ in range(n):
        p = (op, None, p)
    return p


def laws(f, head):
    """rewritings applicable at the root of f: list of (law name, new formula)"""
    t = f[0]
    out = []
    if t == 'false':
        out.append(('false', ('not', T)))
    if t == 'not' and f[1] == T:
        out.append(('false-', F))
    if t == 'initial' and not head:
        out.append(('initial', ('not', ('prev', None, T))))
    if t == 'final':
        out.append(('final', ('not', ('next', None, T))))
    if t == 'initially' and not head:
        out.append(('initially', ('trigger', None, ('or', ('not', ('initial',)), f[1]))))
    if t == 'finally':
        out.append(('finally', ('release', None, ('or', ('not', ('final',)), f[1]))))
    if t == 'seqnext':
        out.append(('seqnext', ('and', f[1], ('next', None, f[2]))))
    if t == 'seqwnext':
        out.append(('seqwnext', ('and', f[1], ('wnext', None, f[2]))))
    if t == 'and' and f[2][0] == 'next' and f[2][1] is None:
        out.append(('seqnext-', ('seqnext', f[1], f[2][2])))
    if t == 'seqprev' and not head:
        out.append(('seqprev', ('and', ('prev', None, f[1]), f[2])))
    if t == 'seqwprev' and not head:
        out.append(('seqwprev', ('and', ('wprev', None, f[1]), f[2])))
    if t in ('next', 'wnext') or (t in ('prev', 'wprev') and not head):
        n = lang.num_val(f[1])
        if f[1] is not None and n <= 3:
            out.append(('nfold', nest(t, n, f[2])))
        if f[1] is None:
            out.append(('nfold-', (t, 1, f[2])))
            out.append(('nfold-arith', (t, '(2-1)', f[2])))
    if t in ('until', 'since') and (head is False or t == 'until'):
        if f[1] is None:
            out.append((t + '1', (t, T, f[2])))
        elif f[1] == T:
            out.append((t + '1-', (t, None, f[2])))
    if t in ('release', 'trigger') and (head is False or t == 'release'):
        if f[1] is None:
            out.append((t + '1', (t, F, f[2])))
        elif f[1] == F:
            out.append((t + '1-', (t, None, f[2])))
    if not head:
        if t == 'wnext':
            out.append(('dual_wnext', ('not', ('next', f[1], ('not', f[2])))))
        if t == 'wprev':
            out.append(('dual_wprev', ('not', ('prev', f[1], ('not', f[2])))))
        if t == 'release' and f[1] is not None:
            out.append(('dual_release', ('not', ('until', ('not', f[1]), ('not', f[2])))))
        if t == 'trigger' and f[1] is not None:
            out.append(('dual_trigger', ('not', ('since', ('not', f[1]), ('not', f[2])))))
    return out


def positions(f, head, path=()):
    """all (path, law, replacement) over all sub-formula positions"""
    out = [(path, n, g) for n, g in laws(f, head)]
    for i, x in enumerate(f[1:], 1):
        if isinstance(x, tuple) and x and isinstance(x[0], str):
            out += positions(x, head, path + (i,))
    return out


def replace(f, path, g):
    if not path:
        return g
    i = path[0]
    return f[:i] + (replace(f[i], path[1:], g),) + f[i + 1:]


MIRROR = {'prev': 'next', 'wprev': 'wnext', 'next': 'prev', 'wnext': 'wprev', 'since': 'until', 'until': 'since', 'trigger': 'release', 'release': 'trigger',
          'initially': 'finally', 'finally': 'initially', 'initial': 'final', 'final': 'initial'}


def mirror(f):
    t = f[0]
    if t == 'atom' or t in ('true', 'false'):
        return f
    if t in ('initial', 'final'):
        return (MIRROR[t],)
    if t in ('seqnext', 'seqwnext', 'seqprev', 'seqwprev'):
        # a ;> b = a & > b  mirrors to  a & < b = b' <; a' with the operands swapped:  (< b) & a
        w = 'w' if 'w' in t[3:] else ''
        if t.startswith('seqn') or t.startswith('seqw') and t.endswith('next'):
            return ('and', mirror(f[1]), (w + 'prev', None, mirror(f[2])))
        return ('and', (w + 'next', None, mirror(f[1])), mirror(f[2]))
    if t in MIRROR:
        return (MIRROR[t],) + tuple(mirror(x) if isinstance(x, tuple) else x for x in f[1:])
    return (t,) + tuple(mirror(x) if isinstance(x, tuple) else x for x in f[1:])


def reverse_models(res, H):
    out = {}
    for h, ms in res['ok'].items():
        rev = []
        for m in ms:
            rev.append(tuple(sorted('%s@%d' % (a.rsplit('@', 1)[0], h - int(a.rsplit('@', 1)[1])) for a in m)))
        out[h] = sorted(rev)
    return {'ok': out}


def cases(ctx, n):
    rng = ctx.rng('cases')
    out = []
    tries = 0
    while len(out) < n and tries < 50 * n:
        tries += 1
        atoms = ['a', 'b']
        head = rng.random() < 0.3
        if head:
            f = gen.formula(rng, atoms, rng.randint(1, 3), gen.HEAD_UN, gen.HEAD_BIN, None, gen.KEYWORDS, nfold=0.4, leaf=0.2)
        else:
            f = gen.late_future(rng, atoms) if rng.random() < 0.25 else gen.formula(rng, atoms, rng.randint(1, 3), nfold=0.4, leaf=0.2)
        ps = positions(f, head)
        if not ps:
            continue
        path, law, g = rng.choice(ps)
        f2 = replace(f, path, g)
        ctxp = gen.context_program(rng, atoms)
        if head:
            part = rng.choice(['initial', 'always', 'dynamic', 'final'])
            mk = lambda x: ctxp + [{'part': part, 'head': ('tel', x), 'body': []}]
            if findings.in_open_class(mk(f), 'C04') or findings.in_open_class(mk(f2), 'C04'):
                continue
        else:
            part = rng.choice(gen.PARTS)
            k = rng.random()
            if k < 0.6:
                mk = lambda x: ctxp + [{'part': 'always', 'head': ('norm', 'w', 0), 'body': [('m', ('tel', x))]}]
            else:
                sg = rng.choice('pnm')
                mk = lambda x: ctxp + [{'part': part, 'head': ('cons',), 'body': [(sg, ('tel', x))]}]
        out.append({'law': law, 'head': head, 'p1': mk(f), 'p2': mk(f2), 'f1': f, 'f2': f2})
    return out


def fixed_cases(ctx):
    """deterministic family: n-fold operators whose count is written as arithmetic, against the plain count and the nested form, in heads (over an
    atom nothing else derives) and bodies"""
    out = []
    c = ('atom', 'c')
    ctxp = [{'part': 'always', 'head': ('choice', ['a', 'b']), 'body': []}]
    for head in (True, False):
        for op in (('next', 'wnext') if head else ('next', 'wnext', 'prev', 'wprev')):
            pairs = [((op, '(3-1)', c), (op, 2, c)), ((op, '(3-1)', c), nest(op, 2, c)), ((op, '(1+1)', c), (op, 2, c)), ((op, '(2-1)', c), (op, None, c)), ((op, '(2-2)', c), c),
                     ((op, '(4-1-1)', c), (op, 2, c)), ((op, '(1-2+3)', c), nest(op, 2, c)), ((op, None, (op, '(3-2)', c)), (op, 2, c))]
            for f1, f2 in pairs:
                for part in ('initial', 'always', 'dynamic'):
                    if head:
                        mk = lambda x: ctxp + [{'part': part, 'head': ('tel', ('or', x, ('atom', 'b'))), 'body': [('p', ('patom', 'a', 0))]}]
                    else:
                        mk = lambda x: ctxp + [{'part': 'always', 'head': ('choice', ['c']), 'body': []}, {'part': part, 'head': ('norm', 'w', 0), 'body': [('m', ('tel', x))]}]
                    out.append({'law': 'nfold-arith-fixed', 'head': head, 'p1': mk(f1), 'p2': mk(f2), 'f1': f1, 'f2': f2})
    return out


def joint_cases(ctx, n):
    """the formula and its rewritten form as two different theory atoms of ONE program (they denote the same formula object or
    equivalent ones at the same states): compared with the program that has the original formula in both places"""
    rng = ctx.rng('joint')
    out = []
    tries = 0
    while len(out) < n and tries < 50 * n:
        tries += 1
        atoms = ['a', 'b']
        f = gen.late_future(rng, atoms) if rng.random() < 0.2 else gen.formula(rng, atoms, rng.randint(1, 3), nfold=0.4, leaf=0.2)
        ps = positions(f, False)
        if not ps:
            continue
        path, law, g = rng.choice(ps)
        f2 = replace(f, path, g)
        ctxp = gen.context_program(rng, atoms)
        part = rng.choice(gen.PARTS)
        sg = rng.choice('nm')
        mk = lambda x: ctxp + [{'part': 'always', 'head': ('norm', 'w', 0), 'body': [('m', ('tel', f))]}, {'part': part, 'head': ('norm', 'w2', 0), 'body': [(sg, ('tel', x))]}]
        out.append({'law': 'joint:' + law, 'head': False, 'p1': mk(f), 'p2': mk(f2), 'f1': f, 'f2': f2})
    return out


def keyword_cases(ctx, n):
    """the keywords &initial / &final / &true / &false written as plain body literals (rewritten by the program transformer) against
    the same keyword inside a &tel formula, also in constraints that look ahead (re-grounded for earlier states)"""
    rng = ctx.rng('keywords')
    out = []
    for i in range(n):
        atoms = ['a', 'b']
        ctxp = gen.context_program(rng, atoms)
        kw = rng.choice(['initial', 'final', 'final', 'true', 'false'])
        s = rng.choice('pnm')
        constraint = rng.random() < 0.7
        other = [gen.core_body_lit(rng, atoms, future_ok=constraint, maxfut=2) for _ in range(rng.randint(0, 2))]
        if constraint and rng.random() < 0.6:
            other.insert(rng.randrange(len(other) + 1), (rng.choice('pn'), ('fatom', rng.choice(atoms), rng.randint(1, 2))))
        part = rng.choice(gen.PARTS[:3] if any(l[1][0] == 'fatom' for l in other) else gen.PARTS)
        pos = rng.randrange(len(other) + 1)
        head = ('cons',) if constraint else ('norm', 'w', 0)
        lit1 = (s, ('kw', kw))
        lit2 = ('m' if s == 'p' and not constraint else s, ('tel', (kw,)))
        mk = lambda l: ctxp + [{'part': part, 'head': head, 'body': other[:pos] + [l] + other[pos:]}]
        out.append({'law': 'keyword:' + kw, 'head': False, 'p1': mk(lit1), 'p2': mk(lit2), 'f1': (kw,), 'f2': (kw,)})
    return out


def mirror_cases(ctx, n):
    rng = ctx.rng('mirror')
    out = []
    for i in range(n):
        atoms = ['a', 'b']
        f = gen.formula(rng, atoms, rng.randint(1, 3), nfold=0.3, leaf=0.2)
        c = [{'part': 'always', 'head': ('choice', atoms), 'body': []}]
        mk = lambda x: c + [{'part': 'always', 'head': ('norm', 'w', 0), 'body': [('m', ('tel', x))]}]
        out.append({'law': 'mirror', 'head': False, 'p1': mk(f), 'p2': mk(mirror(f)), 'f1': f, 'f2': mirror(f)})
    return out


def run(ctx):
    H = 3 if ctx.quick else 4
    cs = cases(ctx, 400 if ctx.quick else 1500) + mirror_cases(ctx, 100 if ctx.quick else 300) + joint_cases(ctx, 150 if ctx.quick else 500) + keyword_cases(ctx, 150 if ctx.quick else 500) + fixed_cases(ctx)
    inputs = []
    for c in cs:
        inputs += [[lang.prog_txt(c['p1'])], [lang.prog_txt(c['p2'])]]
    res = meta.answer_sets(ctx, inputs, H)
    cex, hist, nontriv = [], {}, set()
    for i, c in enumerate(cs):
        a, b = res[2 * i], res[2 * i + 1]
        hist[c['law'] + ('/head' if c['head'] else '')] = hist.get(c['law'] + ('/head' if c['head'] else ''), 0) + 1
        if c['law'] == 'mirror' and 'ok' in a:
            a = reverse_models(a, H)
        if not meta.same(a, b):
            cex.append({'key': 'c16:%s:%s' % (c['law'], inputs[2 * i][0].replace('\n', ' ')), 'what': 'law %s changes the answer sets: %s -> %s: %s' % (
                c['law'], lang.fml_txt(c['f1']), lang.fml_txt(c['f2']), json.dumps(meta.first_diff(a, b))),
                'input': {'law': c['law'], 'rules': c['p1'], 'rules2': c['p2'], 'program': inputs[2 * i][0], 'program2': inputs[2 * i + 1][0], 'H': H}})
        elif 'ok' in a and any(a['ok'][h] for h in a['ok']):
            nontriv.add(inputs[2 * i][0] + inputs[2 * i + 1][0])
    cov = {'evaluations': len(inputs), 'distinct_nontrivial': len(nontriv),
           'rule': 'formula from the body/head generators; one law applied at a random sub-formula position (histogram below); both programs run through the pipeline, horizons 0..%d '
                   'compared with multiplicity (mirror: after reversing the traces); non-trivial = distinct pair with at least one answer set' % H,
           'law_histogram': dict(sorted(hist.items())),
           'samples': [{'law': cs[i]['law'], 'from': lang.fml_txt(cs[i]['f1']), 'to': lang.fml_txt(cs[i]['f2'])} for i in (0, 1, len(cs) - 1)]}
    return {'counterexamples': cex[:8], 'coverage': cov}


def replay(ctx, payload):
    inp = payload['input']
    res = meta.answer_sets(ctx, [[inp['program']], [inp['program2']]], inp.get('H', 3))
    a = reverse_models(res[0], inp.get('H', 3)) if inp.get('law') == 'mirror' and 'ok' in res[0] else res[0]
    return not meta.same(a, res[1])
