"""C15 — failures surface as diagnostics, never as internal errors, crashes or hangs.
Theorems: coq/Props/C15.v (the regenerated decision fragments never take the 'raises' branch; the loop never raises).
Correspondence (fuzz, real pipeline): a grammar mixing valid telingo syntax with near-valid mutations; every input must either be
translated and solved or stop with RuntimeError (telingo diagnostic or clingo parse/ground error) within the watchdog; the command
line tool must exit non-zero with an error message for such inputs and for invalid option values."""
import json, os, subprocess, re
import gen, lang

PROP_FILE = 'Props/C15.v'
GROUPS = ['imain', 'transformers']
LEAF_LEMMAS = ['loop_cond_gen_spec', 'flags_spec']
ASSUMPTIONS = ['the claim that every way the code can fail internally is reachable by this grammar is validated by the fuzz stream only (partial)',
               'clingo prints a traceback for every exception leaving Application.main; "no traceback" therefore means: the exception is a RuntimeError with a message']
REPO = os.environ.get('TELINGO_REPO', '/repo')

WEIRD_TEL = [
    'a', '(-1) < a', '1-2 > a', '(1-2) >: a', '(-2) <: a', 'x > a', 'X > a', '"s" > a', '(1,2) > a', '0 > a', '(2-2) < a', '1+1 > a', '(a) > a', 'f(1) > a', '1 > 2 > a', '- 1 > a', '-(1) > a',
    '&foo', '&initially', '&true', '&(true)', '& a', '&true(1)', '& 1', '&"x"', '&final & &initial',
    '(a,b)', '[a]', '{a}', '(a,)', '()', '1', '"a"', '#sup', '#inf', 'a(b)(c)' , 'f(X)', 'X', '_', '_a', 'a_', "a'", "'a", "a'b", '-a', '- - a', '-(a & b)', '- 1', '-"x"',
    ': a', ': a, b', '', ' : not a', 'a & ', '> ', '~', 'a b', 'a >? ', '>? >? a', '>* >* >* a', '<< << a', '>> >> a', 'a >? b >? c', 'a ;> b ;> c', 'a <; b <; c', 'a ;> b <; c', 'a <> b <> c',
    'a << b', 'a >> b', 'a ~ b', 'a < b < c', '1 < 2 < a', 'a < b', 'a > b', 'a >: b', 'a + b', 'a - b', 'a * b', 'a / b', 'a .. b', 'a ; b', 'a , b', 'a : b', 'a : b, c', 'a ; b : c',
    '> > > > > > > > a', '9 > a', '99999999999 > a', '2147483648 > a', '~ ~ ~ ~ a', 'a & b | c -> d <- e <> f', 'p(1) & p(2)', 'p(1;2)', 'p(1..2)', 'p(X) : q(X)', 'a : not b', 'a : b, not c',
    '__final', '__initial', '__false', '__aux_0', '__future_a', '&__final',
]
WEIRD_DEL = [
    'a .>? b', '&true .>? b', '&false .>? b', '&false .>* b', '? a .>? b', '? &true .>? b', '? &false .>* b', '* &true .>? b', '* a .>* b', '* (? a) .>? b', '* (* &true) .>? b', '* (? &true) .>* b',
    '* (a + ? b) .>? b', '* (? a ;; ? b) .>? a', '(a + b) .>? c', '(a ;; b) .>? c', 'a ;; b .>? c', 'a + b .>? c', '? (a + b) .>? c', '? (a ;; b) .>? c', '? ? a .>? c', '? * a .>? c', '* * a .>? c',
    'a .>? b .>? c', 'a .>* b .>? c', '(a .>? b) .>? c', 'a .>? (b .>* c)', 'a .>? &final', 'a .>? &initial', 'a .>? &foo', '&final .>? a', '&initial .>? a', 'a .>? > b', 'a .>? (b & c)', 'a .>? ~ b',
    '> a .>? b', 'a & b .>? c', '~ a .>? c', 'p(1) .>? q', '? p(1) .>? q', '* p(1) .>? q', '-a .>? b', 'a .>? -b', '1 .>? a', 'a .>? 1', 'X .>? a', '(a,b) .>? c', '[a] .>? b', '"a" .>? b',
    'a', '&true', '&final', 'a .>?', '.>? a', '? a', '* a', 'a + b', 'a ;; b', "'a .>? b", "a' .>? b", 'a .>? b : c', 'a .>? b, c',
]
CONTEXTS = [
    ':- not &{T} {{ {F} }}.', ':- &{T} {{ {F} }}.', 'w :- not not &{T} {{ {F} }}.', 'w :- not &{T} {{ {F} }}, a.', '#program final.\n:- not &{T} {{ {F} }}.', '#program dynamic.\nw :- not &{T} {{ {F} }}.',
    ':- not &{T} {{ {F} ; b }}.', ':- not &{T} {{ {F} : a }}.', ':- not &{T} {{ {F} }} > 3.', ':- not &{T} {{ {F} }} = X.', 'w :- &{T} {{ {F} }}.', ':- not &{T}(1) {{ {F} }}.', ':- not &{T} {{ }}.',
]
HEAD_CONTEXTS = ['&tel {{ {F} }}.', '&tel {{ {F} }} :- a.', '#program initial.\n&tel {{ {F} }} :- not b.', '#program final.\n&tel {{ {F} }}.', '&tel {{ {F} ; b }}.', '&tel {{ {F} }} > 2.', 'a ; &tel {{ {F} }}.',
                 '{{ &tel {{ {F} }} }}.', 'not &tel {{ {F} }}.', '&tel {{ {F} }} :- &tel {{ a }}.']
# non-ground head formulas: variables of the rule in n-fold prefixes, nested with numeric offsets and with each other
NONGROUND_HEAD = ['N > (>? a)', 'N > (>* a)', 'N >: (>> a)', 'N > (a >? b)', 'N > (> (b >* a))', '>? (N > (>* a))', 'N > (M > (>? a))', '1 > (N > a)', 'N > (1 > a)', 'a ;> (N > b)', 'N > (N > a)', '(N+1) > a', 'N >: a | 2 > b', '> (N >: (> a))', 'N > a >? b', '(N-1) > a', 'N > (M > a)', '(N+M) >: a',
                  '2 > (N > (1 > a))', 'N > a & M > b', 'a >* (N > b)', '>? (N > a)', 'N > (> a | 2 > b)', 'N > p(N)', '> p(N+1)', 'N > p(M) ;> q(N)', '(N-2) > a', 'N > (0 > a)', '0 > (N > a)']
NONGROUND_CONTEXTS = ['&tel {{ {F} }} :- d(N), d(M).', '#program initial.\n&tel {{ {F} }} :- d(N), M = N+1.', '#program dynamic.\n&tel {{ {F} }} :- d(N), d(M), not a.']
PROGRAM_LEVEL = [
    '#program foo.\na.', '#program foo(x).\na.', '#program initial(t).\na.', '#program always. #program final. #program dynamic.', 'a_.', "_a'.", "'_a.", '_a_.', "a_' .", '__a.', "a :- 'b_.", '-_a.', '- -a.',
    "'a.", "_a.", "a' ; b.", "{ a' }.", "a :- b'.", ":- a'''''.", "not a'.", "a' :- b'.", "#external a'.", "#show a'/0.", "#show 'a/0.", '#show.', '#show a : b.', '#show foo(a) : a.', '#project a/0.',
    ':~ a. [1@1]', "#minimize { 1 : a' }.", '#const n = 2. n > a.', '#script (python)\ndef f(): return 1\n#end.\na.', '#include "nonexistent.lp".', '&initial.', '&final :- a.', '&true.', '&false.', '&foo.', 'a :- &foo.',
    'a :- &initial(1).', '&tel.', ':- &tel.', '&del { a .>? b }.', 'a :- &del { a .>? b }.', '&initial :- &final.', 'a :- not &initial, not not &final, &true, not &false.', "#program always.\na(X) :- 'b(X+1), X = 1..2.",
    'a(1..2). b(X) :- a(X), not \'a(X).', "p(X)' :- q(X).", "q(1). p'(X) :- q(X).", '#heuristic a. [1,true]', '#edge (a,b).', '#theory foo { t { + : 1, unary }; &bar/0 : t, any }.\n&bar { 1 }.',
    '#program always.\n#external e.\na :- e.', "#external e'.", 'a :- #count { X : b(X) } > 1.', "a :- #count { X : 'b(X) } > 1.", ':- #sum { 1 : a\' } > 0.',
]


# every operator symbol of the three theories in positions of the wrong arity, next to other operators (unary-only operators between two operands, binary-only
# operators in front, operators at the end)
ALL_OPS = ['~', '>', '>:', '>?', '>*', '>>', '<', '<:', '<?', '<*', '<<', '&', '|', '->', '<-', '<>', ';>', ';>:', '<;', '<:;', '-', '+', '*', '?', '.>?', '.>*', ';;']
OP_SHAPES = ['a & b {O} c', 'a {O} b & c', '{O} a & b', 'a & {O} b', 'a | b {O} c {O} a', 'a {O} {O} b', '({O} a) | b {O}', '> a {O} b', 'a {O} > b']


def inputs(ctx):
    rng = ctx.rng('inputs')
    out = []
    base = '#program always.\n{a;b;c}.\n'
    for o in ALL_OPS:
        for sh in OP_SHAPES:
            f = sh.replace('{O}', o)
            out.append(('operator-arity', base + '&tel { %s } :- c.\n' % f))
            out.append(('operator-arity', base + ':- not &tel { %s }.\n' % f))
            if o in ('+', '*', '?', ';;', '.>?', '.>*', '&', '-', '~', '>'):
                out.append(('operator-arity', base + ':- not &del { %s }.\n' % f))
    for f in WEIRD_TEL:
        for c in (CONTEXTS if not ctx.quick else rng.sample(CONTEXTS, 4)):
            out.append(('tel-body', base + c.format(T='tel', F=f) + '\n'))
        for c in (HEAD_CONTEXTS if not ctx.quick else rng.sample(HEAD_CONTEXTS, 3)):
            out.append(('tel-head', base + c.format(F=f) + '\n'))
    for f in WEIRD_DEL:
        for c in (CONTEXTS if not ctx.quick else rng.sample(CONTEXTS, 4)):
            out.append(('del-body', base + c.format(T='del', F=f) + '\n'))
    for f in NONGROUND_HEAD:
        for c in (NONGROUND_CONTEXTS if not ctx.quick else rng.sample(NONGROUND_CONTEXTS, 2)):
            out.append(('tel-head-nonground', base + 'd(1..2).\n' + c.format(F=f) + '\n'))
    # the same formula text in a rule head and in rule bodies (&tel and &del) of one program, at the same and at different states
    for f in ['>? a', 'a', '> a | b', 'a >* b', '&true', '2 > a', '>: (a & > b)', 'a ;> b']:
        for hpart, bpart in (('initial', 'initial'), ('always', 'always'), ('initial', 'always'), ('dynamic', 'always')):
            out.append(('head-and-body', base + '#program %s.\n&tel { %s }.\n#program %s.\n:- not &tel { %s }.\n' % (hpart, f, bpart, f)))
            out.append(('head-and-body', base + '#program %s.\n:- not &tel { %s }.\nw :- not &tel { %s }.\n#program %s.\n&tel { %s } :- c.\n' % (bpart, f, f, hpart, f)))
    for d in ['&true .>? a', '* &true .>* a', 'a .>? b']:
        out.append(('head-and-body', base + '#program always.\n:- not &del { %s }.\nw :- not &tel { %s }.\n&tel { a | > b }.\n' % (d, 'a')))
        out.append(('head-and-body', base + '#program initial.\n:- not &del { %s }.\n:- not &tel { > a }.\n&tel { > a }.\n' % d))
    for p in PROGRAM_LEVEL:
        out.append(('program', base + p + '\n'))
        out.append(('program', '#program final.\n' + p + '\n'))
    # valid random programs with one random token-level mutation
    toks = ["'", "_", '&', '~', '>', '<', ':', ';', '(', ')', '{', '}', '.', ',', '-', '1', 'X', '>?', '<*', ';>', '.>?', '*', '?', 'not', ':-']
    n = 300 if ctx.quick else 1500
    for i in range(n):
        atoms = ['a', 'b']
        k = rng.random()
        if k < 0.4:
            p = gen.context_program(rng, atoms) + [{'part': rng.choice(gen.PARTS), 'head': ('cons',), 'body': [(rng.choice('pnm'), ('tel', gen.formula(rng, atoms, 3)))]}]
        elif k < 0.6:
            p = gen.context_program(rng, atoms) + [{'part': rng.choice(gen.PARTS), 'head': ('tel', gen.formula(rng, atoms, 3, gen.HEAD_UN, gen.HEAD_BIN)), 'body': []}]
        elif k < 0.8:
            p = gen.context_program(rng, atoms) + [{'part': rng.choice(gen.PARTS), 'head': ('cons',), 'body': [(rng.choice('pnm'), ('del', gen.dformula(rng, atoms, 2, 3)))]}]
        else:
            p = gen.core_program(rng, atoms, (1, 4), 0.3, 0.5)
        t = lang.prog_txt(p)
        for _ in range(rng.choice([1, 1, 2])):
            pos = rng.randrange(len(t))
            op = rng.random()
            if op < 0.4:
                t = t[:pos] + rng.choice(toks) + t[pos:]
            elif op < 0.7:
                t = t[:pos] + t[pos + 1:]
            else:
                t = t[:pos] + rng.choice(toks) + t[pos + 1:]
        out.append(('mutated', t))
    return out


OK_EXC = ('RuntimeError',)


def classify(a):
    st = a.get('status')
    if st == 'ok':
        return 'ok'
    if st == 'timeout':
        return 'hang'
    if st == 'died':
        return 'crash'
    if st == 'exc':
        if a.get('type') in OK_EXC:
            return 'diagnostic'
        if a.get('type') == 'MemoryError':
            return 'internal:MemoryError'
        return 'internal:%s' % a.get('type')
    return 'internal:' + str(st)


def cli(args, text, timeout=30):
    env = dict(os.environ)
    env['PYTHONPATH'] = REPO
    env['PYTHONHASHSEED'] = '0'
    try:
        p = subprocess.run(['/venv/bin/python', '-m', 'telingo'] + args, input=text.encode(), stdout=subprocess.PIPE, stderr=subprocess.PIPE, timeout=timeout, env=env, cwd='/')
        return p.returncode, p.stdout.decode(errors='replace'), p.stderr.decode(errors='replace')
    except subprocess.TimeoutExpired:
        return None, '', 'timeout'


OPTION_CASES = [
    (['--imax=x'], 'reject'), (['--imin=x'], 'reject'), (['--imax=-1'], 'reject'), (['--imin=-1'], 'reject'), (['--istop=foo'], 'reject'), (['--imax=1.5'], 'reject'), (['--imin='], 'reject'),
    (['--imax=0'], 'accept-unsat'), (['--imax=0', '--imin=2'], 'accept-unsat'), (['--imax=1', '--imin=3'], 'accept-unsat'), (['--imax=3', '--imin=1', '--istop=unsat'], 'accept'), (['--imax='], 'accept-bounded'), (['--istop=SAT', '--imax=2'], 'accept'), (['--istop=Unknown', '--imax=2'], 'accept'), (['--imin=0', '--imax=0'], 'accept'),
]


def run(ctx):
    ins = inputs(ctx)
    res = ctx.impl(n=12).run([{'cmd': 'solve', 'texts': [t], 'imax': 3, 'istop': 'UNKNOWN'} for _, t in ins], timeout=20 if ctx.quick else 60)
    cex, hist, kinds = [], {}, {}
    for (kind, t), a in zip(ins, res):
        c = classify(a)
        if c == 'hang':       # retry once on its own before calling it a hang
            a = ctx.impl(n=12).run([{'cmd': 'solve', 'texts': [t], 'imax': 3, 'istop': 'UNKNOWN'}], timeout=60)[0]
            c = classify(a)
        hist[c] = hist.get(c, 0) + 1
        kinds[kind] = kinds.get(kind, 0) + 1
        if c not in ('ok', 'diagnostic'):
            where = a.get('where', '')
            cex.append({'key': 'c15:%s:%s' % (c, where), 'what': '%s at %s (%s) for input %s' % (c, where, a.get('msg', ''), json.dumps(t)), 'input': {'text': t, 'class': c, 'where': where}})
    # one representative per (class, code location): the same defect is reported once
    seen, uniq = set(), []
    for c in cex:
        if c['key'] not in seen:
            seen.add(c['key'])
            uniq.append(c)
    # command line: error inputs and option values
    cli_n = 0
    err_inputs = [t for (k, t), a in zip(ins, res) if classify(a) == 'diagnostic'][:: max(1, len(ins) // (12 if ctx.quick else 60))][:12 if ctx.quick else 60]
    for t in err_inputs:
        rc, so, se = cli(['--imax=3', '--istop=unknown', '0'], t)
        cli_n += 1
        if rc is None or rc == 0 or ('*** ERROR' not in se and 'error' not in se.lower()):
            uniq.append({'key': 'c15:cli-exit', 'what': 'command line: exit status %s without error message for an input that telingo rejects: %s' % (rc, json.dumps(t)), 'input': {'cli_text': t, 'args': ['--imax=3', '--istop=unknown', '0']}})
            break
    # valid programs with #show statements must run through the command line without a traceback from telingo's own code
    for t in ['#program always.\n{a}.\n#show c : a.\n', '#program always.\n{a}.\n#show a/0.\n#show c.\n', '#program always.\n{a}. b :- a.\n#show.\n#show b/0.\n#show (a,1) : a.\n',
              '#program initial.\n{a}.\n#show 5 : a.\n#show "x" : a.\n', '#program dynamic.\n{p(1)}.\n#show f(X) : p(X).\n#show -p/1.\n']:
        rc, so, se = cli(['--imax=2', '--istop=unknown', '0'], t)
        cli_n += 1
        if rc not in (10, 20, 30) or 'Traceback' in se:
            uniq.append({'key': 'c15:cli-valid', 'what': 'command line fails on a valid program: exit %s: %s; input %s' % (rc, json.dumps(se.strip().split('\n')[-1][:200]), json.dumps(t)),
                         'input': {'cli_text': t, 'args': ['--imax=2', '--istop=unknown', '0'], 'expect': 'accept'}})
            break
    for args, exp in OPTION_CASES:
        rc, so, se = cli(args + (['--imax=2'] if exp == 'accept-bounded' and False else []), 'a.\n:- a.\n' if exp in ('accept-bounded', 'accept-unsat') else 'a.\n', timeout=8 if exp == 'accept-bounded' else 30)
        cli_n += 1
        if exp == 'accept-unsat':
            # a bound on the number of steps ends the run also when the stop criterion is never met (no endless loop)
            if rc is None:
                uniq.append({'key': 'c15:option-hang:%s' % ' '.join(args), 'what': 'command line with %s on an unsatisfiable program does not terminate within 30 s' % args, 'input': {'cli_text': 'a.\n:- a.\n', 'args': args, 'expect': 'accept'}})
            continue
        if exp == 'accept-bounded':
            continue      # imax empty = unbounded; with an unsatisfiable program this loops by design, only checked not to crash at start-up
        bad = None
        if exp == 'reject' and (rc in (None, 0, 10, 20, 30) or 'Traceback' in se or 'PANIC' in se or 'PANIC' in so):
            bad = 'invalid option value %s not rejected cleanly: exit %s, stderr %s' % (args, rc, json.dumps(se[-300:]))
        if exp == 'accept' and rc not in (10, 20, 30, 0):
            bad = 'valid option value %s rejected: exit %s, stderr %s' % (args, rc, json.dumps(se[-300:]))
        if bad:
            uniq.append({'key': 'c15:option:%s' % ' '.join(args), 'what': bad, 'input': {'cli_text': 'a.\n', 'args': args, 'expect': exp}})
    cov = {'evaluations': len(ins) + cli_n, 'distinct_nontrivial': len({t for _, t in ins}),
           'rule': 'inputs: %s; each run through transform + imain (imax=3) under a watchdog; distinct = distinct text; every input is non-trivial in the sense that it exercises a parsing, '
                   'placement or translation decision; plus %d command-line runs (error inputs, option values)' % (json.dumps(kinds), cli_n),
           'outcome_histogram': hist, 'samples': [{'kind': ins[i][0], 'text': ins[i][1], 'outcome': classify(res[i])} for i in (0, len(ins) // 3, len(ins) - 1)]}
    return {'counterexamples': uniq[:12], 'coverage': cov}


def replay(ctx, payload):
    inp = payload['input']
    if 'cli_text' in inp:
        rc, so, se = cli(inp['args'], inp['cli_text'])
        if inp.get('expect') == 'accept':
            return rc not in (0, 10, 20, 30)
        return rc in (None, 0, 10, 20, 30) or 'Traceback' in se or 'PANIC' in se or 'PANIC' in so
    a = ctx.impl().run([{'cmd': 'solve', 'texts': [inp['text']], 'imax': 3, 'istop': 'UNKNOWN'}], timeout=60)[0]
    return classify(a) not in ('ok', 'diagnostic')
