"""C10 — the command line prints each answer set as its states, completely and only.
Theorems: coq/Props/C10.v over the guards regenerated from TelApp.print_model.
Correspondence S5 (python -m telingo as a subprocess): for random programs with #show statements, classical negation, atoms with
arguments and shown terms without time stamp, read from several files or standard input: the State blocks of the text output are
compared, answer by answer, with the grouping by last argument of the witnesses of the same command in --outf=2 mode (decoded by
the extracted Model/Print.print_model)."""
import json, os, re, subprocess, tempfile, shutil
import clingo
import gen, lang

PROP_FILE = 'Props/C10.v'
GROUPS = ['app', 'parts', 'show']
LEAF_LEMMAS = ['printable_gen_spec', 'visible_gen_spec', 'nstates_gen_spec']
ASSUMPTIONS = ['clingo calls print_model once per answer set after the model callback has stored the horizon (runtime behaviour of clingo, observed only through the subprocess)',
               'clingo\'s symbol order (sorted) is treated as an arbitrary permutation in the theorems']
REPO = os.environ.get('TELINGO_REPO', '/repo')
SHOWS = ['#show a/0.', '#show b/0.', '#show p/1.', '#show -p/1.', '#show q/2.', '#show c.', '#show foo(a) : a.', '#show bar : b.', '#show (a,1) : a.', '#show 7 : a.', '#show "s" : b.',
         '#show g(X) : p(X).', '#show -a/0.', '#show.', '#show k(1,2).', '#show h(1) : b.', '#show t/5.', '#show -t/2.', '#show ("s",-1,(2,)) : a.']


def program(rng):
    atoms = ['a', 'b']
    rules = gen.core_program(rng, atoms, (1, 3), future_head=0.2)
    txt = lang.prog_txt(rules)
    extra = ['#program always.', '{ p(1); p(2) }.', '-p(X) :- not p(X), X = 1..2.', "q(X,Y) :- p(X), 'p(Y).", '-a :- not a, b.', 't("x\\"y",(1,2),-3,f(-a,""),(4,)) :- a.', '-t((),"") :- b.']
    txt += '\n'.join(rng.sample(extra[1:], rng.randint(0, 3)) and [extra[0]] + rng.sample(extra[1:], rng.randint(1, 3))) + '\n'
    shows = rng.sample(SHOWS, rng.choice([0, 1, 2, 3, 4]))
    txt += '\n'.join(shows) + '\n'
    return txt


class Slow(Exception):
    pass


def run_cli(files, stdin_text, args, timeout=60):
    env = dict(os.environ)
    env['PYTHONPATH'] = REPO
    env['PYTHONHASHSEED'] = '0'
    try:
        p = subprocess.run(['/venv/bin/python', '-m', 'telingo'] + files + args, input=(stdin_text or '').encode(), stdout=subprocess.PIPE, stderr=subprocess.PIPE, timeout=timeout, env=env, cwd='/')
    except subprocess.TimeoutExpired:
        raise Slow()      # a program with very many answer sets: the run is not compared (performance is outside the property; hangs on small inputs are the business of C15)
    return p.returncode, p.stdout.decode(errors='replace'), p.stderr.decode(errors='replace')


def parse_text(out):
    """text mode output -> list of answers, each a list of (state index, [atoms])"""
    answers, cur = [], None
    for line in out.split('\n'):
        if line.startswith('Answer:'):
            cur = []
            answers.append(cur)
        elif re.match(r'^ State (\d+):$', line) and cur is not None:
            cur.append((int(line.split()[1][:-1]), []))
        elif line.startswith('  ') and cur is not None and cur:
            cur[-1][1].extend(line.split())
        elif line.startswith(('SATISFIABLE', 'UNSATISFIABLE', 'UNKNOWN', 'Solving...')):
            cur = None
    return answers


def sym_record(s):
    """witness string -> record for the model: is_fun dunder nargs last txt"""
    y = clingo.parse_term(s)
    is_fun = y.type == clingo.SymbolType.Function
    nargs = len(y.arguments) if is_fun else 0
    last = None
    txt = s
    dunder = is_fun and y.name.startswith('__')
    if is_fun and nargs > 0:
        if y.arguments[-1].type == clingo.SymbolType.Number:
            last = y.arguments[-1].number
        txt = str(clingo.Function(y.name, y.arguments[:-1], y.positive))
    return is_fun, dunder, nargs, last, txt


def model_line(values, horizon):
    toks = ['print', str(horizon), str(len(values))]
    for v in values:
        f, d, n, l, t = sym_record(v)
        toks += ['1' if f else '0', '1' if d else '0', str(n), '-' if l is None else str(l), t.replace(' ', '')]
    return ' '.join(toks)


def cases(ctx):
    rng = ctx.rng('cases')
    n = 60 if ctx.quick else 400
    out = []
    for i in range(n):
        txt = program(rng)
        mode = rng.choice(['file', 'file', 'two-files', 'stdin', 'two-files-base'])
        args = ['--imax=%d' % rng.choice([2, 3]), '--istop=unknown', '0']
        if rng.random() < 0.4:
            # the horizon of the model being printed must not depend on the other options (e.g. a minimum number of steps)
            args = ['--imax=%d' % rng.choice([3, 4]), '--imin=%d' % rng.choice([2, 3, 4]), '--istop=%s' % rng.choice(['unknown', 'sat', 'unknown']), '0']
        if not ctx.quick and rng.random() < 0.2:
            args += ['-t', '4']
        out.append({'text': txt, 'mode': mode, 'args': args})
    out.append({'text': '#program always.\np.\n#show foo(a) : p.\n', 'mode': 'file', 'args': ['--imax=2', '--istop=unknown', '0']})
    # fixed programs for the file layout: a first file that ends in a final / dynamic / always part, a second file that starts with rules
    for txt in ['#program always.\n{ a }.\n#program dynamic.\nb :- \'a.\n', '#program initial.\n{ a; b }.\n#program always.\nc :- a.\n', '#program dynamic.\n{ a }.\n']:
        out.append({'text': txt, 'mode': 'two-files-base', 'args': ['--imax=3', '--istop=unknown', '0']})
    # ... and a first file that ends in the initial / always / dynamic part itself, with and without temporal formulas in rule heads (whose auxiliary rules are emitted in a part of their own)
    for txt in ['#program always.\n{ a }.\n#program initial.\n&tel { > c | b }.\n', '#program always.\n{ a }.\n#program initial.\nb :- not a.\n', '&tel { >* (a | b) }.\n',
                '#program initial.\n{ a }.\n#program always.\n&tel { >: c | b } :- a.\n', '#program always.\n{ a }.\n&tel { > b } :- a.\n#program dynamic.\nc :- \'a.\n']:
        out.append({'text': txt, 'mode': 'two-files-base', 'first_tail': '', 'args': ['--imax=3', '--istop=unknown', '0']})
    return out


def one(ctx, c, tmp):
    files, stdin = [], None
    if c['mode'] == 'stdin':
        stdin = c['text']
    elif c['mode'] == 'two-files':
        lines = c['text'].split('\n')
        cut = max(1, len(lines) // 2)
        # the second file must start with the #program line in force at the cut (every file starts in part initial/base)
        part = '#program initial.'
        for l in lines[:cut]:
            if l.startswith('#program'):
                part = l
        for j, chunk in enumerate(['\n'.join(lines[:cut]), part + '\n' + '\n'.join(lines[cut:])]):
            f = os.path.join(tmp, 'f%d.lp' % j)
            open(f, 'w').write(chunk + '\n')
            files.append(f)
    elif c['mode'] == 'two-files-base':
        # first file ends inside a final part; the second file starts with rules before any #program line: they belong to
        # the initial part (every file starts in part initial/base).  Reference: the same program as ONE text.
        first = c['text'] + c.get('first_tail', '#program final.\n:- &false, a.\n')
        second = 'zz.\nyy :- not a.\n#program dynamic.\nyy :- \'zz.\n'
        for j, chunk in enumerate([first, second]):
            f = os.path.join(tmp, 'g%d.lp' % j)
            open(f, 'w').write(chunk)
            files.append(f)
        ref = os.path.join(tmp, 'ref.lp')
        open(ref, 'w').write(first + '#program initial.\n' + second)
        rcr, sor, ser = run_cli([ref], None, c['args'])
        rcm, som, sem = run_cli(files, None, c['args'])
        ka = sorted(json.dumps(x) for x in parse_text(sor))
        kb = sorted(json.dumps(x) for x in parse_text(som))
        if ka != kb:
            return 'two input files (the second starting in the initial part without a #program line) print %d answers %s..., the same program as one text prints %d answers %s...' % (
                len(kb), kb[:1], len(ka), ka[:1]), 'layout'
    else:
        f = os.path.join(tmp, 'f.lp')
        open(f, 'w').write(c['text'])
        files.append(f)
    rc, so, se = run_cli(files, stdin, c['args'])
    rc2, so2, se2 = run_cli(files, stdin, c['args'] + ['--outf=2'])
    if 'Traceback' in se or 'Traceback' in se2 or rc in (1, 65, 33) and '*** ERROR' in se:
        if '*** ERROR: (telingo)' in se and 'Traceback' not in se:
            return None, 'rejected'
        return 'command line run aborts: exit %s: %s' % (rc, se.strip().split('\n')[-1][:200]), 'abort'
    try:
        js = json.loads(so2)
    except ValueError:
        return 'no JSON output in --outf=2 mode: %s' % so2[:200], 'abort'
    answers = parse_text(so)
    wit = []
    for h, call in enumerate(js.get('Call', [])):
        for w in call.get('Witnesses', []):
            wit.append((h, w.get('Value', [])))
    if len(wit) != len(answers):
        return 'text mode prints %d answers, --outf=2 reports %d witnesses' % (len(answers), len(wit)), 'count'
    lines = [model_line(v, h) for h, v in wit]
    exp = ctx.model().run(lines) if lines else []
    want_all, got_all = [], []
    for (h, v), e in zip(wit, exp):
        if e is None or e.startswith(('error', 'raises')):
            return 'model: %s for witness %s' % (e, v), 'model'
        want_all.append((h, [sorted(x.strip()[1:-1].split()) for x in e.split(' | ')]))
    for a in answers:
        got_idx = [k for k, _ in a]
        if got_idx != list(range(len(got_idx))):
            return 'an answer prints states %s' % got_idx, 'states'
        got_all.append((len(a) - 1, [sorted(x) for _, x in a]))
    # the two runs may enumerate the answer sets of one solve call in different orders (always possible with parallel threads):
    # compare per horizon as multisets, and in order when the order happens to agree
    if sorted(json.dumps(x) for x in want_all) != sorted(json.dumps(x) for x in got_all):
        bad = [x for x in got_all if x not in want_all][:1] or got_all[:1]
        return 'printed answers %s... are not the shown atoms grouped by last argument %s...' % (json.dumps(bad)[:300], json.dumps(want_all[:1])[:300]), 'atoms'
    return None, 'ok:%d' % len(wit)


def run(ctx):
    cs = cases(ctx)
    tmp = tempfile.mkdtemp(prefix='c10_', dir=os.path.join(os.path.dirname(os.path.dirname(os.path.dirname(os.path.abspath(__file__)))), '_build'))
    cex, hist, answers, nontriv = [], {}, 0, set()
    try:
        for c in cs:
            try:
                v, tag = one(ctx, c, tmp)
            except Slow:
                v, tag = None, 'skipped-slow'
            hist[tag.split(':')[0] + ':' + c['mode']] = hist.get(tag.split(':')[0] + ':' + c['mode'], 0) + 1
            if tag.startswith('ok:'):
                answers += int(tag[3:])
                if int(tag[3:]) > 0:
                    nontriv.add(c['text'])
            if v:
                cex.append({'key': 'c10:' + tag + ':' + c['text'].replace('\n', ' '), 'what': v, 'input': c})
    finally:
        shutil.rmtree(tmp, ignore_errors=True)
    cov = {'evaluations': 2 * len(cs), 'distinct_nontrivial': len(nontriv),
           'rule': 'random programs (core rules, future heads, atoms with arguments, classical negation) with 0-4 #show statements incl. shown terms without time stamp; read from one file, '
                   'two files or stdin; text output decoded and compared answer by answer with the witnesses of the same command in --outf=2 mode grouped by the extracted print model; '
                   'non-trivial = distinct program with at least one printed answer', 'answers_compared': answers, 'outcome_histogram': hist,
           'samples': [{'text': cs[i]['text'], 'mode': cs[i]['mode'], 'args': cs[i]['args']} for i in (0, len(cs) // 2)]}
    return {'counterexamples': cex[:6], 'coverage': cov}


def replay(ctx, payload):
    tmp = tempfile.mkdtemp(prefix='c10_', dir=os.path.join(os.path.dirname(os.path.dirname(os.path.dirname(os.path.abspath(__file__)))), '_build'))
    try:
        v, tag = one(ctx, payload['input'], tmp)
    except Slow:
        v = None
    finally:
        shutil.rmtree(tmp, ignore_errors=True)
    return v is not None
