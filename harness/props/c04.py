"""C04 — &tel head formulas derive atoms according to temporal here-and-there semantics.
Theorems: coq/Props/C04.v.  Correspondence S4: programs with 1-3 rules  &tel{phi} :- body  (phi over & | ~ > >: >? >* >> ;> ;>:
n-fold next and keywords) together with facts/choices/other rules over the same atoms, compared at every horizon of one incremental
run with the temporal stable models computed by Oracle.tsm_enum (full THT_f equivalence, both directions, with multiplicity)."""
import gen, s4, lang, findings, hdstruct, meta
from props import c01

PROP_FILE = 'Props/C04.v'
GROUPS = ['imain', 'headform', 'headranges', 'reps']
LEAF_LEMMAS = []
ASSUMPTIONS = ['gringo/clasp contract G1-G6 (DESIGN.md 5.3)',
               'exactness of the head translation (no answer set added, none lost) is a theorem for programs whose rest is splittable (bodies over present and past, heads in the present or future; C04_translation_exact, C04_rules_splittable); next to look-ahead constraints it is covered by the correspondence with the oracle only (a test)', 'symbolic (variable) time ranges of non-ground head formulas are not modelled (C06 / C15 run them)']
def replay(ctx, payload):
    inp = payload['input']
    if 'renaming' in inp:
        return meta.renaming_replay(ctx, payload)
    if 'head_domain' in inp:
        tt = lambda x: tuple(tt(y) for y in x) if isinstance(x, list) else x
        return hdstruct.domain_compare(ctx, [[(p_, [tt(f) for f in els]) for p_, els in inp['head_domain']]])[0]['status'] != 'agree'
    if 'head_structure' in inp:
        tt = lambda x: tuple(tt(y) for y in x) if isinstance(x, list) else x
        r = hdstruct.compare(ctx, [[(p_, [tt(f) for f in els]) for p_, els in inp['head_structure']]], inp.get('H', 3))[0]
        return r['status'] in ('differ', 'implerror', 'modelerror')
    if 'intervals' in inp:
        q = [tuple(x) for x in inp['intervals']]
        a = ctx.impl().run([{'cmd': 'intervalset', 'intervals': [list(x) for x in q]}])[0]
        m = ctx.model().run(['ivs %d %s' % (len(q), ' '.join('%d %d' % x for x in q))])[0]
        return a.get('status') != 'ok' or (m or '').strip() != a.get('set', '').strip()
    return c01.replay(ctx, payload)


CLOSE_ATOMS = [('p(1,2)', 'p(12)'), ('p(1,23)', 'p(12,3)'), ('q("1",2)', 'q(1,"2")'), ('r(a,b)', 'r(ab)'), ('p(f(1),2)', 'p(f(1,2))'), ('s(-1)', '-s(1)')]


def head_rule(rng, atoms, depth):
    f = gen.formula(rng, atoms, depth, gen.HEAD_UN, gen.HEAD_BIN, None, gen.KEYWORDS, nfold=0.45 if len(atoms) == 1 else 0.3, leaf=0.2)
    part = rng.choice(['initial', 'initial', 'always', 'dynamic', 'final'])
    nb = rng.choice([0, 0, 1, 1, 2])
    body = [gen.core_body_lit(rng, atoms) for _ in range(nb)]
    return {'part': part, 'head': ('tel', f), 'body': body}


skipped = {}


def programs(ctx):
    skipped.clear()
    rng = ctx.rng('programs')
    n = 700 if ctx.quick else 2500
    depth = 3 if ctx.quick else 4
    out = []
    for i in range(n):
        atoms = ['a', 'b'] if rng.random() < 0.75 else ['a', 'b', 'c']
        fatoms = atoms if rng.random() < 0.75 else ['-a' if x == 'a' else x for x in atoms]      # classically negated atoms in head formulas
        if rng.random() < 0.2:
            fatoms = ['a']          # one atom at several distances (ranges of the domain rule)
        rules = []
        for _ in range(rng.choice([1, 1, 2, 3])):
            r = head_rule(rng, fatoms, rng.randint(1, depth))
            if rules and rng.random() < 0.5:
                # a head formula related to an earlier one (equal, sub-formula, weak/strong or dual sibling): shared formula objects
                g = gen.related(rng, rng.choice(rules)['head'][1])
                if rng.random() < 0.4:
                    # the same formula written differently (an abbreviation expanded somewhere): a different theory atom with the same meaning
                    from props import c16
                    f0 = rng.choice(rules)['head'][1]
                    ps = c16.positions(f0, True)
                    if ps:
                        pth, law, rep = rng.choice(ps)
                        g = c16.replace(f0, pth, rep)
                if not findings.fml_has(g, ('prev', 'wprev', 'since', 'trigger', 'initially', 'seqprev', 'seqwprev', 'impr', 'impl', 'eqv')):
                    r = dict(r, head=('tel', g))
            rules.append(r)
        if fatoms is not atoms and rng.random() < 0.5:
            rules.append({'part': 'always', 'head': ('choice', ['a']), 'body': []})
        fam = rng.random()
        if fam < 0.1:
            # one atom at several (adjacent and separated) distances, in random textual order: ranges / interval sets of the domain rule
            ds = rng.sample([0, 1, 2, 3, 4], rng.randint(3, 4))
            terms = [('atom', 'a') if d == 0 else ('next' if rng.random() < 0.7 else 'wnext', d if d > 1 or rng.random() < 0.5 else None, ('atom', 'a')) for d in ds]
            f = terms[0]
            for t in terms[1:]:
                f = (rng.choice(['or', 'or', 'and']), f, t)
            rules = [{'part': rng.choice(['initial', 'always', 'dynamic']), 'head': ('tel', f), 'body': []}]
        elif fam < 0.2:
            # a counted next in a rule that fires at consecutive states: several instances of one formula pending at once
            f = (rng.choice(['or', 'and', 'or']), ('atom', 'b'), (rng.choice(['next', 'wnext']), rng.choice([2, 2, 3]), ('atom', 'a')))
            if rng.random() < 0.5:
                f = (f[0], f[2], f[1])
            rules = [{'part': rng.choice(['always', 'dynamic']), 'head': ('tel', f), 'body': rng.choice([[], [('n', ('patom', 'b', 1))]])}]
        k = rng.random()
        if k < 0.35:
            rules += gen.core_program(rng, atoms, (1, 2))
        elif k < 0.55:
            rules.append({'part': rng.choice(['initial', 'always', 'dynamic']), 'head': ('norm', rng.choice(atoms), 0), 'body': []})      # atoms of phi as facts
        elif k < 0.7:
            rules.append({'part': 'always', 'head': ('cons',), 'body': [(rng.choice('pn'), ('patom', rng.choice(atoms), 0)), ('p', ('kw', rng.choice(['initial', 'final'])))]})
        rng.shuffle(rules)
        fid = findings.in_open_class(rules, 'C04')
        if fid:
            skipped[fid] = skipped.get(fid, 0) + 1
            continue
        out.append(('head', rules))
    # exhaustive small family for the ranges of the domain rule: two atoms whose ranges start at the same offset and end differently
    # (bounded first / unbounded first), at offsets 0 and 1, as disjunction and conjunction, in every part
    A_, B_ = ('atom', 'a'), ('atom', 'b')
    for part in ('initial', 'always', 'dynamic'):
        for op in ('or', 'and'):
            for (x, y) in ((A_, ('until', None, B_)), (('until', None, B_), A_), (A_, ('release', None, B_)), (('release', None, B_), A_),
                           (('next', None, A_), ('next', None, ('until', None, B_))), (('next', None, ('release', None, B_)), ('next', None, A_)),
                           (A_, ('seqnext', B_, ('until', None, A_))), (('until', B_, A_), ('next', 2, B_))):
                rules = [{'part': part, 'head': ('tel', (op, x, y)), 'body': []}]
                if op == 'and':
                    rules.append({'part': 'always', 'head': ('choice', ['a', 'b']), 'body': []})
                out.append(('head-ranges', rules))
    # fixed family: two head formulas of one program over atoms whose names and arguments print ALMOST alike (the texts differ in a comma, a quote, a sign):
    # whatever identifies a formula inside the translation must keep them apart
    for x, y in CLOSE_ATOMS:
        X_, Y_ = ('atom', x), ('atom', y)
        for r1, r2 in (({'part': 'initial', 'head': ('tel', X_), 'body': []}, {'part': 'initial', 'head': ('tel', ('next', None, Y_)), 'body': []}),
                       ({'part': 'initial', 'head': ('tel', ('or', X_, ('next', None, Y_))), 'body': []}, {'part': 'always', 'head': ('tel', ('or', Y_, ('not', Y_))), 'body': []}),
                       ({'part': 'always', 'head': ('tel', ('or', ('next', None, X_), ('not', ('next', None, X_)))), 'body': []}, {'part': 'dynamic', 'head': ('tel', ('until', None, Y_)), 'body': []})):
            out.append(('head-close-atoms', [r1, r2]))
            out.append(('head-close-atoms', [r2, r1]))
    return out


def run(ctx):
    H = 4
    maxbits = 12
    progs = programs(ctx)
    recs = s4.compare(ctx, [p for _, p in progs], H, maxbits, timeout=12)
    res = c01.summarize(ctx, progs, recs, H, maxbits, 'C04')
    # atoms with arguments in head formulas: the programs with their atoms renamed to atoms with arguments against the programs themselves
    rcex, rnon = meta.renaming_cex(ctx, [p for _, p in progs if not findings.in_open_class(p, 'C04')][:40 if ctx.quick else 200], 3, 'C04', timeout=60)
    res['counterexamples'] += rcex
    ops = {}
    for _, p in progs:
        for r in p:
            if r['head'][0] == 'tel':
                gen.ops_of(r['head'][1], ops)
    # IntervalSet: the extracted model against the class of transformers/head.py on random sequences of intervals
    rng = ctx.rng('intervals')
    seqs = [[(a, a + rng.randint(0, 4)) for a in (rng.randint(-2, 12) for _ in range(rng.randint(1, 6)))] for _ in range(300 if ctx.quick else 2000)]
    seqs += [[(1, 2), (3, 4), (2, 3)], [(1, 2), (3, 4), (5, 7), (0, 10)], [(0, 2), (4, 6), (2, 3)], [(4, 6), (0, 2), (2, 4), (8, 9)], [(0, 1), (2, 3), (4, 5), (1, 2)]]
    ia = ctx.impl().run([{'cmd': 'intervalset', 'intervals': [list(x) for x in q]} for q in seqs], timeout=20)
    ma = ctx.model().run(['ivs %d %s' % (len(q), ' '.join('%d %d' % x for x in q)) for q in seqs], timeout=20)
    ivbad = 0
    for q, a, m in zip(seqs, ia, ma):
        if a.get('status') != 'ok' or (m or '').strip() != a.get('set', '').strip():
            ivbad += 1
            res['counterexamples'].append({'key': 'c04:intervalset:%s' % q, 'what': 'IntervalSet(%s) is %s, Model/IntervalSet.of_list gives %s' % (q, a.get('set', a.get('type')), m),
                                           'input': {'intervals': [list(x) for x in q]}})
    res['coverage']['evaluations'] += len(seqs)
    res['coverage']['interval_sequences'] = len(seqs)
    # structural correspondence: HeadFormula.translate call by call (formula object, clauses, rules, schedule) against the extracted Model/HeadDefs.v
    hcs = hdstruct.cases(ctx, 60 if ctx.quick else 400)
    hrecs = hdstruct.compare(ctx, hcs, 3)
    hstat = {}
    for rules, r in zip(hcs, hrecs):
        hstat[r['status']] = hstat.get(r['status'], 0) + 1
        if r['status'] in ('differ', 'implerror', 'modelerror'):
            res['counterexamples'].append({'key': 'c04:structure:' + r['program'].replace('\n', ' '), 'what': 'HeadFormula.translate and the model Model/HeadDefs.v differ: %s' % r.get('what'),
                                           'input': {'head_structure': [[p_, list(els)] for p_, els in rules], 'H': 3, 'program': r['program']}})
    # ... and to horizon 7 for head formulas with counts larger than small horizons, deep nestings and operators that stay pending over many steps
    a_, b_ = ('atom', 'a'), ('atom', 'b')
    lcs = [[('initial', [f])] for f in [('next', 5, a_), ('wnext', 6, ('or', a_, b_)), ('or', ('next', 4, a_), ('wnext', 7, b_)), ('until', a_, ('next', 3, b_)), ('release', ('next', 2, a_), b_),
                                        ('next', 2, ('next', 3, ('or', a_, ('wnext', 2, b_)))), ('and', ('until', None, a_), ('release', None, ('or', b_, ('next', 4, a_)))), ('seqnext', a_, ('seqnext', b_, ('seqnext', a_, b_)))]]
    lcs += [[('always', [('or', ('next', 3, a_), b_)])], [('dynamic', [('wnext', 4, a_)])], [('always', [('until', a_, ('next', 2, b_))]), ('initial', [('release', None, ('next', 5, a_))])]]
    lrecs = hdstruct.compare(ctx, lcs, 7)
    for rules, r in zip(lcs, lrecs):
        hstat[r['status'] + '/horizon-7'] = hstat.get(r['status'] + '/horizon-7', 0) + 1
        if r['status'] in ('differ', 'implerror', 'modelerror'):
            res['counterexamples'].append({'key': 'c04:structure7:' + r['program'].replace('\n', ' '), 'what': 'HeadFormula.translate and the model Model/HeadDefs.v differ (horizon 7): %s' % r.get('what'),
                                           'input': {'head_structure': [[p_, list(els)] for p_, els in rules], 'H': 7, 'program': r['program']}})
    drecs = hdstruct.domain_compare(ctx, hcs)
    dstat = {}
    for r in drecs:
        dstat[r['status']] = dstat.get(r['status'], 0) + 1
        if r['status'] != 'agree':
            res['counterexamples'].append({'key': 'c04:domain:' + r['program'].replace('\n', ' '), 'what': 'domain rule of the head formula and Model/HeadDomain.entries differ: %s' % r.get('what'),
                                           'input': {'head_domain': [[p_, list(els)] for p_, els in r['rules']], 'program': r['program']}})
    res['coverage']['evaluations'] += len(hrecs) + len(drecs) + len(lrecs)
    res['coverage']['head_domain_status_histogram'] = dstat
    res['coverage']['head_domain_entries_compared'] = sum(r['entries'] for r in drecs)
    res['coverage']['head_structure_status_histogram'] = hstat
    res['coverage']['head_structure_calls_compared'] = sum(r['calls'] for r in hrecs)
    res['coverage']['head_structure_clauses_compared'] = sum(r['clauses'] for r in hrecs)
    res['coverage']['rule'] += ('; structure: %d programs of 1-2 rules with a head formula (all head operators, keywords, constants, classical negation, several elements); every call of '
                                'HeadFormula.translate in a run of 4 steps is compared with the extracted model (formula object, ordered clauses, one rule per clause with head atoms, body formulas '
                                'and the literal of the theory atom, schedule of the calls)' % len(hrecs))
    res['coverage']['operator_histogram'] = dict(sorted(ops.items()))
    res['coverage']['generated_but_skipped_in_open_finding_class'] = dict(skipped)
    return res
