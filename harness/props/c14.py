"""C14 — translation is a deterministic, side-effect-free function of the input text.
Theorems: coq/Props/C14.v (the only sources of order the code consumes - a set of future predicates through sorted(), sets of literals
through min() - are invariant under permutation).  Correspondence: transformers.transform (every rewritten statement, future signatures,
part list) and the answer sets per horizon, for programs rich in future predicates, head-formula ranges and look-ahead parts, are compared
(a) across fresh interpreters with different PYTHONHASHSEED, (b) in one long-lived process after a random history of other
transform/solve calls, (c) with calls interleaved in several threads of one process."""
import json
import gen, lang, findings
from props import c04

PROP_FILE = 'Props/C14.v'
GROUPS = ['transformers']
LEAF_LEMMAS = []
ASSUMPTIONS = ['absence of state leaking between calls is established by the correspondence on every run, not by a theorem (partial)',
               'clingo itself is deterministic for a fixed configuration']


def programs(ctx, n):
    rng = ctx.rng('programs')
    out = []
    names = ['a', 'b', 'c', 'p(1)', 'q(1,2)', '-a', 'zz', 'm', 'k(x)']
    for i in range(n):
        atoms = rng.sample(names, rng.randint(3, 6))
        plain = [a for a in atoms if not a.startswith('-')][:3] or ['a', 'b']
        p = gen.core_program(rng, plain, (1, 3), future_head=0.7, lookahead=0.4, maxfut=3)
        for a in atoms:
            if rng.random() < 0.5:
                p.append({'part': rng.choice(gen.PARTS[:3]), 'head': ('norm', a, rng.randint(1, 3)), 'body': [(rng.choice('pn'), ('patom', rng.choice(plain), rng.randint(0, 1)))]})
        for _ in range(rng.randint(0, 2)):
            p.append(c04.head_rule(rng, plain, 2))
        if rng.random() < 0.4:
            p.append({'part': rng.choice(gen.PARTS), 'head': ('norm', 'ww', 0), 'body': [(rng.choice('nm'), ('tel', gen.formula(rng, plain, 3)))]})
        if rng.random() < 0.5:
            # arithmetic in n-fold prefixes: same term shape, different value from program to program
            e = rng.choice(['1+2', '3-1', '1+1', '2-1', '2+1', '4-2', '1+0', '3-2', '0+3'])
            op = rng.choice(['>', '>:', '<', '<:'])
            p.append({'part': rng.choice(['initial', 'always']), 'head': ('cons',), 'body': [(rng.choice('nm'), ('tel', ({'>': 'next', '>:': 'wnext', '<': 'prev', '<:': 'wprev'}[op], '(%s)' % e, ('atom', plain[0]))))]})
        rng.shuffle(p)
        k = rng.choice([1, 1, 2, 3])
        cut = sorted(rng.sample(range(1, len(p)), min(k - 1, len(p) - 1))) if len(p) > 1 else []
        pieces, last = [], 0
        for c in cut + [len(p)]:
            if p[last:c]:
                pieces.append(lang.prog_txt(p[last:c]))
            last = c
        out.append((p, pieces))
    return out


# inputs rejected at different depths of the translation (inside the head-formula parser, the body theory, the program transformer):
# a rejected call must leave nothing behind for the calls after it
REJECTED = ['&tel { > -> b }.', '&tel { a -> }.', '&tel { > > }.', '&tel { a & | b }.', '&tel { 2 > }.', '&tel { (1,2) > a }.', '&tel { &foo }.', '&tel { a >* }.', '&tel { x > a ;> b }.',
            '#program always.\n&tel { > a | >? }.', ':- &tel { > -> b }.', ':- not &tel { &foo }.', ':- not &tel { x > a }.', "'a_.", '#program foo.\na.', "p'(X) :- q(X), &tel { > }.",
            '&tel { a ;> }.\n&tel { > b }.', ':- not &del { a .>? }.', '&tel { > a : b }.', "a' :- &tel { > -> b }."]
CANARIES = ['#program always.\n{c}.\n&tel { >: c }.', '#program always.\n&tel { a | > b }.', '&tel { >* a }.', '&tel { 2 > a ;> b }.', '#program always.\n{a}.\n:- not &tel { > a | a }.',
            "#program dynamic.\nb :- 'a.\n#program always.\n{a}.\nc' :- a.", '&tel { a >? b & > c }.', '#program initial.\n&tel { > (a & > b) }.\n#program always.\n:- a, not &tel { > b }.']


# overlapping runs: B is solved completely from inside the model callback of A (both mention the same temporal sub-formulas, with different atom numbering)
OVERLAP = [('#program always.\n{ p }.\nq :- not not &tel { < p }.', '#program always.\n{ r; p }.\nq :- not not &tel { < p }.\ns :- not &tel { < p | r }.'),
           ('#program always.\n{ p }.\n:- not &tel { >? p }.', '#program always.\n{ r }.\n{ p }.\nq :- not not &tel { >? p }.'),
           ('#program always.\n{ a }.\n&tel { > b | a }.', '#program always.\n{ c; a }.\n&tel { > b | a } :- c.'),
           ('#program always.\n{ p }.\nq :- not &del { * &true .>? p }.', '#program always.\n{ r; p }.\nq :- not &del { * &true .>? p }, r.'),
           ("#program always.\n{ p }.\n#program dynamic.\nq :- 'p, not &tel { < < p }.", "#program always.\n{ r }.\n{ p }.\n#program dynamic.\nq :- 'r, not &tel { < < p }.")]
# ... and pairs that share path expressions over atoms (iteration, choice, sequence, test) while the atoms are numbered differently in the two programs
OVERLAP += [('#program always.\n{ p; x }.\nq :- not &del { * p .>? x }.', '#program always.\n{ r; q; p }.\nw :- not not &del { * p .>? q }.'),
            ('#program always.\n{ p; x }.\nq :- not &del { * (? p ;; &true) .>* x }.', '#program always.\n{ r }.\n{ x; p }.\nw :- not &del { * (? p ;; &true) .>* x }, r.'),
            ('#program always.\n{ p; x }.\nq :- not &del { ? p + x .>? x }.', '#program always.\n{ x; r; p }.\nw :- not not &del { ? p + x .>? r }.'),
            ('#program always.\n{ p; x }.\nq :- not &del { p ;; ? x .>? p }.', '#program always.\n{ r; x; p }.\nw :- not not &del { p ;; ? x .>* r }.')]


# programs whose formulas wait for later states when a run stops early
LATE = ['#program always.\n{ p }.\n#program initial.\n:- not &tel { 2 > p }.', '#program always.\n{ p }.\n:- not &tel { > p | >: > p }.', '#program always.\n{ p }.\nq :- not not &tel { >? p }.\n:- not &tel { 2 >: q }.',
        '#program always.\n{ p }.\n&tel { 2 > q } :- p.\n:- not &tel { >* (q | p) }.', '#program always.\n{ p; q }.\n#program initial.\n:- not &del { &true ;; &true .>? p }.\n#program dynamic.\n:- &del { * q .>* p }.']


# &final inside &del (a formula built by create_dynamic_formula itself, not from the text) in runs one after the other
LATE += ['#program always.\n{ p }.\n:- not &del { * &true .>? &final }.\nq :- not not &del { p .>* &final }.', '#program always.\n{ p; r }.\n#program initial.\n:- not &del { ? p ;; &true .>? &final }.']
OVERLAP += [('#program always.\n{ p }.\nq :- not &del { * &true .>? &final }.', '#program always.\n{ r; p }.\nw :- not not &del { p .>? &final }.\n:- not &del { * &true .>? &final }.')]


def canon(r):
    if r.get('status') != 'ok':
        return ('error', r.get('type'), r.get('msg'))
    if 'stmts' in r:
        return ('ok', tuple(r['stmts']), json.dumps(r['future_sigs']), json.dumps(r['parts']))
    return ('ok', json.dumps(r['models']))


def run(ctx):
    progs = programs(ctx, 100 if ctx.quick else 250)
    H = 3
    seeds = ['0', '1', '2'] if ctx.quick else [str(x) for x in range(8)]
    cex, nontriv = [], set()
    # (a) fresh workers per hash seed (small pools: each worker still serves several requests, histories differ per seed)
    base_t, base_s = None, None
    slow = set()   # programs whose solve run is slow or does not finish within the watchdog (exponential head-formula unfolding): not used in histories
    for hs in seeds:
        pool = ctx.impl(hashseed=hs)
        rt = [canon(x) for x in pool.run([{'cmd': 'transform', 'texts': t} for _, t in progs])]
        raw = pool.run([{'cmd': 'solve', 'texts': t, 'imax': H + 1, 'istop': 'UNKNOWN'} for _, t in progs], timeout=60)
        slow.update(i for i, x in enumerate(raw) if x.get('status') in ('timeout', 'died') or x.get('wall', 0) > 5)
        rs = [canon(x) if x.get('status') not in ('timeout', 'died') else None for x in raw]
        if base_t is None:
            base_t, base_s = rt, rs
            for (p, t), x, y in zip(progs, rt, rs):
                if x[0] == 'ok' and y is not None and y[0] == 'ok' and y[1] != '[]':
                    nontriv.add(tuple(t))
            continue
        for (p, t), a, b, c, d in zip(progs, base_t, rt, base_s, rs):
            if a != b:
                cex.append({'key': 'c14:hashseed:' + ' '.join(t).replace('\n', ' '), 'what': 'transform output differs between PYTHONHASHSEED=%s and %s' % (seeds[0], hs), 'input': {'texts': t, 'kind': 'hashseed', 'seeds': [seeds[0], hs]}})
            elif c is not None and d is not None and c != d:   # a run cut off by the watchdog is not compared
                cex.append({'key': 'c14:hashseed-solve:' + ' '.join(t).replace('\n', ' '), 'what': 'answer sets differ between PYTHONHASHSEED=%s and %s' % (seeds[0], hs), 'input': {'texts': t, 'kind': 'hashseed-solve', 'seeds': [seeds[0], hs], 'H': H}})
    # (b) one long-lived process, random history; (c) interleaved threads
    rng = ctx.rng('history')
    nh = 12 if ctx.quick else 40
    hist_reqs, metas = [], []
    for j in range(nh):
        idx = [rng.randrange(len(progs)) for _ in range(12)]
        ops = []
        for i in idx:
            ops.append(['transform', progs[i][1]] if rng.random() < 0.6 or i in slow else ['solve', progs[i][1], H])
        threads = 1 if j % 2 == 0 else 3
        hist_reqs.append({'cmd': 'history', 'ops': ops, 'threads': threads})
        metas.append((idx, ops, threads))
    # deterministic family: one rejected input, then every canary (translated and solved) in the same process
    base_c = {}
    pool = ctx.impl(hashseed=seeds[0])
    ct = pool.run([{'cmd': 'transform', 'texts': [c]} for c in CANARIES + REJECTED])
    cs = pool.run([{'cmd': 'solve', 'texts': [c], 'imax': H + 1, 'istop': 'UNKNOWN'} for c in CANARIES], timeout=60)
    for c, x in zip(CANARIES + REJECTED, ct):
        base_c[('transform', c)] = canon(x)
    for c, x in zip(CANARIES, cs):
        base_c[('solve', c)] = canon(x)
    for c in CANARIES:
        if base_c[('transform', c)][0] != 'ok' or base_c[('solve', c)][0] != 'ok' or base_c[('solve', c)][1] == '[]':
            cex.append({'key': 'c14:canary:' + c.replace('\n', ' '), 'what': 'a fixed valid program is rejected or has no answer set in a fresh process: %s' % json.dumps(base_c[('transform', c)][:3]), 'input': {'texts': [c], 'kind': 'canary', 'H': H}})
    rej_reqs = []
    for rj in REJECTED:
        ops = [['transform', [rj]]] + [[k, [c]] + ([H] if k == 'solve' else []) for c in CANARIES for k in ('transform', 'solve')] + [['transform', [rj]]]
        rej_reqs.append({'cmd': 'history', 'ops': ops, 'threads': 1})
    for rq, r in zip(rej_reqs, ctx.impl(hashseed=seeds[0]).run(rej_reqs, timeout=240)):
        if r.get('status') != 'ok':
            cex.append({'key': 'c14:history-run', 'what': 'history run fails: %s' % json.dumps({k: r.get(k) for k in ('status', 'type', 'msg')}), 'input': {'ops': rq['ops'], 'threads': 1, 'kind': 'history'}})
            continue
        for op, x in zip(rq['ops'], r['results']):
            if canon(x) != base_c[(op[0], op[1][0])]:
                cex.append({'key': 'c14:after-rejected:' + rq['ops'][0][1][0].replace('\n', ' '), 'what': '%s of %r after the rejected input %r in the same process differs from a fresh process' % (op[0], op[1][0], rq['ops'][0][1][0]),
                            'input': {'ops': rq['ops'], 'threads': 1, 'kind': 'history', 'H': H}})
                break
    ov_reqs, ov_meta = [], []
    for a, b in OVERLAP + [(b, a) for a, b in OVERLAP]:
        for at in (0, 1, 2):
            ov_reqs.append({'cmd': 'history', 'ops': [['nested', [a], H, [b], at]], 'threads': 1})
            ov_meta.append((a, b, at))
    fresh = pool.run([{'cmd': 'solve', 'texts': [t], 'imax': H + 1, 'istop': 'UNKNOWN'} for t in sorted({x for ab in OVERLAP for x in ab})], timeout=60)
    fresh = dict(zip(sorted({x for ab in OVERLAP for x in ab}), [canon(x) for x in fresh]))
    for (a, b, at), rq, r in zip(ov_meta, ov_reqs, ctx.impl(hashseed=seeds[0]).run(ov_reqs, timeout=240)):
        ra = r['results'][0] if r.get('status') == 'ok' else r
        rb = ra.get('nested_result') or {}
        if canon(ra) != fresh[a] or canon(rb) != fresh[b]:
            cex.append({'key': 'c14:overlap:%d:%s' % (at, a.replace('\n', ' ')), 'what': 'two overlapping runs (the second started from the model callback of the first at step %d): %s differs from a fresh process' % (
                at, 'the outer run' if canon(ra) != fresh[a] else 'the inner run'), 'input': {'ops': rq['ops'], 'threads': 1, 'kind': 'overlap', 'H': H, 'a': a, 'b': b}})
    # the same pairs one after the other in one process (A, B, A again): nothing an earlier run built may be reused by a later one
    # (also after runs that stopped early, while formulas were still waiting for later states)
    pairs = OVERLAP + [(b, a) for a, b in OVERLAP] + [(a, a) for a in LATE]
    sq_reqs = [{'cmd': 'history', 'ops': [['solve', [a], H], ['solve', [b], H], ['solve', [a], H]], 'threads': 1} for a, b in pairs]
    sq_reqs += [{'cmd': 'history', 'ops': [['solve', [a], 0], ['solve', [b], 1], ['solve', [a], H], ['solve', [b], H], ['solve', [a], 1], ['solve', [b], 0], ['solve', [b], H]], 'threads': 1} for a, b in pairs]
    short = sorted({(x, h) for ab in pairs for x in ab for h in (0, 1, H)})
    fresh = dict(zip(short, [canon(x) for x in pool.run([{'cmd': 'solve', 'texts': [t], 'imax': h + 1, 'istop': 'UNKNOWN'} for t, h in short], timeout=60)]))
    for rq, r in zip(sq_reqs, ctx.impl(hashseed=seeds[0]).run(sq_reqs, timeout=240)):
        if r.get('status') != 'ok':
            cex.append({'key': 'c14:history-run', 'what': 'history run fails: %s' % json.dumps({k: r.get(k) for k in ('status', 'type', 'msg')}), 'input': {'ops': rq['ops'], 'threads': 1, 'kind': 'history'}})
            continue
        for op, x in zip(rq['ops'], r['results']):
            if canon(x) != fresh[(op[1][0], op[2])]:
                cex.append({'key': 'c14:sequence:' + ' / '.join(o[1][0] for o in rq['ops'][:2]).replace('\n', ' '), 'what': 'run of %r after other runs in the same process differs from a fresh process' % op[1][0],
                            'input': {'ops': rq['ops'], 'threads': 1, 'kind': 'history', 'H': H}})
                break
    hres = ctx.impl(hashseed=seeds[0]).run(hist_reqs, timeout=240)
    for (idx, ops, threads), r in zip(metas, hres):
        if r.get('status') != 'ok':
            cex.append({'key': 'c14:history-run', 'what': 'history run fails: %s' % json.dumps({k: r.get(k) for k in ('status', 'type', 'msg')}), 'input': {'ops': ops, 'threads': threads, 'kind': 'history'}})
            continue
        for i, op, x in zip(idx, ops, r['results']):
            want = base_t[i] if op[0] == 'transform' else base_s[i]
            if canon(x) != want:
                cex.append({'key': 'c14:history:' + ' '.join(op[1]).replace('\n', ' '), 'what': '%s in a long-lived process (%d threads, after other calls) differs from the result of a fresh process' % (op[0], threads),
                            'input': {'ops': ops, 'threads': threads, 'kind': 'history', 'H': H}})
                break
    cov = {'evaluations': len(progs) * 2 * len(seeds) + sum(len(m[1]) for m in metas) + sum(len(q['ops']) for q in rej_reqs) + 2 * len(ov_reqs) + 3 * len(sq_reqs), 'overlapping_runs': len(ov_reqs), 'sequential_pair_histories': len(sq_reqs), 'rejected_then_valid_histories': len(rej_reqs), 'distinct_nontrivial': len(nontriv), 'slow_programs_not_solved_in_histories': len(slow),
           'rule': 'programs with 3-6 future predicates (arguments, classical negation), look-ahead constraints of depth <= 3, head formulas and body formulas, split over 1-3 input texts; '
                   'transform output and answer sets (horizons 0..%d) compared across PYTHONHASHSEED in %s (fresh interpreters), %d random histories of 12 calls in one process (half of them '
                   'interleaved in 3 threads), and %d fixed histories "rejected input, then 8 valid programs translated and solved, then the rejected input again"; non-trivial = distinct accepted program with at least one answer set' % (H, seeds, nh, len(REJECTED)),
           'samples': [{'texts': progs[i][1]} for i in (0, 1)]}
    return {'counterexamples': cex[:8], 'coverage': cov}


def replay(ctx, payload):
    inp = payload['input']
    if inp['kind'] == 'canary':
        r = ctx.impl(n=1).run([{'cmd': 'solve', 'texts': inp['texts'], 'imax': inp['H'] + 1, 'istop': 'UNKNOWN'}])[0]
        return r.get('status') != 'ok' or not r.get('models')
    if inp['kind'].startswith('hashseed'):
        cmd = {'cmd': 'transform', 'texts': inp['texts']} if inp['kind'] == 'hashseed' else {'cmd': 'solve', 'texts': inp['texts'], 'imax': inp.get('H', 2) + 1, 'istop': 'UNKNOWN'}
        a = canon(ctx.impl(hashseed=inp['seeds'][0]).run([cmd])[0])
        b = canon(ctx.impl(hashseed=inp['seeds'][1]).run([cmd])[0])
        return a != b
    r = ctx.impl().run([{'cmd': 'history', 'ops': inp['ops'], 'threads': inp['threads']}], timeout=240)[0]
    if r.get('status') != 'ok':
        return True
    if inp['kind'] == 'overlap':
        fa, fb = [canon(x) for x in ctx.impl(hashseed='5', n=1).run([{'cmd': 'solve', 'texts': [t], 'imax': inp['H'] + 1, 'istop': 'UNKNOWN'} for t in (inp['a'], inp['b'])])]
        return canon(r['results'][0]) != fa or canon(r['results'][0].get('nested_result') or {}) != fb
    fresh = []
    for op in inp['ops']:
        cmd = {'cmd': 'transform', 'texts': op[1]} if op[0] == 'transform' else {'cmd': 'solve', 'texts': op[1], 'imax': op[2] + 1, 'istop': 'UNKNOWN'}
        fresh.append(canon(ctx.impl(hashseed='5', n=1).run([cmd])[0]))
    return [canon(x) for x in r['results']] != fresh
