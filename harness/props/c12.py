"""C12 — answer sets do not depend on statement order, duplication or file layout.
Correspondence (metamorphic, real pipeline): programs from all generators; variants: permutation of the statements (each kept in
its part), duplication of statements, the same sub-formula written in several theory atoms, distribution over 2-3 input files."""
import json
import gen, lang, meta, findings, ftstruct
from props import c04, c03

PROP_FILE = 'Props/C12.v'
GROUPS = ['imain', 'transformers', 'parts']
LEAF_LEMMAS = []
ASSUMPTIONS = ['gringo/clasp contract G1-G6 (DESIGN.md 5.3)']


def base(ctx, n):
    rng = ctx.rng('base')
    out = [p for _, p in c03.constraint_programs(ctx, n // 4)]      # shared / related formulas, late-grounded theory atoms
    for i in range(n - len(out)):
        atoms = ['a', 'b'] + (['c'] if rng.random() < 0.4 else [])
        k = rng.random()
        if k < 0.3:
            p = gen.core_program(rng, atoms, (2, 5))
        elif k < 0.5:
            p = gen.core_program(rng, atoms, (2, 5), future_head=0.35, lookahead=0.6)
            # classically negated atoms before / after future heads (sign handling must not depend on statement order)
            for _ in range(rng.randint(0, 2)):
                p.insert(rng.randrange(len(p) + 1), {'part': rng.choice(gen.PARTS), 'head': ('norm', '-' + rng.choice(atoms), rng.choice([0, 0, 1])), 'body': [(rng.choice('pn'), ('patom', rng.choice(atoms), 0))]})
        elif k < 0.75:
            p = gen.context_program(rng, atoms)
            pool = []
            for _ in range(rng.randint(1, 3)):
                f = gen.formula(rng, atoms, rng.randint(1, 3), pool=pool)
                if rng.random() < 0.5:
                    p.append({'part': rng.choice(gen.PARTS), 'head': ('cons',), 'body': [(rng.choice('pnm'), ('tel', f))]})
                else:
                    p.append({'part': rng.choice(gen.PARTS), 'head': ('norm', 'c', 0), 'body': [(rng.choice('nm'), ('tel', f))]})
        elif k < 0.9:
            p = gen.context_program(rng, atoms) + [c04.head_rule(rng, atoms, 2) for _ in range(rng.randint(1, 2))]
            if rng.random() < 0.6:
                # a second head formula that differs from an earlier one in one operator only (weak/strong or dual sibling), in a rule of
                # its own: which of the two is registered first must not matter
                r0 = rng.choice([r for r in p if r['head'][0] == 'tel'])
                g = gen.sibling(rng, r0['head'][1], allowed=set(gen.HEAD_UN + gen.HEAD_BIN + ['true', 'false']))
                p.append({'part': r0['part'], 'head': ('tel', g), 'body': [gen.core_body_lit(rng, atoms)]})
            if findings.in_open_class(p, 'C04'):
                p = gen.core_program(rng, atoms, (2, 4))
        else:
            p = gen.context_program(rng, atoms)
            p.append({'part': rng.choice(gen.PARTS), 'head': ('cons',), 'body': [(rng.choice('pnm'), ('del', gen.dformula(rng, atoms, 2, 2)))]})
            if p[-1]['body'][0][1][1][0] not in ('dia', 'box'):
                p.pop()
        out.append(p)
    # fixed family: two head formulas that differ in one operator only (weak / strong next, until / release, and / or), each in a rule of its own,
    # in both textual orders - which of them is seen first must not matter
    A_, B_ = ('atom', 'a'), ('atom', 'b')
    sibs = [(('next', None, A_), ('wnext', None, A_)), (('next', 2, A_), ('wnext', 2, A_)), (('until', B_, A_), ('release', B_, A_)), (('or', A_, ('next', None, B_)), ('or', A_, ('wnext', None, B_))),
            (('seqnext', A_, B_), ('seqwnext', A_, B_)), (('until', None, A_), ('release', None, A_))]
    for f, g in sibs:
        for part in ('initial', 'always'):
            for first in (0, 1):
                r1 = {'part': part, 'head': ('tel', f), 'body': [('p', ('patom', 'c', 0))]}
                r2 = {'part': part, 'head': ('tel', g), 'body': [('n', ('patom', 'c', 0))]}
                out.append([{'part': 'always', 'head': ('choice', ['c']), 'body': []}] + ([r1, r2] if first == 0 else [r2, r1]))
    # fixed family: pending chains of next operators below past operators; the variants below write their sub-formulas once more in further atoms
    fam = gen.revisit_family()
    for f in fam:
        out.append([{'part': 'always', 'head': ('choice', ['a', 'b']), 'body': []}, {'part': 'always', 'head': ('norm', 'c', 0), 'body': [('m', ('tel', f))]}])
    return out + fixed_shared()


def fixed_shared():
    """fixed family: one compound formula of every class in one witness rule (the variants add the same formula written differently)"""
    a, b = ('atom', 'a'), ('atom', 'b')
    out = []
    for f in [('and', a, b), ('or', a, b), ('impr', a, b), ('until', a, b), ('release', a, b), ('since', a, b), ('trigger', a, b), ('until', None, a), ('since', None, a), ('and', ('prev', None, a), ('next', None, b)),
              ('seqnext', a, b), ('not', ('and', a, b))]:
        for sg in 'nm':
            for part in ('always', 'dynamic'):
                out.append([{'part': 'always', 'head': ('choice', ['a', 'b']), 'body': []}, {'part': part, 'head': ('norm', 'c', 0), 'body': [(sg, ('tel', f))]}])
    return out


def variants(rng, p):
    """list of (kind, texts)"""
    vs = [('original', [lang.prog_txt(p)])]
    q = list(p)
    rng.shuffle(q)
    vs.append(('permuted', [lang.prog_txt(q)]))
    d = list(p)
    for _ in range(rng.randint(1, 2)):
        d.insert(rng.randrange(len(d) + 1), rng.choice(p))
    vs.append(('duplicated', [lang.prog_txt(d)]))
    k = rng.randint(2, 3)
    cut = sorted(rng.sample(range(1, len(p)), min(k - 1, len(p) - 1))) if len(p) > 1 else []
    pieces, last = [], 0
    for c in cut + [len(p)]:
        pieces.append(p[last:c])
        last = c
    vs.append(('split', [lang.prog_txt(x) for x in pieces if x]))
    # a later file that starts with rules of the initial part WITHOUT a #program line (every input starts in part initial/base)
    ini = [r for r in p if r['part'] in ('initial', 'base')]
    rest = [r for r in p if r['part'] not in ('initial', 'base')]
    if ini and rest:
        vs.append(('split-implicit-base', [lang.prog_txt(rest), lang.prog_txt(ini + rest[:1], implicit_base=True)]))
        vs.append(('base-after-final', [lang.prog_txt(rest + [{'part': 'final', 'head': ('cons',), 'body': [('p', ('kw', 'false'))]}] + [dict(r, part='base') for r in ini])]))
    if ini and rest:
        # a first file whose last line is a comment WITHOUT a final newline, then a file that starts with rules of the initial part
        vs.append(('split-comment-tail', [lang.prog_txt(rest).rstrip('\n') + '\n% end of the first file', lang.prog_txt(ini, implicit_base=True)]))
    if ini:
        # a first file that ENDS in the initial part, a second file that repeats one of its initial statements without a #program line
        vs.append(('split-ends-initial', [lang.prog_txt(rest + ini), lang.prog_txt(ini[-1:], implicit_base=True)]))
    # the same sub-formula written once more in a further theory atom that cannot change anything (a fresh observer)
    tel = [l[1][1] for r in p for l in r['body'] if l[1][0] == 'tel']
    if tel:
        f = rng.choice(tel)
        vs.append(('shared', [lang.prog_txt(p + [{'part': rng.choice(gen.PARTS), 'head': ('norm', 'wobs', 0), 'body': [('m', ('tel', f))]}])]))
        # ... and a proper sub-formula of it (a second parent for the sub-formula's states)
        subs = [g for g in gen.subformulas(f)[1:] if g[0] not in ('atom', 'true', 'false', 'initial', 'final')]
        for g in (subs if len(subs) <= 3 else rng.sample(subs, 2)):
            vs.append(('shared-sub', [lang.prog_txt(p + [{'part': rng.choice(['always', 'dynamic']), 'head': ('norm', 'wobs', 0), 'body': [('m', ('tel', g))]}])]))
        # ... and the same formula written DIFFERENTLY in a further theory atom (a 0-fold next; a conjunction as two elements): two theory atoms, one formula
        for f in tel[:3]:
            if f[0] not in ('atom', 'true', 'false', 'initial', 'final'):
                vs.append(('shared-rewritten', [lang.prog_txt(p + [{'part': 'always', 'head': ('norm', 'wobs', 0), 'body': [('m', ('tel', ('next', 0, f)))]}])]))
            if f[0] == 'and':
                vs.append(('shared-rewritten', [lang.prog_txt(p + [{'part': 'always', 'head': ('norm', 'wobs', 0), 'body': [('m', ('tels', [f[1], f[2]]))]}])]))
    return vs


def run(ctx):
    H = 3 if ctx.quick else 4
    progs = base(ctx, 300 if ctx.quick else 1200)
    rng = ctx.rng('variants')
    inputs, index = [], []
    for i, p in enumerate(progs):
        for kind, texts in variants(rng, p):
            index.append((i, kind))
            inputs.append(texts)
    res = meta.answer_sets(ctx, inputs, H, hide=('wobs',))
    cex, kinds, nontriv = [], {}, set()
    orig = {}
    for (i, kind), r in zip(index, res):
        if kind == 'original':
            orig[i] = r
    for (i, kind), r, texts in zip(index, res, inputs):
        kinds[kind] = kinds.get(kind, 0) + 1
        if kind == 'original':
            continue
        if not meta.same(orig[i], r):
            cex.append({'key': 'c12:%s:%s' % (kind, ' '.join(texts).replace('\n', ' ')), 'what': '%s variant reports different answer sets: %s' % (kind, json.dumps(meta.first_diff(orig[i], r))),
                        'input': {'rules': progs[i], 'variant': kind, 'texts': texts, 'original': lang.prog_txt(progs[i]), 'H': H}})
        elif 'ok' in r and any(r['ok'][h] for h in r['ok']):
            nontriv.add((kind, tuple(texts)))
    # structural: the rewritten program of the statements given as ONE text and cut into TWO input texts, both against the transformer model
    # (one counter for the auxiliary atoms of head formulas and one set of future predicates across all inputs)
    sp = [p for p in progs if ftstruct.in_fragment(p)]
    sstat = {}
    for split in (False, True):
        for p, r in zip(sp, ftstruct.compare(ctx, sp, split=split)):
            k = r['status'] + ('/two-inputs' if split else '/one-input')
            sstat[k] = sstat.get(k, 0) + 1
            if r['status'] not in ('agree', 'agree-rejected'):
                cex.append({'key': 'c12:transform:%s:%s' % (split, r['program'].replace('\n', ' ')), 'what': 'transform() and Model/FutTransform.transform_program differ (%s): %s' % (
                    'two input texts' if split else 'one input text', r.get('what')), 'input': {'transform_rules': p, 'split': split, 'program': r['program']}})
    # layouts: the statements of these programs with ARBITRARY #program directives between them (base, initial, always, dynamic, final), cut into 1-3 input
    # texts at random places - a text may begin without a directive, be empty, end in any part - through transform() and through Model/Inputs.transform_inputs
    # (directives resolved by the REGENERATED visit_Program; every text begins with the `#program base.` the parser of clingo puts there)
    lrecs, lprep = ftstruct.compare_layouts(ctx, sp, ctx.rng('layouts'))
    for (texts, line, ids), r in zip(lprep, lrecs):
        k = r['status'] + '/layout'
        sstat[k] = sstat.get(k, 0) + 1
        if r['status'] not in ('agree', 'agree-rejected'):
            cex.append({'key': 'c12:layout:%s' % r['program'].replace('\n', ' '), 'what': 'transform() and Model/Inputs.transform_inputs differ on a layout of directives and input texts: %s' % r.get('what'),
                        'input': {'layout_texts': texts, 'layout_line': line, 'ids': ids, 'program': r['program']}})
    heads = ctx.impl().run([{'cmd': 'parsehead', 'texts': ['', 'a.', '#program always.\na.', '% comment only', 'a.\n#program final.']}])[0]
    if heads.get('first') != ['#program base.'] * 5:
        cex.append({'key': 'c12:parser-contract', 'what': 'the parser of clingo does not begin every text with `#program base.`: %s' % json.dumps(heads), 'input': {'contract': 'parsehead'}})
    cov = {'evaluations': len(inputs) + 2 * len(sp) + len(lrecs), 'transform_structure_status': sstat, 'distinct_nontrivial': len(nontriv),
           'rule': 'base programs from the core / future / body-formula / head-formula / del generators; variants %s; horizons 0..%d compared with multiplicity against the original; '
                   'non-trivial = distinct variant with at least one answer set' % (json.dumps(kinds), H),
           'samples': [{'kind': index[j][1], 'texts': inputs[j]} for j in (1, 2, 3)]}
    return {'counterexamples': cex[:8], 'coverage': cov}


def replay(ctx, payload):
    inp = payload['input']
    if 'layout_texts' in inp:
        return ftstruct.compare_prepared(ctx, [(inp['layout_texts'], inp['layout_line'], inp['ids'])], True)[0]['status'] not in ('agree', 'agree-rejected')
    if 'contract' in inp:
        return ctx.impl().run([{'cmd': 'parsehead', 'texts': ['a.']}])[0].get('first') != ['#program base.']
    if 'transform_rules' in inp:
        return ftstruct.compare(ctx, [inp['transform_rules']], split=inp.get('split', False))[0]['status'] not in ('agree', 'agree-rejected')
    res = meta.answer_sets(ctx, [[inp['original']], inp['texts']], inp.get('H', 3), hide=('wobs',))
    return not meta.same(res[0], res[1])
