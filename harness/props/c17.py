"""C17 — growing the trace never rewrites the past of past-only programs.
Theorems: coq/Props/C17.v.  Correspondence (real pipeline): random past-only programs (parts initial/always/dynamic; present heads;
past atoms, initially atoms, &initial, past temporal operators < <: <? <* << <; <:; in &tel bodies) and the shipped planning domains
without their final part: for every consecutive horizon pair (h, h+1) of ONE incremental run, the first h+1 states of every answer
set reported at h+1 are an answer set reported at h."""
import json, os, re
import gen, lang, meta

PROP_FILE = 'Props/C17.v'
GROUPS = ['imain']
LEAF_LEMMAS = []
ASSUMPTIONS = ['gringo/clasp contract G1-G6 (DESIGN.md 5.3)']
REPO = os.environ.get('TELINGO_REPO', '/repo')


def past_lit(rng, atoms):
    s = rng.choice(gen.SGNS)
    k = rng.random()
    if k < 0.35:
        return (s, ('patom', rng.choice(atoms), 0))
    if k < 0.65:
        return (s, ('patom', rng.choice(atoms), rng.randint(1, 2)))
    if k < 0.75:
        return (s, ('iatom', rng.choice(atoms)))
    if k < 0.83:
        return (s, ('kw', rng.choice(['initial', 'true'])))
    f = gen.formula(rng, atoms, rng.randint(1, 3), gen.PAST_UN, gen.PAST_BIN, None, ['true', 'false', 'initial'], nfold=0.3)
    return (rng.choice('nm'), ('tel', f))


def past_program(rng):
    atoms = ['a', 'b'] + (['c'] if rng.random() < 0.4 else [])
    rules = []
    for _ in range(rng.randint(1, 4)):
        part = rng.choice(['initial', 'always', 'dynamic'])
        k = rng.random()
        if k < 0.35:
            head = ('norm', rng.choice(atoms), 0)
        elif k < 0.5:
            head = ('disj', rng.sample(atoms, 2))
        elif k < 0.75:
            head = ('choice', rng.sample(atoms, rng.randint(1, 2)))
        elif k < 0.85:
            head = ('cons',)
        else:
            head = ('tel', bool_head(rng, atoms))
        body = [past_lit(rng, atoms) for _ in range(rng.choice([0, 1, 1, 2, 2]) if head[0] != 'cons' else rng.choice([1, 2]))]
        if head[0] == 'cons' and all(l[1][0] == 'tel' and l[0] == 'p' for l in body):
            pass
        rules.append({'part': part, 'head': head, 'body': body})
    if rng.random() < 0.7:
        rules.insert(0, {'part': rng.choice(['always', 'dynamic']), 'head': ('choice', atoms), 'body': []})
    return rules


def bool_head(rng, atoms, depth=2):
    """a rule head formula without temporal operators (Boolean connectives, constants, classical atoms): still a past-only program"""
    if depth <= 0 or rng.random() < 0.3:
        return rng.choice([('atom', rng.choice(atoms)), ('atom', rng.choice(atoms)), ('true',), ('false',)])
    k = rng.random()
    if k < 0.2:
        return ('not', bool_head(rng, atoms, depth - 1))
    return (rng.choice(['and', 'or', 'or']), bool_head(rng, atoms, depth - 1), bool_head(rng, atoms, depth - 1))


# fixed programs: Boolean head formulas with constants; user externals with an initial truth value (both are past-only programs)
FIXED = ['#program always.\n{ c }.\n&tel { a | &true } :- c.\n', '#program always.\n{ c }.\n&tel { a | &false } :- c.\n', '#program dynamic.\n{ c }.\n&tel { a & &true | b } :- \'c.\n',
         '#program always.\n{ c; a }.\n&tel { ~ a | &false } :- c.\n', '#program initial.\n{ c }.\n&tel { a | &true }.\n#program dynamic.\n{ b }.\n&tel { (a | &true) & (c | b) } :- \'c.\n',
         '#program always.\n{ c }.\n&tel { &true }.\n&tel { a | b | &false } :- not c.\n',
         '#program always.\n#external e. [true]\n{ a }.\nb :- e, a.\nc :- not e.\n', '#program always.\n#external e. [free]\n{ a }.\nb :- e, \'a.\n', '#program dynamic.\n#external e. [true]\nb :- e.\nc :- \'b, not e.\n#program always.\n{ a }.\n',
         '#program initial.\n#external e. [true]\nb :- e.\n#program dynamic.\nb :- \'b.\nc :- not \'b.\n', '#program always.\n#external e(1..2). [true]\n{ a }.\nb(X) :- e(X), a.\n:- b(1), not b(2).\n',
         '#program always.\n#external e. [true]\n#external f.\n{ a }.\nb :- e, not f.\nc :- not not &tel { < b }.\n'] + \
        [# a past formula whose theory atom is grounded for the first time at the third or fourth state (it sits in a rule whose body is derivable late)
         '#program initial.\nc0.\n#program dynamic.\nc1 :- \'c0.\nlate :- \'c1.\nlate :- \'late.\n#program always.\n{ a }.\n%s\n' % r for r in (
             ':- late, not &tel { <? a }.', ':- late, &tel { <* a }.', 'b :- late, not not &tel { a <? (< a) }.', ':- late, not &tel { << a | < < a }.', 'b :- late, not &tel { a <* b }.\n{ b }.',
             ':- late, \'late, not &tel { <? a }.', 'b :- late, not &tel { <? (a & <* a) }.')]


def strip_final(text):
    """remove the `#program final.` sections of a program text"""
    out, skipping = [], False
    for line in text.split('\n'):
        m = re.match(r'\s*#program\s+(\w+)', line)
        if m:
            skipping = m.group(1) == 'final'
            if skipping:
                continue
        if skipping and not line.strip().startswith('#show'):
            continue
        out.append(line)
    return '\n'.join(out) + '\n'


def examples():
    ex = []
    def rd(*p):
        return open(os.path.join(REPO, 'examples', *p)).read()
    try:
        ex.append(('hanoi-n2', [strip_final(rd('hanoi', 'encoding.lp')), rd('hanoi', 'instance.lp').replace('#const n=4.', '#const n=2.')], 3))
        ex.append(('river-crossing', [strip_final(rd('river-crossing', 'encoding.lp'))], 3))
        ex.append(('monkey', [strip_final(rd('monkey', 'encoding.lp'))], 2))
    except OSError:
        pass
    return ex


def prefix_violation(res, H):
    if res.get('timeout'):
        return None
    if 'error' in res:
        return 'pipeline fails: ' + json.dumps(res['error'])
    for h in range(H):
        prev = set(res['ok'].get(h, []))
        for m in res['ok'].get(h + 1, []):
            cut = tuple(a for a in m if int(a.rsplit('@', 1)[1]) <= h)
            if cut not in prev:
                return {'horizon': h + 1, 'answer_set': ' '.join(m), 'prefix_not_reported_at_horizon': h}
    return None


def cli_prefix(ctx, texts, H):
    from props import c10
    import tempfile, shutil
    from concurrent.futures import ThreadPoolExecutor
    tmp = tempfile.mkdtemp(prefix='c17_', dir=os.path.join(os.path.dirname(os.path.dirname(os.path.dirname(os.path.abspath(__file__)))), '_build'))

    def one(it):
        i, t = it
        f = os.path.join(tmp, 'p%d.lp' % i)
        open(f, 'w').write(t)
        try:
            rc, so, se = c10.run_cli([f], None, ['--imax=%d' % (H + 1), '--istop=unknown', '0'])
        except c10.Slow:
            return None
        if 'Traceback' in se:
            return {'aborts': se.strip().split('\n')[-1][:200]}
        answers = c10.parse_text(so)
        seen = {}
        for a in answers:
            seen.setdefault(len(a), set()).add(json.dumps([sorted(x) for _, x in a]))
        for a in answers:
            if len(a) >= 2:
                cut = json.dumps([sorted(x) for _, x in a[:-1]])
                if cut not in seen.get(len(a) - 1, set()):
                    return {'printed_answer': [[k, sorted(x)] for k, x in a], 'prefix_not_printed_with_states': len(a) - 1}
        return None
    try:
        with ThreadPoolExecutor(8) as ex:
            return list(ex.map(one, enumerate(texts)))
    finally:
        shutil.rmtree(tmp, ignore_errors=True)


def run(ctx):
    H = 3 if ctx.quick else 4
    rng = ctx.rng('programs')
    progs = [past_program(rng) for _ in range(400 if ctx.quick else 1500)]
    inputs = [[lang.prog_txt(p)] for p in progs]
    res = meta.answer_sets(ctx, inputs, H)
    cex, nontriv = [], set()
    for p, t, r in zip(progs, inputs, res):
        v = prefix_violation(r, H)
        if v:
            cex.append({'key': 'c17:' + t[0].replace('\n', ' '), 'what': 'prefix property fails: ' + json.dumps(v), 'input': {'rules': p, 'texts': t, 'H': H}})
        elif 'ok' in r and r['ok'].get(H):
            nontriv.add(t[0])
    # long runs (7 solving steps) of programs with few answer sets: what only shows from the fourth or fifth step on
    HL = 6
    longp = []
    for _ in range(60 if ctx.quick else 200):
        p = [r for r in past_program(rng) if r['head'][0] != 'choice'][:3]
        p.insert(0, {'part': rng.choice(['always', 'dynamic', 'always']), 'head': ('choice', ['a']), 'body': []})
        if rng.random() < 0.7:
            p.append({'part': 'dynamic', 'head': ('norm', rng.choice(['b', 'c']), 0), 'body': [past_lit(rng, ['a', 'b'])]})
        longp.append(p)
    linputs = [[lang.prog_txt(p)] for p in longp]
    for p, t, r in zip(longp, linputs, meta.answer_sets(ctx, linputs, HL, timeout=60)):
        v = prefix_violation(r, HL)
        if v:
            cex.append({'key': 'c17:' + t[0].replace('\n', ' '), 'what': 'prefix property fails: ' + json.dumps(v), 'input': {'rules': p, 'texts': t, 'H': HL}})
        elif 'ok' in r and r['ok'].get(HL):
            nontriv.add(t[0])
    inputs = inputs + linputs
    finputs = [[t] for t in FIXED]
    for t, r in zip(finputs, meta.answer_sets(ctx, finputs, HL, timeout=60)):
        v = prefix_violation(r, HL)
        if v:
            cex.append({'key': 'c17:' + t[0].replace('\n', ' '), 'what': 'prefix property fails: ' + json.dumps(v), 'input': {'texts': t, 'H': HL}})
        elif 'ok' in r and r['ok'].get(HL):
            nontriv.add(t[0])
    inputs = inputs + finputs
    # the same property on what the command line tool prints: the first h+1 states of every answer printed with h+2 states were printed as an answer before
    cli = [t[0] for t in linputs[:(12 if ctx.quick else 60)]] + FIXED[:3] + FIXED[6:8]
    for t, v in zip(cli, cli_prefix(ctx, cli, 3)):
        if v:
            cex.append({'key': 'c17:cli:' + t.replace('\n', ' '), 'what': 'prefix property fails on the printed answers: ' + json.dumps(v), 'input': {'texts': [t], 'H': 3, 'cli': True}})
    exs = examples()
    nex = 0
    for name, texts, eh in exs:
        r = meta.answer_sets(ctx, [texts], eh, timeout=120)[0]
        v = prefix_violation(r, eh)
        nex += 1
        if v:
            cex.append({'key': 'c17:example:' + name, 'what': 'prefix property fails on shipped example %s: %s' % (name, json.dumps(v)), 'input': {'texts': texts, 'H': eh}})
        elif 'ok' in r and r['ok'].get(eh):
            nontriv.add(name)
    cov = {'evaluations': len(inputs) + nex, 'distinct_nontrivial': len(nontriv),
           'rule': 'random past-only programs (1-4 rules + choice generator; past atoms, _p, &initial, &tel bodies over past operators only; Boolean head formulas with constants; a share of them with one free atom per state run for 7 steps; fixed programs with constants in head formulas and user externals with an initial value; the printed answers of the command line tool for a share of them) and %d shipped examples without their final '
                   'part; horizons 0..%d of one incremental run; every answer set at h+1 is cut to its first h+1 states and looked up among the answer sets at h; non-trivial = program '
                   'with at least one answer set at the largest horizon' % (nex, H),
           'answer_sets_checked': sum(sum(len(v) for v in r['ok'].values()) for r in res if 'ok' in r),
           'samples': [{'program': inputs[i][0]} for i in (0, len(inputs) // 2)]}
    return {'counterexamples': cex[:8], 'coverage': cov}


def replay(ctx, payload):
    inp = payload['input']
    if inp.get('cli'):
        return cli_prefix(ctx, inp['texts'], inp.get('H', 3))[0] is not None
    r = meta.answer_sets(ctx, [inp['texts']], inp.get('H', 4), timeout=120)[0]
    return prefix_violation(r, inp.get('H', 4)) is not None
