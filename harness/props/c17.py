"""C17 — growing the trace never rewrites the past of past-only programs.
Theorems: coq/Props/C17.v.  Correspondence (real pipeline): random past-only programs (parts initial/always/dynamic; present heads;
past atoms, initially atoms, &initial, past temporal operators < <: <? <* << <; <:; in &tel bodies) and the shipped planning domains
without their final part: for every consecutive horizon pair (h, h+1) of ONE incremental run, the first h+1 states of every answer
set reported at h+1 are an answer set reported at h."""
import json, os, re
import gen, lang, meta

PROP_FILE = 'Props/C17.v'
GROUPS = ['imain']
LEAF_LEMMAS = []
ASSUMPTIONS = ['gringo/clasp contract G1-G6 (DESIGN.md 5.3)']
REPO = os.environ.get('TELINGO_REPO', '/repo')


def past_lit(rng, atoms):
    s = rng.choice(gen.SGNS)
    k = rng.random()
    if k < 0.35:
        return (s, ('patom', rng.choice(atoms), 0))
    if k < 0.65:
        return (s, ('patom', rng.choice(atoms), rng.randint(1, 2)))
    if k < 0.75:
        return (s, ('iatom', rng.choice(atoms)))
    if k < 0.83:
        return (s, ('kw', rng.choice(['initial', 'true'])))
    f = gen.formula(rng, atoms, rng.randint(1, 3), gen.PAST_UN, gen.PAST_BIN, None, ['true', 'false', 'initial'], nfold=0.3)
    return (rng.choice('nm'), ('tel', f))


def past_program(rng):
    atoms = ['a', 'b'] + (['c'] if rng.random() < 0.4 else [])
    rules = []
    for _ in range(rng.randint(1, 4)):
        part = rng.choice(['initial', 'always', 'dynamic'])
        k = rng.random()
        if k < 0.35:
            head = ('norm', rng.choice(atoms), 0)
        elif k < 0.5:
            head = ('disj', rng.sample(atoms, 2))
        elif k < 0.75:
            head = ('choice', rng.sample(atoms, rng.randint(1, 2)))
        else:
            head = ('cons',)
        body = [past_lit(rng, atoms) for _ in range(rng.choice([0, 1, 1, 2, 2]) if head[0] != 'cons' else rng.choice([1, 2]))]
        if head[0] == 'cons' and all(l[1][0] == 'tel' and l[0] == 'p' for l in body):
            pass
        rules.append({'part': part, 'head': head, 'body': body})
    if rng.random() < 0.7:
        rules.insert(0, {'part': rng.choice(['always', 'dynamic']), 'head': ('choice', atoms), 'body': []})
    return rules


def strip_final(text):
    """remove the `#program final.` sections of a program text"""
    out, skipping = [], False
    for line in text.split('\n'):
        m = re.match(r'\s*#program\s+(\w+)', line)
        if m:
            skipping = m.group(1) == 'final'
            if skipping:
                continue
        if skipping and not line.strip().startswith('#show'):
            continue
        out.append(line)
    return '\n'.join(out) + '\n'


def examples():
    ex = []
    def rd(*p):
        return open(os.path.join(REPO, 'examples', *p)).read()
    try:
        ex.append(('hanoi-n2', [strip_final(rd('hanoi', 'encoding.lp')), rd('hanoi', 'instance.lp').replace('#const n=4.', '#const n=2.')], 3))
        ex.append(('river-crossing', [strip_final(rd('river-crossing', 'encoding.lp'))], 3))
        ex.append(('monkey', [strip_final(rd('monkey', 'encoding.lp'))], 2))
    except OSError:
        pass
    return ex


def prefix_violation(res, H):
    if res.get('timeout'):
        return None
    if 'error' in res:
        return 'pipeline fails: ' + json.dumps(res['error'])
    for h in range(H):
        prev = set(res['ok'].get(h, []))
        for m in res['ok'].get(h + 1, []):
            cut = tuple(a for a in m if int(a.rsplit('@', 1)[1]) <= h)
            if cut not in prev:
                return {'horizon': h + 1, 'answer_set': ' '.join(m), 'prefix_not_reported_at_horizon': h}
    return None


def run(ctx):
    H = 3 if ctx.quick else 4
    rng = ctx.rng('programs')
    progs = [past_program(rng) for _ in range(400 if ctx.quick else 1500)]
    inputs = [[lang.prog_txt(p)] for p in progs]
    res = meta.answer_sets(ctx, inputs, H)
    cex, nontriv = [], set()
    for p, t, r in zip(progs, inputs, res):
        v = prefix_violation(r, H)
        if v:
            cex.append({'key': 'c17:' + t[0].replace('\n', ' '), 'what': 'prefix property fails: ' + json.dumps(v), 'input': {'rules': p, 'texts': t, 'H': H}})
        elif 'ok' in r and r['ok'].get(H):
            nontriv.add(t[0])
    # long runs (7 solving steps) of programs with few answer sets: what only shows from the fourth or fifth step on
    HL = 6
    longp = []
    for _ in range(60 if ctx.quick else 200):
        p = [r for r in past_program(rng) if r['head'][0] != 'choice'][:3]
        p.insert(0, {'part': rng.choice(['always', 'dynamic', 'always']), 'head': ('choice', ['a']), 'body': []})
        if rng.random() < 0.7:
            p.append({'part': 'dynamic', 'head': ('norm', rng.choice(['b', 'c']), 0), 'body': [past_lit(rng, ['a', 'b'])]})
        longp.append(p)
    linputs = [[lang.prog_txt(p)] for p in longp]
    for p, t, r in zip(longp, linputs, meta.answer_sets(ctx, linputs, HL, timeout=60)):
        v = prefix_violation(r, HL)
        if v:
            cex.append({'key': 'c17:' + t[0].replace('\n', ' '), 'what': 'prefix property fails: ' + json.dumps(v), 'input': {'rules': p, 'texts': t, 'H': HL}})
        elif 'ok' in r and r['ok'].get(HL):
            nontriv.add(t[0])
    inputs = inputs + linputs
    exs = examples()
    nex = 0
    for name, texts, eh in exs:
        r = meta.answer_sets(ctx, [texts], eh, timeout=120)[0]
        v = prefix_violation(r, eh)
        nex += 1
        if v:
            cex.append({'key': 'c17:example:' + name, 'what': 'prefix property fails on shipped example %s: %s' % (name, json.dumps(v)), 'input': {'texts': texts, 'H': eh}})
        elif 'ok' in r and r['ok'].get(eh):
            nontriv.add(name)
    cov = {'evaluations': len(inputs) + nex, 'distinct_nontrivial': len(nontriv),
           'rule': 'random past-only programs (1-4 rules + choice generator; past atoms, _p, &initial, &tel bodies over past operators only; a share of them with one free atom per state run for 7 steps) and %d shipped examples without their final '
                   'part; horizons 0..%d of one incremental run; every answer set at h+1 is cut to its first h+1 states and looked up among the answer sets at h; non-trivial = program '
                   'with at least one answer set at the largest horizon' % (nex, H),
           'answer_sets_checked': sum(sum(len(v) for v in r['ok'].values()) for r in res if 'ok' in r),
           'samples': [{'program': inputs[i][0]} for i in (0, len(inputs) // 2)]}
    return {'counterexamples': cex[:8], 'coverage': cov}


def replay(ctx, payload):
    inp = payload['input']
    r = meta.answer_sets(ctx, [inp['texts']], inp.get('H', 4), timeout=120)[0]
    return prefix_violation(r, inp.get('H', 4)) is not None
