"""C02 — future references obey the end of the trace while the trace is extended.
Theorems: coq/Props/C02.v.  Correspondence S4 on programs rich in future heads and look-ahead constraints, horizons
0..H of one incremental run (including h smaller than the look-ahead)."""
import gen, s4
from props.c01 import summarize, replay  # noqa

PROP_FILE = 'Props/C02.v'
GROUPS = ['imain']
LEAF_LEMMAS = ['assume_false_gen_spec', 'part_selected_gen_spec', 'part_params_gen_spec']
ASSUMPTIONS = ['gringo/clasp contract G1-G4 (DESIGN.md 5.3); oracle bit bound as stated in the coverage']
ATOMS = ['a', 'b', 'c']


def programs(ctx):
    rng = ctx.rng('programs')
    progs = []
    n = 500 if ctx.quick else 2000
    for i in range(n):
        atoms = ATOMS[:rng.choice([2, 2, 3])]
        maxfut = rng.choice([1, 2, 2, 3]) if ctx.quick else rng.choice([1, 2, 3, 4])
        p = gen.core_program(rng, atoms, (1, 4), future_head=0.35, lookahead=0.7, maxfut=maxfut)
        # classical negation on a future head now and then
        if rng.random() < 0.15:
            p.append({'part': rng.choice(gen.PARTS[:3]), 'head': ('norm', '-' + atoms[0], rng.randint(1, maxfut)), 'body': [(rng.choice('pn'), ('patom', atoms[-1], 0))]})
        progs.append(('future', p))
    # exhaustive small family: constraints (and rules with a negative head) with two future atoms of different depth in both textual orders,
    # in every part and with every sign combination - the deeper atom decides the window, wherever it stands
    for part in ('always', 'dynamic', 'initial'):
        for (d1, d2) in ((2, 1), (1, 2), (3, 1), (1, 3)):
            for s1 in 'pn':
                for s2 in 'pn':
                    c = [{'part': 'always', 'head': ('choice', ['a', 'b']), 'body': []},
                         {'part': part, 'head': ('cons',), 'body': [(s1, ('fatom', 'a', d1)), (s2, ('fatom', 'b', d2))]}]
                    progs.append(('two-depths', c))
            c = [{'part': 'always', 'head': ('choice', ['a', 'b']), 'body': []},
                 {'part': part, 'head': ('neghead', 'n', 'a', d1), 'body': [('p', ('fatom', 'b', d2)), ('p', ('patom', 'a', 0))]}]
            progs.append(('two-depths', c))
    # fixed family: classically negated atoms before / between / after future heads of the other sign (the sign of a future predicate is the
    # sign of that very head, wherever the statement stands)
    for part in ('initial', 'always', 'dynamic'):
        for d in (1, 2):
            neg = {'part': 'always', 'head': ('norm', '-a', 0), 'body': [('n', ('patom', 'a', 0))]}
            ch = {'part': 'always', 'head': ('choice', ['b']), 'body': []}
            fut = {'part': part, 'head': ('norm', 'a', d), 'body': [('p', ('patom', 'b', 0))]}
            nfut = {'part': part, 'head': ('norm', '-b', d), 'body': [('n', ('patom', 'b', 0))]}
            fut2 = {'part': part, 'head': ('norm', 'c', 1), 'body': [('p', ('patom', 'b', 0))]}
            for order in ([neg, ch, fut], [fut, ch, neg], [ch, neg, fut], [nfut, ch, fut2], [fut2, ch, nfut], [neg, nfut, ch, fut2]):
                progs.append(('sign-order', order))
    return progs


def run(ctx):
    H = 4 if ctx.quick else 5
    maxbits = 12 if ctx.quick else 13
    progs = programs(ctx)
    recs = s4.compare(ctx, [p for _, p in progs], H, maxbits)
    res = summarize(ctx, progs, recs, H, maxbits, 'C02')
    fut = sum(1 for _, p in progs if any(r['head'][0] == 'norm' and r['head'][2] > 0 for r in p))
    la = sum(1 for _, p in progs if any(l[1][0] == 'fatom' for r in p for l in r['body']))
    res['coverage']['programs_with_future_head'] = fut
    res['coverage']['programs_with_lookahead'] = la
    return res
