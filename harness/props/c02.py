"""C02 — future references obey the end of the trace while the trace is extended.
Theorems: coq/Props/C02.v.  Correspondence S4 on programs rich in future heads and look-ahead constraints, horizons
0..H of one incremental run (including h smaller than the look-ahead)."""
import gen, s4, ftstruct
from props import c01
from props.c01 import summarize  # noqa

PROP_FILE = 'Props/C02.v'
GROUPS = ['imain']
LEAF_LEMMAS = ['assume_false_gen_spec', 'part_selected_gen_spec', 'part_params_gen_spec']
ASSUMPTIONS = ['gringo/clasp contract G1-G4 (DESIGN.md 5.3); oracle bit bound as stated in the coverage']
ATOMS = ['a', 'b', 'c']


def programs(ctx):
    rng = ctx.rng('programs')
    progs = []
    n = 500 if ctx.quick else 2000
    for i in range(n):
        atoms = ATOMS[:rng.choice([2, 2, 3])]
        maxfut = rng.choice([1, 2, 2, 3]) if ctx.quick else rng.choice([1, 2, 3, 4])
        p = gen.core_program(rng, atoms, (1, 4), future_head=0.35, lookahead=0.7, maxfut=maxfut)
        # classical negation on a future head now and then
        if rng.random() < 0.15:
            p.append({'part': rng.choice(gen.PARTS[:3]), 'head': ('norm', '-' + atoms[0], rng.randint(1, maxfut)), 'body': [(rng.choice('pn'), ('patom', atoms[-1], 0))]})
        progs.append(('future', p))
    # exhaustive small family: constraints (and rules with a negative head) with two future atoms of different depth in both textual orders,
    # in every part and with every sign combination - the deeper atom decides the window, wherever it stands
    for part in ('always', 'dynamic', 'initial'):
        for (d1, d2) in ((2, 1), (1, 2), (3, 1), (1, 3)):
            for s1 in 'pn':
                for s2 in 'pn':
                    c = [{'part': 'always', 'head': ('choice', ['a', 'b']), 'body': []},
                         {'part': part, 'head': ('cons',), 'body': [(s1, ('fatom', 'a', d1)), (s2, ('fatom', 'b', d2))]}]
                    progs.append(('two-depths', c))
            c = [{'part': 'always', 'head': ('choice', ['a', 'b']), 'body': []},
                 {'part': part, 'head': ('neghead', 'n', 'a', d1), 'body': [('p', ('fatom', 'b', d2)), ('p', ('patom', 'a', 0))]}]
            progs.append(('two-depths', c))
    # fixed family: classically negated atoms before / between / after future heads of the other sign (the sign of a future predicate is the
    # sign of that very head, wherever the statement stands)
    for part in ('initial', 'always', 'dynamic'):
        for d in (1, 2):
            neg = {'part': 'always', 'head': ('norm', '-a', 0), 'body': [('n', ('patom', 'a', 0))]}
            ch = {'part': 'always', 'head': ('choice', ['b']), 'body': []}
            fut = {'part': part, 'head': ('norm', 'a', d), 'body': [('p', ('patom', 'b', 0))]}
            nfut = {'part': part, 'head': ('norm', '-b', d), 'body': [('n', ('patom', 'b', 0))]}
            fut2 = {'part': part, 'head': ('norm', 'c', 1), 'body': [('p', ('patom', 'b', 0))]}
            for order in ([neg, ch, fut], [fut, ch, neg], [ch, neg, fut], [nfut, ch, fut2], [fut2, ch, nfut], [neg, nfut, ch, fut2]):
                progs.append(('sign-order', order))
            # ... a classically negated atom as the LAST atom before the future head (a fact; the last body literal of the rule before it)
            nfact = {'part': 'always', 'head': ('norm', '-c', 0), 'body': []}
            nlast = {'part': 'always', 'head': ('norm', 'c', 0), 'body': [('p', ('patom', 'b', 0)), ('n', ('patom', '-a', 0))]}
            for order in ([ch, nfact, fut], [ch, nlast, fut], [ch, nfact, nfut], [ch, fut, nfact], [ch, nlast, nfut, nfact, fut2]):
                progs.append(('sign-order', order))
    # fixed family: one predicate NAME as a future head with several arities, argument lists and classical signs (a future predicate is a name, an arity AND a sign)
    for part in ('initial', 'always', 'dynamic'):
        ch = {'part': 'always', 'head': ('choice', ['q', 'r']), 'body': []}
        for h1, h2 in (('p(1)', 'p(1,2)'), ('p', 'p(1)'), ('p(1)', '-p(1,2)'), ('-p(1)', 'p(1)'), ('p(1)', 'p(2)')):
            for d1, d2 in ((1, 1), (1, 2), (2, 1)):
                r1 = {'part': part, 'head': ('norm', h1, d1), 'body': [('p', ('patom', 'q', 0))]}
                r2 = {'part': part, 'head': ('norm', h2, d2), 'body': [('p', ('patom', 'r', 0))]}
                progs.append(('one-name', [ch, r1, r2]))
                progs.append(('one-name', [r2, ch, r1]))
    # fixed family: negated and doubly negated heads over future atoms (`not p' :- q.` and `not not p' :- q.` are constraints: `:- q, p'.` / `:- q, not p'.`)
    for part in ('initial', 'always', 'dynamic'):
        for sg in 'nm':
            for d in (1, 2):
                c = [{'part': 'always', 'head': ('choice', ['a', 'b']), 'body': []}, {'part': part, 'head': ('neghead', sg, 'a', d), 'body': [('p', ('patom', 'b', 0))]}]
                progs.append(('negated-future-head', c))
                progs.append(('negated-future-head', [c[1], c[0], {'part': part, 'head': ('neghead', sg, 'b', 0), 'body': [('n', ('patom', 'a', 1))]}]))
    # fixed family: MORE look-ahead constraints of one depth in one part than that depth (every one of them has its temporary and its permanent copy)
    for part in ('initial', 'always', 'dynamic'):
        for d in (1, 2):
            for extra in (1, 2):
                c = [{'part': 'always', 'head': ('choice', ['a', 'b', 'c']), 'body': []}]
                for j in range(d + extra):
                    x, y = 'abc'[j % 3], 'abc'[(j + 1) % 3]
                    c.append({'part': part, 'head': ('cons',), 'body': [('p', ('patom', x, 0)), ('pn'[j % 2], ('fatom', y, d))]})
                progs.append(('many-of-one-depth', c))
    return progs


# programs the transformer must reject (future atoms in bodies of rules that are no constraints, future heads of disjunctions and choices are
# not expressible here): the model, built over the regenerated decisions, rejects them too
REJECTED = [[{'part': 'always', 'head': ('norm', 'a', 0), 'body': [('p', ('fatom', 'b', 1))]}],
            [{'part': 'dynamic', 'head': ('choice', ['a']), 'body': [('n', ('fatom', 'b', 2))]}],
            [{'part': 'always', 'head': ('choice', ['a', 'b']), 'body': []}, {'part': 'initial', 'head': ('disj', ['a', 'b']), 'body': [('m', ('fatom', 'a', 1))]}],
            [{'part': 'final', 'head': ('norm', 'a', 1), 'body': [('p', ('fatom', 'b', 1))]}]]


def run(ctx):
    H = 4 if ctx.quick else 5
    maxbits = 12 if ctx.quick else 13
    progs = programs(ctx)
    recs = s4.compare(ctx, [p for _, p in progs], H, maxbits)
    res = summarize(ctx, progs, recs, H, maxbits, 'C02')
    fut = sum(1 for _, p in progs if any(r['head'][0] == 'norm' and r['head'][2] > 0 for r in p))
    la = sum(1 for _, p in progs if any(l[1][0] == 'fatom' for r in p for l in r['body']))
    # structural correspondence: transformers.transform against the extracted Model/FutTransform.transform_program (rules, bridge rules, future
    # signatures, look-ahead constraint parts with temporary / permanent copies, parts to ground)
    sp = [p for _, p in progs if ftstruct.in_fragment(p)] + REJECTED
    srecs = ftstruct.compare(ctx, sp)
    sstat = {}
    for p, r in zip(sp, srecs):
        sstat[r['status']] = sstat.get(r['status'], 0) + 1
        if r['status'] not in ('agree', 'agree-rejected'):
            res['counterexamples'].append({'key': 'c02:transform:' + r['program'].replace('\n', ' '), 'what': 'transform() and Model/FutTransform.transform_program differ: %s' % r.get('what'),
                                           'input': {'transform_rules': p, 'program': r['program']}})
    # atoms with arguments (primes, classical negation and the time stamp around argument lists): the programs with their atoms renamed against the programs themselves
    import meta
    rcex, rnon = meta.renaming_cex(ctx, [p for _, p in progs][:40 if ctx.quick else 200], H, 'C02')
    res['counterexamples'] += rcex
    res['coverage']['renamed_programs_with_answer_sets'] = rnon
    res['coverage']['evaluations'] += len(srecs)
    res['coverage']['transform_structure_status'] = sstat
    res['coverage']['transform_structure_lookahead_groups'] = sum(r['lookahead_groups'] for r in srecs)
    res['coverage']['transform_structure_future_predicates'] = sum(r['future_predicates'] for r in srecs)
    res['coverage']['rule'] += ('; structure: the output of transformers.transform for %d programs (rewritten rules in order, bridge rules and future signatures, look-ahead constraints '
                                'grouped by part and depth with both copies, parts to ground, trailer) compared with the extracted model FutTransform' % len(srecs))
    res['coverage']['programs_with_future_head'] = fut
    res['coverage']['programs_with_lookahead'] = la
    return res


def replay(ctx, payload):
    inp = payload['input']
    if 'renaming' in inp:
        import meta
        return meta.renaming_replay(ctx, payload)
    if 'transform_rules' in inp:
        return ftstruct.compare(ctx, [inp['transform_rules']])[0]['status'] not in ('agree', 'agree-rejected')
    return c01.replay(ctx, payload)
