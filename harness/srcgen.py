#!/venv/bin/python
"""Fail-closed translator: pure decision fragments of /repo/telingo/**/*.py (Python ast) -> Gallina (coq/Gen/FromSource.v).

Every construct outside the small grammar below raises Unsupported, which aborts generation (the check then reports
"source no longer in the translatable shape").  Booleans are `option bool` (None = the Python expression would raise),
`and`/`or` keep Python's short-circuit order (pand/por), integers are `option Z`.
"""
import ast, sys, os, re, json

REPO = os.environ.get('TELINGO_REPO', '/repo')


class Unsupported(Exception):
    pass


CMP = {ast.Lt: 'Z.ltb', ast.LtE: 'Z.leb', ast.Gt: 'Z.gtb', ast.GtE: 'Z.geb', ast.Eq: 'Z.eqb'}


class Ctx:
    """typing environment of one fragment: name -> kind, string constants -> constructors, attributes"""

    def __init__(self, env, strs=None, attrs=None, subst=None):
        self.env, self.strs, self.attrs, self.subst = env, strs or {}, attrs or {}, subst or {}


def num(c, e):
    """integer expression -> Gallina term of type option Z (None = raises)"""
    src = ast.unparse(e)
    if src in c.subst:
        return num(c, ast.Name(id=c.subst[src]))
    if isinstance(e, ast.Name):
        t = c.env.get(e.id)
        if t == 'nat':
            return f'(Some (Z.of_nat {e.id}))'
        if t == 'Z':
            return f'(Some {e.id})'
        if t == 'optnat':
            return f'(option_map Z.of_nat {e.id})'
        if t == 'optZ':
            return e.id
        raise Unsupported('name ' + ast.dump(e))
    if isinstance(e, ast.Constant) and isinstance(e.value, int) and not isinstance(e.value, bool):
        return f'(Some {e.value}%Z)'
    if isinstance(e, ast.UnaryOp) and isinstance(e.op, ast.USub):
        return f'(olift1 Z.opp {num(c, e.operand)})'
    if isinstance(e, ast.BinOp) and isinstance(e.op, (ast.Add, ast.Sub)):
        op = 'Z.add' if isinstance(e.op, ast.Add) else 'Z.sub'
        return f'(olift2 {op} {num(c, e.left)} {num(c, e.right)})'
    raise Unsupported('num ' + ast.dump(e))


def boolx(c, e):
    """Boolean expression -> Gallina term of type option bool with Python's short-circuit evaluation order"""
    src = ast.unparse(e)
    if src in c.subst and c.env.get(c.subst[src]) == 'bool':
        return f'(Some {c.subst[src]})'
    if isinstance(e, ast.BoolOp):
        comb = 'pand' if isinstance(e.op, ast.And) else 'por'
        out = boolx(c, e.values[-1])
        for v in reversed(e.values[:-1]):
            out = f'({comb} {boolx(c, v)} (fun _ => {out}))'
        return out
    if isinstance(e, ast.UnaryOp) and isinstance(e.op, ast.Not):
        return f'(pnot {boolx(c, e.operand)})'
    if isinstance(e, ast.Constant) and isinstance(e.value, bool):
        return f'(Some {"true" if e.value else "false"})'
    if isinstance(e, ast.Name) and c.env.get(e.id) == 'bool':
        return f'(Some {e.id})'
    if isinstance(e, ast.Compare) and len(e.ops) == 1:
        op, l, r = e.ops[0], e.left, e.comparators[0]
        if isinstance(op, (ast.Is, ast.IsNot)) and isinstance(r, ast.Constant) and r.value is None and isinstance(l, ast.Name) \
                and c.env.get(l.id, '').startswith('opt'):
            t, f = ('true', 'false') if isinstance(op, ast.Is) else ('false', 'true')
            return f'(Some (match {l.id} with None => {t} | Some _ => {f} end))'
        if isinstance(op, (ast.Eq, ast.NotEq)) and isinstance(r, ast.Constant) and isinstance(r.value, str):
            ls = ast.unparse(l)
            nm = c.subst.get(ls, ls if isinstance(l, ast.Name) else None)
            kind = c.env.get(nm)
            if kind in c.strs and r.value in c.strs[kind]:
                t = f'(Some ({kind}_eqb {nm} {c.strs[kind][r.value]}))'
                return t if isinstance(op, ast.Eq) else f'(pnot {t})'
            raise Unsupported('string compare ' + ast.dump(e))
        if type(op) in CMP:
            return f'(olift2 {CMP[type(op)]} {num(c, l)} {num(c, r)})'
        if isinstance(op, ast.NotEq):
            return f'(pnot (olift2 Z.eqb {num(c, l)} {num(c, r)}))'
        raise Unsupported('compare ' + ast.dump(e))
    if isinstance(e, ast.Attribute) and isinstance(e.value, ast.Name) and c.env.get(e.value.id) == 'optres' and e.attr in c.attrs:
        return f'(attr {c.attrs[e.attr]} {e.value.id})'
    raise Unsupported('bool ' + ast.dump(e))


def find_fun(tree, name, cls=None):
    for n in ast.walk(tree):
        if cls is not None:
            if isinstance(n, ast.ClassDef) and n.name == cls:
                return find_fun(n, name)
            continue
        if isinstance(n, ast.FunctionDef) and n.name == name:
            return n
    raise Unsupported(f'no function {cls + "." if cls else ""}{name}')


def parse(rel):
    return ast.parse(open(os.path.join(REPO, rel)).read())


# ------------------------------------------------------------------------------------------------ imain
IMAIN = Ctx({'imax': 'optnat', 'imin': 'nat', 'step': 'nat', 'i': 'nat', 'istop': 'stopc', 'ret': 'optres', 'root_name': 'root',
             'time': 'nat'},
            {'stopc': {'SAT': 'StopSAT', 'UNSAT': 'StopUNSAT', 'UNKNOWN': 'StopUNKNOWN'},
             'root': {'always': 'RAlways', 'dynamic': 'RDynamic', 'initial': 'RInitial'}},
            {'satisfiable': 'satisfiable', 'unsatisfiable': 'unsatisfiable', 'unknown': 'unknown'},
            {'atom.symbol.arguments[-1].number': 'time'})


def final_time(c, call):
    """argument `Function("__final", [Number(<e>)])` -> option Z of <e>"""
    a = call.args[0]
    if not (isinstance(a, ast.Call) and ast.unparse(a.func) == 'Function' and isinstance(a.args[0], ast.Constant)
            and a.args[0].value == '__final' and isinstance(a.args[1], ast.List) and len(a.args[1].elts) == 1):
        raise Unsupported('external shape ' + ast.unparse(call))
    n = a.args[1].elts[0]
    if not (isinstance(n, ast.Call) and ast.unparse(n.func) == 'Number' and len(n.args) == 1):
        raise Unsupported('external time shape ' + ast.unparse(call))
    return num(c, n.args[0])


def gen_imain(out):
    tree = parse('telingo/__init__.py')
    im = find_fun(tree, 'imain')
    c = IMAIN
    # defaults of the keyword arguments
    args = im.args
    names = [a.arg for a in args.args]
    defaults = dict(zip(names[len(names) - len(args.defaults):], args.defaults))
    d_imin, d_imax, d_istop = defaults.get('imin'), defaults.get('imax'), defaults.get('istop')
    if not (isinstance(d_imin, ast.Constant) and isinstance(d_imin.value, int) and d_imin.value >= 0):
        raise Unsupported('imin default')
    if not (isinstance(d_imax, ast.Constant) and (d_imax.value is None or (isinstance(d_imax.value, int) and d_imax.value >= 0))):
        raise Unsupported('imax default')
    if not (isinstance(d_istop, ast.Constant) and d_istop.value in c.strs['stopc']):
        raise Unsupported('istop default')
    whiles = [n for n in ast.walk(im) if isinstance(n, ast.While)]
    if len(whiles) != 1:
        raise Unsupported('while count')
    w = whiles[0]
    # initialisation before the loop: `step, ret = 0, None`
    init = [s for s in im.body if isinstance(s, ast.Assign) and ast.unparse(s.targets[0]) in ('step, ret', '(step, ret)')]
    if len(init) != 1 or ast.unparse(init[0].value) not in ('(0, None)', '0, None'):
        raise Unsupported('loop initialisation')
    ifs = [n for n in ast.walk(w) if isinstance(n, ast.If)]
    part = [i for i in ifs if any(isinstance(x, ast.Name) and x.id == 'root_name' for x in ast.walk(i.test))]
    assum = [i for i in ifs if 'arguments' in ast.unparse(i.test)]
    if len(part) != 1 or len(assum) != 1:
        raise Unsupported('if shapes')
    # the part appended: (part_name, [Number(step - i), Number(step)])
    app = part[0].body
    if not (len(app) == 1 and isinstance(app[0], ast.Expr) and isinstance(app[0].value, ast.Call)
            and ast.unparse(app[0].value.func) == 'parts.append'):
        raise Unsupported('part append shape')
    tup = app[0].value.args[0]
    if not (isinstance(tup, ast.Tuple) and ast.unparse(tup.elts[0]) == 'part_name' and isinstance(tup.elts[1], ast.List)
            and len(tup.elts[1].elts) == 2 and all(isinstance(x, ast.Call) and ast.unparse(x.func) == 'Number' for x in tup.elts[1].elts)):
        raise Unsupported('part tuple shape')
    p_t, p_u = (num(c, x.args[0]) for x in tup.elts[1].elts)
    # the assumption appended: -atom.literal
    asb = assum[0].body
    if not (len(asb) == 1 and ast.unparse(asb[0]) == 'assumptions.append(-atom.literal)'):
        raise Unsupported('assumption shape')
    # the loops around the part selection: for (root_name, part_name, rng) in program_parts: for i in rng:
    fors = [n for n in ast.walk(w) if isinstance(n, ast.For)]
    fsrc = sorted(ast.unparse(f.target) + ' in ' + ast.unparse(f.iter) for f in fors)
    want = sorted(['(root_name, part_name, rng) in program_parts', 'i in rng', '(name, arity, positive) in future_sigs',
                   'atom in prg.symbolic_atoms.by_signature(name, arity, positive)'])
    if fsrc != want:
        raise Unsupported('for loops: ' + repr(fsrc))
    # sequence of calls on prg/thy in the loop body, in source order, with the guard under which they run
    calls = []

    def walk(stmts, guard):
        for s in stmts:
            if isinstance(s, ast.If):
                if s.orelse:
                    raise Unsupported('else in loop body')
                if s is part[0] or s is assum[0]:
                    continue
                g = boolx(c, s.test)
                if guard is not None:
                    raise Unsupported('nested guard')
                walk(s.body, g)
            elif isinstance(s, ast.For):
                walk(s.body, guard)
            elif isinstance(s, ast.Expr) and isinstance(s.value, ast.Call):
                f = ast.unparse(s.value.func)
                if f == 'prg.release_external':
                    calls.append((guard, f'(CRelease {final_time(c, s.value)})'))
                elif f == 'prg.cleanup':
                    calls.append((guard, 'CCleanup'))
                elif f == 'prg.ground':
                    if ast.unparse(s.value.args[0]) != 'parts':
                        raise Unsupported('ground argument')
                    calls.append((guard, 'CGround'))
                elif f == 'thy.translate':
                    if [ast.unparse(a) for a in s.value.args] != ['step', 'prg']:
                        raise Unsupported('translate arguments')
                    calls.append((guard, 'CTranslate'))
                elif f == 'prg.assign_external':
                    v = s.value.args[1]
                    if not (isinstance(v, ast.Constant) and isinstance(v.value, bool)):
                        raise Unsupported('assign value')
                    calls.append((guard, f'(CAssign {final_time(c, s.value)} {"true" if v.value else "false"})'))
                elif f in ('parts.append', 'assumptions.append'):
                    pass
                else:
                    raise Unsupported('call in loop body: ' + f)
            elif isinstance(s, ast.Assign):
                tg = ast.unparse(s.targets[0])
                if tg in ('parts', 'assumptions') and ast.unparse(s.value) == '[]':
                    continue
                if tg in ('ret, step', '(ret, step)'):
                    v = s.value
                    if not (isinstance(v, ast.Tuple) and len(v.elts) == 2 and isinstance(v.elts[0], ast.Call)
                            and ast.unparse(v.elts[0].func) == 'prg.solve'):
                        raise Unsupported('solve shape')
                    kw = {k.arg: ast.unparse(k.value) for k in v.elts[0].keywords}
                    if kw.get('assumptions') != 'assumptions' or 'on_model(m, step)' not in kw.get('on_model', ''):
                        raise Unsupported('solve keywords')
                    calls.append((guard, f'(CSolve {num(c, v.elts[1])})'))
                    continue
                raise Unsupported('assignment in loop body: ' + ast.unparse(s))
            else:
                raise Unsupported('statement in loop body: ' + ast.unparse(s))
    walk(w.body, None)
    at = assum[0].test
    body = ';\n   '.join(f'({g if g else "(Some true)"}, {cl})' for g, cl in calls)
    out.append(f'''(* ---- telingo/__init__.py: imain ---- *)
Definition default_imin_gen : nat := {d_imin.value}.
Definition default_imax_gen : option nat := {"None" if d_imax.value is None else "(Some %d)" % d_imax.value}.
Definition default_istop_gen : stopc := {c.strs['stopc'][d_istop.value]}.
Definition loop_cond_gen (imax : option nat) (imin : nat) (istop : stopc) (step : nat) (ret : option result) : option bool :=
  {boolx(c, w.test)}.
Definition part_selected_gen (root_name : root) (step i : nat) : option bool :=
  {boolx(c, part[0].test)}.
Definition part_params_gen (step i : nat) : option Z * option Z := ({p_t}, {p_u}).
Definition assume_false_gen (time step : nat) : option bool :=
  {boolx(c, at)}.
Inductive call := CRelease (t : option Z) | CCleanup | CGround | CTranslate | CAssign (t : option Z) (v : bool) | CSolve (next : option Z).
Definition loop_body_gen (step : nat) : list (option bool * call) :=
  [{body}].''')


# ------------------------------------------------------------------------------------------------ main
# group -> (generated file under coq/Gen, fragment functions, Requires)
GROUPS = {
    'imain': ('FromSource.v', [gen_imain], ['GenPrelude']),
}
VERIF = os.path.dirname(os.path.dirname(os.path.abspath(__file__)))
GEN = os.path.join(VERIF, 'coq', 'Gen')


def generate(group):
    fname, frags, reqs = GROUPS[group]
    out = ['(* GENERATED by harness/srcgen.py from the working tree of /repo on every run: do not edit *)',
           'Require Import %s.' % ' '.join(reqs), 'Local Open Scope string_scope.']
    for f in frags:
        f(out)
    return '\n'.join(out) + '\n'


def main():
    """regenerate every group; a group that fails keeps the pinned copy (so unrelated properties still build) and is
    reported in _build/srcgen_status.json"""
    status = {}
    pin = '--pin' in sys.argv
    for g, (fname, _, _) in GROUPS.items():
        dst = os.path.join(GEN, fname)
        try:
            txt = generate(g)
            status[g] = 'ok'
        except (Unsupported, SyntaxError, OSError, KeyError, IndexError, AttributeError, TypeError, ValueError) as e:
            status[g] = 'source no longer in the translatable shape: %s: %s' % (type(e).__name__, str(e)[:300])
            txt = open(os.path.join(VERIF, 'pinned', fname)).read()
        old = open(dst).read() if os.path.exists(dst) else None
        if old != txt:
            open(dst, 'w').write(txt)
        if pin and status[g] == 'ok':
            os.makedirs(os.path.join(VERIF, 'pinned'), exist_ok=True)
            open(os.path.join(VERIF, 'pinned', fname), 'w').write(txt)
    os.makedirs(os.path.join(VERIF, '_build'), exist_ok=True)
    json.dump(status, open(os.path.join(VERIF, '_build', 'srcgen_status.json'), 'w'))
    return 0


if __name__ == '__main__':
    sys.exit(main())
