#!/venv/bin/python
"""Fail-closed translator: pure decision fragments of /repo/telingo/**/*.py (Python ast) -> Gallina (coq/Gen/FromSource.v).

Every construct outside the small grammar below raises Unsupported, which aborts generation (the check then reports
"source no longer in the translatable shape").  Booleans are `option bool` (None = the Python expression would raise),
`and`/`or` keep Python's short-circuit order (pand/por), integers are `option Z`.
"""
import ast, sys, os, re, json

REPO = os.environ.get('TELINGO_REPO', '/repo')


class Unsupported(Exception):
    pass


CMP = {ast.Lt: 'Z.ltb', ast.LtE: 'Z.leb', ast.Gt: 'Z.gtb', ast.GtE: 'Z.geb', ast.Eq: 'Z.eqb'}


class Ctx:
    """typing environment of one fragment: name -> kind, string constants -> constructors, attributes"""

    def __init__(self, env, strs=None, attrs=None, subst=None):
        self.env, self.strs, self.attrs, self.subst = env, strs or {}, attrs or {}, subst or {}


def num(c, e):
    """integer expression -> Gallina term of type option Z (None = raises)"""
    src = ast.unparse(e)
    if src in c.subst and c.subst[src].startswith(':'):
        return c.subst[src][1:]
    if src in c.subst:
        return num(c, ast.Name(id=c.subst[src]))
    if isinstance(e, ast.Name):
        t = c.env.get(e.id)
        if t == 'nat':
            return f'(Some (Z.of_nat {e.id}))'
        if t == 'Z':
            return f'(Some {e.id})'
        if t == 'optnat':
            return f'(option_map Z.of_nat {e.id})'
        if t == 'optZ':
            return e.id
        raise Unsupported('name ' + ast.dump(e))
    if isinstance(e, ast.Constant) and isinstance(e.value, int) and not isinstance(e.value, bool):
        return f'(Some {e.value}%Z)'
    if isinstance(e, ast.UnaryOp) and isinstance(e.op, ast.USub):
        return f'(olift1 Z.opp {num(c, e.operand)})'
    if isinstance(e, ast.BinOp) and isinstance(e.op, (ast.Add, ast.Sub)):
        op = 'Z.add' if isinstance(e.op, ast.Add) else 'Z.sub'
        return f'(olift2 {op} {num(c, e.left)} {num(c, e.right)})'
    raise Unsupported('num ' + ast.dump(e))


def boolx(c, e):
    """Boolean expression -> Gallina term of type option bool with Python's short-circuit evaluation order"""
    src = ast.unparse(e)
    if src in c.subst and c.subst[src].startswith(':'):
        return c.subst[src][1:]
    if src in c.subst and c.env.get(c.subst[src]) == 'bool':
        return f'(Some {c.subst[src]})'
    if isinstance(e, ast.BoolOp):
        comb = 'pand' if isinstance(e.op, ast.And) else 'por'
        out = boolx(c, e.values[-1])
        for v in reversed(e.values[:-1]):
            out = f'({comb} {boolx(c, v)} (fun _ => {out}))'
        return out
    if isinstance(e, ast.UnaryOp) and isinstance(e.op, ast.Not):
        return f'(pnot {boolx(c, e.operand)})'
    if isinstance(e, ast.Constant) and isinstance(e.value, bool):
        return f'(Some {"true" if e.value else "false"})'
    if isinstance(e, ast.Name) and c.env.get(e.id) == 'bool':
        return f'(Some {e.id})'
    if isinstance(e, ast.Compare) and len(e.ops) == 1:
        op, l, r = e.ops[0], e.left, e.comparators[0]
        if isinstance(op, (ast.Is, ast.IsNot)) and isinstance(r, ast.Constant) and r.value is None and isinstance(l, ast.Name) \
                and c.env.get(l.id, '').startswith('opt'):
            t, f = ('true', 'false') if isinstance(op, ast.Is) else ('false', 'true')
            return f'(Some (match {l.id} with None => {t} | Some _ => {f} end))'
        if isinstance(op, (ast.Eq, ast.NotEq)) and isinstance(r, ast.Constant) and isinstance(r.value, str):
            ls = ast.unparse(l)
            nm = c.subst.get(ls, ls if isinstance(l, ast.Name) else None)
            kind = c.env.get(nm)
            if kind in c.strs and r.value in c.strs[kind]:
                t = f'(Some ({kind}_eqb {nm} {c.strs[kind][r.value]}))'
                return t if isinstance(op, ast.Eq) else f'(pnot {t})'
            raise Unsupported('string compare ' + ast.dump(e))
        if type(op) in CMP:
            return f'(olift2 {CMP[type(op)]} {num(c, l)} {num(c, r)})'
        if isinstance(op, ast.NotEq):
            return f'(pnot (olift2 Z.eqb {num(c, l)} {num(c, r)}))'
        raise Unsupported('compare ' + ast.dump(e))
    if isinstance(e, ast.Attribute) and isinstance(e.value, ast.Name) and c.env.get(e.value.id) == 'optres' and e.attr in c.attrs:
        return f'(attr {c.attrs[e.attr]} {e.value.id})'
    raise Unsupported('bool ' + ast.dump(e))


def find_fun(tree, name, cls=None):
    for n in ast.walk(tree):
        if cls is not None:
            if isinstance(n, ast.ClassDef) and n.name == cls:
                return find_fun(n, name)
            continue
        if isinstance(n, ast.FunctionDef) and n.name == name:
            return n
    raise Unsupported(f'no function {cls + "." if cls else ""}{name}')


def parse(rel):
    return ast.parse(open(os.path.join(REPO, rel)).read())


# ------------------------------------------------------------------------------------------------ imain
IMAIN = Ctx({'imax': 'optnat', 'imin': 'nat', 'step': 'nat', 'i': 'nat', 'istop': 'stopc', 'ret': 'optres', 'root_name': 'root',
             'time': 'nat'},
            {'stopc': {'SAT': 'StopSAT', 'UNSAT': 'StopUNSAT', 'UNKNOWN': 'StopUNKNOWN'},
             'root': {'always': 'RAlways', 'dynamic': 'RDynamic', 'initial': 'RInitial'}},
            {'satisfiable': 'satisfiable', 'unsatisfiable': 'unsatisfiable', 'unknown': 'unknown'},
            {'atom.symbol.arguments[-1].number': 'time'})


def final_time(c, call):
    """argument `Function("__final", [Number(<e>)])` -> option Z of <e>"""
    a = call.args[0]
    if not (isinstance(a, ast.Call) and ast.unparse(a.func) == 'Function' and isinstance(a.args[0], ast.Constant)
            and a.args[0].value == '__final' and isinstance(a.args[1], ast.List) and len(a.args[1].elts) == 1):
        raise Unsupported('external shape ' + ast.unparse(call))
    n = a.args[1].elts[0]
    if not (isinstance(n, ast.Call) and ast.unparse(n.func) == 'Number' and len(n.args) == 1):
        raise Unsupported('external time shape ' + ast.unparse(call))
    return num(c, n.args[0])


def gen_imain(out):
    tree = parse('telingo/__init__.py')
    im = find_fun(tree, 'imain')
    c = IMAIN
    # defaults of the keyword arguments
    args = im.args
    names = [a.arg for a in args.args]
    defaults = dict(zip(names[len(names) - len(args.defaults):], args.defaults))
    d_imin, d_imax, d_istop = defaults.get('imin'), defaults.get('imax'), defaults.get('istop')
    if not (isinstance(d_imin, ast.Constant) and isinstance(d_imin.value, int) and d_imin.value >= 0):
        raise Unsupported('imin default')
    if not (isinstance(d_imax, ast.Constant) and (d_imax.value is None or (isinstance(d_imax.value, int) and d_imax.value >= 0))):
        raise Unsupported('imax default')
    if not (isinstance(d_istop, ast.Constant) and d_istop.value in c.strs['stopc']):
        raise Unsupported('istop default')
    whiles = [n for n in ast.walk(im) if isinstance(n, ast.While)]
    if len(whiles) != 1:
        raise Unsupported('while count')
    w = whiles[0]
    # initialisation before the loop: `step, ret = 0, None`
    init = [s for s in im.body if isinstance(s, ast.Assign) and ast.unparse(s.targets[0]) in ('step, ret', '(step, ret)')]
    if len(init) != 1 or ast.unparse(init[0].value) not in ('(0, None)', '0, None'):
        raise Unsupported('loop initialisation')
    ifs = [n for n in ast.walk(w) if isinstance(n, ast.If)]
    part = [i for i in ifs if any(isinstance(x, ast.Name) and x.id == 'root_name' for x in ast.walk(i.test))]
    assum = [i for i in ifs if 'arguments' in ast.unparse(i.test)]
    if len(part) != 1 or len(assum) != 1:
        raise Unsupported('if shapes')
    # the part appended: (part_name, [Number(step - i), Number(step)])
    app = part[0].body
    if not (len(app) == 1 and isinstance(app[0], ast.Expr) and isinstance(app[0].value, ast.Call)
            and ast.unparse(app[0].value.func) == 'parts.append'):
        raise Unsupported('part append shape')
    tup = app[0].value.args[0]
    if not (isinstance(tup, ast.Tuple) and ast.unparse(tup.elts[0]) == 'part_name' and isinstance(tup.elts[1], ast.List)
            and len(tup.elts[1].elts) == 2 and all(isinstance(x, ast.Call) and ast.unparse(x.func) == 'Number' for x in tup.elts[1].elts)):
        raise Unsupported('part tuple shape')
    p_t, p_u = (num(c, x.args[0]) for x in tup.elts[1].elts)
    # the assumption appended: -atom.literal
    asb = assum[0].body
    if not (len(asb) == 1 and ast.unparse(asb[0]) == 'assumptions.append(-atom.literal)'):
        raise Unsupported('assumption shape')
    # the loops around the part selection: for (root_name, part_name, rng) in program_parts: for i in rng:
    fors = [n for n in ast.walk(w) if isinstance(n, ast.For)]
    fsrc = sorted(ast.unparse(f.target) + ' in ' + ast.unparse(f.iter) for f in fors)
    want = sorted(['(root_name, part_name, rng) in program_parts', 'i in rng', '(name, arity, positive) in future_sigs',
                   'atom in prg.symbolic_atoms.by_signature(name, arity, positive)'])
    if fsrc != want:
        raise Unsupported('for loops: ' + repr(fsrc))
    # sequence of calls on prg/thy in the loop body, in source order, with the guard under which they run
    calls = []

    def walk(stmts, guard):
        for s in stmts:
            if isinstance(s, ast.If):
                if s.orelse:
                    raise Unsupported('else in loop body')
                if s is part[0] or s is assum[0]:
                    continue
                g = boolx(c, s.test)
                if guard is not None:
                    raise Unsupported('nested guard')
                walk(s.body, g)
            elif isinstance(s, ast.For):
                walk(s.body, guard)
            elif isinstance(s, ast.Expr) and isinstance(s.value, ast.Call):
                f = ast.unparse(s.value.func)
                if f == 'prg.release_external':
                    calls.append((guard, f'(CRelease {final_time(c, s.value)})'))
                elif f == 'prg.cleanup':
                    calls.append((guard, 'CCleanup'))
                elif f == 'prg.ground':
                    if ast.unparse(s.value.args[0]) != 'parts':
                        raise Unsupported('ground argument')
                    calls.append((guard, 'CGround'))
                elif f == 'thy.translate':
                    if [ast.unparse(a) for a in s.value.args] != ['step', 'prg']:
                        raise Unsupported('translate arguments')
                    calls.append((guard, 'CTranslate'))
                elif f == 'prg.assign_external':
                    v = s.value.args[1]
                    if not (isinstance(v, ast.Constant) and isinstance(v.value, bool)):
                        raise Unsupported('assign value')
                    calls.append((guard, f'(CAssign {final_time(c, s.value)} {"true" if v.value else "false"})'))
                elif f in ('parts.append', 'assumptions.append'):
                    pass
                else:
                    raise Unsupported('call in loop body: ' + f)
            elif isinstance(s, ast.Assign):
                tg = ast.unparse(s.targets[0])
                if tg in ('parts', 'assumptions') and ast.unparse(s.value) == '[]':
                    continue
                if tg in ('ret, step', '(ret, step)'):
                    v = s.value
                    if not (isinstance(v, ast.Tuple) and len(v.elts) == 2 and isinstance(v.elts[0], ast.Call)
                            and ast.unparse(v.elts[0].func) == 'prg.solve'):
                        raise Unsupported('solve shape')
                    kw = {k.arg: ast.unparse(k.value) for k in v.elts[0].keywords}
                    if kw.get('assumptions') != 'assumptions' or 'on_model(m, step)' not in kw.get('on_model', ''):
                        raise Unsupported('solve keywords')
                    calls.append((guard, f'(CSolve {num(c, v.elts[1])})'))
                    continue
                raise Unsupported('assignment in loop body: ' + ast.unparse(s))
            else:
                raise Unsupported('statement in loop body: ' + ast.unparse(s))
    walk(w.body, None)
    at = assum[0].test
    body = ';\n   '.join(f'({g if g else "(Some true)"}, {cl})' for g, cl in calls)
    out.append(f'''(* ---- telingo/__init__.py: imain ---- *)
Definition default_imin_gen : nat := {d_imin.value}.
Definition default_imax_gen : option nat := {"None" if d_imax.value is None else "(Some %d)" % d_imax.value}.
Definition default_istop_gen : stopc := {c.strs['stopc'][d_istop.value]}.
Definition loop_cond_gen (imax : option nat) (imin : nat) (istop : stopc) (step : nat) (ret : option result) : option bool :=
  {boolx(c, w.test)}.
Definition part_selected_gen (root_name : root) (step i : nat) : option bool :=
  {boolx(c, part[0].test)}.
Definition part_params_gen (step i : nat) : option Z * option Z := ({p_t}, {p_u}).
Definition assume_false_gen (time step : nat) : option bool :=
  {boolx(c, at)}.
Inductive call := CRelease (t : option Z) | CCleanup | CGround | CTranslate | CAssign (t : option Z) (v : bool) | CSolve (next : option Z).
Definition loop_body_gen (step : nat) : list (option bool * call) :=
  [{body}].''')


# ------------------------------------------------------------------------------------------------ transformers
def raises_deep(stmts, word):
    return any(isinstance(x, ast.Raise) and word in ast.unparse(x) for st in stmts for x in ast.walk(st))


def raises(stmts, word):
    return any(isinstance(x, ast.Raise) and word in ast.unparse(x) for x in stmts)


def gen_transformers(out):
    # ---- program.py
    tree = parse('telingo/transformers/program.py')
    vs = find_fun(tree, 'visit_SymbolicAtom', 'ProgramTransformer')
    calls = [n for n in ast.walk(vs) if isinstance(n, ast.Call) and ast.unparse(n.func) == 'self.__term_transformer.visit']
    if len(calls) != 1 or len(calls[0].args) != 5 or ast.unparse(calls[0].args[0]) != 'atom.symbol' or ast.unparse(calls[0].args[4]) != 'self.__max_shift':
        raise Unsupported('visit_SymbolicAtom call shape')
    c = Ctx({'head': 'bool', 'constraint': 'bool', 'normal': 'bool', 'negation': 'bool', 'nosign': 'bool'}, subst={
        'self.__head': 'head', 'self.__constraint': 'constraint', 'self.__normal': 'normal', 'self.__negation': 'negation',
        'literal.sign != _ast.Sign.NoSign': ':(pnot (Some nosign))', 'literal.sign == _ast.Sign.NoSign': 'nosign'})
    fl = [boolx(c, x) for x in calls[0].args[1:4]]
    vt = find_fun(tree, 'visit_TheoryAtom', 'ProgramTransformer')
    rej = {}
    for n in ast.walk(vt):
        if isinstance(n, ast.If) and raises(n.body, 'not supported in this context') and not n.orelse:
            kind = 'del' if raises(n.body, 'dynamic formulas') else 'tel'
            if kind in rej:
                raise Unsupported('two context checks for ' + kind)
            rej[kind] = boolx(c, n.test)
    if set(rej) != {'tel', 'del'}:
        raise Unsupported('theory context checks')
    # which branch the tel body check sits in: `if self.__head: <head transformer> else: <check>`
    telbr = [n for n in ast.walk(vt) if isinstance(n, ast.If) and ast.unparse(n.test) == 'self.__head' and raises_deep(n.orelse, 'temporal formulas not supported')]
    if len(telbr) != 1:
        raise Unsupported('tel head/body branch')
    one_term = [n for n in ast.walk(vt) if isinstance(n, ast.If) and raises(n.body, 'invalid temporal formula') and 'len(element.terms)' in ast.unparse(n.test)]
    if len(one_term) != 1 or ast.unparse(one_term[0].test) != 'len(element.terms) != 1':
        raise Unsupported('element arity check')
    vl = find_fun(tree, 'visit_Literal', 'ProgramTransformer')
    asg = {ast.unparse(x.targets[0]): x.value for x in ast.walk(vl) if isinstance(x, ast.Assign)}
    if 'self.__negation' not in asg or 'self.__head' not in asg:
        raise Unsupported('visit_Literal assignments')
    lit_neg = [boolx(c, x.value) for x in ast.walk(vl) if isinstance(x, ast.Assign) and ast.unparse(x.targets[0]) == 'self.__negation' and ast.unparse(x.value) != 'False']
    lit_head = [boolx(c, x.value) for x in ast.walk(vl) if isinstance(x, ast.Assign) and ast.unparse(x.targets[0]) == 'self.__head' and ast.unparse(x.value) != 'head']
    if len(lit_neg) != 1 or len(lit_head) != 1:
        raise Unsupported('visit_Literal shape')
    vc = find_fun(tree, 'visit_ConditionalLiteral', 'ProgramTransformer')
    src = ast.unparse(vc)
    if not ('self.visit(literal.literal)' in src and 'self.__head = False' in src and 'self.visit(literal.condition)' in src
            and src.index('self.visit(literal.literal)') < src.index('self.__head = False') < src.index('self.visit(literal.condition)')):
        raise Unsupported('visit_ConditionalLiteral shape')
    vr = find_fun(tree, 'visit_Rule', 'ProgramTransformer')
    src = ast.unparse(vr)
    for need in ['self.__head = True', 'self.__constraint = _tf.is_constraint(rule)', 'self.__normal = _tf.is_normal(rule)', 'rule.head = self.visit(rule.head)',
                 'self.__head = False', 'rule.body = self.visit(rule.body)']:
        if need not in src:
            raise Unsupported('visit_Rule shape: ' + need)
    order = [src.index(x) for x in ['self.__head = True', 'self.__constraint = _tf.is_constraint(rule)', 'rule.head = self.visit(rule.head)', 'self.__head = False', 'rule.body = self.visit(rule.body)']]
    if order != sorted(order):
        raise Unsupported('visit_Rule order')
    look = [n for n in ast.walk(vr) if isinstance(n, ast.If) and 'self.__max_shift[0]' in ast.unparse(n.test)]
    if len(look) != 1:
        raise Unsupported('visit_Rule look-ahead test')
    c2 = Ctx({'max_shift': 'Z', 'final': 'bool'}, subst={'self.__max_shift[0]': 'max_shift', 'self.__final': 'final'})
    lookx = boolx(c2, look[0].test)
    # ---- transformer.py: is_constraint / is_normal
    tree = parse('telingo/transformers/transformer.py')
    c3 = Ctx({'is_rule': 'bool', 'head_is_literal': 'bool'}, subst={
        's.ast_type == _ast.ASTType.Rule': 'is_rule', 's.head.ast_type == _ast.ASTType.Literal': 'head_is_literal',
        's.head.atom.ast_type == _ast.ASTType.BooleanConstant': ':(if head_is_literal then Some atom_is_boolconst else None)',
        's.head.atom.ast_type == _ast.ASTType.SymbolicAtom': ':(if head_is_literal then Some atom_is_symbolic else None)',
        's.head.atom.value': ':(if head_is_literal then (if atom_is_boolconst then Some value else None) else None)',
        's.head.sign != _ast.Sign.NoSign': ':(if head_is_literal then Some (negb nosign) else None)',
        's.head.sign == _ast.Sign.NoSign': ':(if head_is_literal then Some nosign else None)'})
    defs = {}
    for nm in ('is_constraint', 'is_normal'):
        f = find_fun(tree, nm)
        rets = [x for x in f.body if isinstance(x, ast.Return)]
        if len(rets) != 1:
            raise Unsupported(nm + ' shape')
        defs[nm] = boolx(c3, rets[0].value)
    # ---- term.py: __get_param
    tree = parse('telingo/transformers/term.py')
    gp = find_fun(tree, '_TermTransformer__get_param', 'TermTransformer') if False else find_fun(tree, '__get_param', 'TermTransformer')
    body = gp.body
    stm = [x for x in body if not (isinstance(x, ast.Expr) and isinstance(x.value, ast.Constant))]
    # n = name.strip("'") ; shift = 0 ; for c in name: if c == "'": shift -= 1 else: break ; shift += len(name) - len(n) + shift
    if ast.unparse(stm[0]) != "n = name.strip(\"'\")" or ast.unparse(stm[1]) != 'shift = 0':
        raise Unsupported('get_param prologue')
    loop = stm[2]
    if not (isinstance(loop, ast.For) and ast.unparse(loop.target) == 'c' and ast.unparse(loop.iter) == 'name' and len(loop.body) == 1 and isinstance(loop.body[0], ast.If)
            and ast.unparse(loop.body[0].test) == 'c == "\'"' and ast.unparse(loop.body[0].body[0]) == 'shift -= 1' and isinstance(loop.body[0].orelse[0], ast.Break)):
        raise Unsupported('get_param prime loop')
    aug = stm[3]
    if not (isinstance(aug, ast.AugAssign) and ast.unparse(aug.target) == 'shift' and isinstance(aug.op, ast.Add)):
        raise Unsupported('get_param shift update')
    c4 = Ctx({'lead': 'nat', 'trail': 'nat', 'stem': 'nat', 'shift0': 'Z', 'shift': 'Z', 'initially': 'bool', 'finally_': 'bool', 'replace_future': 'bool',
              'fail_future': 'bool', 'fail_past': 'bool', 'us1': 'bool', 'us2': 'bool'},
             subst={'len(name)': ':(Some (Z.of_nat lead + Z.of_nat stem + Z.of_nat trail)%Z)', 'len(n)': ':(Some (Z.of_nat stem))', 'shift': 'shift0',
                    'n.startswith(\'_\')': 'us1', 'n.startswith(\'__\')': 'us2'})
    shiftx = f'(olift2 Z.add (Some shift0) {num(c4, aug.value)})'
    c5 = Ctx(c4.env, subst={'n.startswith(\'_\')': 'us1', 'n.startswith(\'__\')': 'us2'})
    ifs = [x for x in stm[4:] if isinstance(x, ast.If)]
    ini = [x for x in ifs if any(ast.unparse(y) == 'initially = True' for y in x.body)]
    if len(ini) != 1:
        raise Unsupported('initially detection')
    inix = boolx(c5, ini[0].test)
    ff = [x for x in ifs if raises(x.body, 'future atoms not supported')]
    fp = [x for x in ifs if raises(x.body, 'past atoms not supported')]
    if len(ff) != 1 or len(fp) != 1 or stm.index(ff[0]) > stm.index(fp[0]):
        raise Unsupported('fail checks')
    pos = [x for x in ifs if ast.unparse(x.test) in ('shift > 0', '0 < shift') and not raises(x.body, 'not supported')]
    if len(pos) != 1 or not (len(pos[0].body) == 1 and isinstance(pos[0].body[0], ast.If) and ast.unparse(pos[0].body[0].test) == 'replace_future'):
        raise Unsupported('future handling shape')
    rep = pos[0].body[0]
    if not (any('self.__future_predicates.add' in ast.unparse(x) for x in rep.body) and any('g_future_prefix' in ast.unparse(x) for x in rep.body)
            and any('params.insert(0' in ast.unparse(x) for x in rep.body) and any('max_shift[0] = max(max_shift[0], shift)' == ast.unparse(x) for x in rep.orelse)):
        raise Unsupported('future renaming shape')
    tp = [x for x in ifs if any('params[-1]' in ast.unparse(y) for y in x.body) and x is not pos[0]]
    if len(tp) != 1 or len(tp[0].orelse) != 1 or not isinstance(tp[0].orelse[0], ast.If):
        raise Unsupported('time parameter shape')
    if 'BinaryOperator.Plus' not in ast.unparse(tp[0].body[0]) or '_clingo.Number(shift)' not in ast.unparse(tp[0].body[0]):
        raise Unsupported('shifted time parameter')
    if '_clingo.Number(0)' not in ast.unparse(tp[0].orelse[0].body[0]):
        raise Unsupported('initial time parameter')
    order = [stm.index(ff[0]), stm.index(fp[0]), stm.index(pos[0]), stm.index(tp[0])]
    if order != sorted(order):
        raise Unsupported('get_param order')
    out.append(f'''(* ---- telingo/transformers/program.py, transformer.py, term.py ---- *)
(* flags handed to the term transformer for a symbolic atom: (replace_future, fail_future, fail_past) *)
Definition atom_flags_gen (head constraint normal : bool) : option bool * option bool * option bool :=
  ({fl[0]}, {fl[1]}, {fl[2]}).
Definition tel_ctx_reject_gen (negation constraint : bool) : option bool := {rej['tel']}.
Definition del_ctx_reject_gen (negation constraint : bool) : option bool := {rej['del']}.
Definition literal_negation_gen (nosign : bool) : option bool := {lit_neg[0]}.
Definition literal_head_gen (head nosign : bool) : option bool := {lit_head[0]}.
Definition lookahead_part_gen (max_shift : Z) (final : bool) : option bool := {lookx}.
Definition is_constraint_gen (is_rule head_is_literal atom_is_boolconst atom_is_symbolic value nosign : bool) : option bool :=
  {defs['is_constraint']}.
Definition is_normal_gen (is_rule head_is_literal atom_is_boolconst atom_is_symbolic value nosign : bool) : option bool :=
  {defs['is_normal']}.
(* __get_param: the prime loop leaves shift0 = - leading primes; then the update below *)
Definition shift_update_gen (lead stem trail : nat) (shift0 : Z) : option Z := {shiftx}.
Definition initially_gen (us1 us2 : bool) : option bool := {inix}.
Definition fail_future_gen (shift : Z) (finally_ fail_future : bool) : option bool := {boolx(c5, ff[0].test)}.
Definition fail_past_gen (shift : Z) (initially fail_past : bool) : option bool := {boolx(c5, fp[0].test)}.
Definition future_test_gen (shift : Z) : option bool := {boolx(c5, pos[0].test)}.
Definition time_shifted_gen (shift : Z) : option bool := {boolx(c5, tp[0].test)}.
Definition time_zero_gen (initially : bool) : option bool := {boolx(c5, tp[0].orelse[0].test)}.''')


# ------------------------------------------------------------------------------------------------ TelApp: print_model, option parsers
def gen_app(out):
    tree = parse('telingo/__init__.py')
    pm = find_fun(tree, 'print_model', 'TelApp')
    fors = [n for n in pm.body if isinstance(n, ast.For)]
    if len(fors) != 2 or ast.unparse(fors[0].iter) != 'model.symbols(shown=True)' or ast.unparse(fors[1].target) != 'step':
        raise Unsupported('print_model loops')
    f0 = fors[0]
    if not (len(f0.body) == 1 and isinstance(f0.body[0], ast.If) and not f0.body[0].orelse and len(f0.body[0].body) == 1):
        raise Unsupported('print_model table loop')
    ins = ast.unparse(f0.body[0].body[0])
    if ins != 'table.setdefault(sym.arguments[-1].number, []).append(Function(sym.name, sym.arguments[:-1], sym.positive))':
        raise Unsupported('print_model table insertion: ' + ins)
    c = Ctx({'is_fun': 'bool', 'nargs': 'nat', 'dunder': 'bool', 'horizon': 'nat'}, subst={
        'sym.type == SymbolType.Function': 'is_fun', 'len(sym.arguments)': ':(Some (Z.of_nat nargs))',
        'sym.arguments[-1].type == SymbolType.Number': ':(if Nat.ltb 0 nargs then Some last_is_num else None)',
        "sym.name.startswith('__')": 'dunder', 'self.__horizon': 'horizon'})
    printable = boolx(c, f0.body[0].test)
    f1 = fors[1]
    if not (isinstance(f1.iter, ast.Call) and ast.unparse(f1.iter.func) == 'range' and len(f1.iter.args) == 1):
        raise Unsupported('print_model state range')
    nstates = num(c, f1.iter.args[0])
    if ast.unparse(f1.body[0]) != 'symbols = table.get(step, [])':
        raise Unsupported('print_model table lookup')
    inner = [n for n in f1.body if isinstance(n, ast.For)]
    if len(inner) != 1 or ast.unparse(inner[0].iter) != 'sorted(symbols)' or not (len(inner[0].body) == 1 and isinstance(inner[0].body[0], ast.If) and not inner[0].body[0].orelse):
        raise Unsupported('print_model symbol loop')
    visible = boolx(c, inner[0].body[0].test)
    writes = [ast.unparse(x) for x in sorted((x for x in ast.walk(f1) if isinstance(x, ast.Call) and ast.unparse(x.func) == 'sys.stdout.write'),
                                              key=lambda x: (x.lineno, x.col_offset))]
    want = ["sys.stdout.write(' State {}:'.format(step))", "sys.stdout.write('\\n ')", "sys.stdout.write(' {}'.format(sym))", "sys.stdout.write('\\n')"]
    if writes != want:
        raise Unsupported('print_model output format: ' + repr(writes))
    # option parsers: int(value) may raise ValueError; modelled by iv : option Z (None = int() raises)
    def parser(name):
        f = find_fun(tree, name, 'TelApp')
        return [x for x in f.body if not (isinstance(x, ast.Expr) and isinstance(x.value, ast.Constant))]
    def int_assign(stmts, attr):
        """`self.<attr> = int(value)` possibly wrapped in try/except ValueError: return False -> (guarded?, rest)"""
        st = stmts[0]
        if isinstance(st, ast.Try):
            if not (len(st.body) == 1 and ast.unparse(st.body[0]) == f'self.{attr} = int(value)' and len(st.handlers) == 1 and ast.unparse(st.handlers[0].type) == 'ValueError'
                    and ast.unparse(st.handlers[0].body[0]) == 'return False' and not st.orelse and not st.finalbody):
                raise Unsupported('try shape in option parser')
            return True, stmts[1:]
        if ast.unparse(st) == f'self.{attr} = int(value)':
            return False, stmts[1:]
        raise Unsupported('option parser assignment')
    ci = Ctx({'v': 'Z'}, subst={'self.__imin': 'v', 'self.__imax': 'v'})
    pi = parser('_TelApp__parse_imin') if False else parser('__parse_imin')
    g_imin, rest = int_assign(pi, '__imin')
    if len(rest) != 1 or not isinstance(rest[0], ast.Return):
        raise Unsupported('parse_imin tail')
    imin_ok = boolx(ci, rest[0].value)
    px = parser('__parse_imax')
    if not (len(px) == 3 and isinstance(px[0], ast.If) and ast.unparse(px[0].test) == 'len(value) > 0' and ast.unparse(px[1]) == 'self.__imax = None' and ast.unparse(px[2]) == 'return True'):
        raise Unsupported('parse_imax shape')
    g_imax, rest = int_assign(px[0].body, '__imax')
    if len(rest) != 1 or not isinstance(rest[0], ast.Return):
        raise Unsupported('parse_imax tail')
    imax_ok = boolx(ci, rest[0].value)
    ps = parser('__parse_istop')
    if not (len(ps) == 2 and ast.unparse(ps[0]) == 'self.__istop = value.upper()' and isinstance(ps[1], ast.Return) and isinstance(ps[1].value, ast.Compare)
            and isinstance(ps[1].value.ops[0], ast.In) and ast.unparse(ps[1].value.left) == 'self.__istop' and isinstance(ps[1].value.comparators[0], ast.List)):
        raise Unsupported('parse_istop shape')
    stops = [e.value for e in ps[1].value.comparators[0].elts]
    def guard(g, body):
        return f'match iv with None => {"Some false" if g else "None"} | Some v => {body} end'
    # TelApp.main: which texts are read and handed to transform(), and how the options reach imain
    mn = find_fun(tree, 'main', 'TelApp')
    mb = [x for x in mn.body if not (isinstance(x, ast.Expr) and isinstance(x.value, ast.Constant))]
    if not (len(mb) == 2 and isinstance(mb[0], ast.With) and ast.unparse(mb[0].items[0]) == 'ast.ProgramBuilder(control) as bld' and len(mb[0].body) == 3):
        raise Unsupported('TelApp.main shape')
    w = mb[0].body
    if ast.unparse(w[0]) != 'files = [open(path) for path in files]':
        raise Unsupported('TelApp.main: opening the files: ' + ast.unparse(w[0]))
    if not (isinstance(w[1], ast.If) and not w[1].orelse and len(w[1].body) == 1 and ast.unparse(w[1].body[0]) == 'files.append(sys.stdin)'):
        raise Unsupported('TelApp.main: standard input: ' + ast.unparse(w[1]))
    cm = Ctx({'nfiles': 'nat'}, subst={'len(files)': ':(Some (Z.of_nat nfiles))'})
    use_stdin = boolx(cm, w[1].test)
    if ast.unparse(w[2]) != 'future_sigs, program_parts = _tf.transform([path.read() for path in files], bld.add)':
        raise Unsupported('TelApp.main: call of transform: ' + ast.unparse(w[2]))
    if ast.unparse(mb[1]) != 'imain(control, future_sigs, program_parts, self.__on_model, self.__imin, self.__imax, self.__istop)':
        raise Unsupported('TelApp.main: call of imain: ' + ast.unparse(mb[1]))
    out.append(f'''(* ---- telingo/__init__.py: TelApp.main (the statements are checked textually: every file is opened, standard input is added under the
   condition below, every source is read into a text of its own, the texts go to transform() in that order, the three options go to imain in the
   order imin, imax, istop) ---- *)
Definition main_uses_stdin_gen (nfiles : nat) : option bool := {use_stdin}.''')
    out.append(f'''(* ---- telingo/__init__.py: TelApp.print_model and the option parsers ---- *)
Definition printable_gen (is_fun : bool) (nargs : nat) (last_is_num : bool) : option bool := {printable}.
Definition visible_gen (dunder : bool) : option bool := {visible}.
Definition nstates_gen (horizon : nat) : option Z := {nstates}.
(* iv = int(value): None if int() raises ValueError; result None = the exception escapes the parser *)
Definition parse_imin_gen (iv : option Z) : option bool := {guard(g_imin, imin_ok)}.
Definition parse_imax_gen (empty : bool) (iv : option Z) : option bool := if empty then Some true else {guard(g_imax, imax_ok)}.
Definition istop_values_gen : list string := [{"; ".join('"%s"' % x for x in stops)}].''')


# ------------------------------------------------------------------------------------------------ representation strings
REP_CLASSES = [  # (file, class, generated name, parameters of the generated function, {source expression: Coq pieces})
    ('telingo/theory/body.py', 'Atom', 'rep_atom_gen', '(positive : bool) (name args : rtok)',
     {"'' if positive else '-'": '[RL (if positive then "" else "-")]', 'name': '[name]', "','.join([str(a) for a in arguments])": '[args]'}),
    ('telingo/theory/body.py', 'BooleanConstant', 'rep_constant_gen', '(value : bool)', {}),
    ('telingo/theory/body.py', 'Negation', 'rep_negation_gen', '(arg : list rtok)', {'arg._rep': 'arg'}),
    ('telingo/theory/body.py', 'BooleanFormula', 'rep_boolean_gen', '(operator : string) (lhs rhs : list rtok)', {'lhs._rep': 'lhs', 'rhs._rep': 'rhs', 'operator': '[RL operator]'}),
    ('telingo/theory/body.py', 'Previous', 'rep_previous_gen', '(n : nat) (weak : bool) (arg : list rtok)', {'n': '[RN n]', "'<:' if weak else '<'": '[RL (if weak then "<:" else "<")]', 'arg._rep': 'arg'}),
    ('telingo/theory/body.py', 'Initially', 'rep_initially_gen', '(arg : list rtok)', {'arg._rep': 'arg'}),
    ('telingo/theory/body.py', 'Next', 'rep_next_gen', '(n : nat) (weak : bool) (arg : list rtok)', {'n': '[RN n]', "'>:' if weak else '>'": '[RL (if weak then ">:" else ">")]', 'arg._rep': 'arg'}),
    ('telingo/theory/body.py', 'TelFormulaP', 'rep_telp_gen', '(op : string) (lhs : option (list rtok)) (rhs : list rtok)',
     {"'' if lhs is None else lhs._rep": '(match lhs with None => [RL ""] | Some l => l end)', 'op': '[RL op]', 'rhs._rep': 'rhs'}),
    ('telingo/theory/body.py', 'TelFormulaN', 'rep_teln_gen', '(op : string) (lhs : option (list rtok)) (rhs : list rtok)',
     {"'' if lhs is None else lhs._rep": '(match lhs with None => [RL ""] | Some l => l end)', 'op': '[RL op]', 'rhs._rep': 'rhs'}),
    ('telingo/theory/body.py', 'DiamondFormula', 'rep_diamond_gen', '(path rhs : list rtok)', {'path._rep': 'path', 'rhs._rep': 'rhs'}),
    ('telingo/theory/body.py', 'BoxFormula', 'rep_box_gen', '(path rhs : list rtok)', {'path._rep': 'path', 'rhs._rep': 'rhs'}),
    ('telingo/theory/path.py', 'SkipPath', 'rep_skip_gen', '', {}),
    ('telingo/theory/path.py', 'ChoicePath', 'rep_choice_gen', '(lhs rhs : list rtok)', {'lhs._rep': 'lhs', 'rhs._rep': 'rhs'}),
    ('telingo/theory/path.py', 'SequencePath', 'rep_sequence_gen', '(lhs rhs : list rtok)', {'lhs._rep': 'lhs', 'rhs._rep': 'rhs'}),
    ('telingo/theory/path.py', 'CheckPath', 'rep_check_gen', '(arg : list rtok)', {'arg._rep': 'arg'}),
    ('telingo/theory/path.py', 'KleeneStarPath', 'rep_star_gen', '(arg : list rtok)', {'arg._rep': 'arg'}),
]


def gen_reps(out):
    """the unique representation string every formula / path class hands to its base class (the key of the formula table of Theory and of the per-step
    data): the format string cut at its slots, every slot filled with what the source fills it with.  A literal piece is ONE token, so is a number, a
    name, an argument list: the generated functions build the representation as a list of tokens (see Model/Reps.v for what that abstracts from)"""
    trees = {}
    out.append('(* ---- theory/body.py, theory/path.py: the representation strings (_rep) of the formula and path classes ---- *)')
    for rel, cls, gname, params, slots in REP_CLASSES:
        tree = trees.setdefault(rel, parse(rel))
        init = find_fun(tree, '__init__', cls)
        # the representation: the first argument after self of the call of the base class initialiser; a local `rep` is looked up
        local = {ast.unparse(x.targets[0]): x.value for x in init.body if isinstance(x, ast.Assign) and len(x.targets) == 1}
        calls = [x.value for x in init.body if isinstance(x, ast.Expr) and isinstance(x.value, ast.Call) and isinstance(x.value.func, ast.Attribute) and x.value.func.attr == '__init__']
        if len(calls) != 1 or len(calls[0].args) < 2 or ast.unparse(calls[0].args[0]) != 'self':
            raise Unsupported('%s.__init__: call of the base class initialiser' % cls)
        e = calls[0].args[1]
        if isinstance(e, ast.Name):
            if e.id not in local:
                raise Unsupported('%s.__init__: representation %s' % (cls, e.id))
            e = local[e.id]

        def pieces(e):
            if isinstance(e, ast.Constant) and isinstance(e.value, str):
                return '[RL %s]' % coq_str(e.value)
            if isinstance(e, ast.IfExp) and ast.unparse(e.test) == 'value' and 'value' in params:
                return '(if value then %s else %s)' % (pieces(e.body), pieces(e.orelse))
            if isinstance(e, ast.Call) and isinstance(e.func, ast.Attribute) and e.func.attr == 'format' and isinstance(e.func.value, ast.Constant) and isinstance(e.func.value.value, str) and not e.keywords:
                lits = e.func.value.value.split('{}')
                if len(lits) != len(e.args) + 1:
                    raise Unsupported('%s: format string %s' % (cls, ast.unparse(e)))
                parts = ['[RL %s]' % coq_str(lits[0])] if lits[0] else []
                for a, l in zip(e.args, lits[1:]):
                    u = ast.unparse(a)
                    if u in slots:
                        parts.append(slots[u])
                    elif isinstance(a, ast.Constant) and isinstance(a.value, str):
                        parts.append('[RL %s]' % coq_str(a.value))
                    else:
                        raise Unsupported('%s: slot %s of the representation' % (cls, u))
                    if l:
                        parts.append('[RL %s]' % coq_str(l))
                return '(' + ' ++ '.join(parts) + ')%list'
            raise Unsupported('%s: representation %s' % (cls, ast.unparse(e)))
        out.append('Definition %s %s : list rtok := %s.' % (gname, params, pieces(e)))


def gen_head_reps(out):
    """theory/head.py: FormulaToStr - the representation string of head formulas (the key of Theory.add_formula for them), method by method; the
    statements of every method are read as text (fail closed) and the format strings cut at their slots as for the body classes"""
    tree = parse('telingo/theory/head.py')

    def body(name):
        f = find_fun(tree, name, 'FormulaToStr')
        return [ast.unparse(x) for x in f.body if not (isinstance(x, ast.Expr) and isinstance(x.value, ast.Constant))]

    def const(src, pat):
        m = re.fullmatch(pat, src)
        if not m:
            raise Unsupported('FormulaToStr: %s does not have the shape %s' % (src, pat))
        return [coq_str(ast.literal_eval(g)) for g in m.groups()]
    Q = r"('(?:[^'\\]|\\.)*')"
    out.append('(* ---- theory/head.py: FormulaToStr (representation strings of head formulas) ---- *)')
    b = body('visit_TelAtom')
    if len(b) != 3:
        raise Unsupported('FormulaToStr.visit_TelAtom')
    e0, lp, sep, rp = const(b[0], r"args = %s if len\(x\.arguments\) == 0 else '(\(){}(\))'\.format\(%s\.join\(map\(str, x\.arguments\)\)\)" % (Q, Q)) if False else (None, None, None, None)
    m = re.fullmatch(r"args = %s if len\(x\.arguments\) == 0 else %s\.format\(%s\.join\(map\(str, x\.arguments\)\)\)" % (Q, Q, Q), b[0])
    if not m:
        raise Unsupported('FormulaToStr.visit_TelAtom: ' + b[0])
    empty, fmt, sep = [ast.literal_eval(g) for g in m.groups()]
    if fmt.count('{}') != 1:
        raise Unsupported('FormulaToStr.visit_TelAtom: ' + fmt)
    l, r = fmt.split('{}')
    pos, neg = const(b[1], r"sign = %s if x\.positive else %s" % (Q, Q))
    if b[2] != "return '{}{}{}'.format(sign, x.name, args)":
        raise Unsupported('FormulaToStr.visit_TelAtom: ' + b[2])
    out.append('Definition hrep_atom_gen (positive : bool) (name : rtok) (args : option rtok) : list rtok := ([RL (if positive then %s else %s)] ++ [name] ++ match args with None => [RL %s] | Some a => [RL %s; a; RL %s] end)%%list.' % (pos, neg, coq_str(empty), coq_str(l), coq_str(r)))
    out.append('Definition hrep_args_separator_gen : string := %s.' % coq_str(sep))
    b = body('visit_TelNext')
    w, st = const(b[0], r"op = %s if x\.weak else %s" % (Q, Q))
    if len(b) != 2 or b[1] != "return '({}{}{})'.format(x.lhs, op, self(x.rhs))":
        raise Unsupported('FormulaToStr.visit_TelNext')
    out.append('Definition hrep_next_gen (n : nat) (weak : bool) (rhs : list rtok) : list rtok := ([RL "("] ++ [RN n] ++ [RL (if weak then %s else %s)] ++ rhs ++ [RL ")"])%%list.' % (w, st))
    b = body('visit_TelUntil')
    u, rl = const(b[0], r"op = %s if x\.until else %s" % (Q, Q))
    (el,) = const(b[1], r"lhs = %s if x\.lhs is None else self\(x\.lhs\)" % Q)
    if len(b) != 3 or b[2] != "return '({}{}{})'.format(lhs, op, self(x.rhs))":
        raise Unsupported('FormulaToStr.visit_TelUntil')
    out.append('Definition hrep_until_gen (until : bool) (lhs : option (list rtok)) (rhs : list rtok) : list rtok := ([RL "("] ++ match lhs with None => [RL %s] | Some l => l end ++ [RL (if until then %s else %s)] ++ rhs ++ [RL ")"])%%list.' % (el, u, rl))
    b = body('visit_TelClause')
    if len(b) != 3 or b[0] != 'if len(x.elements) == 1:\n    return self(x.elements[0])' or b[2] != "return '({})'.format(op.join(map(self, x.elements)))":
        raise Unsupported('FormulaToStr.visit_TelClause')
    ca, co = const(b[1], r"op = %s if x\.conjunctive else %s" % (Q, Q))
    out.append('(* a clause with one element prints as the element; with two elements: *)\nDefinition hrep_clause2_gen (conjunctive : bool) (x y : list rtok) : list rtok := ([RL "("] ++ x ++ [RL (if conjunctive then %s else %s)] ++ y ++ [RL ")"])%%list.' % (ca, co))
    b = body('visit_TelNegation')
    if b != ["return '(~{})'.format(self(x.rhs))"]:
        raise Unsupported('FormulaToStr.visit_TelNegation')
    out.append('Definition hrep_negation_gen (rhs : list rtok) : list rtok := ([RL "(~"] ++ rhs ++ [RL ")"])%list.')
    b = body('visit_TelConstant')
    if len(b) != 1:
        raise Unsupported('FormulaToStr.visit_TelConstant')
    t, f = const(b[0], r"return %s if x\.value else %s" % (Q, Q))
    out.append('Definition hrep_constant_gen (value : bool) : list rtok := [RL (if value then %s else %s)].' % (t, f))
    # the separator of the arguments in the representation of body atoms
    at = find_fun(parse('telingo/theory/body.py'), '__init__', 'Atom')
    m = re.search(r"%s\.join\(\[str\(a\) for a in arguments\]\)" % Q, ast.unparse(at))
    if not m:
        raise Unsupported('Atom.__init__: separator of the arguments')
    out.append('Definition rep_args_separator_gen : string := %s.' % coq_str(ast.literal_eval(m.group(1))))


def gen_show(out):
    """transformers/program.py: visit_ShowSignature / visit_ProjectSignature"""
    out.append('(* ---- transformers/program.py: #show / #project signatures ---- *)')
    # #show p/n. and #project p/n.: the arity counts the time stamp - for both classical signs (the statement is `sig.arity += <k>` and nothing else)
    for name, gname in (('visit_ShowSignature', 'show_arity_gen'), ('visit_ProjectSignature', 'project_arity_gen')):
        fn = find_fun(parse('telingo/transformers/program.py'), name, 'ProgramTransformer')
        b = [x for x in fn.body if not (isinstance(x, ast.Expr) and isinstance(x.value, ast.Constant))]
        if not (len(b) == 2 and isinstance(b[0], ast.AugAssign) and isinstance(b[0].op, ast.Add) and ast.unparse(b[0].target) == 'sig.arity' and isinstance(b[0].value, ast.Constant)
                and isinstance(b[0].value.value, int) and b[0].value.value >= 0 and ast.unparse(b[1]) == 'return sig'):
            raise Unsupported('%s: %s' % (name, ' / '.join(ast.unparse(x) for x in b)))
        out.append('Definition %s (arity : nat) : nat := arity + %d.' % (gname, b[0].value.value))


# ------------------------------------------------------------------------------------------------ #program directives
def gen_parts(out):
    """transformers/program.py: ProgramTransformer.visit_Program - straight-line code over prg.name / self.__final / self.__part with one-armed
    ifs, translated into a chain of lets (as for str_location); result: the name the directive is rewritten to, the final flag, the part in force"""
    fn = find_fun(parse('telingo/transformers/program.py'), 'visit_Program', 'ProgramTransformer')
    body = [x for x in fn.body if not (isinstance(x, ast.Expr) and isinstance(x.value, ast.Constant))]
    var = {'prg.name': ('name', 'str'), 'self.__final': ('final', 'bool'), 'self.__part': ('part', 'str')}
    ver = {'name': 0, 'final': 0, 'part': 0}       # version 0 = the value on entry (arguments of the generated function)
    lets = []

    def cur(v):
        return v if ver[v] == 0 else '%s%d' % (v, ver[v])

    def sval(e):
        if isinstance(e, ast.Constant) and isinstance(e.value, str):
            return coq_str(e.value)
        u = ast.unparse(e)
        if u in var and var[u][1] == 'str':
            return cur(var[u][0])
        raise Unsupported('visit_Program: string expression ' + u)

    def bval(e):
        u = ast.unparse(e)
        if u in var and var[u][1] == 'bool':
            return cur(var[u][0])
        if isinstance(e, ast.Constant) and isinstance(e.value, bool):
            return 'true' if e.value else 'false'
        if isinstance(e, ast.UnaryOp) and isinstance(e.op, ast.Not):
            return '(negb %s)' % bval(e.operand)
        if isinstance(e, ast.BoolOp):
            return '(' + (' && ' if isinstance(e.op, ast.And) else ' || ').join(bval(x) for x in e.values) + ')'
        if isinstance(e, ast.Compare) and len(e.ops) == 1 and isinstance(e.ops[0], (ast.Eq, ast.NotEq)):
            r = '(String.eqb %s %s)' % (sval(e.left), sval(e.comparators[0]))
            return r if isinstance(e.ops[0], ast.Eq) else '(negb %s)' % r
        raise Unsupported('visit_Program: condition ' + u)

    def assign(st, guard=None):
        if not (isinstance(st, ast.Assign) and len(st.targets) == 1 and ast.unparse(st.targets[0]) in var):
            raise Unsupported('visit_Program: statement ' + ast.unparse(st))
        v, t = var[ast.unparse(st.targets[0])]
        val = bval(st.value) if t == 'bool' else sval(st.value)
        if guard is not None:
            val = '(if %s then %s else %s)' % (guard, val, cur(v))
        ver[v] += 1
        lets.append('let %s := %s in' % (cur(v), val))

    appends = []
    if not (isinstance(body[-1], ast.Return) and ast.unparse(body[-1].value) == 'prg'):
        raise Unsupported('visit_Program: final return')
    for st in body[:-1]:
        u = ast.unparse(st)
        if u.startswith('prg.parameters.append('):
            appends.append(u)
        elif isinstance(st, ast.If):
            if st.orelse:
                raise Unsupported('visit_Program: if with else')
            g = bval(st.test)
            for x in st.body:
                assign(x, g)
        else:
            assign(st)
    if appends != ['prg.parameters.append(_ast.Id(prg.location, _tf.g_time_parameter_name))', 'prg.parameters.append(_ast.Id(prg.location, _tf.g_time_parameter_name_alt))']:
        raise Unsupported('visit_Program: parameters ' + repr(appends))
    out.append('(* ---- transformers/program.py: ProgramTransformer.visit_Program ---- *)\n'
               'Definition visit_program_gen (name : string) (final : bool) (part : string) : string * bool * string :=\n  ' + '\n  '.join(lets) + '\n  (%s, %s, %s).' % (cur('name'), cur('final'), cur('part')))
    # the part in force before the first directive is seen (ProgramTransformer.__init__)
    init = find_fun(parse('telingo/transformers/program.py'), '__init__', 'ProgramTransformer')
    ini = {ast.unparse(x.targets[0]): x.value for x in init.body if isinstance(x, ast.Assign) and len(x.targets) == 1}
    if 'self.__final' not in ini or 'self.__part' in ini:
        raise Unsupported('ProgramTransformer.__init__: __final is set there, __part is not (it exists only after the first directive)')
    out.append('(* ProgramTransformer.__init__: the final flag before the first directive (there is no part before the first directive) *)\nDefinition initial_final_gen : bool := %s.' % bval(ini['self.__final']))


# ------------------------------------------------------------------------------------------------ str_location
def gen_loc(out):
    """transformers/transformer.py: str_location - straight-line code over the flags ret / dash / eq with one-armed ifs, translated statement by
    statement into a chain of lets (every assigned variable gets a new version; an `if` without else selects between the new and the old version)"""
    fn = find_fun(parse('telingo/transformers/transformer.py'), 'str_location')
    body = [x for x in fn.body if not (isinstance(x, ast.Expr) and isinstance(x.value, ast.Constant))]
    pos = {'begin.filename': ('bf', 'file'), 'begin.line': ('bl', 'num'), 'begin.column': ('bc', 'num'), 'end.filename': ('ef', 'file'), 'end.line': ('el', 'num'), 'end.column': ('ec', 'num')}
    ver, typ, lets = {}, {}, []

    def cur(v):
        if v not in ver:
            raise Unsupported('str_location: %s used before assignment' % v)
        return v if ver[v] == 0 else '%s%d' % (v, ver[v])

    def fresh(v, t):
        ver[v] = ver.get(v, -1) + 1
        typ[v] = t
        return cur(v)

    def lit(txt):
        toks = []
        for ch in txt:
            if ch == ':':
                toks.append('LColon')
            elif ch == '-':
                toks.append('LDash')
            else:
                raise Unsupported('str_location: literal text %r' % txt)
        return toks

    def bexp(e):
        if isinstance(e, ast.Constant) and isinstance(e.value, bool):
            return 'true' if e.value else 'false'
        if isinstance(e, ast.Name) and typ.get(e.id) == 'bool':
            return cur(e.id)
        if isinstance(e, ast.UnaryOp) and isinstance(e.op, ast.Not):
            return '(negb %s)' % bexp(e.operand)
        if isinstance(e, ast.BoolOp):
            return '(' + (' && ' if isinstance(e.op, ast.And) else ' || ').join(bexp(x) for x in e.values) + ')'
        if isinstance(e, ast.Compare) and len(e.ops) == 1:
            a, b = ast.unparse(e.left), ast.unparse(e.comparators[0])
            if a in pos and b in pos and pos[a][1] == pos[b][1]:
                op = {ast.Eq: 'Nat.eqb %s %s', ast.NotEq: 'negb (Nat.eqb %s %s)', ast.LtE: 'Nat.leb %s %s', ast.Lt: 'Nat.ltb %s %s', ast.GtE: 'Nat.leb %s %s', ast.Gt: 'Nat.ltb %s %s'}.get(type(e.ops[0]))
                if op is None:
                    raise Unsupported('str_location: comparison ' + ast.unparse(e))
                x, y = pos[a][0], pos[b][0]
                if isinstance(e.ops[0], (ast.GtE, ast.Gt)):
                    x, y = y, x
                return '(' + op % (x, y) + ')'
        raise Unsupported('str_location: condition ' + ast.unparse(e))

    def arg(e):
        u = ast.unparse(e)
        if u in pos:
            return ['(%s %s)' % ('LFile' if pos[u][1] == 'file' else 'LNum', pos[u][0])]
        if isinstance(e, ast.IfExp) and all(isinstance(x, ast.Constant) and isinstance(x.value, str) and len(x.value) == 1 for x in (e.body, e.orelse)):
            return ['(if %s then %s else %s)' % (bexp(e.test), lit(e.body.value)[0], lit(e.orelse.value)[0])]
        raise Unsupported('str_location: format argument ' + u)

    def sexp(e):
        """string expression -> list of tokens (Coq list text)"""
        if isinstance(e, ast.Call) and isinstance(e.func, ast.Attribute) and e.func.attr == 'format' and isinstance(e.func.value, ast.Constant) and isinstance(e.func.value.value, str) and not e.keywords:
            pieces = e.func.value.value.split('{}')
            if len(pieces) != len(e.args) + 1:
                raise Unsupported('str_location: format string ' + ast.unparse(e))
            toks = lit(pieces[0])
            for a, p_ in zip(e.args, pieces[1:]):
                toks += arg(a) + lit(p_)
            return '[' + '; '.join(toks) + ']'
        if isinstance(e, ast.Name) and typ.get(e.id) == 'str':
            return cur(e.id)
        raise Unsupported('str_location: string expression ' + ast.unparse(e))

    def assign(st, guard=None):
        if isinstance(st, ast.Assign) and len(st.targets) == 1 and isinstance(st.targets[0], ast.Name):
            v = st.targets[0].id
            if ast.unparse(st.value) in ('loc.begin', 'loc.end') and v in ('begin', 'end') and guard is None:
                if ast.unparse(st.value) != 'loc.' + v:
                    raise Unsupported('str_location: ' + ast.unparse(st))
                return
            try:
                val, t = bexp(st.value), 'bool'
            except Unsupported:
                val, t = sexp(st.value), 'str'
        elif isinstance(st, ast.AugAssign) and isinstance(st.op, ast.Add) and isinstance(st.target, ast.Name) and typ.get(st.target.id) == 'str':
            v, t = st.target.id, 'str'
            val = '(%s ++ %s)%%list' % (cur(v), sexp(st.value))
        else:
            raise Unsupported('str_location: statement ' + ast.unparse(st))
        if guard is not None:
            if v not in ver or typ[v] != t:
                raise Unsupported('str_location: %s first assigned under a condition' % v)
            val = '(if %s then %s else %s)' % (guard, val, cur(v))
        lets.append('let %s := %s in' % (fresh(v, t), val))

    if not isinstance(body[-1], ast.Return):
        raise Unsupported('str_location: no final return')
    for st in body[:-1]:
        if isinstance(st, ast.If):
            if st.orelse:
                raise Unsupported('str_location: if with else')
            g = bexp(st.test)
            for x in st.body:
                assign(x, g)
        else:
            assign(st)
    out.append('(* ---- transformers/transformer.py: str_location ---- *)\nDefinition str_location_gen (bf bl bc ef el ec : nat) : list ltok :=\n  ' + '\n  '.join(lets) + '\n  ' + sexp(body[-1].value) + '.')


# ------------------------------------------------------------------------------------------------ operator tables
def coq_str(x):
    return '"' + x.replace('"', '""') + '"'


def parse_theory_text(txt):
    """`#theory name { table { op : prio, unary|binary[, left|right]; ... }; &atom/arity : table, kind ... }.` -> (name, {table: entries}, [atom decls])"""
    txt = re.sub(r'%[^\n]*', '', txt)
    m = re.match(r'\s*#theory\s+(\w+)\s*\{(.*)\}\s*\.\s*$', txt, re.S)
    if not m:
        raise Unsupported('theory text shape')
    name, body = m.group(1), m.group(2)
    tables, decls = {}, []
    pos = 0
    for tm in re.finditer(r'(\w+)\s*\{(.*?)\}\s*;', body, re.S):
        ents = []
        for item in tm.group(2).split('\n'):
            item = item.strip()
            if not item:
                continue
            im = re.match(r'^(\S+)\s*:\s*(\d+)\s*,\s*(unary|binary)(?:\s*,\s*(left|right))?\s*;?$', item)
            if not im:
                raise Unsupported('table entry: ' + item)
            op, prio, ar, assoc = im.groups()
            if (ar == 'unary') != (assoc is None):
                raise Unsupported('table entry arity/assoc: ' + item)
            ents.append((op, ar == 'unary', int(prio), assoc))
        tables[tm.group(1)] = ents
        pos = tm.end()
    for item in body[pos:].split(';'):
        item = item.strip()
        if item:
            im = re.match(r'^&(\w+)/(\d+)\s*:\s*(\w+)\s*,\s*(\w+)$', item)
            if not im:
                raise Unsupported('theory atom declaration: ' + item)
            decls.append(im.groups())
    return name, tables, decls


def table_coq(ents):
    return '[' + '; '.join('(%s, %s, %d, %s)' % (coq_str(o), 'true' if u else 'false', p, {'left': 'ALeft', 'right': 'ARight', None: 'ANone'}[a]) for o, u, p, a in ents) + ']'


def gen_tables(out):
    tree = parse('telingo/transformers/__init__.py')
    tf = find_fun(tree, 'transform')
    texts = []
    for n in ast.walk(tf):
        if isinstance(n, ast.Call) and ast.unparse(n.func) == '_ast.parse_string' and n.args and isinstance(n.args[0], ast.Call) and ast.unparse(n.args[0].func) == '_dedent':
            c = n.args[0].args[0]
            if not (isinstance(c, ast.Constant) and isinstance(c.value, str)):
                raise Unsupported('theory text argument')
            texts.append(c.value)
    th = {}
    for t in texts:
        name, tables, decls = parse_theory_text(t)
        th[name] = (tables, decls)
    if set(th) != {'tel', 'del'}:
        raise Unsupported('theories: ' + repr(sorted(th)))
    tel_t, tel_d = th['tel']
    del_t, del_d = th['del']
    if set(tel_t) != {'formula_body', 'formula_head'} or set(del_t) != {'formula_body'}:
        raise Unsupported('theory tables')
    # Python table of the head parser
    tree = parse('telingo/transformers/head.py')
    cls = [n for n in ast.walk(tree) if isinstance(n, ast.ClassDef) and n.name == 'TheoryParser'][0]
    consts = {}
    tab = None
    for st in cls.body:
        if isinstance(st, ast.Assign) and isinstance(st.targets[0], ast.Tuple) and isinstance(st.value, ast.Tuple):
            for t, v in zip(st.targets[0].elts, st.value.elts):
                consts[t.id] = v.value
        if isinstance(st, ast.Assign) and ast.unparse(st.targets[0]) == 'table':
            tab = st.value
    if tab is None or not isinstance(tab, ast.Dict) or set(consts) != {'unary', 'binary', 'left', 'right'} or consts['unary'] is not True or consts['binary'] is not False \
            or consts['left'] is not True or consts['right'] is not False:
        raise Unsupported('TheoryParser constants/table')
    py = []
    for k, v in zip(tab.keys, tab.values):
        if not (isinstance(k, ast.Tuple) and isinstance(k.elts[0], ast.Constant) and isinstance(k.elts[1], ast.Name) and isinstance(v, ast.Tuple) and isinstance(v.elts[0], ast.Constant)):
            raise Unsupported('TheoryParser.table entry')
        un = consts[k.elts[1].id]
        a = v.elts[1]
        assoc = None if (isinstance(a, ast.Constant) and a.value is None) else ('left' if consts[a.id] else 'right')
        if un != (assoc is None):
            raise Unsupported('TheoryParser.table arity/assoc')
        py.append((k.elts[0].value, un, v.elts[0].value, assoc))
    # __check: previous_priority > priority or (previous_priority == priority and associativity)
    chk = find_fun(tree, '__check', 'TheoryParser')
    ret = [x for x in chk.body if isinstance(x, ast.Return)][-1]
    cc = Ctx({'prev': 'nat', 'prio': 'nat', 'assoc_left': 'bool'}, subst={'previous_priority': 'prev', 'priority': 'prio', 'associativity': 'assoc_left'})
    check = boolx(cc, ret.value)
    # keyword list and operator sets
    kw = None
    for st in tree.body:
        if isinstance(st, ast.Assign) and ast.unparse(st.targets[0]) == 'g_tel_keywords':
            kw = [e.value for e in st.value.elts]
    tree = parse('telingo/theory/formula.py')
    sets = {}
    for st in tree.body:
        if isinstance(st, ast.Assign) and isinstance(st.value, ast.Set):
            sets[ast.unparse(st.targets[0])] = sorted(e.value for e in st.value.elts)
    need = ['g_binary_operators', 'g_unary_operators', 'g_arithmetic_operators', 'g_tel_operators', 'g_del_operators', 'g_path_unary_operators', 'g_path_binary_operators']
    if kw is None or any(n not in sets for n in need):
        raise Unsupported('operator sets')
    lines = ['(* ---- operator tables: #theory texts in transformers/__init__.py, TheoryParser.table in transformers/head.py, operator sets in theory/formula.py ---- *)',
             'Inductive assoc := ALeft | ARight | ANone.',
             'Definition tentry := (string * bool * nat * assoc)%type.    (* operator, unary?, priority, associativity *)',
             'Definition tel_body_table_gen : list tentry := %s.' % table_coq(tel_t['formula_body']),
             'Definition tel_head_table_gen : list tentry := %s.' % table_coq(tel_t['formula_head']),
             'Definition del_table_gen : list tentry := %s.' % table_coq(del_t['formula_body']),
             'Definition py_head_table_gen : list tentry := %s.' % table_coq(py),
             'Definition theory_atoms_gen : list (string * nat * string * string) := [%s].' % '; '.join(
                 '(%s, %s, %s, %s)' % (coq_str(a), n, coq_str(t), coq_str(k)) for a, n, t, k in tel_d + del_d),
             'Definition parser_check_gen (prev prio : nat) (assoc_left : bool) : option bool := %s.' % check,
             'Definition tel_keywords_gen : list string := [%s].' % '; '.join(coq_str(x) for x in kw)]
    for n in need:
        lines.append('Definition %s_gen : list string := [%s].' % (n, '; '.join(coq_str(x) for x in sets[n])))
    out.append('\n'.join(lines))


# ------------------------------------------------------------------------------------------------ theory: clause tables and guards
def neg_l(l):
    return ('v', l[1], not l[2])


class ClauseExec:
    """symbolic executor for the straight-line clause emission (tuple assignments, unary minus, if/elif on the operator
    string and on `lhs is not None`, backend.add_rule([], [...]), calls of make_equal / make_disjunction)"""

    def __init__(self, env, consts, ftree):
        self.env, self.consts, self.out, self.ftree = dict(env), consts, [], ftree

    def lit(self, e):
        if isinstance(e, ast.Name):
            if e.id not in self.env or self.env[e.id] is None:
                raise Unsupported('unbound literal ' + e.id)
            return self.env[e.id]
        if isinstance(e, ast.UnaryOp) and isinstance(e.op, ast.USub):
            return neg_l(self.lit(e.operand))
        raise Unsupported('literal ' + ast.dump(e))

    def cond(self, e):
        if isinstance(e, ast.BoolOp):
            vs = [self.cond(v) for v in e.values]
            return all(vs) if isinstance(e.op, ast.And) else any(vs)
        if isinstance(e, ast.Compare) and len(e.ops) == 1:
            l, op, r = e.left, e.ops[0], e.comparators[0]
            if isinstance(op, (ast.Is, ast.IsNot)) and isinstance(r, ast.Constant) and r.value is None and isinstance(l, ast.Name):
                isnone = self.env.get(l.id) is None
                return isnone if isinstance(op, ast.Is) else not isnone
            if isinstance(op, (ast.Eq, ast.NotEq)) and isinstance(r, ast.Constant) and isinstance(r.value, str):
                key = ast.unparse(l)
                if key not in self.consts:
                    raise Unsupported('unknown constant ' + key)
                return (self.consts[key] == r.value) == isinstance(op, ast.Eq)
        raise Unsupported('condition ' + ast.dump(e))

    def run(self, stmts):
        for st in stmts:
            if isinstance(st, ast.Expr) and isinstance(st.value, ast.Constant):
                continue
            if isinstance(st, ast.If):
                self.run(st.body if self.cond(st.test) else st.orelse)
                continue
            if isinstance(st, ast.Assign) and len(st.targets) == 1:
                t = st.targets[0]
                if isinstance(t, ast.Tuple) and isinstance(st.value, ast.Tuple):
                    vals = [self.lit(v) for v in st.value.elts]
                    for n, v in zip(t.elts, vals):
                        self.env[n.id] = v
                    continue
                if isinstance(t, ast.Name):
                    self.env[t.id] = self.lit(st.value)
                    continue
            if isinstance(st, ast.Expr) and isinstance(st.value, ast.Call):
                c = st.value
                name = ast.unparse(c.func)
                if name.endswith('backend.add_rule'):
                    if not (isinstance(c.args[0], ast.List) and len(c.args[0].elts) == 0 and len(c.args) == 2):
                        raise Unsupported('add_rule shape')
                    self.out.append([self.lit(x) for x in c.args[1].elts])
                    continue
                if name in ('make_equal', 'make_disjunction'):
                    f = find_fun(self.ftree, name)
                    params = [a.arg for a in f.args.args][1:]
                    sub = ClauseExec(dict(zip(params, [self.lit(a) for a in c.args[1:]])), {}, self.ftree)
                    sub.run(f.body)
                    self.out += sub.out
                    continue
            raise Unsupported('clause statement ' + ast.dump(st)[:160])


def gcls(cs):
    return '[' + '; '.join('[' + '; '.join(('P ' if l[2] else 'N ') + l[1] for l in c) + ']' for c in cs) + ']'


def gen_theory(out):
    F = parse('telingo/theory/formula.py')
    B = parse('telingo/theory/body.py')
    V = lambda n: ('v', n, True)
    e = ClauseExec({'a': V('La'), 'b': V('Lb')}, {}, F)
    e.run(find_fun(F, 'make_equal').body)
    lines = ['(* ---- telingo/theory/formula.py, body.py: clause tables (each clause is the body of an integrity constraint) and guards ---- *)',
             'Definition make_equal_cl_gen : list (list slit) := %s.' % gcls(e.out)]
    e = ClauseExec({'e': V('Llit'), 'a': V('Llhs'), 'b': V('Lrhs')}, {}, F)
    e.run(find_fun(F, 'make_disjunction').body)
    lines.append('Definition make_disjunction_cl_gen : list (list slit) := %s.' % gcls(e.out))
    tr = find_fun(B, '_translate', 'TelFormula')
    binds = [st for st in tr.body if isinstance(st, ast.Assign) and isinstance(st.targets[0], ast.Name) and st.targets[0].id in ('lhs', 'rhs', 'lit')]
    want = {'lhs': 'None if self._lhs is None else self._lhs.translate(ctx, step)', 'rhs': 'self._rhs.translate(ctx, step)', 'lit': 'data.add_literal(ctx.backend)'}
    if {b.targets[0].id: ast.unparse(b.value) for b in binds} != want:
        raise Unsupported('_translate bindings')
    body = [st for st in tr.body if st not in binds]
    rows = []
    for op in ['<?', '<*', '>?', '>*']:
        for has in (True, False):
            e = ClauseExec({'lit': V('Llit'), 'rhs': V('Lrhs'), 'pre': V('Lpre'), 'lhs': V('Llhs') if has else None}, {'self._op': op}, F)
            e.run(body)
            rows.append((op, has, e.out))
    lines.append('Definition tel_clauses_gen (op : telop) (has_lhs : bool) : list (list slit) :=\n  match op, has_lhs with\n' + '\n'.join(
        '  | %s, %s => %s' % ({'<?': 'OpSince', '<*': 'OpTrigger', '>?': 'OpUntil', '>*': 'OpRelease'}[op], str(has).lower(), gcls(cs)) for op, has, cs in rows) + '\n  end.')
    bt = find_fun(B, 'do_translate', 'BooleanFormula')
    outer = [st for st in bt.body if isinstance(st, ast.If)]
    if len(outer) != 1 or ast.unparse(outer[0].test) != 'data.literal is None' or outer[0].orelse:
        raise Unsupported('BooleanFormula.do_translate guard')
    inner = outer[0].body
    binds = [st for st in inner if isinstance(st, ast.Assign) and isinstance(st.targets[0], ast.Name) and st.targets[0].id in ('lhs', 'rhs', 'lit')]
    want = {'lhs': 'self.__lhs.translate(ctx, step)', 'rhs': 'self.__rhs.translate(ctx, step)', 'lit': 'data.add_literal(ctx.backend)'}
    if {b.targets[0].id: ast.unparse(b.value) for b in binds} != want:
        raise Unsupported('BooleanFormula bindings')
    inner = [st for st in inner if st not in binds and not isinstance(st, ast.Assert)]
    rows = []
    for op in ['&', '|', '<-', '->', '<>']:
        e = ClauseExec({'lit': V('Llit'), 'lhs': V('Llhs'), 'rhs': V('Lrhs')}, {'self.__operator': op}, F)
        e.run(inner)
        rows.append((op, e.out))
    lines.append('Definition boolean_clauses_gen (op : boolop) : list (list slit) :=\n  match op with\n' + '\n'.join(
        '  | %s => %s' % ({'&': 'OpAnd', '|': 'OpOr', '<-': 'OpLImp', '->': 'OpRImp', '<>': 'OpEqv'}[op], gcls(cs)) for op, cs in rows) + '\n  end.')
    # numeric guards of Previous / Next / TelFormulaP
    c = Ctx({'step': 'nat', 'n': 'nat', 'horizon': 'nat', 'weak': 'bool'}, subst={'self.__n': 'n', 'ctx.horizon': 'horizon', 'self.__weak': 'weak'})
    pv = find_fun(B, 'do_translate', 'Previous')
    ifs = [x for x in ast.walk(pv) if isinstance(x, ast.If)]
    rng = [x for x in ifs if 'self.__arg.translate' in ast.unparse(x.body[0])]
    flip = [x for x in ifs if ast.unparse(x.body[0]) == 'data.literal = -data.literal']
    if len(rng) != 1 or len(flip) != 1 or ast.unparse(rng[0].body[0]) != 'data.literal = self.__arg.translate(ctx, step - self.__n)' or ast.unparse(rng[0].orelse[0]) != 'data.literal = ctx.false_literal' \
            or flip[0] not in rng[0].orelse:
        raise Unsupported('Previous.do_translate shape')
    lines.append('Definition prev_inside_gen (step n : nat) : option bool := %s.' % boolx(c, rng[0].test))
    lines.append('Definition prev_target_gen (step n : nat) : option Z := %s.' % num(c, rng[0].body[0].value.args[1]))
    lines.append('Definition prev_boundary_true_gen (step n : nat) (weak : bool) : option bool := %s.' % boolx(c, flip[0].test))
    nx = find_fun(B, 'do_translate', 'Next')
    top = [st for st in nx.body if isinstance(st, ast.If)]
    if len(top) != 1 or ast.unparse(top[0].test) != 'data.literal is None' or len(top[0].orelse) != 1 or ast.unparse(top[0].orelse[0].test) != 'not data.done':
        raise Unsupported('Next.do_translate shape')
    first = [st for st in top[0].body if isinstance(st, ast.If)]
    second = [st for st in top[0].orelse[0].body if isinstance(st, ast.If)]
    if len(first) != 1 or len(second) != 1 or ast.unparse(first[0].test) != ast.unparse(second[0].test):
        raise Unsupported('Next.do_translate guards')
    if ast.unparse(first[0].body[0]) != 'data.literal = self.__arg.translate(ctx, step + self.__n)' or ast.unparse(second[0].body[0]) != 'arg = self.__arg.translate(ctx, step + self.__n)':
        raise Unsupported('Next.do_translate targets')
    src1, src2 = [ast.unparse(x) for x in first[0].orelse], [ast.unparse(x) for x in second[0].body]
    need1 = ['data.literal = ctx.backend.add_atom()', 'ctx.backend.add_external(data.literal, true if self.__weak else false)', 'ctx.add_todo(self, step)', 'data.done = False']
    need2 = ['make_equal(ctx.backend, data.literal, arg)', 'ctx.backend.add_external(data.literal, _clingo.TruthValue.Free)', 'data.done = True']
    if any(x not in src1 for x in need1) or any(x not in src2 for x in need2) or [ast.unparse(x) for x in second[0].orelse] != ['ctx.add_todo(self, step)']:
        raise Unsupported('Next.do_translate placeholder protocol')
    tv = [st for st in first[0].orelse if isinstance(st, ast.Assign) and ast.unparse(st.targets[0]) in ('true', 'false')]
    tvs = {ast.unparse(st.targets[0]): ast.unparse(st.value) for st in tv}
    if "'_True'" not in tvs.get('true', '') or "'_False'" not in tvs.get('false', ''):
        raise Unsupported('Next.do_translate truth values')
    lines.append('Definition next_inside_gen (step n horizon : nat) : option bool := %s.' % boolx(c, first[0].test))
    lines.append('Definition next_target_gen (step n : nat) : option Z := %s.' % num(c, first[0].body[0].value.args[1]))
    lines.append('Definition next_placeholder_value_gen (weak : bool) : bool := if weak then true else false.')
    tp = find_fun(B, 'do_translate', 'TelFormulaP')
    ifs = [x for x in ast.walk(tp) if isinstance(x, ast.If) and 'step' in ast.unparse(x.test)]
    if len(ifs) != 1 or ast.unparse(ifs[0].body[0]) != 'data.literal = self._rhs.translate(ctx, step)' or ast.unparse(ifs[0].orelse[0]) != 'pre = self.translate(ctx, step - 1)' \
            or ast.unparse(ifs[0].orelse[1]) != 'self._translate(ctx, step, data, pre)':
        raise Unsupported('TelFormulaP.do_translate shape')
    lines.append('Definition telp_base_gen (step : nat) : option bool := %s.' % boolx(c, ifs[0].test))
    lines.append('Definition telp_pre_gen (step : nat) : option Z := %s.' % num(c, ifs[0].orelse[0].value.args[1]))
    tn = find_fun(B, 'do_translate', 'TelFormulaN')
    src = ast.unparse(tn)
    if 'fut = self.__future.translate(ctx, step)' not in src or 'self._translate(ctx, step, data, fut)' not in src:
        raise Unsupported('TelFormulaN.do_translate shape')
    # create_formula: which future formula a binary/unary until/release gets, and the sequence operators
    cf = ast.unparse(find_fun(B, 'create_formula'))
    for need in ["formula = add_formula(TelFormulaN('>*', lhs, rhs))\n                formula.set_future(add_formula(Next(formula, 1, True)))",
                 "formula = add_formula(TelFormulaN('>?', lhs, rhs))\n                formula.set_future(add_formula(Next(formula, 1, False)))"]:
        if need not in cf:
            raise Unsupported('create_formula until/release future: ' + need[:40])
    lines.append('Definition release_future_weak_gen : bool := true.')
    lines.append('Definition until_future_weak_gen : bool := false.')
    # Negation / BooleanConstant
    ng = ast.unparse(find_fun(B, 'do_translate', 'Negation'))
    bc = ast.unparse(find_fun(B, 'do_translate', 'BooleanConstant'))
    if 'data.literal = -self.__arg.translate(ctx, step)' not in ng or 'data.literal = -ctx.false_literal if self.__value else ctx.false_literal' not in bc:
        raise Unsupported('Negation / BooleanConstant shape')
    out.append('\n'.join(lines))


# ------------------------------------------------------------------------------------------------ dynamic layer: what DiamondFormula / BoxFormula build
BOOLOP = {'&': 'OpAnd', '|': 'OpOr', '<-': 'OpLImp', '->': 'OpRImp', '<>': 'OpEqv'}


class BuildExec:
    """symbolic executor for the formula constructions of the translate_XPath methods: local names bound to
    ctx.add_formula(...) results, constructor calls, and one final  self.add_atom(<formula>.translate(ctx, step), step)"""

    def __init__(self):
        self.env, self.result = {}, None

    def unwrap(self, e):
        while isinstance(e, ast.Call) and ast.unparse(e.func) in ('ctx.add_formula', 'add_formula') and len(e.args) == 1 and not e.keywords:
            e = e.args[0]
        return e

    def path(self, e):
        e = self.unwrap(e)
        src = ast.unparse(e)
        sel = {'self._path._lhs': 'PSelLhs', 'self._path._rhs': 'PSelRhs', 'self._path._arg': 'PSelArg', 'SkipPath()': 'PSkipC'}
        if src in sel:
            return sel[src]
        raise Unsupported('path expression ' + src)

    def fml(self, e):
        e = self.unwrap(e)
        src = ast.unparse(e)
        if src == 'self':
            return 'CSelf'
        if src == 'self._rhs':
            return 'CRhs'
        if src == 'self._path._arg':
            return 'CTest'
        if isinstance(e, ast.Name):
            if e.id not in self.env:
                raise Unsupported('unbound formula ' + e.id)
            return self.env[e.id]
        if isinstance(e, ast.Call) and isinstance(e.func, ast.Name) and not e.keywords:
            f, a = e.func.id, e.args
            if f in ('DiamondFormula', 'BoxFormula') and len(a) == 2:
                return '(%s %s %s)' % ('CDia' if f == 'DiamondFormula' else 'CBox', self.path(a[0]), self.fml(a[1]))
            if f == 'BooleanFormula' and len(a) == 3 and isinstance(a[0], ast.Constant) and a[0].value in BOOLOP:
                return '(CBool %s %s %s)' % (BOOLOP[a[0].value], self.fml(a[1]), self.fml(a[2]))
            if f == 'Negation' and len(a) == 1:
                return '(CNeg %s)' % self.fml(a[0])
            if f == 'Next' and len(a) == 3 and isinstance(a[1], ast.Constant) and isinstance(a[1].value, int) and a[1].value >= 0 \
                    and isinstance(a[2], ast.Constant) and isinstance(a[2].value, bool):
                return '(CNext %s %d %s)' % (self.fml(a[0]), a[1].value, 'true' if a[2].value else 'false')
            if f == 'BooleanConstant' and len(a) == 1 and isinstance(a[0], ast.Constant) and isinstance(a[0].value, bool):
                return '(CConst %s)' % ('true' if a[0].value else 'false')
        raise Unsupported('formula construction ' + src[:120])

    def run(self, stmts):
        for st in stmts:
            if isinstance(st, ast.Expr) and isinstance(st.value, ast.Constant):
                continue
            if self.result is not None:
                raise Unsupported('statement after add_atom')
            if isinstance(st, ast.Assign) and len(st.targets) == 1 and isinstance(st.targets[0], ast.Name):
                self.env[st.targets[0].id] = self.fml(st.value)
                continue
            if isinstance(st, ast.Expr) and isinstance(st.value, ast.Call) and ast.unparse(st.value.func) == 'self.add_atom' and len(st.value.args) == 2 \
                    and ast.unparse(st.value.args[1]) == 'step':
                t = st.value.args[0]
                if isinstance(t, ast.Call) and isinstance(t.func, ast.Attribute) and t.func.attr == 'translate' and [ast.unparse(x) for x in t.args] == ['ctx', 'step']:
                    self.result = self.fml(t.func.value)
                    continue
            raise Unsupported('construction statement ' + ast.unparse(st)[:160])
        if self.result is None:
            raise Unsupported('no add_atom')
        return self.result


def if_chain_returns(fn_src_tree, tests):
    """returns {constant: constructor name} for `if rep.name == "<c>": return add_formula(<Ctor>(...))` / else-assert chains"""
    out = {}
    for n in ast.walk(fn_src_tree):
        if isinstance(n, ast.If) and isinstance(n.test, ast.Compare) and ast.unparse(n.test.left) == 'rep.name' and isinstance(n.test.ops[0], ast.Eq) \
                and isinstance(n.test.comparators[0], ast.Constant) and n.test.comparators[0].value in tests:
            def ctor(stmts):
                for st in stmts:
                    if isinstance(st, ast.Return):
                        v = st.value
                        while isinstance(v, ast.Call) and ast.unparse(v.func) == 'add_formula':
                            v = v.args[0]
                        if isinstance(v, ast.Call) and isinstance(v.func, ast.Name):
                            return v.func.id, [ast.unparse(a) for a in v.args]
                raise Unsupported('no return of a constructor')
            out[n.test.comparators[0].value] = ctor(n.body)
            asserts = [st for st in n.orelse if isinstance(st, ast.Assert)]
            if asserts:
                m = re.match(r"rep\.name == '([^']+)'", ast.unparse(asserts[0].test))
                if m and m.group(1) in tests:
                    out[m.group(1)] = ctor(n.orelse)
    return out


def gen_dynamic(out):
    B = parse('telingo/theory/body.py')
    P = parse('telingo/theory/path.py')
    shapes = [('ChoicePath', 'ShChoice'), ('SequencePath', 'ShSeq'), ('CheckPath', 'ShCheck'), ('KleeneStarPath', 'ShStar'), ('SkipPath', 'ShSkip')]
    # the path classes exist with the attributes the constructions read
    pc = {n.name: n for n in ast.walk(P) if isinstance(n, ast.ClassDef)}
    for cname, _ in shapes:
        if cname not in pc:
            raise Unsupported('path class ' + cname)
    for cname, base in (('ChoicePath', 'BinaryPath'), ('SequencePath', 'BinaryPath'), ('CheckPath', 'UnaryPath'), ('KleeneStarPath', 'UnaryPath'), ('SkipPath', 'Path')):
        if [ast.unparse(b) for b in pc[cname].bases] != [base]:
            raise Unsupported('base class of ' + cname)
    bp = ast.unparse(find_fun(pc['BinaryPath'], '__init__'))
    if 'self._lhs = lhs' not in bp or 'self._rhs = rhs' not in bp:
        raise Unsupported('BinaryPath fields')
    up = ast.unparse(pc['UnaryPath'])
    if 'self.__arg = arg' not in up or 'return self.__arg' not in up:
        raise Unsupported('UnaryPath fields')
    lines = ['(* ---- telingo/theory/body.py: DiamondFormula / BoxFormula.translate_<PathClass>, create_path, create_dynamic_formula ---- *)']
    for cls, name in (('DiamondFormula', 'dia_reduce_gen'), ('BoxFormula', 'box_reduce_gen')):
        dt = find_fun(B, 'do_translate', cls)
        want = ["if data.literal is None:\n    attr = 'translate_' + self._path.__class__.__name__\n    data.add_literal(ctx.backend)\n    getattr(self, attr)(ctx, step, data)"]
        if [ast.unparse(st) for st in dt.body if not (isinstance(st, ast.Expr) and isinstance(st.value, ast.Constant))] != want:
            raise Unsupported(cls + '.do_translate shape')
        ini = ast.unparse(find_fun(B, '__init__', cls))
        if ("DelFormula.__init__(self, rep, '<>', path, rhs)" if cls == 'DiamondFormula' else "DelFormula.__init__(self, rep, '[]', path, rhs)") not in ini:
            raise Unsupported(cls + '.__init__ shape')
        rows = []
        for cname, sh in shapes:
            m = find_fun(B, 'translate_' + cname, cls)
            if [a.arg for a in m.args.args] != ['self', 'ctx', 'step', 'data']:
                raise Unsupported('signature of ' + cls + '.translate_' + cname)
            rows.append('  | %s => %s' % (sh, BuildExec().run(m.body)))
        lines.append('Definition %s (s : pshape) : cexp :=\n  match s with\n%s\n  end.' % (name, '\n'.join(rows)))
    di = ast.unparse(find_fun(B, '__init__', 'DelFormula'))
    if 'self._path = path' not in di or 'self._rhs = rhs' not in di:
        raise Unsupported('DelFormula fields')
    # create_dynamic_formula: &final, and which class the two modal operators build
    cd = find_fun(B, 'create_dynamic_formula')
    fin = None
    for n in ast.walk(cd):
        if isinstance(n, ast.If) and ast.unparse(n.test) == "arg.name == 'final'":
            fin = n
    if fin is None or len(fin.body) != 1 or not isinstance(fin.body[0], ast.Return):
        raise Unsupported('create_dynamic_formula &final')
    lines.append('Definition del_final_gen : cexp := %s.' % BuildExec().fml(fin.body[0].value).strip())
    mod = if_chain_returns(cd, ('.>*', '.>?'))
    if set(mod) != {'.>*', '.>?'} or any(args != ['lhs', 'rhs'] for _, args in mod.values()):
        raise Unsupported('create_dynamic_formula modal operators')
    src = ast.unparse(cd)
    if 'lhs = create_path(args[0], add_formula, False)' not in src or 'rhs = create_dynamic_formula(args[1], add_formula)' not in src:
        raise Unsupported('create_dynamic_formula operands')
    M = {'BoxFormula': 'MBox', 'DiamondFormula': 'MDia'}
    lines.append('Definition del_modality_gen (op : string) : option modality := %s else None.' % ' else '.join(
        'if String.eqb op %s then Some %s' % (coq_str(o), M[mod[o][0]]) for o in ('.>*', '.>?')))
    cp = find_fun(B, 'create_path')
    binp = if_chain_returns(cp, ('+', ';;'))
    unp = if_chain_returns(cp, ('?', '*'))
    K = {'ChoicePath': 'PKChoice', 'SequencePath': 'PKSeq', 'CheckPath': 'PKCheck', 'KleeneStarPath': 'PKStar'}
    if set(binp) != {'+', ';;'} or any(args != ['lhs', 'rhs'] for _, args in binp.values()) or set(unp) != {'?', '*'} or any(args != ['arg'] for _, args in unp.values()):
        raise Unsupported('create_path operators')
    src = ast.unparse(cp)
    for need in ('lhs = create_path(args[0], add_formula, False)', 'rhs = create_path(args[1], add_formula, False)',
                 "if rep.name == '?':\n                arg = create_path(args[0], add_formula, True)", "assert rep.name == '*'\n                arg = create_path(args[0], add_formula, False)",
                 'return add_formula(SequencePath(add_formula(CheckPath(create_atom(rep, add_formula, True))), add_formula(SkipPath())))',
                 'return add_formula(SequencePath(add_formula(CheckPath(atom)), add_formula(SkipPath())))',
                 "if not check and arg.name == 'true':\n                    return add_formula(SkipPath())"):
        if need not in src:
            raise Unsupported('create_path shape: ' + need[:50])
    lines.append('Definition path_binary_gen (op : string) : option pcon := %s else None.' % ' else '.join(
        'if String.eqb op %s then Some %s' % (coq_str(o), K[binp[o][0]]) for o in ('+', ';;')))
    lines.append('Definition path_unary_gen (op : string) : option pcon := %s else None.' % ' else '.join(
        'if String.eqb op %s then Some %s' % (coq_str(o), K[unp[o][0]]) for o in ('?', '*')))
    lines.append('(* atoms used as paths are built as  (?atom) ;; skip  and &true as skip (checked textually against create_path) *)')
    lines.append('Definition path_atom_is_test_then_step_gen : bool := true.')
    out.append('\n'.join(lines))



# ------------------------------------------------------------------------------------------------ create_formula (theory/body.py): operator -> formula object
class Raised(Exception):
    pass


class FormExec:
    """symbolic executor of create_formula for ONE concrete (operator name, number of arguments): name tests and len(args) tests are
    decided, `lhs < 0` (count negative) is recorded as a rejection, `lhs == 0` becomes XIfZero; the result is the returned construction"""

    def __init__(self, name, nargs, sets, kwname=None):
        self.name, self.nargs, self.sets, self.kwname = name, nargs, sets, kwname
        self.env = {}
        self.neg_rejected = False
        self.tel = {}          # id -> [op, lhs, rhs, fut_weak]

    # --- values: ('f', gallina) formula, ('n', 'NOne'|'NArg') count, ('b', bool), ('s', str), ('none',), ('tel', id)
    def const_test(self, e):
        """decide a test that only depends on the operator name / the number of arguments / the keyword name"""
        if isinstance(e, ast.BoolOp):
            vs = [self.const_test(v) for v in e.values]
            return all(vs) if isinstance(e.op, ast.And) else any(vs)
        if isinstance(e, ast.Compare) and len(e.ops) == 1:
            l, op, r = ast.unparse(e.left), e.ops[0], e.comparators[0]
            if l in ('rep.name', 'arg.name') and isinstance(r, ast.Constant) and isinstance(r.value, str) and isinstance(op, (ast.Eq, ast.NotEq)):
                cur = self.name if l == 'rep.name' else self.kwname
                return (cur == r.value) == isinstance(op, ast.Eq)
            if l == 'rep.name' and isinstance(op, ast.In) and ast.unparse(r) in self.sets:
                return self.name in self.sets[ast.unparse(r)]
            if l == 'rep.name' and isinstance(op, ast.In) and isinstance(r, ast.Tuple) and all(isinstance(x, ast.Constant) for x in r.elts):
                return self.name in [x.value for x in r.elts]
            if l == 'len(args)' and isinstance(r, ast.Constant) and isinstance(op, ast.Eq):
                return self.nargs == r.value
            if l == 'rep.type' and isinstance(op, ast.Eq):
                return ast.unparse(r).endswith('.Function')
            if l == 'arg.type' and isinstance(op, ast.Eq):
                return ast.unparse(r).endswith('.Symbol')
        raise Unsupported('test ' + ast.unparse(e))

    def unwrap(self, e):
        while isinstance(e, ast.Call) and ast.unparse(e.func) == 'add_formula' and len(e.args) == 1:
            e = e.args[0]
        return e

    def val(self, e):
        e = self.unwrap(e)
        src = ast.unparse(e)
        if isinstance(e, ast.Constant):
            if e.value is None:
                return ('none',)
            if isinstance(e.value, bool):
                return ('b', e.value)
            if isinstance(e.value, int):
                if e.value != 1:
                    raise Unsupported('count constant ' + src)
                return ('n', 'NOne')
            if isinstance(e.value, str):
                return ('s', e.value)
        if isinstance(e, ast.Name):
            if e.id not in self.env:
                raise Unsupported('unbound ' + e.id)
            return self.env[e.id]
        if src == 'rep.name':
            return ('s', self.name)
        if isinstance(e, (ast.Compare, ast.BoolOp)):
            return ('b', self.const_test(e))
        if isinstance(e, ast.IfExp):
            t = ast.unparse(e.test)
            if t == 'lhs == 0':
                c = self.env.get('lhs')
                if c == ('n', 'NOne'):
                    return self.val(e.orelse)
                if c == ('n', 'NArg'):
                    return ('f', '(XIfZero %s %s)' % (self.fml(e.body), self.fml(e.orelse)))
                raise Unsupported('lhs == 0 on a non-count')
            return self.val(e.body if self.const_test(e.test) else e.orelse)
        if isinstance(e, ast.Call):
            f = ast.unparse(e.func)
            a = e.args
            if f == 'create_formula' and len(a) == 2 and ast.unparse(a[1]) == 'add_formula':
                m = re.match(r'args\[(-?\d+)\]$', ast.unparse(a[0]))
                if not m:
                    raise Unsupported('create_formula argument ' + src)
                i = int(m.group(1))
                if i == -1 or i == self.nargs - 1:
                    return ('f', 'XRhs')
                if i == 0 and self.nargs == 2:
                    return ('f', 'XLhs')
                raise Unsupported('argument index ' + src)
            if f == 'create_number' and ast.unparse(a[0]) == 'args[0]' and self.nargs == 2:
                return ('n', 'NArg')
            if f in ('Previous', 'Next') and len(a) == 3:
                n, w = self.val(a[1]), self.val(a[2])
                if n[0] != 'n' or w[0] != 'b':
                    raise Unsupported('prefix arguments ' + src)
                return ('f', '(%s %s %s %s)' % ('XPrev' if f == 'Previous' else 'XNext', self.fml(a[0]), n[1], 'true' if w[1] else 'false'))
            if f == 'BooleanFormula' and len(a) == 3:
                o = self.val(a[0])
                if o[0] != 's' or o[1] not in BOOLOP:
                    raise Unsupported('connective ' + src)
                return ('f', '(XBool %s %s %s)' % (BOOLOP[o[1]], self.fml(a[1]), self.fml(a[2])))
            if f == 'Negation' and len(a) == 1:
                return ('f', '(XNeg %s)' % self.fml(a[0]))
            if f == 'Initially' and len(a) == 1:
                return ('f', '(XInit %s)' % self.fml(a[0]))
            if f in ('TelFormulaP', 'TelFormulaN') and len(a) == 3:
                o = self.val(a[0])
                TOP = {'<?': 'OpSince', '<*': 'OpTrigger', '>?': 'OpUntil', '>*': 'OpRelease'}
                if o[0] != 's' or o[1] not in TOP or (o[1][0] == '<') != (f == 'TelFormulaP'):
                    raise Unsupported('temporal operator ' + src)
                l = self.val(a[1])
                lhs = 'None' if l == ('none',) else '(Some %s)' % self.fml(a[1])
                if f == 'TelFormulaP':
                    return ('f', '(XTelP %s %s %s)' % (TOP[o[1]], lhs, self.fml(a[2])))
                k = len(self.tel)
                self.tel[k] = [TOP[o[1]], lhs, self.fml(a[2]), None]
                return ('tel', k)
            if f == 'Atom' and len(a) == 3 and ast.unparse(a[1]) == '[]' and ast.unparse(a[2]) == 'True':
                n = self.val(a[0])
                if n[0] != 's':
                    raise Unsupported('atom name ' + src)
                return ('f', '(XAtomKw %s)' % coq_str(n[1]))
            if f == 'BooleanConstant' and len(a) == 1:
                b = self.val(a[0])
                if b[0] != 'b':
                    raise Unsupported('constant ' + src)
                return ('f', '(XConst %s)' % ('true' if b[1] else 'false'))
            if f == "'__{}'.format" and len(a) == 1 and ast.unparse(a[0]) == 'arg.name':
                return ('s', '__' + self.kwname)
            # ---- constructors of theory/head.py
            if f == 'TelClause' and len(a) == 2 and isinstance(a[0], ast.List) and len(a[0].elts) == 2:
                c = self.val(a[1])
                if c[0] != 'b':
                    raise Unsupported('clause flag ' + src)
                return ('f', '(HxClause %s %s %s)' % ('true' if c[1] else 'false', self.fml(a[0].elts[0]), self.fml(a[0].elts[1])))
            if f == 'TelNegation' and len(a) == 1:
                return ('f', '(HxNeg %s)' % self.fml(a[0]))
            if f == 'TelNext' and len(a) == 3:
                n, w = self.val(a[0]), self.val(a[2])
                if n[0] != 'n' or w[0] != 'b':
                    raise Unsupported('head next arguments ' + src)
                return ('f', '(HxNext %s %s %s)' % (n[1], self.fml(a[1]), 'true' if w[1] else 'false'))
            if f == 'TelUntil' and len(a) == 3:
                l, u = self.val(a[0]), self.val(a[2])
                if u[0] != 'b':
                    raise Unsupported('until flag ' + src)
                return ('f', '(HxUntil %s %s %s)' % ('None' if l == ('none',) else '(Some %s)' % self.fml(a[0]), self.fml(a[1]), 'true' if u[1] else 'false'))
            if f == 'TelAtom' and len(a) == 3 and ast.unparse(a[0]) == 'True' and ast.unparse(a[2]) == '[]':
                n = self.val(a[1])
                if n[0] != 's':
                    raise Unsupported('head atom name ' + src)
                return ('f', '(HxAtomKw %s)' % coq_str(n[1]))
            if f == 'TelConstant' and len(a) == 1:
                b = self.val(a[0])
                if b[0] != 'b':
                    raise Unsupported('head constant ' + src)
                return ('f', '(HxConst %s)' % ('true' if b[1] else 'false'))
        raise Unsupported('expression ' + src[:120])

    def fml(self, e):
        v = self.val(e)
        if v[0] == 'f':
            return v[1]
        if v[0] == 'tel':
            t = self.tel[v[1]]
            if t[3] is None:
                raise Unsupported('until/release without set_future')
            return '(XTelN %s %s %s %s)' % (t[0], t[1], t[2], 'true' if t[3] else 'false')
        if v == ('none',):
            raise Raised()      # None where a formula is needed: a combination the theory grammar never produces (it would fail at run time)
        raise Unsupported('formula expected: ' + ast.unparse(e)[:80])

    def run(self, stmts):
        """returns the Gallina construction returned by the function; raises Raised if the function raises"""
        for st in stmts:
            if isinstance(st, ast.Expr) and isinstance(st.value, ast.Constant):
                continue
            if isinstance(st, ast.Assert):
                if not self.const_test(st.test):
                    raise Raised()
                continue
            if isinstance(st, ast.Raise):
                raise Raised()
            if isinstance(st, ast.Assign) and len(st.targets) == 1 and isinstance(st.targets[0], ast.Name):
                t = st.targets[0].id
                if t == 'args' and ast.unparse(st.value) == 'rep.arguments':
                    continue
                if t == 'arg' and ast.unparse(st.value) == 'rep.arguments[0]':
                    continue
                self.env[t] = self.val(st.value)
                continue
            if isinstance(st, ast.If):
                if ast.unparse(st.test) == 'lhs < 0':
                    if not (len(st.body) == 1 and isinstance(st.body[0], ast.Raise)) or st.orelse:
                        raise Unsupported('negative-count guard')
                    if self.env.get('lhs') == ('n', 'NArg'):
                        self.neg_rejected = True
                    elif self.env.get('lhs') != ('n', 'NOne'):
                        raise Unsupported('lhs < 0 on a non-count')
                    continue
                r = self.run(st.body if self.const_test(st.test) else st.orelse)
                if r is not None:
                    return r
                continue
            if isinstance(st, ast.Return):
                return self.fml(st.value)
            if isinstance(st, ast.Expr) and isinstance(st.value, ast.Call) and isinstance(st.value.func, ast.Attribute) and st.value.func.attr == 'set_future':
                tgt = self.env.get(ast.unparse(st.value.func.value))
                a = self.unwrap(st.value.args[0])
                if not (tgt and tgt[0] == 'tel' and isinstance(a, ast.Call) and ast.unparse(a.func) == 'Next' and len(a.args) == 3
                        and ast.unparse(a.args[0]) == ast.unparse(st.value.func.value) and ast.unparse(a.args[1]) == '1' and isinstance(a.args[2], ast.Constant)
                        and isinstance(a.args[2].value, bool)):
                    raise Unsupported('set_future shape ' + ast.unparse(st)[:120])
                self.tel[tgt[1]][3] = a.args[2].value
                continue
            raise Unsupported('create_formula statement ' + ast.unparse(st)[:120])
        return None


def gen_bodyform(out):
    F = parse('telingo/theory/formula.py')
    B = parse('telingo/theory/body.py')
    sets = {}
    for st in F.body:
        if isinstance(st, ast.Assign) and isinstance(st.value, ast.Set) and all(isinstance(e, ast.Constant) for e in st.value.elts):
            sets[ast.unparse(st.targets[0])] = sorted(e.value for e in st.value.elts)
    for need in ('g_binary_operators', 'g_unary_operators', 'g_tel_operators', 'g_arithmetic_operators'):
        if need not in sets:
            raise Unsupported('operator set ' + need)
    cf = find_fun(B, 'create_formula')
    rows = []
    names = sorted(set(sets['g_binary_operators']) | set(sets['g_unary_operators']) | set(sets['g_tel_operators']))
    for name in names:
        for nargs in (1, 2):
            ex = FormExec(name, nargs, sets)
            try:
                r = ex.run(cf.body)
            except Raised:
                r = None
            except Unsupported as e:
                # combinations the theory grammar never produces (e.g. a binary connective with one argument) fall through to create_atom
                if 'create_formula statement return create_atom' in str(e) or 'expression create_atom' in str(e):
                    r = None
                else:
                    raise
            if r is not None:
                rows.append('  | %s, %d => Some (%s, %s)' % (coq_str(name), nargs, 'true' if ex.neg_rejected else 'false', r))
    lines = ['(* ---- telingo/theory/body.py: create_formula - which formula object every operator builds (per number of arguments);',
             '        the Boolean says whether a negative count is rejected ---- *)',
             'Definition create_formula_gen (op : string) (nargs : nat) : option (bool * fexp) :=\n  match op, nargs with\n' + '\n'.join(rows) + '\n  | _, _ => None\n  end.']
    kws = []
    for kw in ('initial', 'final', 'true', 'false', 'foo'):
        ex = FormExec('&', 1, sets, kwname=kw)
        try:
            r = ex.run(cf.body)
        except Raised:
            r = None
        if r is not None:
            kws.append('  | %s => Some %s' % (coq_str(kw), r))
    lines.append('Definition keyword_gen (name : string) : option fexp :=\n  match name with\n' + '\n'.join(kws) + '\n  | _ => None\n  end.')
    # create_number: the evaluation of counts
    cn = find_fun(F, 'create_number')
    src = ast.unparse(cn)
    c = Ctx({'lhs': 'Z', 'rhs': 'Z', 'v': 'Z', 'n': 'Z'}, subst={'create_number(rep.arguments[0])': 'v', 'rep.number': 'n'})
    una = bin_add = bin_sub = leaf = leafg = None
    for n in ast.walk(cn):
        if isinstance(n, ast.If):
            t = ast.unparse(n.test)
            if t == "rep.name == '-' and len(args) == 1" and len(n.body) == 1 and isinstance(n.body[0], ast.Return):
                una = num(c, n.body[0].value)
            if t == "rep.name == '+'" and len(n.body) == 1 and isinstance(n.body[0], ast.Return):
                bin_add = num(c, n.body[0].value)
                if len(n.orelse) == 1 and isinstance(n.orelse[0], ast.If) and ast.unparse(n.orelse[0].test) == "rep.name == '-'" and isinstance(n.orelse[0].body[0], ast.Return):
                    bin_sub = num(c, n.orelse[0].body[0].value)
            if t.startswith('rep.type == _clingo.TheoryTermType.Number') and len(n.body) == 1 and isinstance(n.body[0], ast.Return):
                leaf = num(c, n.body[0].value)
                g = n.test.values[1:] if isinstance(n.test, ast.BoolOp) and isinstance(n.test.op, ast.And) else []
                leafg = boolx(c, g[0]) if len(g) == 1 else ('(Some true)' if not g else None)
    for need in ('lhs = create_number(rep.arguments[0])', 'rhs = create_number(rep.arguments[1])', 'if rep.name in g_arithmetic_operators and len(args) == 2:',
                 "raise RuntimeError('number expected: {}'.format(rep))"):
        if need not in src:
            raise Unsupported('create_number shape: ' + need)
    if None in (una, bin_add, bin_sub, leaf, leafg):
        raise Unsupported('create_number branches')
    lines.append('(* ---- telingo/theory/formula.py: create_number ---- *)')
    lines.append('Definition num_leaf_gen (n : Z) : option Z := match %s with Some true => %s | _ => None end.' % (leafg, leaf))
    lines.append('Definition num_neg_gen (v : Z) : option Z := %s.' % una)
    lines.append('Definition num_add_gen (lhs rhs : Z) : option Z := %s.' % bin_add)
    lines.append('Definition num_sub_gen (lhs rhs : Z) : option Z := %s.' % bin_sub)
    lines.append('Definition arithmetic_operators_gen : list string := [%s].' % '; '.join(coq_str(x) for x in sets['g_arithmetic_operators']))
    out.append('\n'.join(lines))



# ------------------------------------------------------------------------------------------------ theory/head.py: head formulas
def method_src(cls, name):
    return [ast.unparse(st) for st in find_fun(cls, name).body if not (isinstance(st, ast.Expr) and isinstance(st.value, ast.Constant))]


def gen_headform(out):
    F = parse('telingo/theory/formula.py')
    Hd = parse('telingo/theory/head.py')
    sets = {}
    for st in F.body:
        if isinstance(st, ast.Assign) and isinstance(st.value, ast.Set) and all(isinstance(e, ast.Constant) for e in st.value.elts):
            sets[ast.unparse(st.targets[0])] = sorted(e.value for e in st.value.elts)
    cf = find_fun(Hd, 'create_formula')
    # the head variant rejects the left-over case by `raise` after the if-chain of the connectives: executed like the body variant
    rows = []
    names = sorted(set(sets['g_binary_operators']) | set(sets['g_unary_operators']) | set(sets['g_tel_operators']))
    for name in names:
        for nargs in (1, 2):
            ex = FormExec(name, nargs, sets)
            try:
                r = ex.run(cf.body)
            except Raised:
                r = None
            except Unsupported as e:
                if 'create_atom' in str(e):
                    r = None
                else:
                    raise
            if r is not None:
                rows.append('  | %s, %d => Some (%s, %s)' % (coq_str(name), nargs, 'true' if ex.neg_rejected else 'false', r))
    hx = lambda t: t.replace('XLhs', 'HxLhs').replace('XRhs', 'HxRhs').replace('XIfZero', 'HxIfZero')
    rows = [hx(r) for r in rows]
    lines = ['(* ---- telingo/theory/head.py: create_formula - the head formula object of every operator (None: rejected) ---- *)',
             'Definition head_create_gen (op : string) (nargs : nat) : option (bool * hexp) :=\n  match op, nargs with\n' + '\n'.join(rows) + '\n  | _, _ => None\n  end.']
    kws = []
    for kw in ('initial', 'final', 'true', 'false', 'foo'):
        ex = FormExec('&', 1, sets, kwname=kw)
        try:
            r = ex.run(cf.body)
        except Raised:
            r = None
        if r is not None:
            kws.append('  | %s => Some %s' % (coq_str(kw), hx(r)))
    lines.append('Definition head_keyword_gen (name : string) : option hexp :=\n  match name with\n' + '\n'.join(kws) + '\n  | _ => None\n  end.')
    # ShiftFormula: shapes checked textually, guards and arithmetic regenerated
    cls = {n.name: n for n in ast.walk(Hd) if isinstance(n, ast.ClassDef)}
    SF = cls['ShiftFormula']
    if method_src(SF, '__init__') != ['self.__shift = shift']:
        raise Unsupported('ShiftFormula.__init__')
    c = Ctx({'n': 'nat', 'd': 'nat', 'until': 'bool'}, subst={'x.lhs': 'n', 'self.__shift': 'd', 'x.until': 'until'})
    at = find_fun(SF, 'visit_TelAtom')
    if len(at.body) != 1 or not isinstance(at.body[0], ast.Return) or not isinstance(at.body[0].value, ast.IfExp) or ast.unparse(at.body[0].value.body) != 'x' \
            or ast.unparse(at.body[0].value.orelse) != 'TelShift(-self.__shift, x)':
        raise Unsupported('ShiftFormula.visit_TelAtom')
    lines.append('(* ---- ShiftFormula / UnfoldFormula / HeadFormulaToBodyFormula / ClauseToRule: guards and arithmetic (statement shapes are checked textually) ---- *)')
    lines.append('Definition shift_atom_here_gen (d : nat) : option bool := %s.' % boolx(c, at.body[0].value.test))
    nx = find_fun(SF, 'visit_TelNext')
    if len(nx.body) != 1 or not isinstance(nx.body[0], ast.If) or len(nx.body[0].body) != 1 or len(nx.body[0].orelse) != 1:
        raise Unsupported('ShiftFormula.visit_TelNext')
    inside, outside = nx.body[0].body[0], nx.body[0].orelse[0]
    if not (isinstance(inside, ast.Return) and isinstance(inside.value, ast.Call) and ast.unparse(inside.value.func) == 'shift_formula' and ast.unparse(inside.value.args[0]) == 'x.rhs'):
        raise Unsupported('ShiftFormula.visit_TelNext inside branch')
    o = outside.value if isinstance(outside, ast.Return) else None
    if not (isinstance(o, ast.Call) and ast.unparse(o.func) == 'TelShift' and ast.unparse(o.args[0]) == '0' and isinstance(o.args[1], ast.Call) and ast.unparse(o.args[1].func) == 'TelNext'
            and [ast.unparse(x) for x in o.args[1].args[1:]] == ['x.rhs', 'x.weak']):
        raise Unsupported('ShiftFormula.visit_TelNext outside branch')
    lines.append('Definition shift_next_inside_gen (n d : nat) : option bool := %s.' % boolx(c, nx.body[0].test))
    lines.append('Definition shift_next_rest_gen (n d : nat) : option Z := %s.' % num(c, inside.value.args[1]))
    lines.append('Definition shift_next_ahead_gen (n d : nat) : option Z := %s.' % num(c, o.args[1].args[0]))
    un = method_src(SF, 'visit_TelUntil')
    want = ['inner = TelNext(1, x, not x.until)', 'if x.lhs is not None:\n    inner = TelClause([x.lhs, inner], x.until)', 'return shift_formula(TelClause([x.rhs, inner], not x.until), self.__shift)']
    if un != want:
        raise Unsupported('ShiftFormula.visit_TelUntil: ' + repr(un))
    lines.append('Definition shift_until_next_weak_gen (until : bool) : bool := negb until.')
    lines.append('Definition shift_until_inner_conj_gen (until : bool) : bool := until.')
    lines.append('Definition shift_until_outer_conj_gen (until : bool) : bool := negb until.')
    if method_src(SF, 'visit_TelClause') != ['return TelClause(self(x.elements), x.conjunctive)'] or method_src(SF, 'visit_TelNegation') != ['return TelShift(-self.__shift, x)'] \
            or method_src(SF, 'visit_TelConstant') != ['return TelShift(-self.__shift, x)']:
        raise Unsupported('ShiftFormula clause/negation/constant')
    UF = cls['UnfoldFormula']
    if method_src(UF, 'visit_TelAtom') != ['return [[x]]'] or method_src(UF, 'visit_TelShift') != ['return [[x]]'] or method_src(UF, 'visit_TelClause') != [
            'elements = map(self, x.elements)', 'return map(list, _it.chain(*elements) if x.conjunctive else _it.starmap(_it.chain, _it.product(*elements)))']:
        raise Unsupported('UnfoldFormula')
    lines.append('Definition unfold_conjunction_concatenates_gen : bool := true.      (* itertools.chain over the clause lists of the elements *)')
    lines.append('Definition unfold_disjunction_is_product_gen : bool := true.        (* one clause per combination: starmap(chain, product(...)) *)')
    HB = cls['HeadFormulaToBodyFormula']
    if method_src(HB, 'visit_TelAtom') != ['return self.__add_formula(_bd.Atom(x.name, x.arguments, x.positive))'] \
            or method_src(HB, 'visit_TelNext') != ['return self.__add_formula(_bd.Next(self(x.rhs), x.lhs, x.weak))'] \
            or method_src(HB, 'visit_TelNegation') != ['return self.__add_formula(_bd.Negation(self(x.rhs)))'] \
            or method_src(HB, 'visit_TelConstant') != ['return self.__add_formula(_bd.BooleanConstant(x.value))']:
        raise Unsupported('HeadFormulaToBodyFormula atoms/next/negation/constant')
    hu = method_src(HB, 'visit_TelUntil')
    if hu != ["formula = self.__add_formula(_bd.TelFormulaN('>?' if x.until else '>*', None if x.lhs is None else self(x.lhs), self(x.rhs)))",
              'formula.set_future(self.__add_formula(_bd.Next(formula, 1, not x.until)))', 'return formula']:
        raise Unsupported('HeadFormulaToBodyFormula.visit_TelUntil: ' + repr(hu))
    hc = method_src(HB, 'visit_TelClause')
    if hc != ["op = '&' if x.conjunctive else '|'", 'elements = map(self, x.elements)', 'return _ft.reduce(lambda l, r: _bd.BooleanFormula(op, l, r), elements)']:
        raise Unsupported('HeadFormulaToBodyFormula.visit_TelClause: ' + repr(hc))
    lines.append('Definition h2b_until_op_gen (until : bool) : telop := if until then OpUntil else OpRelease.')
    lines.append('Definition h2b_until_future_weak_gen (until : bool) : bool := negb until.')
    lines.append('Definition h2b_clause_op_gen (conj : bool) : boolop := if conj then OpAnd else OpOr.')
    CR = cls['ClauseToRule']
    ts = method_src(CR, 'visit_TelShift')
    want = ['stp = lambda x, n, w: x', 'if x.lhs != 0:\n    stp = _bd.Next if x.lhs > 0 else _bd.Previous', 'neg = lambda x: ctx.add_formula(_bd.Negation(x))',
            'nxt = lambda l, r: ctx.add_formula(stp(r, abs(l), False))', 'rhs = head_formula_to_body_formula(x.rhs, ctx.add_formula)', 'frm = neg(nxt(x.lhs, rhs))', 'lit = frm.translate(ctx, step)',
            'if lit > 0:\n    aux = ctx.backend.add_atom()\n    ctx.backend.add_rule([aux], [-lit])\n    lit = -aux', 'self.__body.append(lit)']
    if ts != want:
        raise Unsupported('ClauseToRule.visit_TelShift: ' + repr(ts))
    ta = method_src(CR, 'visit_TelAtom')
    if ta != ['sym = _clingo.Function(x.name, x.arguments + [_clingo.Number(step)], x.positive)', 'atom = ctx.symbols[sym]',
              'if atom is not None:\n    self.__head.append(atom.literal if atom.literal != 0 else ctx.backend.add_atom(sym))']:
        raise Unsupported('ClauseToRule.visit_TelAtom: ' + repr(ta))
    tc = method_src(Hd, 'translate_clause')
    if tc != ['head = []', 'body = [body_literal]', 'for lit in clause:\n    ClauseToRule(head, body)(lit, ctx, step)', 'ctx.backend.add_rule(head, body)']:
        raise Unsupported('translate_clause: ' + repr(tc))
    lines.append('Definition shifted_part_is_strong_gen : bool := true.       (* stp(r, abs(l), False): Previous/Next are strong; the sign of the shift picks the class *)')
    lines.append('Definition shifted_part_negated_in_body_gen : bool := true. (* body literal = literal of the negated shifted part; a positive literal is wrapped so that it stays a negative dependency *)')
    hf = find_fun(cls['HeadFormula'], 'translate')
    src = ast.unparse(hf)
    for need in ('shifted = shift_formula(self.__formula, step - self.__timestep)', 'undfolded = unfold_formula(shifted)', 'for clause in undfolded:\n        translate_clause(clause, ctx, step, self.__literals[0])',
                 'ctx.add_todo(self, step + 1)'):
        if need not in src:
            raise Unsupported('HeadFormula.translate: ' + need[:40])
    c2 = Ctx({'step': 'nat', 'timestep': 'nat'}, subst={'self.__timestep': 'timestep'})
    sh = [n for n in ast.walk(hf) if isinstance(n, ast.Assign) and ast.unparse(n.targets[0]) == 'shifted'][0]
    lines.append('Definition head_shift_amount_gen (step timestep : nat) : option Z := %s.' % num(c2, sh.value.args[1]))
    rq = [n for n in ast.walk(hf) if isinstance(n, ast.Call) and ast.unparse(n.func) == 'ctx.add_todo'][0]
    lines.append('Definition head_requeue_step_gen (step : nat) : option Z := %s.' % num(c2, rq.args[1]))
    out.append('\n'.join(lines))



# ------------------------------------------------------------------------------------------------ transformers/head.py: Interval, IntervalSet, time ranges
def gen_headranges(out):
    flat = lambda t: '\n'.join(l.strip() for l in t.split('\n'))
    T = parse('telingo/transformers/head.py')
    cls = {n.name: n for n in ast.walk(T) if isinstance(n, ast.ClassDef)}
    I = cls['Interval']
    if method_src(I, '__init__') != ['self.left = left', 'self.right = right']:
        raise Unsupported('Interval.__init__')
    c = Ctx({'self_left': 'Z', 'self_right': 'Z', 'other_left': 'Z', 'other_right': 'Z', 'left': 'Z', 'right': 'Z'},
            subst={'self.left': 'self_left', 'self.right': 'self_right', 'other.left': 'other_left', 'other.right': 'other_right'})
    bf = find_fun(I, 'before')
    if len(bf.body) != 1 or not isinstance(bf.body[0], ast.Return):
        raise Unsupported('Interval.before')
    lines = ['(* ---- telingo/transformers/head.py: Interval / IntervalSet and the time ranges of head formulas ---- *)',
             'Definition interval_before_gen (self_right other_left : Z) : option bool := %s.' % boolx(c, bf.body[0].value)]
    un = method_src(I, 'union')
    if un != ['self.left = min(self.left, other.left)', 'self.right = max(self.right, other.right)']:
        raise Unsupported('Interval.union: ' + repr(un))
    lines.append('Definition interval_union_left_gen (self_left other_left : Z) : option Z := Some (Z.min self_left other_left).')
    lines.append('Definition interval_union_right_gen (self_right other_right : Z) : option Z := Some (Z.max self_right other_right).')
    em = find_fun(I, 'empty')
    c2 = Ctx({'left': 'Z', 'right': 'Z'}, subst={'self.left': 'left', 'self.right': 'right'})
    lines.append('Definition interval_empty_gen (left right : Z) : option bool := %s.' % boolx(c2, em.body[0].value))
    S = cls['IntervalSet']
    want = ['y = Interval(x[0], x[1])',
            'if not y.empty():\n    i = 0\n    while i < len(self) and self.__elements[i].before(y):\n        i += 1\n    j = i\n    while j < len(self) and (not y.before(self.__elements[j])):\n        y.union(self.__elements[j])\n        j += 1\n'
            '    if i == j:\n        self.__elements.insert(i, y)\n    else:\n        self.__elements[i:j] = (y,)']
    if method_src(S, 'add') != want:
        raise Unsupported('IntervalSet.add: ' + repr(method_src(S, 'add')))
    if method_src(S, '__init__') != ['self.__elements = []', 'for x in elements:\n    self.add(x)']:
        raise Unsupported('IntervalSet.__init__')
    # ranges of the atoms of a head formula
    TA = cls['TheoryAtomTransformer']
    ar = flat(ast.unparse(find_fun(TA, '__add_range')))
    for need in ('if a == 0:\n            return b', 'elif b == 0:\n            return a', "elif a == float('inf') or b == float('inf'):\n            return float('inf')",
                 'elif isinstance(a, _Number) and isinstance(b, _Number):\n            return a + b', 'return (add(left, rng[0]), add(right, rng[1]))'):
        if flat(need) not in ar:
            raise Unsupported('__add_range: ' + need[:40])
    vf = flat(ast.unparse(find_fun(TA, 'visit_TheoryFunction')))
    for need in ("if x.name == '-':\n                self.__add_atom(x, rng)\n                return x", "elif x.name == '~':\n                return x",
                 "if x.name == '>' or x.name == '>:':\n                if lhs is None:\n                    lhs = 1",
                 'self(rhs, self.__add_range(x.location, rng, lhs, lhs))',
                 "if x.name == '>?' or x.name == '>*' or x.name == '>>':\n                    rng_left = self.__add_range(x.location, rng, 0, float('inf'))\n                    rng_right = rng_left",
                 "elif x.name == ';>' or x.name == ';>:':\n                    rng_right = self.__add_range(x.location, rng, 1, 1)",
                 'if is_binary:\n                    self(lhs, rng_left)\n                self(rhs, rng_right)', 'rng_left, rng_right = (rng, rng)'):
        if flat(need) not in vf:
            raise Unsupported('TheoryAtomTransformer.visit_TheoryFunction: ' + need[:50])
    el = flat(ast.unparse(find_fun(TA, 'visit_TheoryAtomElement')))
    if 'x.terms[0] = self(x.terms[0], (0, 0))' not in el:
        raise Unsupported('visit_TheoryAtomElement start range')
    lines.append('Definition range_next_gen : cnt * cnt := (NArg, NArg).                (* n > phi: both bounds grow by the count (1 for the unary form) *)')
    lines.append('Definition range_until_gen : nat * option nat := (0, None).          (* >? >* >>: unbounded above, for both operands *)')
    lines.append('Definition range_seq_right_gen : nat * option nat := (1, Some 1).     (* ;> ;>: : the right operand one state later *)')
    tt = flat(ast.unparse(find_fun(T, 'transform_theory_atom')))
    for need in ('numeric.setdefault(atm, (atm, IntervalSet()))[1].add((lhs, rhs + 1))', 'for lhs, rhs in rngs:\n            add(atm, lhs, rhs - 1)'):
        if flat(need) not in tt:
            raise Unsupported('transform_theory_atom: ' + need[:40])
    ht = flat(ast.unparse(find_fun(cls['HeadTransformer'], 'transform')))
    for need in ('diff = _ast.BinaryOperation(loc, _ast.BinaryOperator.Minus, param, shift)',
                 'if lhs.ast_type != _ast.ASTType.SymbolicTerm or lhs.symbol.type != _clingo.SymbolType.Number or lhs.symbol.number > 0:',
                 'cond.append(_ast.Literal(loc, _ast.Sign.NoSign, _ast.Comparison(lhs, [_ast.Guard(_ast.ComparisonOperator.LessEqual, diff)])))',
                 'if rhs.ast_type != _ast.ASTType.SymbolicTerm or rhs.symbol.type != _clingo.SymbolType.Supremum:',
                 'cond.append(_ast.Literal(loc, _ast.Sign.NoSign, _ast.Comparison(diff, [_ast.Guard(_ast.ComparisonOperator.LessEqual, rhs)])))',
                 'rules.append(_ast.Rule(loc, _ast.Disjunction(loc, elems), [saux, false]))'):
        if flat(need) not in ht:
            raise Unsupported('HeadTransformer.transform: ' + need[:50])
    lines.append('Definition domain_rule_bounds_gen : bool := true.     (* lo <= __t - __S (omitted when lo = 0) and __t - __S <= hi (omitted when unbounded) *)')
    out.append('\n'.join(lines))



# ------------------------------------------------------------------------------------------------ main
# group -> (generated file under coq/Gen, fragment functions, Requires)
GROUPS = {
    'imain': ('FromSource.v', [gen_imain], ['GenPrelude']),
    'transformers': ('FromTransformers.v', [gen_transformers], ['GenPrelude']),
    'app': ('FromApp.v', [gen_app], ['GenPrelude']),
    'loc': ('FromLoc.v', [gen_loc], ['GenPrelude']),
    'parts': ('FromParts.v', [gen_parts], ['GenPrelude']),
    'show': ('FromShow.v', [gen_show], ['GenPrelude']),
    'reps': ('FromReps.v', [gen_reps, gen_head_reps], ['GenPrelude']),
    'tables': ('FromTables.v', [gen_tables], ['GenPrelude']),
    'theory': ('FromTheory.v', [gen_theory], ['GenPrelude', 'TheoryPrelude']),
    'dynamic': ('FromDynamic.v', [gen_dynamic], ['GenPrelude', 'TheoryPrelude', 'DynPrelude']),
    'bodyform': ('FromBodyForm.v', [gen_bodyform], ['GenPrelude', 'TheoryPrelude', 'FormPrelude']),
    'headform': ('FromHeadForm.v', [gen_headform], ['GenPrelude', 'TheoryPrelude', 'FormPrelude']),
    'headranges': ('FromHeadRanges.v', [gen_headranges], ['GenPrelude', 'TheoryPrelude', 'FormPrelude']),
}
VERIF = os.path.dirname(os.path.dirname(os.path.abspath(__file__)))
GEN = os.path.join(VERIF, 'coq', 'Gen')


def generate(group):
    fname, frags, reqs = GROUPS[group]
    out = ['(* GENERATED by harness/srcgen.py from the working tree of /repo on every run: do not edit *)',
           'Require Import %s.' % ' '.join(reqs), 'Local Open Scope string_scope.']
    for f in frags:
        f(out)
    return '\n'.join(out) + '\n'


def main():
    """regenerate every group; a group that fails keeps the pinned copy (so unrelated properties still build) and is
    reported in _build/srcgen_status.json"""
    status = {}
    pin = '--pin' in sys.argv
    for g, (fname, _, _) in GROUPS.items():
        dst = os.path.join(GEN, fname)
        try:
            txt = generate(g)
            status[g] = 'ok'
        except (Unsupported, SyntaxError, OSError, KeyError, IndexError, AttributeError, TypeError, ValueError) as e:
            status[g] = 'source no longer in the translatable shape: %s: %s' % (type(e).__name__, str(e)[:300])
            txt = open(os.path.join(VERIF, 'pinned', fname)).read()
        old = open(dst).read() if os.path.exists(dst) else None
        if old != txt:
            open(dst, 'w').write(txt)
        if pin and status[g] == 'ok':
            os.makedirs(os.path.join(VERIF, 'pinned'), exist_ok=True)
            open(os.path.join(VERIF, 'pinned', fname), 'w').write(txt)
    os.makedirs(os.path.join(VERIF, '_build'), exist_ok=True)
    json.dump(status, open(os.path.join(VERIF, '_build', 'srcgen_status.json'), 'w'))
    return 0


if __name__ == '__main__':
    sys.exit(main())
