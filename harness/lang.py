"""Abstract syntax of (ground, propositional-with-arguments) temporal programs used by the correspondence checks, with two
printers: telingo input text and requests for the extracted Coq oracle (ocaml/driver.ml token format).

formula  ::= ('atom', name) | ('true',) | ('false',) | ('initial',) | ('final',) | ('not', f) | ('and', f, g) | ('or', f, g)
           | ('impr', f, g)  f -> g | ('impl', f, g)  f <- g | ('eqv', f, g)
           | ('prev', n, f) | ('wprev', n, f) | ('next', n, f) | ('wnext', n, f)          n = None: unary form
           | ('since', f|None, g) | ('trigger', f|None, g) | ('until', f|None, g) | ('release', f|None, g)
           | ('initially', f) | ('finally', f) | ('seqnext', f, g) | ('seqwnext', f, g) | ('seqprev', f, g) | ('seqwprev', f, g)
dformula ::= ('atom', name) | ('true',) | ('false',) | ('final',) | ('dia', path, d) | ('box', path, d)
path     ::= ('skip',) | ('patom', name) | ('test', ('atom', name) | ('true',) | ('false',)) | ('choice', p, q) | ('seq', p, q) | ('star', p)
head     ::= ('norm', name, fut) | ('disj', [name..]) | ('choice', [name..]) | ('cons',) | ('neghead', sgn, name, fut) | ('kw', k) | ('tel', f)
blit     ::= (sgn, ('patom', name, past)) | (sgn, ('fatom', name, n)) | (sgn, ('iatom', name)) | (sgn, ('kw', k)) | (sgn, ('tel', f)) | (sgn, ('del', d))
sgn      ::= 'p' | 'n' | 'm'      (none / not / not not)
rule     ::= {'part': 'initial'|'always'|'dynamic'|'final', 'head': head, 'body': [blit]}
An atom name may carry arguments and classical negation: 'p', 'q(1)', '-p'.
"""
import re

SGN_TXT = {'p': '', 'n': 'not ', 'm': 'not not '}


# ------------------------------------------------------------------------------------------------ telingo text
def fml_txt(f):
    """fully parenthesised telingo syntax (precedence is the subject of C07, not of the semantic checks)"""
    t = f[0]
    if t == 'atom':
        return f[1]
    if t in ('true', 'false', 'initial', 'final'):
        return '&' + t
    if t == 'not':
        return '~ (%s)' % fml_txt(f[1])
    B = {'and': '&', 'or': '|', 'impr': '->', 'impl': '<-', 'eqv': '<>', 'seqnext': ';>', 'seqwnext': ';>:', 'seqprev': '<;', 'seqwprev': '<:;'}
    if t in B:
        return '(%s) %s (%s)' % (fml_txt(f[1]), B[t], fml_txt(f[2]))
    N = {'prev': '<', 'wprev': '<:', 'next': '>', 'wnext': '>:'}
    if t in N:
        if f[1] is None:
            return '%s (%s)' % (N[t], fml_txt(f[2]))
        return '%s %s (%s)' % (num_txt(f[1]), N[t], fml_txt(f[2]))
    T = {'since': '<?', 'trigger': '<*', 'until': '>?', 'release': '>*'}
    if t in T:
        if f[1] is None:
            return '%s (%s)' % (T[t], fml_txt(f[2]))
        return '(%s) %s (%s)' % (fml_txt(f[1]), T[t], fml_txt(f[2]))
    if t == 'initially':
        return '<< (%s)' % fml_txt(f[1])
    if t == 'finally':
        return '>> (%s)' % fml_txt(f[1])
    raise ValueError(f)


def num_txt(n):
    if isinstance(n, int):
        return str(n) if n >= 0 else '(%d)' % n
    return str(n)      # already text, e.g. '(1+1)'


def num_val(n):
    if n is None:
        return 1
    if isinstance(n, int):
        return n
    return int(eval(n, {'__builtins__': {}}))


def path_txt(p):
    t = p[0]
    if t == 'skip':
        return '&true'
    if t == 'patom':
        return p[1]
    if t == 'test':
        return '? (%s)' % fml_txt(p[1])
    if t == 'choice':
        return '(%s) + (%s)' % (path_txt(p[1]), path_txt(p[2]))
    if t == 'seq':
        return '(%s) ;; (%s)' % (path_txt(p[1]), path_txt(p[2]))
    if t == 'star':
        return '* (%s)' % path_txt(p[1])
    raise ValueError(p)


def dfml_txt(d):
    t = d[0]
    if t == 'atom':
        return d[1]
    if t in ('true', 'false', 'final'):
        return '&' + t
    if t == 'dia':
        return '(%s) .>? (%s)' % (path_txt(d[1]), dfml_txt(d[2]))
    if t == 'box':
        return '(%s) .>* (%s)' % (path_txt(d[1]), dfml_txt(d[2]))
    raise ValueError(d)


def primed(name, lead=0, trail=0):
    """p(1) with primes -> ''p'(1); classical negation stays in front"""
    m = re.match(r'^(-?)([A-Za-z_][A-Za-z0-9_]*)(.*)$', name)
    return m.group(1) + "'" * lead + m.group(2) + "'" * trail + m.group(3)


def initially_name(name):
    m = re.match(r'^(-?)([A-Za-z_][A-Za-z0-9_]*)(.*)$', name)
    return m.group(1) + '_' + m.group(2) + m.group(3)


def blit_txt(l):
    s, a = l
    t = a[0]
    if t == 'patom':
        return SGN_TXT[s] + primed(a[1], lead=a[2])
    if t == 'fatom':
        return SGN_TXT[s] + primed(a[1], trail=a[2])
    if t == 'iatom':
        return SGN_TXT[s] + initially_name(a[1])
    if t == 'kw':
        return SGN_TXT[s] + '&' + a[1]
    if t == 'tel':
        return SGN_TXT[s] + '&tel { %s }' % fml_txt(a[1])
    if t == 'tels':      # several elements: their conjunction
        return SGN_TXT[s] + '&tel { %s }' % ' ; '.join(fml_txt(x) for x in a[1])
    if t == 'del':
        return SGN_TXT[s] + '&del { %s }' % dfml_txt(a[1])
    raise ValueError(l)


def head_txt(h):
    t = h[0]
    if t == 'norm':
        return primed(h[1], trail=h[2])
    if t == 'disj':
        return '; '.join(h[1])
    if t == 'choice':
        return '{ %s }' % '; '.join(h[1])
    if t == 'cons':
        return ''
    if t == 'neghead':
        return SGN_TXT[h[1]] + primed(h[2], trail=h[3])
    if t == 'kw':
        return '&' + h[1]
    if t == 'tel':
        return '&tel { %s }' % fml_txt(h[1])
    raise ValueError(h)


def rule_txt(r):
    h = head_txt(r['head'])
    b = ', '.join(blit_txt(l) for l in r['body'])
    if b:
        return ('%s :- %s.' % (h, b)).strip()
    return h + '.' if h else ':- .'


def prog_txt(rules, implicit_base=False):
    """implicit_base: the text starts in the initial part without a #program line (as every input file does)"""
    out, part = [], ('base-or-initial' if implicit_base else None)
    for r in rules:
        if part == 'base-or-initial' and r['part'] in ('base', 'initial'):
            pass
        elif r['part'] != part:
            part = r['part']
            out.append('#program %s.' % part)
        out.append(rule_txt(r))
    return '\n'.join(out) + '\n'


# ------------------------------------------------------------------------------------------------ oracle tokens
class Atoms:
    """atom name -> id; classical complements get the constraint `:- p, -p` at every state"""

    def __init__(self, names=()):
        self.ids = {}
        for n in names:
            self.id(n)

    def id(self, name):
        if name not in self.ids:
            self.ids[name] = len(self.ids)
        return self.ids[name]

    def n(self):
        return len(self.ids)

    def names(self):
        return sorted(self.ids, key=self.ids.get)


def fml_tok(f, A):
    t = f[0]
    if t == 'atom':
        return 'at %d' % A.id(f[1])
    if t == 'true':
        return 'top'
    if t == 'false':
        return 'bot'
    if t == 'initial':
        return 'pv w 1 bot'
    if t == 'final':
        return 'nx w 1 bot'
    if t == 'not':
        return 'not ' + fml_tok(f[1], A)
    if t in ('and', 'or'):
        return '%s %s %s' % (t, fml_tok(f[1], A), fml_tok(f[2], A))
    if t == 'impr':
        return 'imp %s %s' % (fml_tok(f[1], A), fml_tok(f[2], A))
    if t == 'impl':
        return 'imp %s %s' % (fml_tok(f[2], A), fml_tok(f[1], A))
    if t == 'eqv':
        a, b = fml_tok(f[1], A), fml_tok(f[2], A)
        return 'and imp %s %s imp %s %s' % (a, b, b, a)
    N = {'prev': 'pv s', 'wprev': 'pv w', 'next': 'nx s', 'wnext': 'nx w'}
    if t in N:
        n = num_val(f[1])
        if n == 0:
            return fml_tok(f[2], A)
        return '%s %d %s' % (N[t], n, fml_tok(f[2], A))
    T = {'since': ('si', 'top'), 'trigger': ('tr', 'bot'), 'until': ('un', 'top'), 'release': ('rl', 'bot')}
    if t in T:
        op, dflt = T[t]
        return '%s %s %s' % (op, dflt if f[1] is None else fml_tok(f[1], A), fml_tok(f[2], A))
    if t == 'initially':      # << f : f holds at the initial state
        return 'tr bot or not pv w 1 bot %s' % fml_tok(f[1], A)
    if t == 'finally':        # >> f : f holds at the final state
        return 'rl bot or not nx w 1 bot %s' % fml_tok(f[1], A)
    if t == 'seqnext':
        return 'and %s nx s 1 %s' % (fml_tok(f[1], A), fml_tok(f[2], A))
    if t == 'seqwnext':
        return 'and %s nx w 1 %s' % (fml_tok(f[1], A), fml_tok(f[2], A))
    if t == 'seqprev':
        return 'and pv s 1 %s %s' % (fml_tok(f[1], A), fml_tok(f[2], A))
    if t == 'seqwprev':
        return 'and pv w 1 %s %s' % (fml_tok(f[1], A), fml_tok(f[2], A))
    raise ValueError(f)


def raw_tok(f, A):
    """operator applications as written (no abbreviation expanded): the model builds the formula objects through the regenerated
    create_formula table (driver command thy)"""
    t = f[0]
    if t == 'DEL':
        return raw_dtok(f[1], A)
    if t == 'atom':
        return 'a %d' % A.id(f[1])
    if t in ('true', 'false', 'initial', 'final'):
        return 'kw ' + t
    if t == 'not':
        return 'o1 ~ ' + raw_tok(f[1], A)
    B = {'and': '&', 'or': '|', 'impr': '->', 'impl': '<-', 'eqv': '<>', 'seqnext': ';>', 'seqwnext': ';>:', 'seqprev': '<;', 'seqwprev': '<:;'}
    if t in B:
        return 'o2 %s %s %s' % (B[t], raw_tok(f[1], A), raw_tok(f[2], A))
    N = {'prev': '<', 'wprev': '<:', 'next': '>', 'wnext': '>:'}
    if t in N:
        if f[1] is None:
            return 'o1 %s %s' % (N[t], raw_tok(f[2], A))
        return 'on %s %d %s' % (N[t], num_val(f[1]), raw_tok(f[2], A))
    T = {'since': '<?', 'trigger': '<*', 'until': '>?', 'release': '>*'}
    if t in T:
        if f[1] is None:
            return 'o1 %s %s' % (T[t], raw_tok(f[2], A))
        return 'o2 %s %s %s' % (T[t], raw_tok(f[1], A), raw_tok(f[2], A))
    if t == 'initially':
        return 'o1 << ' + raw_tok(f[1], A)
    if t == 'finally':
        return 'o1 >> ' + raw_tok(f[1], A)
    raise ValueError(f)


def raw_ptok(p, A):
    t = p[0]
    if t == 'skip':
        return 'pt'
    if t == 'patom':
        return 'pa %d' % A.id(p[1])
    if t == 'test':
        g = p[1]
        if g[0] == 'atom':
            return 'pca %d' % A.id(g[1])
        return 'pcc %d' % (1 if g[0] == 'true' else 0)
    if t == 'choice':
        return 'p2 + %s %s' % (raw_ptok(p[1], A), raw_ptok(p[2], A))
    if t == 'seq':
        return 'p2 ;; %s %s' % (raw_ptok(p[1], A), raw_ptok(p[2], A))
    if t == 'star':
        return 'p1 * ' + raw_ptok(p[1], A)
    raise ValueError(p)


def raw_dtok(d, A):
    """&del formulas as written, for the driver command thy (paths through the regenerated create_path tables)"""
    t = d[0]
    if t == 'atom':
        return 'a %d' % A.id(d[1])
    if t in ('true', 'false'):
        return 'kw ' + t
    if t in ('dia', 'box'):
        return 'del %s %s %s' % ('.>?' if t == 'dia' else '.>*', raw_ptok(d[1], A), raw_dtok(d[2], A))
    raise ValueError(d)


def path_tok(p, A):
    t = p[0]
    if t == 'skip':
        return 'skip'
    if t == 'patom':      # an atom as path: test it, then take a step
        return 'sq testa %d skip' % A.id(p[1])
    if t == 'test':
        g = p[1]
        if g[0] == 'atom':
            return 'testa %d' % A.id(g[1])
        return 'testc %d' % (1 if g[0] == 'true' else 0)
    if t == 'choice':
        return 'ch %s %s' % (path_tok(p[1], A), path_tok(p[2], A))
    if t == 'seq':
        return 'sq %s %s' % (path_tok(p[1], A), path_tok(p[2], A))
    if t == 'star':
        return 'st ' + path_tok(p[1], A)
    raise ValueError(p)


def dfml_tok(d, A):
    t = d[0]
    if t == 'atom':
        return 'datom %d' % A.id(d[1])
    if t == 'true':
        return 'dconst 1'
    if t == 'false':
        return 'dconst 0'
    if t == 'final':
        return 'dfinal'
    if t in ('dia', 'box'):
        return '%s %s %s' % (t, path_tok(d[1], A), dfml_tok(d[2], A))
    raise ValueError(d)


KW_TOK = {'initial': 'pv w 1 bot', 'final': 'nx w 1 bot', 'true': 'top', 'false': 'bot'}


def fut_tok(a, n, A):
    return ('nx s %d at %d' % (n, A.id(a))) if n > 0 else 'at %d' % A.id(a)


def blit_tok(l, A):
    s, a = l
    t = a[0]
    if t == 'patom':
        return 't %s %s' % (s, ('pv s %d at %d' % (a[2], A.id(a[1]))) if a[2] > 0 else 'at %d' % A.id(a[1]))
    if t == 'fatom':
        return 't %s %s' % (s, fut_tok(a[1], a[2], A))
    if t == 'iatom':
        return 't %s at0 %d' % (s, A.id(a[1]))
    if t == 'kw':
        return 't %s %s' % (s, KW_TOK[a[1]])
    if t == 'tel':
        return 't %s %s' % (s, fml_tok(a[1], A))
    if t == 'tels':
        x = 'top'
        for g in reversed(a[1]):
            x = 'and %s %s' % (fml_tok(g, A), x)
        return 't %s %s' % (s, x)
    if t == 'del':
        return 'd %s %s' % (s, dfml_tok(a[1], A))
    raise ValueError(l)


def sgn_tok(s, x):
    return {'p': x, 'n': 'not ' + x, 'm': 'not not ' + x}[s]


def head_tok(h, A):
    t = h[0]
    if t == 'norm':
        return 'f ' + fut_tok(h[1], h[2], A)
    if t == 'disj':
        x = 'bot'
        for a in reversed(h[1]):
            x = 'or at %d %s' % (A.id(a), x)
        return 'f ' + x
    if t == 'choice':
        return 'c %d %s' % (len(h[1]), ' '.join(str(A.id(a)) for a in h[1]))
    if t == 'cons':
        return 'f bot'
    if t == 'neghead':
        return 'f ' + sgn_tok(h[1], fut_tok(h[2], h[3], A))
    if t == 'kw':     # keyword heads are rewritten to `not not <keyword>`
        return 'f not not ' + KW_TOK[h[1]]
    if t == 'tel':
        return 'f ' + fml_tok(h[1], A)
    raise ValueError(h)


PART_TOK = {'initial': 'I', 'base': 'I', 'always': 'A', 'dynamic': 'D', 'final': 'F'}


def rule_tok(r, A):
    return '%s %s %d %s' % (PART_TOK[r['part']], head_tok(r['head'], A), len(r['body']), ' '.join(blit_tok(l, A) for l in r['body']))


def prog_tok(rules, A):
    """all rules plus the consistency constraints for classical complements present in A"""
    toks = [rule_tok(r, A) for r in rules]
    for n in list(A.ids):
        if n.startswith('-') and n[1:] in A.ids:
            toks.append('A f bot 2 t p at %d t p at %d' % (A.id(n[1:]), A.id(n)))
    return '%d %s' % (len(toks), ' '.join(toks))


def atoms_of(rules):
    A = Atoms()

    def fa(f):
        if f is None or not isinstance(f, tuple):
            return
        if f[0] in ('atom', 'patom') and isinstance(f[1], str):
            A.id(f[1])
            return
        for x in f[1:]:
            if isinstance(x, tuple):
                fa(x)
    for r in rules:
        h = r['head']
        if h[0] == 'norm':
            A.id(h[1])
        elif h[0] in ('disj', 'choice'):
            for a in h[1]:
                A.id(a)
        elif h[0] == 'neghead':
            A.id(h[2])
        elif h[0] == 'tel':
            fa(h[1])
        for s, a in r['body']:
            if a[0] in ('patom', 'fatom', 'iatom'):
                A.id(a[1])
            elif a[0] in ('tel', 'del'):
                fa(a[1])
            elif a[0] == 'tels':
                for g in a[1]:
                    fa(g)
    return A


# ------------------------------------------------------------------------------------------------ answer sets
def model_bits(model_atoms, A, n):
    """implementation answer set (list of [name,args,time,positive]) -> bit mask over user atoms of A; None if an atom is unknown to A"""
    bits = 0
    for name, args, t, pos in model_atoms:
        if name.startswith('__') or t is None:
            continue
        full = ('' if pos else '-') + name + ('(%s)' % ','.join(args) if args else '')
        if full not in A.ids:
            return None
        bits |= 1 << (t * n + A.ids[full])
    return bits


def bits_txt(bits, A, n, h):
    names = A.names()
    return ' | '.join('%d: %s' % (k, ' '.join(names[a] for a in range(n) if bits >> (k * n + a) & 1)) for k in range(h + 1))
