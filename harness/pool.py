"""Pools of line-oriented subprocess workers (implementation workers and the extracted-model driver) with per-request
watchdog.  A request that exceeds its time limit kills the worker; the result is {'status': 'timeout'} / None."""
import subprocess, threading, queue, select, os, json, time

VERIF = os.path.dirname(os.path.dirname(os.path.abspath(__file__)))
REPO = os.environ.get('TELINGO_REPO', '/repo')
PY = '/venv/bin/python'
NCPU = int(os.environ.get('VERIF_JOBS', '16'))


class Proc:
    def __init__(self, cmd, env):
        self.cmd, self.env = cmd, env
        self.p = None
        self.start()

    def start(self):
        self.p = subprocess.Popen(self.cmd, stdin=subprocess.PIPE, stdout=subprocess.PIPE, stderr=subprocess.DEVNULL, env=self.env, bufsize=0)
        self.buf = b''

    def kill(self):
        try:
            self.p.kill()
            self.p.wait()
        except Exception:
            pass

    def ask(self, line, timeout):
        """send one line, read one line; None on timeout or death (worker restarted)"""
        if self.p.poll() is not None:
            self.start()
        try:
            self.p.stdin.write(line.encode() + b'\n')
            self.p.stdin.flush()
        except (BrokenPipeError, OSError):
            self.kill()
            self.start()
            return None
        deadline = time.time() + timeout
        fd = self.p.stdout.fileno()
        while b'\n' not in self.buf:
            left = deadline - time.time()
            if left <= 0:
                self.kill()
                self.start()
                return None
            r, _, _ = select.select([fd], [], [], min(left, 1.0))
            if r:
                chunk = os.read(fd, 1 << 16)
                if not chunk:
                    self.kill()
                    self.start()
                    return 'DIED'
                self.buf += chunk
        line, _, self.buf = self.buf.partition(b'\n')
        return line.decode()


class Pool:
    def __init__(self, cmd, env=None, n=NCPU):
        e = dict(os.environ)
        e.update(env or {})
        self.cmd, self.env, self.n = cmd, e, n
        self.procs = []

    def _ensure(self, k):
        while len(self.procs) < k:
            self.procs.append(Proc(self.cmd, self.env))

    def map(self, lines, timeout=20.0):
        """answers (str or None for timeout, 'DIED' if the worker exited) in request order"""
        lines = list(lines)
        k = max(1, min(self.n, len(lines)))
        self._ensure(k)
        q = queue.Queue()
        for i, l in enumerate(lines):
            q.put((i, l))
        out = [None] * len(lines)

        def run(proc):
            while True:
                try:
                    i, l = q.get_nowait()
                except queue.Empty:
                    return
                out[i] = proc.ask(l, timeout)
        ts = [threading.Thread(target=run, args=(self.procs[j],)) for j in range(k)]
        for t in ts:
            t.start()
        for t in ts:
            t.join()
        return out

    def close(self):
        for p in self.procs:
            p.kill()
        self.procs = []


class ImplPool(Pool):
    """workers running /repo's telingo; JSON in, JSON out"""

    def __init__(self, n=NCPU, hashseed='0', extra=None, repo=None):
        env = {'PYTHONPATH': (repo or REPO) + os.pathsep + os.path.join(VERIF, 'harness'), 'PYTHONHASHSEED': str(hashseed),
               'PYTHONDONTWRITEBYTECODE': '1'}
        if extra:
            env['VERIF_WORKER_EXTRA'] = extra
        Pool.__init__(self, [PY, os.path.join(VERIF, 'harness', 'worker.py')], env, n)

    def run(self, reqs, timeout=20.0):
        res = []
        for a in self.map([json.dumps(r) for r in reqs], timeout):
            if a is None:
                res.append({'status': 'timeout'})
            elif a == 'DIED':
                res.append({'status': 'died'})
            else:
                res.append(json.loads(a))
        return res


class ModelPool(Pool):
    """the extracted Coq model behind the OCaml line driver"""

    def __init__(self, n=NCPU):
        Pool.__init__(self, [os.path.join(VERIF, '_build', 'ocaml', 'driver')], {'OCAMLRUNPARAM': 'l=1G'}, n)

    def run(self, lines, timeout=120.0):
        return self.map(lines, timeout)
