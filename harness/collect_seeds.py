#!/venv/bin/python
"""copy confirmed seeded changes from the agents' output dirs into /verif/seeded/<id>/ and (re)write seeded/README.md"""
import json, os, shutil, sys, glob
VERIF = os.path.dirname(os.path.dirname(os.path.abspath(__file__)))
RESULTS = json.load(open(os.path.join(VERIF, 'seeded', 'results.json'))) if os.path.exists(os.path.join(VERIF, 'seeded', 'results.json')) else {}
for out in sorted(glob.glob('/tmp/seed_C*_out')):
    prop = os.path.basename(out)[5:8]
    for m in sorted(glob.glob(out + '/mut*')):
        if not os.path.exists(m + '/patch.diff'):
            continue
        sid = '%s-%s' % (prop, os.path.basename(m))
        dst = os.path.join(VERIF, 'seeded', sid)
        os.makedirs(dst, exist_ok=True)
        for f in ('patch.diff', 'demo.py'):
            shutil.copy(os.path.join(m, f), os.path.join(dst, f))
        meta = json.load(open(m + '/meta.json'))
        meta['id'] = sid
        meta.setdefault('confirmed', 'applied alone in a scratch worktree of /repo HEAD: 39 tests pass; demo.py exits 0 on the clean tree and 1 with the change (harness/seedtest.sh)')
        if os.path.exists(os.path.join(dst, 'meta.json')):
            old = json.load(open(os.path.join(dst, 'meta.json')))
            if old.get('check_with'):
                meta['check_with'] = old['check_with']
        meta['checks'] = RESULTS.get(sid, meta.get('checks', {}))
        json.dump(meta, open(os.path.join(dst, 'meta.json'), 'w'), indent=1)
# batch 7: one agent per source file (/tmp/seed_F<k>_out/mut7<x>); the property is the first one named in meta.json
import re
for out in sorted(glob.glob('/tmp/seed_[FGHJKLMNPQ]*_out')):
    fk = os.path.basename(out)[5:7]
    for m in sorted(glob.glob(out + '/mut*')):
        if not os.path.exists(m + '/patch.diff'):
            continue
        meta = json.load(open(m + '/meta.json'))
        prop = re.findall(r'C\d\d', meta.get('property', ''))[0]
        sid = '%s-mut%s%s%s' % (prop, {'F': '7', 'G': '8', 'H': '9', 'J': '10', 'K': '11', 'L': '12', 'M': '13', 'N': '14', 'P': '15', 'Q': '16'}[fk[0]], fk, os.path.basename(m)[-1])
        dst = os.path.join(VERIF, 'seeded', sid)
        os.makedirs(dst, exist_ok=True)
        for f in ('patch.diff', 'demo.py'):
            shutil.copy(os.path.join(m, f), os.path.join(dst, f))
        meta['id'] = sid
        meta.setdefault('confirmed', 'applied alone in a scratch worktree of /repo HEAD: 39 tests pass; demo.py exits 0 on the clean tree and 1 with the change (harness/seedtest2.sh)')
        meta['checks'] = RESULTS.get(sid, meta.get('checks', {}))
        json.dump(meta, open(os.path.join(dst, 'meta.json'), 'w'), indent=1)
rows = []
for d in sorted(glob.glob(os.path.join(VERIF, 'seeded', 'C*-mut*'))):
    meta = json.load(open(d + '/meta.json'))
    if meta.get('id') in RESULTS and meta.get('checks') != RESULTS[meta['id']]:      # results recorded later (a check was strengthened)
        meta['checks'] = RESULTS[meta['id']]
        json.dump(meta, open(d + '/meta.json', 'w'), indent=1)
    rows.append('| %s | %s | %s | %s |' % (meta['id'], meta['summary'].replace('|', '/'), meta['needs'].replace('|', '/')[:160], '; '.join('%s: %s' % kv for kv in sorted(meta.get('checks', {}).items()))))
open(os.path.join(VERIF, 'seeded', 'README.md'), 'w').write(
    '# Seeded changes\n\nEach directory holds `patch.diff` (apply with `git -C <worktree> apply`), `demo.py` (exit 0 = correct, 1 = wrong) and `meta.json`.\n'
    'Run a check against a change with `TELINGO_REPO=<worktree> ./check Cxx`.\n\n| id | change | needs | checks (quick tier) |\n|---|---|---|---|\n' + '\n'.join(rows) + '\n')
