"""Structural correspondence for head formulas: the executable model Model/HeadDefs.v (extracted, driver command `hds`: formula object built
through the regenerated create_formula table of heads, HeadShift.shift, unfold, rule_of) and telingo's HeadFormula.translate are run on the
same rule heads over several horizons.  Compared call by call (one call = one head formula instance introduced at state ts, translated at
state step): the formula object, the clauses after shifting and unfolding (ordered), and the rule added for every clause - head atoms
(only those in the atom base of that state), the body formulas handed to the body theory (as objects: ~ (d < x), ~ (n > x)), the literal
of the head theory atom first in the body - and the schedule: every instance is translated exactly once at every state from ts to the horizon.

What is observed on telingo's side is read off by wrapping HeadFormula.translate, translate_clause and ClauseToRule.visit_TelShift in the
worker process (harness/worker.py do_headtheory); the atom base is read from clingo's symbolic atoms, independently of the code under test."""
import json, re
import gen, lang

ATOMS = ['a', 'b', '-a']
INI, FIN = 90, 91
PARTS = {'initial': lambda t: t == 0, 'always': lambda t: True, 'dynamic': lambda t: t > 0}


def cases(ctx, n):
    rng = ctx.rng('headstructure')
    out = []
    a, b, na = ('atom', 'a'), ('atom', 'b'), ('atom', '-a')
    # fixed family: every head operator once, over atoms / a nested next / a negation, keywords and constants
    un = [lambda x: ('next', None, x), lambda x: ('wnext', None, x), lambda x: ('next', 2, x), lambda x: ('wnext', 2, x), lambda x: ('next', 0, x), lambda x: ('until', None, x),
          lambda x: ('release', None, x), lambda x: ('finally', x), lambda x: ('not', x)]
    bi = [lambda x, y: ('and', x, y), lambda x, y: ('or', x, y), lambda x, y: ('until', x, y), lambda x, y: ('release', x, y), lambda x, y: ('seqnext', x, y), lambda x, y: ('seqwnext', x, y)]
    fixed = [w(a) for w in un] + [w(('or', a, ('next', None, b))) for w in un] + [w(a, b) for w in bi] + [w(('next', None, a), ('not', b)) for w in bi] + \
            [w(na, ('or', a, ('true',))) for w in bi] + [('or', a, ('true',)), ('or', a, ('false',)), ('and', a, ('or', ('initial',), b)), ('or', ('final',), ('next', None, a)),
                                                          ('or', na, ('next', None, ('or', a, ('wnext', None, b)))), ('not', ('not', a)), ('or', a, ('not', ('next', None, na)))]
    for f in fixed:
        out.append([('always', [f])])
        out.append([(rng.choice(['initial', 'dynamic']), [f])])
    # two formulas that differ in weak / strong or until / release only, and one formula in two syntactic forms, as two rules of one program (both orders)
    for f, g in [(('next', None, a), ('wnext', None, a)), (('next', 2, a), ('wnext', 2, a)), (('or', b, ('next', None, a)), ('or', b, ('wnext', None, a))), (('until', a, b), ('release', a, b)),
                 (('seqnext', a, b), ('and', a, ('next', None, b))), (('seqwnext', a, b), ('seqnext', a, b)), (('until', None, a), ('release', None, a)), (('next', None, a), ('next', 1, a))]:
        for part in ('always', 'initial'):
            out.append([(part, [f]), (part, [g])])
            out.append([(part, [g]), (part, [f])])
    # one atom at several distances, in textual orders that make IntervalSet merge an interval while a later separate one exists
    for f in [('or', ('next', 3, a), ('and', a, ('next', None, a))), ('and', ('next', 2, a), ('and', ('next', None, a), ('and', a, ('next', 4, a)))), ('or', ('next', 4, a), ('or', ('next', 2, a), ('or', a, ('next', 3, a)))),
              ('and', ('next', 5, a), ('and', ('next', 3, a), ('and', ('next', None, a), ('next', 2, a)))), ('or', ('next', 3, a), ('or', ('until', None, ('next', 5, a)), a)), ('and', ('wnext', 2, b), ('or', ('next', 2, a), ('and', a, ('next', None, ('or', a, b)))))]:
        out.append([('initial', [f])])
    out.append([('always', [a, ('next', None, b)])])                       # several elements: their disjunction
    out.append([('initial', [('until', a, b), na, ('wnext', 2, a)])])
    for i in range(n):
        rules = []
        for _ in range(rng.choice([1, 1, 2])):
            els = [gen.formula(rng, ATOMS, rng.randint(1, 3), gen.HEAD_UN, gen.HEAD_BIN, None, ['true', 'false', 'initial', 'final'], nfold=0.3, leaf=0.25) for _ in range(rng.choice([1, 1, 1, 2]))]
            els = [e for i_, e in enumerate(els) if e not in els[:i_]]          # gringo keeps the elements of a theory atom as a set
            rules.append((rng.choice(['initial', 'always', 'always', 'dynamic']), els))
        if len({tuple(map(json.dumps, els)) for _, els in rules}) == len(rules):       # equal texts are one ground theory atom
            out.append(rules)
    return out


def program(rules):
    txt = '#program always.\n{ c }.\n'
    for part, els in rules:
        txt += '#program %s.\n&tel { %s } :- c.\n' % (part, ' ; '.join(lang.fml_txt(f) for f in els))
    return txt


def names_of(s, A, step=None):
    inv = {v: k for k, v in A.ids.items()}
    inv[INI], inv[FIN] = '__initial', '__final'
    return re.sub(r'\((at|A) (\d+)\)', lambda m: '(%s %s)' % (m.group(1), inv.get(int(m.group(2)), '?' + m.group(2))), s)


def split_top(s):
    """'(x ..) (y ..)' -> ['(x ..)', '(y ..)']"""
    out, depth, cur = [], 0, ''
    for ch in s:
        if ch == '(':
            depth += 1
        if depth > 0:
            cur += ch
        if ch == ')':
            depth -= 1
            if depth == 0:
                out.append(cur)
                cur = ''
    return out


def compare(ctx, css, H):
    A = lang.Atoms(ATOMS)
    reqs = [{'cmd': 'headtheory', 'texts': [program(rules)], 'imax': H + 1, 'atoms': ATOMS + ['c']} for rules in css]
    impl = ctx.impl().run(reqs, timeout=20)
    lines, idx = [], []
    for ci, (rules, r) in enumerate(zip(css, impl)):
        if r.get('status') != 'ok':
            continue
        # one model request per rule: all (d, base) pairs of the calls the schedule demands, in the order (horizon, ts)
        for ri, (part, els) in enumerate(rules):
            steps = [(s - ts, s) for s in range(H + 1) for ts in range(s + 1) if PARTS[part](ts)]
            base = {}
            for c in r['calls']:
                base[c['step']] = c['base']
            toks = []
            for d, s in steps:
                bs = [A.ids[x] for x in base.get(s, []) if x in A.ids]
                toks.append('%d %d %s' % (d, len(bs), ' '.join(map(str, bs))))
            lines.append('hds %d %d %d %s %d %s' % (INI, FIN, len(els), ' '.join(lang.raw_tok(f, A) for f in els), len(steps), ' '.join(toks)))
            idx.append((ci, ri, steps))
    ans = ctx.model().run(lines, timeout=120)
    model = {}
    for (ci, ri, steps), a in zip(idx, ans):
        model[(ci, ri)] = (steps, a)
    out = []
    for ci, (rules, r) in enumerate(zip(css, impl)):
        rec = {'program': program(rules), 'status': 'agree', 'calls': 0, 'clauses': 0}
        out.append(rec)
        if r.get('status') == 'timeout':
            rec['status'] = 'skip-timeout'
            continue
        if r.get('status') != 'ok':
            rec.update(status='implerror', what=json.dumps({k: r.get(k) for k in ('status', 'type', 'msg', 'where')}))
            continue
        calls = r['calls']
        used = set()
        for ri, (part, els) in enumerate(rules):
            steps, a = model[(ci, ri)]
            if a is None or a.startswith('error'):
                rec.update(status='modelerror', what=str(a))
                break
            segs = a.split(' || ')
            fobj = names_of(segs[0], A)
            mine = [(j, c) for j, c in enumerate(calls) if c['formula'] == fobj and j not in used]
            if any(c['horizon'] != c['step'] for _, c in mine):
                rec.update(status='differ', what='a head formula is translated for a state other than the current horizon: %s' % [(c['horizon'], c['ts'], c['step']) for _, c in mine][:6])
                break
            bykey = {}
            for j, c in mine:
                bykey.setdefault((c['step'], c['ts']), (j, c))         # the first call not yet attributed to an earlier rule with the same formula object
            want = sorted((s, s - d) for d, s in steps)             # (horizon = step, ts)
            if any(k not in bykey for k in want):
                objs = sorted({c['formula'] for c in calls})
                rec.update(status='differ', what='schedule / formula object of `&tel { %s }` in part %s: the model builds %s and expects the calls (state, introduced at) %s; telingo translates %s, this one for %s' % (
                    ' ; '.join(lang.fml_txt(f) for f in els), part, fobj, want, objs, sorted(bykey)))
                break
            for (d, s), seg in zip(steps, segs[1:]):
                j, c = bykey[(s, s - d)]
                used.add(j)
                cl, rl = seg.split(' => ')
                mcl = [split_top(names_of(x, A)) for x in cl.split(' / ')] if cl.strip() else []
                rec['calls'] += 1
                rec['clauses'] += len(mcl)
                if mcl != c['clauses']:
                    k = next((i for i in range(min(len(mcl), len(c['clauses']))) if mcl[i] != c['clauses'][i]), min(len(mcl), len(c['clauses'])))
                    rec.update(status='differ', what='clauses of %s introduced at %d, translated at %d: clause %d is %s in telingo, %s in the model (telingo %d clauses, model %d)' % (
                        fobj, s - d, s, k, c['clauses'][k] if k < len(c['clauses']) else None, mcl[k] if k < len(mcl) else None, len(c['clauses']), len(mcl)))
                    break
                if rl.strip() == 'norules':
                    rec.update(status='modelerror', what='the model has no rule for a clause of %s' % fobj)
                    break
                mrules = []
                for x in rl.split(' / '):
                    hd, bd = x.split(':')
                    inv = {v: k_ for k_, v in A.ids.items()}
                    mrules.append(([inv[int(t)] + '@%d' % s for t in hd.split()], split_top(names_of(bd, A))))
                irules = [(q['head'], q['body']) for q in c['rules']]
                if mrules != irules:
                    k = next((i for i in range(min(len(mrules), len(irules))) if mrules[i] != irules[i]), min(len(mrules), len(irules)))
                    rec.update(status='differ', what='rule for clause %d of %s introduced at %d, translated at %d (atom base %s): telingo adds %s, the model %s' % (
                        k, fobj, s - d, s, c['base'], json.dumps(irules[k]) if k < len(irules) else None, json.dumps(mrules[k]) if k < len(mrules) else None))
                    break
                bad = [q for q in c['rules'] if not q['formula_literal_first'] or q.get('nbody') != 1 + len(q['body'])]
                if bad:
                    rec.update(status='differ', what='a rule of %s does not start with the literal of its head theory atom or has extra body literals: %s' % (fobj, json.dumps(bad[0])))
                    break
                if c['literals'] != 1:
                    rec.update(status='differ', what='head formula object with %d literals' % c['literals'])
                    break
            if rec['status'] != 'agree':
                break
        if rec['status'] == 'agree' and len(used) != len(calls):
            extra = [c for j, c in enumerate(calls) if j not in used][0]
            rec.update(status='differ', what='telingo translates a head formula the program does not contain: %s introduced at %d, translated at %d' % (extra['formula'], extra['ts'], extra['step']))
    return out


# ------------------------------------------------------------------------------------------------ the domain rule
def parse_domain(stmts):
    """the rules `heads :- __aux_k(__S); __false(__t).` of the rewritten program -> list of lists of (atom, lo, hi|None)"""
    out = []
    for st in stmts:
        m = re.match(r'^(.*) :- __aux_\d+\(__S\); __false\(__t\)\.$', st)
        if not m:
            continue
        els = []
        for el in m.group(1).split('; '):
            atom, _, cond = el.partition(': ')
            am = re.match(r'^(-?[a-z_][A-Za-z0-9_]*)\(__t\)$', atom.strip())
            lo, hi = 0, None
            ok = am is not None
            for c in ([x.strip() for x in cond.split(', ')] if cond else []):
                m1, m2 = re.match(r'^(-?\d+) <= \(__t-__S\)$', c), re.match(r'^\(__t-__S\) <= (-?\d+)$', c)
                if m1:
                    lo = int(m1.group(1))
                elif m2:
                    hi = int(m2.group(1))
                else:
                    ok = False
            els.append((am.group(1), lo, hi) if ok else ('?' + el, 0, None))
        out.append(els)
    return out


def domain_compare(ctx, css):
    """one head rule per case: the entries of Model/HeadDomain.entries against the conditional literals of the domain rule telingo writes
    (as sets; the order of the elements is a matter of C14), and every element once more in a rule of its own when there are several"""
    A = lang.Atoms(ATOMS)
    inv = {v: k for k, v in A.ids.items()}
    singles = [rules for rules in css if len(rules) == 1]
    impl = ctx.impl().run([{'cmd': 'transform', 'texts': [program(rules)]} for rules in singles], timeout=20)
    mod = ctx.model().run(['hdm %d %d %d %s' % (INI, FIN, len(rules[0][1]), ' '.join(lang.raw_tok(f, A) for f in rules[0][1])) for rules in singles], timeout=30)
    out = []
    for rules, a, m in zip(singles, impl, mod):
        rec = {'program': program(rules), 'status': 'agree', 'entries': 0, 'rules': rules}
        out.append(rec)
        if a.get('status') != 'ok':
            rec.update(status='implerror', what=json.dumps({k: a.get(k) for k in ('status', 'type', 'msg')}))
            continue
        if m is None or m.startswith('error'):
            rec.update(status='modelerror', what=str(m))
            continue
        want = set()
        for e in (m.split(' ; ') if m.strip() else []):
            aid, lo, hi = e.split()
            want.add((inv[int(aid)], int(lo), None if hi == 'inf' else int(hi)))
        rec['entries'] = len(want)
        dom = parse_domain(a['stmts'])
        got = set(dom[0]) if dom else set()
        if want != got or (dom and len(dom[0]) != len(got)):
            rec.update(status='differ', what='domain rule: telingo %s, model %s' % (sorted(got, key=str), sorted(want, key=str)))
        elif len(want) > 1 and sorted(dom[1:], key=str) != sorted([[e] for e in dom[0]], key=str):
            rec.update(status='differ', what='the atoms of the domain rule do not each have a rule of their own: %s' % dom[1:])
        elif len(want) <= 1 and len(dom) > 1:
            rec.update(status='differ', what='unexpected further domain rules: %s' % dom[1:])
    return out
