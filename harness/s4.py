"""Correspondence S4: answer sets of the real pipeline (telingo + clingo) per horizon vs the temporal stable models computed
by the extracted Coq oracle (Oracle.tsm_enum) for the same program."""
import json
import lang


def impl_requests(progs, H, extra_text=None, limit=0, hmax=None, default_config=False):
    """hmax: per-program largest horizon worth running (e.g. the oracle's bit bound); limit: answer sets enumerated per horizon (0 = all)"""
    return [{'cmd': 'solve', 'texts': [lang.prog_txt(p) + (extra_text or '')], 'imax': (H if hmax is None else min(H, hmax[i])) + 1, 'istop': 'UNKNOWN', 'limit': limit,
             'default_config': default_config}
            for i, p in enumerate(progs)]


def impl_models_by_h(ans, A, H):
    """answer -> {h: sorted list of bit masks} (with multiplicity)"""
    n = A.n()
    by = {h: [] for h in range(H + 1)}
    for h, atoms in ans.get('models', []):
        b = lang.model_bits(atoms, A, n)
        by.setdefault(h, []).append(b if b is not None else -1)
    return {h: sorted(v) for h, v in by.items()}


def compare(ctx, progs, H, maxbits=12, timeout=30, cmd='tsm', atoms_extra=None, default_config=False):
    """returns one record per program: status in agree / differ / implerror / skip / oracleerror"""
    hmax = [max(0, maxbits // max(1, lang.atoms_of(p).n() + len(atoms_extra or [])) - 1) for p in progs]
    impl = ctx.impl().run(impl_requests(progs, H, hmax=hmax, default_config=default_config), timeout=timeout)
    lines, index = [], []
    As = []
    for i, p in enumerate(progs):
        A = lang.atoms_of(p)
        for a in (atoms_extra or []):
            A.id(a)
        As.append(A)
        toks = lang.prog_tok(p, A)   # may add ids (none new) -- computed once
        for h in range(H + 1):
            if A.n() * (h + 1) <= maxbits:
                lines.append('%s %d %d %s' % (cmd, A.n(), h, toks))
                index.append((i, h))
    orc = ctx.model().run(lines, timeout=300)
    exp = {}
    for (i, h), a in zip(index, orc):
        exp[(i, h)] = a
    out = []
    for i, p in enumerate(progs):
        A = As[i]
        ans = impl[i]
        rec = {'program': lang.prog_txt(p), 'status': 'agree', 'horizons': 0, 'models': 0}
        if ans.get('status') == 'timeout':
            # a run that exceeds the watchdog is a performance matter (e.g. exponential unfolding of nested until in heads), not a
            # wrong answer: counted and skipped (hangs on small inputs are the business of C15)
            rec.update(status='skip-timeout')
            out.append(rec)
            continue
        if ans.get('status') != 'ok':
            rec.update(status='implerror', error={k: ans.get(k) for k in ('status', 'type', 'msg', 'where', 'stage')})
            out.append(rec)
            continue
        got = impl_models_by_h(ans, A, H)
        any_h = False
        for h in range(H + 1):
            a = exp.get((i, h))
            if a is None and (i, h) not in exp:
                continue
            if a is None or a == 'DIED' or a.startswith('error'):
                rec.update(status='oracleerror', error=str(a))
                break
            any_h = True
            want = sorted(int(x) for x in a.split())
            rec['horizons'] += 1
            rec['models'] += len(want)
            if want != got.get(h, []):
                n = A.n()
                rec.update(status='differ', horizon=h,
                           expected=[lang.bits_txt(b, A, n, h) for b in want],
                           got=[lang.bits_txt(b, A, n, h) if b >= 0 else '<unknown atom>' for b in got.get(h, [])],
                           atoms=A.names())
                break
        if not any_h and rec['status'] == 'agree':
            rec['status'] = 'skip'
        out.append(rec)
    return out


def shrink_rules(ctx, rules, H, fails, maxbits=12):
    """greedy delta debugging: drop rules / body literals while `fails(rules)` still holds"""
    cur = list(rules)
    changed = True
    budget = 60
    while changed and budget > 0:
        changed = False
        for i in range(len(cur)):
            cand = cur[:i] + cur[i + 1:]
            budget -= 1
            if cand and fails(cand):
                cur = cand
                changed = True
                break
        if changed:
            continue
        for i, r in enumerate(cur):
            for j in range(len(r['body'])):
                r2 = dict(r)
                r2['body'] = r['body'][:j] + r['body'][j + 1:]
                cand = cur[:i] + [r2] + cur[i + 1:]
                budget -= 1
                if fails(cand):
                    cur = cand
                    changed = True
                    break
            if changed:
                break
    return shrink_formulas(cur, fails)


def is_fml(x):
    return isinstance(x, (tuple, list)) and len(x) > 0 and isinstance(x[0], str)


def shrinks(f):
    """formulas obtained from f by replacing one sub-formula by one of its own formula children (smaller candidates first)"""
    f = tuple(f)
    kids = [(i, x) for i, x in enumerate(f[1:], 1) if is_fml(x)]
    if f[0] in ('atom', 'patom'):
        return
    for i, x in kids:
        yield tuple(x)
    for i, x in kids:
        for y in shrinks(x):
            yield f[:i] + (y,) + f[i + 1:]


def shrink_formulas(rules, fails, budget=150):
    cur = [dict(r) for r in rules]
    changed = True
    while changed and budget > 0:
        changed = False
        for i, r in enumerate(cur):
            cands = []
            if r['head'][0] == 'tel':
                for g in shrinks(r['head'][1]):
                    r2 = dict(r)
                    r2['head'] = ('tel', g)
                    cands.append(r2)
            for j, (sg, a) in enumerate(r['body']):
                if a[0] in ('tel', 'del') and a[0] == 'tel':
                    for g in shrinks(a[1]):
                        r2 = dict(r)
                        r2['body'] = r['body'][:j] + [(sg, ('tel', g))] + r['body'][j + 1:]
                        cands.append(r2)
            for r2 in cands:
                budget -= 1
                if budget <= 0:
                    break
                cand = cur[:i] + [r2] + cur[i + 1:]
                if fails(cand):
                    cur, changed = cand, True
                    break
            if changed:
                break
    return cur


def differs(ctx, H, maxbits=12):
    def f(rules):
        r = compare(ctx, [rules], H, maxbits)[0]
        return r['status'] in ('differ', 'implerror')
    return f


# ------------------------------------------------------------------------------------------------ witness-based value check
def witness_program(ctx_rules, formulas, wpart='always'):
    """context rules + one witness rule  w<i> :- not not &tel{f} / &del{f}  holding at every state (part always)"""
    rules = list(ctx_rules)
    for i, (kind, f) in enumerate(formulas):
        rules.append({'part': wpart, 'head': ('norm', 'w%d' % i, 0), 'body': [('m', (kind, f))]})
    return rules


def value_check(ctx, items, H, timeout=40, cap=None):
    """items: list of (context rules, [(kind, formula)...]).  For answer sets at every horizon 0..H of one incremental
    run (all of them up to `cap` per horizon, otherwise a seeded sample of `cap`), the witness atom w_i(k) must be in the
    answer set iff the oracle value of formula i at position k of the trace (lsat / dsat of the extracted Coq
    specification) is true.  Returns one record per item."""
    cap = cap or (24 if ctx.quick else 200)
    rng = ctx.rng('value_check_sample')
    progs = [witness_program(c, fs) for c, fs in items]
    impl = ctx.impl().run(impl_requests(progs, H, limit=(600 if ctx.quick else 3000)), timeout=timeout)
    lines, index = [], {}
    pre = []
    for i, ((c, fs), ans) in enumerate(zip(items, impl)):
        A = lang.atoms_of(c)
        for kind, f in fs:
            for a in lang.atoms_of([{'part': 'always', 'head': ('cons',), 'body': [('p', (kind, f))]}]).names():
                A.id(a)
        n = A.n()
        toks = [(lang.fml_tok(f, A) if kind == 'tel' else lang.dfml_tok(f, A)) for kind, f in fs]
        chosen = {}
        if ans.get('status') == 'ok':
            byh = {}
            for h, atoms in ans['models']:
                byh.setdefault(h, []).append(atoms)
            for h, ms in sorted(byh.items()):
                if len(ms) > cap:
                    ms = rng.sample(ms, cap)
                cs = []
                for atoms in ms:
                    user = [x for x in atoms if not x[0].startswith('__') and not (x[0].startswith('w') and x[0][1:].isdigit())]
                    cs.append((lang.model_bits(user, A, n), atoms))
                chosen[h] = cs
                for j, (kind, f) in enumerate(fs):
                    index[(i, j, h)] = len(lines)
                    lines.append('%s %d %d %s %d %s' % ('tfvs' if kind == 'tel' else 'dfvs', n, h, toks[j], len(cs), ' '.join(str(b) for b, _ in cs)))
        pre.append((A, n, chosen, len(ans.get('models', []))))
    orc = ctx.model().run(lines, timeout=120)
    out = []
    for i, ((c, fs), ans) in enumerate(zip(items, impl)):
        A, n, chosen, total = pre[i]
        rec = {'program': lang.prog_txt(progs[i]), 'status': 'agree', 'models': 0, 'values': 0, 'true_values': 0, 'answer_sets': total}
        if ans.get('status') == 'timeout':
            rec.update(status='skip-timeout')
            out.append(rec)
            continue
        if ans.get('status') != 'ok':
            rec.update(status='implerror', error={k: ans.get(k) for k in ('status', 'type', 'msg', 'where', 'stage')})
            out.append(rec)
            continue
        for h, cs in sorted(chosen.items()):
            rec['models'] += len(cs)
            for j, (kind, f) in enumerate(fs):
                a = orc[index[(i, j, h)]]
                if a is None or a == 'DIED' or a.startswith('error'):
                    rec.update(status='oracleerror', error=str(a))
                    break
                vals = a.split()
                for (bits, atoms), want in zip(cs, vals):
                    got = ''.join('1' if ['w%d' % j, [], k, True] in atoms else '0' for k in range(h + 1))
                    rec['values'] += h + 1
                    rec['true_values'] += want.count('1')
                    if got != want:
                        rec.update(status='differ', horizon=h, formula=(lang.fml_txt(f) if kind == 'tel' else lang.dfml_txt(f)),
                                   trace=lang.bits_txt(bits, A, n, h), expected=want, got=got, witness='w%d' % j)
                        break
                if rec['status'] != 'agree':
                    break
            if rec['status'] != 'agree':
                break
        out.append(rec)
    return out
