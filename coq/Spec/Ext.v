From Coq Require Import List Bool Arith Lia.
Import ListNotations.
Require Import HT.
Section Ext.
Variable A : Type.
Variable isaux : A -> bool.
Notation interp := (interp A).
Notation form := (form A).
Definition choice (x:A) : form := Or A (Var A x) (Not A (Var A x)).
Definition agree_aux (H T:interp) := forall a, isaux a = true -> H a = T a.
Lemma hsat_choice H T x : le A H T -> hsat A H T (choice x) = true <-> (T x = true -> H x = true).
Proof.
  intros L. unfold choice. cbn [hsat]. rewrite orb_true_iff.
  change (Imp A (Var A x) (Bot A)) with (Not A (Var A x)). rewrite hsat_not by assumption. simpl.
  destruct (H x), (T x); simpl; intuition congruence.
Qed.
Theorem frozen_choice (P : list form) (X : list A) (C : list form) (T : interp) :
  (forall x, In x X <-> isaux x = true) ->
  equilibrium A T (P ++ map choice X ++ map (Not A) C)
  <-> (model A T T P /\ (forall c, In c C -> csat A T c = false)
       /\ forall H, strict A H T -> agree_aux H T -> ~ model A H T P).
Proof.
  intros HX. unfold equilibrium, model. split.
  - intros [M Min]. repeat split.
    + intros f Hf. apply M. apply in_or_app; auto.
    + intros c Hc. specialize (M (Not A c)). rewrite hsat_total in M. simpl in M.
      assert (In (Not A c) (P ++ map choice X ++ map (Not A) C)) as I.
      { apply in_or_app; right; apply in_or_app; right. apply in_map; auto. }
      apply M in I. destruct (csat A T c); simpl in I; congruence.
    + intros H S Ag MP. apply (Min H S). intros f Hf.
      apply in_app_or in Hf as [Hf|Hf]; [auto|].
      apply in_app_or in Hf as [Hf|Hf].
      * apply in_map_iff in Hf as [x [<- Hx]]. apply (proj2 (hsat_choice H T x (proj1 S))).
        intros Tx. rewrite Ag; auto. apply HX; auto.
      * apply in_map_iff in Hf as [c [<- Hc]]. rewrite hsat_not by apply S.
        specialize (M (Not A c)). rewrite hsat_total in M. simpl in M.
        assert (In (Not A c) (P ++ map choice X ++ map (Not A) C)) as I.
        { apply in_or_app; right; apply in_or_app; right. apply in_map; auto. }
        apply M in I. destruct (csat A T c); simpl in *; congruence.
  - intros [MP [MC Min]]. split.
    + intros f Hf. apply in_app_or in Hf as [Hf|Hf]; [auto|].
      apply in_app_or in Hf as [Hf|Hf].
      * apply in_map_iff in Hf as [x [<- Hx]]. apply (proj2 (hsat_choice T T x (fun a h => h))). intros; assumption.
      * apply in_map_iff in Hf as [c [<- Hc]]. rewrite hsat_total. simpl. rewrite (MC c Hc). reflexivity.
    + intros H S M. apply (Min H S).
      * intros a Ha. apply HX in Ha.
        assert (hsat A H T (choice a) = true) as Hc.
        { apply M. apply in_or_app; right; apply in_or_app; left. apply in_map; auto. }
        pose proof (proj1 (hsat_choice H T a (proj1 S)) Hc) as Hc'.
        destruct (T a) eqn:Ta; [apply Hc'; reflexivity|]. destruct (H a) eqn:Ha'; [|reflexivity]. apply (proj1 S) in Ha'. congruence.
      * intros f Hf. apply M. apply in_or_app; auto.
Qed.
End Ext.

