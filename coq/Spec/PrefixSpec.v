From Coq Require Import List Bool Arith Lia.
Import ListNotations.
Require Import HT TEL TELext.
(* C17 at the specification level: for past-only programs, a temporal stable model of length h+2, restricted to its first h+1
   states, is a temporal stable model of length h+1.  Rules are (part, body, head) with denotation body -> head. *)
Section C17.
Variable A : Type.
Notation tf := (tf A).
Fixpoint past_only (p:tf) : bool :=
  match p with
  | TBot _ | TAt _ _ | TAt0 _ _ => true
  | TAnd _ x y | TOr _ x y | TImp _ x y | TSi _ x y | TTr _ x y => past_only x && past_only y
  | TPv _ _ _ x => past_only x
  | TNx _ _ _ _ | TUn _ _ _ | TRl _ _ _ => false
  end.
Fixpoint present_only (p:tf) : bool :=
  match p with
  | TBot _ | TAt _ _ => true
  | TAnd _ x y | TOr _ x y | TImp _ x y => present_only x && present_only y
  | _ => false
  end.
Lemma lsat_past h h' T p : past_only p = true -> forall k, lsat A h T p k = lsat A h' T p k.
Proof.
  induction p as [|a|a|x IHx y IHy|x IHx y IHy|x IHx y IHy|w n x IH|w n x IH|x IHx y IHy|x IHx y IHy|x IHx y IHy|x IHx y IHy];
    cbn [past_only lsat]; intros P k; try reflexivity; try discriminate;
    try (apply andb_true_iff in P as [P1 P2]).
  - now rewrite (IHx P1), (IHy P2). - now rewrite (IHx P1), (IHy P2). - now rewrite (IHx P1), (IHy P2).
  - destruct (n <=? k); [now apply IH|reflexivity].
  - apply pst_ext. intros j _. split; [now apply IHx|now apply IHy].
  - apply pst_ext. intros j _. split; [now apply IHx|now apply IHy].
Qed.
Lemma tsat_past h h' H T p : past_only p = true -> forall k, tsat A h H T p k = tsat A h' H T p k.
Proof.
  induction p as [|a|a|x IHx y IHy|x IHx y IHy|x IHx y IHy|w n x IH|w n x IH|x IHx y IHy|x IHx y IHy|x IHx y IHy|x IHx y IHy];
    cbn [past_only tsat]; intros P k; try reflexivity; try discriminate;
    try (apply andb_true_iff in P as [P1 P2]).
  - now rewrite (IHx P1), (IHy P2). - now rewrite (IHx P1), (IHy P2).
  - now rewrite (IHx P1), (IHy P2), (lsat_past h h' T x P1), (lsat_past h h' T y P2).
  - destruct (n <=? k); [now apply IH|reflexivity].
  - apply pst_ext. intros j _. split; [now apply IHx|now apply IHy].
  - apply pst_ext. intros j _. split; [now apply IHx|now apply IHy].
Qed.
(* present-only formulas at position k read only state k *)
Lemma lsat_present h h' T T' p k : present_only p = true -> (forall a, T k a = T' k a) -> lsat A h T p k = lsat A h' T' p k.
Proof.
  induction p; cbn [present_only lsat]; intros P E; try reflexivity; try discriminate;
    try (apply andb_true_iff in P as [P1 P2]; rewrite (IHp1 P1 E), (IHp2 P2 E); reflexivity). apply E.
Qed.
Lemma tsat_present h h' H T H' T' p k : present_only p = true -> (forall a, H k a = H' k a) -> (forall a, T k a = T' k a) ->
  tsat A h H T p k = tsat A h' H' T' p k.
Proof.
  induction p; cbn [present_only tsat]; intros P EH ET; try reflexivity; try discriminate;
    try (apply andb_true_iff in P as [P1 P2]; rewrite (IHp1 P1 EH ET), (IHp2 P2 EH ET)); try reflexivity.
  - apply EH.
  - now rewrite (lsat_present h h' T T' p1 k P1 ET), (lsat_present h h' T T' p2 k P2 ET).
Qed.
Lemma tsat_total h T p : forall k, tsat A h T T p k = lsat A h T p k.
Proof.
  induction p as [|a|a|x IHx y IHy|x IHx y IHy|x IHx y IHy|w n x IH|w n x IH|x IHx y IHy|x IHx y IHy|x IHx y IHy|x IHx y IHy];
    intros k; cbn [tsat lsat]; try reflexivity; rewrite ?IHx, ?IHy; try reflexivity.
  - destruct (lsat A h T x k), (lsat A h T y k); reflexivity.
  - destruct (k+n <=? h); [apply IH|reflexivity].
  - destruct (n <=? k); [apply IH|reflexivity].
  - apply fut_ext. intros j _. split; [apply IHx|apply IHy].
  - apply fut_ext. intros j _. split; [apply IHx|apply IHy].
  - apply pst_ext. intros j _. split; [apply IHx|apply IHy].
  - apply pst_ext. intros j _. split; [apply IHx|apply IHy].
Qed.
Inductive part := Initial | Always | Dynamic.            (* no final part in a past-only program *)
Record rule := { rp : part; rb : tf; rh : tf }.
Definition wf (r:rule) := past_only (rb r) = true /\ present_only (rh r) = true.
Definition admissible (p:part) (k:nat) : bool := match p with Initial => k =? 0 | Always => true | Dynamic => 0 <? k end.
Variable P : list rule.
Hypothesis P_wf : forall r, In r P -> wf r.
Definition tmodel (h:nat) (H T:trace A) := forall r k, In r P -> k <= h -> admissible (rp r) k = true -> tsat A h H T (TImp A (rb r) (rh r)) k = true.
Definition tle (h:nat) (H T:trace A) := forall k a, k <= h -> H k a = true -> T k a = true.
Definition tstrict (h:nat) (H T:trace A) := tle h H T /\ exists k a, k <= h /\ T k a = true /\ H k a = false.
Definition tsm (h:nat) (T:trace A) := tmodel h T T /\ forall H, tstrict h H T -> ~ tmodel h H T.
Lemma rule_indep h h' H T r k : wf r -> tsat A h H T (TImp A (rb r) (rh r)) k = tsat A h' H T (TImp A (rb r) (rh r)) k.
Proof.
  intros [Pb Ph]. cbn [tsat]. rewrite (tsat_past h h' H T _ Pb), (lsat_past h h' T _ Pb).
  now rewrite (tsat_present h h' H T H T _ k Ph (fun _ => eq_refl) (fun _ => eq_refl)), (lsat_present h h' T T _ k Ph (fun _ => eq_refl)).
Qed.
Theorem C17_spec h T : tsm (S h) T -> tsm h T.
Proof.
  intros [M Min]. split.
  - intros r k Hr Hk Adm. rewrite (rule_indep h (S h) T T r k (P_wf r Hr)). apply M; auto.
  - intros H [Hle [k0 [a0 [Hk0 [Ta Ha]]]]] MH.
    (* extend H by the last state of T *)
    set (H' := fun k a => if k <=? h then H k a else T k a).
    apply (Min H').
    + split.
      * intros k a Hk. unfold H'. destruct (k <=? h) eqn:E; [apply Nat.leb_le in E; now apply Hle|auto].
      * exists k0, a0. split; [lia|]. split; [exact Ta|]. unfold H'. now assert (k0 <=? h = true) as -> by now apply Nat.leb_le.
    + intros r k Hr Hk Adm. destruct (P_wf r Hr) as [Pb Ph].
      destruct (Nat.le_gt_cases k h) as [Le|Gt].
      * (* an old position: only states <= k <= h are read, where H' = H *)
        rewrite <- (rule_indep h (S h) H' T r k (P_wf r Hr)).
        rewrite (tsat_ext A h H' T H T); [now apply MH| |reflexivity|exact Le].
        intros j a Hj. unfold H'. now assert (j <=? h = true) as -> by now apply Nat.leb_le.
      * (* the new last position: here and there worlds coincide on it *)
        assert (k = S h) as -> by lia.
        assert (forall a, H' (S h) a = T (S h) a) as Same.
        { intros a. unfold H'. now assert (S h <=? h = false) as -> by (apply Nat.leb_gt; lia). }
        pose proof (M r (S h) Hr (le_n _) Adm) as MT. cbn [tsat] in *.
        apply andb_true_iff in MT as [_ MT]. rewrite MT, andb_true_r.
        destruct (tsat A (S h) H' T (rb r) (S h)) eqn:B; cbn [implb]; [|reflexivity].
        assert (tle (S h) H' T) as L'.
        { intros j a Hj. unfold H'. destruct (j <=? h) eqn:E; [apply Nat.leb_le in E; now apply Hle|auto]. }
        assert (lsat A (S h) T (rb r) (S h) = true) as BT.
        { apply (tsat_persist A (S h) H' T); [|exact B]. intros i a Hi. unfold H' in Hi. destruct (i <=? h) eqn:E; [apply Nat.leb_le in E; now apply (Hle i a)|exact Hi]. }
        rewrite BT in MT. cbn [implb] in MT.
        rewrite (tsat_present (S h) (S h) H' T T T (rh r) (S h) Ph Same (fun _ => eq_refl)). now rewrite tsat_total.
Qed.
End C17.

