From Coq Require Import List Bool Arith Lia.
Import ListNotations.
Section HT.
Variable A : Type.
Definition interp := A -> bool.
Definition le (H T : interp) := forall a, H a = true -> T a = true.
Inductive form := Bot | Var (a:A) | And (f g:form) | Or (f g:form) | Imp (f g:form).
Fixpoint csat (T:interp) (f:form) : bool :=
  match f with
  | Bot => false | Var a => T a
  | And f g => csat T f && csat T g
  | Or f g => csat T f || csat T g
  | Imp f g => implb (csat T f) (csat T g)
  end.
Fixpoint hsat (H T:interp) (f:form) : bool :=
  match f with
  | Bot => false | Var a => H a
  | And f g => hsat H T f && hsat H T g
  | Or f g => hsat H T f || hsat H T g
  | Imp f g => implb (hsat H T f) (hsat H T g) && implb (csat T f) (csat T g)
  end.
Lemma persist H T f : le H T -> hsat H T f = true -> csat T f = true.
Proof.
  intros L; induction f; simpl; intros S; try discriminate.
  - apply L; exact S.
  - apply andb_true_iff in S as [S1 S2]. rewrite IHf1, IHf2; auto.
  - apply orb_true_iff in S as [S1|S1]; [rewrite IHf1|rewrite IHf2]; auto using orb_true_r.
  - apply andb_true_iff in S as [_ S2]; exact S2.
Qed.
Lemma hsat_total T f : hsat T T f = csat T f.
Proof. induction f; simpl; rewrite ?IHf1, ?IHf2; auto. destruct (csat T f1), (csat T f2); reflexivity. Qed.
Definition Not f := Imp f Bot.
Lemma hsat_not H T f : le H T -> hsat H T (Not f) = negb (csat T f).
Proof.
  intros L; simpl. destruct (csat T f) eqn:E; simpl.
  - rewrite andb_false_r; reflexivity.
  - destruct (hsat H T f) eqn:E2; simpl; auto. apply persist in E2; auto; congruence.
Qed.
Definition model (H T:interp) (G:list form) := forall f, In f G -> hsat H T f = true.
Definition strict (H T:interp) := le H T /\ exists a, T a = true /\ H a = false.
Definition equilibrium (T:interp) (G:list form) := model T T G /\ forall H, strict H T -> ~ model H T G.
End HT.
