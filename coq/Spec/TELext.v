From Coq Require Import List Bool Arith Lia.
Require Import HT TEL.
Section Ext.
Variable A : Type.
Variable h : nat.
Lemma fut_ext u sx sy sx' sy' d : forall k, (forall j, k <= j <= k+d -> sx j = sx' j /\ sy j = sy' j) -> fut u sx sy d k = fut u sx' sy' d k.
Proof.
  induction d as [|d IH]; intros k E; cbn [fut].
  - apply E; lia.
  - destruct (E k ltac:(lia)) as [-> ->]. rewrite (IH (S k)); [reflexivity|]. intros j Hj. apply E. lia.
Qed.
Lemma pst_ext u sx sy sx' sy' : forall k, (forall j, j <= k -> sx j = sx' j /\ sy j = sy' j) -> pst u sx sy k = pst u sx' sy' k.
Proof.
  induction k as [|k IH]; intros E; cbn [pst].
  - apply E; lia.
  - destruct (E (S k) ltac:(lia)) as [-> ->]. rewrite IH; [reflexivity|]. intros j Hj. apply E. lia.
Qed.
Lemma lsat_ext (T1 T2 : trace A) : (forall k a, k <= h -> T1 k a = T2 k a) -> forall p k, k <= h -> lsat A h T1 p k = lsat A h T2 p k.
Proof.
  intros ET p. induction p as [|a|a|x IHx y IHy|x IHx y IHy|x IHx y IHy|w n x IH|w n x IH|x IHx y IHy|x IHx y IHy|x IHx y IHy|x IHx y IHy];
    intros k Hk; cbn [lsat]; try reflexivity; try (rewrite IHx, IHy by assumption; reflexivity).
  - apply ET; assumption.
  - apply ET; lia.
  - destruct (k+n <=? h) eqn:E; [apply IH; apply Nat.leb_le in E; lia|reflexivity].
  - destruct (n <=? k) eqn:E; [apply IH; lia|reflexivity].
  - apply fut_ext. intros j Hj. split; [apply IHx|apply IHy]; lia.
  - apply fut_ext. intros j Hj. split; [apply IHx|apply IHy]; lia.
  - apply pst_ext. intros j Hj. split; [apply IHx|apply IHy]; lia.
  - apply pst_ext. intros j Hj. split; [apply IHx|apply IHy]; lia.
Qed.
Lemma tsat_ext (H1 T1 H2 T2 : trace A) : (forall k a, k <= h -> H1 k a = H2 k a) -> (forall k a, k <= h -> T1 k a = T2 k a) ->
  forall p k, k <= h -> tsat A h H1 T1 p k = tsat A h H2 T2 p k.
Proof.
  intros EH ET p. induction p as [|a|a|x IHx y IHy|x IHx y IHy|x IHx y IHy|w n x IH|w n x IH|x IHx y IHy|x IHx y IHy|x IHx y IHy|x IHx y IHy];
    intros k Hk; cbn [tsat]; try reflexivity; try (rewrite IHx, IHy by assumption; reflexivity).
  - apply EH; assumption.
  - apply EH; lia.
  - rewrite IHx, IHy by assumption. now rewrite (lsat_ext T1 T2 ET x k Hk), (lsat_ext T1 T2 ET y k Hk).
  - destruct (k+n <=? h) eqn:E; [apply IH; apply Nat.leb_le in E; lia|reflexivity].
  - destruct (n <=? k) eqn:E; [apply IH; lia|reflexivity].
  - apply fut_ext. intros j Hj. split; [apply IHx|apply IHy]; lia.
  - apply fut_ext. intros j Hj. split; [apply IHx|apply IHy]; lia.
  - apply pst_ext. intros j Hj. split; [apply IHx|apply IHy]; lia.
  - apply pst_ext. intros j Hj. split; [apply IHx|apply IHy]; lia.
Qed.
End Ext.
