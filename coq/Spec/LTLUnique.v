From Coq Require Import List Bool Arith Lia.
Section S.
Variable A : Type.
Inductive f := At (a:A) | Neg (x:f) | And (x y:f) | Nx (weak:bool) (n:nat) (x:f) | Pv (weak:bool) (n:nat) (x:f)
             | Un (x y:f) | Rl (x y:f) | Si (x y:f) | Tr (x y:f).
Variable T : nat -> A -> bool.
Variable h : nat.
Fixpoint fut (until:bool) (sx sy : nat -> bool) (d k:nat) : bool :=
  match d with
  | 0 => sy k
  | S d' => if until then sy k || (sx k && fut until sx sy d' (S k)) else sy k && (sx k || fut until sx sy d' (S k))
  end.
Fixpoint pst (since:bool) (sx sy : nat -> bool) (k:nat) : bool :=
  match k with
  | 0 => sy 0
  | S k' => if since then sy k || (sx k && pst since sx sy k') else sy k && (sx k || pst since sx sy k')
  end.
Fixpoint sat (p:f) : nat -> bool :=
  match p with
  | At a => fun k => T k a
  | Neg x => fun k => negb (sat x k)
  | And x y => fun k => sat x k && sat y k
  | Nx w n x => fun k => if k+n <=? h then sat x (k+n) else w
  | Pv w n x => fun k => if n <=? k then sat x (k-n) else w
  | Un x y => fun k => fut true (sat x) (sat y) (h-k) k
  | Rl x y => fun k => fut false (sat x) (sat y) (h-k) k
  | Si x y => fun k => pst true (sat x) (sat y) k
  | Tr x y => fun k => pst false (sat x) (sat y) k
  end.
(* readable characterisation of until *)
Lemma fut_until_spec sx sy d k :
  fut true sx sy d k = true <-> exists j, k <= j <= k+d /\ sy j = true /\ forall i, k <= i < j -> sx i = true.
Proof.
  revert k; induction d as [|d IH]; intros k; cbn [fut].
  - split.
    + intros Hy. exists k. split; [lia|]. split; [exact Hy|]. intros; lia.
    + intros [j [Hj [Hy _]]]. assert (j = k) by lia. subst; auto.
  - rewrite orb_true_iff, andb_true_iff, IH. split.
    + intros [Hy|[Hx [j [Hj [Hy Ha]]]]].
      * exists k. split; [lia|]. split; [exact Hy|]. intros; lia.
      * exists j. split; [lia|]. split; [exact Hy|]. intros i Hi. destruct (Nat.eq_dec i k); [subst; auto|apply Ha; lia].
    + intros [j [Hj [Hy Ha]]]. destruct (Nat.eq_dec j k); [subst; auto|]. right. split; [apply Ha; lia|].
      exists j. split; [lia|]. split; [exact Hy|]. intros; apply Ha; lia.
Qed.
(* the definitional equations emitted by the translation, read at horizon h *)
Definition eqs (v : f -> nat -> bool) : Prop := forall k, k <= h ->
  (forall a, v (At a) k = T k a) /\
  (forall x, v (Neg x) k = negb (v x k)) /\
  (forall x y, v (And x y) k = v x k && v y k) /\
  (forall w n x, v (Nx w n x) k = if k+n <=? h then v x (k+n) else w) /\
  (forall w n x, v (Pv w n x) k = if n <=? k then v x (k-n) else w) /\
  (forall x y, v (Un x y) k = v y k || (v x k && v (Nx false 1 (Un x y)) k)) /\
  (forall x y, v (Rl x y) k = v y k && (v x k || v (Nx true 1 (Rl x y)) k)) /\
  (forall x y, v (Si x y) k = match k with 0 => v y 0 | S k' => v y k || (v x k && v (Si x y) k') end) /\
  (forall x y, v (Tr x y) k = match k with 0 => v y 0 | S k' => v y k && (v x k || v (Tr x y) k') end).
Theorem unique v : eqs v -> forall p k, k <= h -> v p k = sat p k.
Proof.
  intros E p; induction p as [a|x IH|x IHx y IHy|w n x IH|w n x IH|x IHx y IHy|x IHx y IHy|x IHx y IHy|x IHx y IHy]; intros k Hk;
    destruct (E k Hk) as (E1&E2&E3&E4&E5&E6&E7&E8&E9); cbn [sat].
  - apply E1.
  - rewrite E2, IH; auto.
  - rewrite E3, IHx, IHy; auto.
  - rewrite E4. destruct (k+n <=? h) eqn:L; auto. apply IH. apply Nat.leb_le in L; lia.
  - rewrite E5. destruct (n <=? k) eqn:L; auto. apply IH. lia.
  - remember (h-k) as d eqn:Hd. revert k Hk Hd E1 E2 E3 E4 E5 E6 E7 E8 E9.
    induction d as [|d IHd]; intros k Hk Hd _ _ _ E4 _ E6 _ _ _; rewrite E6, E4, IHx, IHy by auto; cbn [fut].
    + assert (k+1 <=? h = false) as -> by (apply Nat.leb_gt; lia). rewrite andb_false_r, orb_false_r. reflexivity.
    + assert (k+1 <=? h = true) as -> by (apply Nat.leb_le; lia).
      replace (k+1) with (S k) by lia. f_equal. f_equal.
      assert (S k <= h) as Hk' by lia. destruct (E (S k) Hk') as (F1&F2&F3&F4&F5&F6&F7&F8&F9).
      apply IHd; auto. lia.
  - remember (h-k) as d eqn:Hd. revert k Hk Hd E1 E2 E3 E4 E5 E6 E7 E8 E9.
    induction d as [|d IHd]; intros k Hk Hd _ _ _ E4 _ _ E7 _ _; rewrite E7, E4, IHx, IHy by auto; cbn [fut].
    + assert (k+1 <=? h = false) as -> by (apply Nat.leb_gt; lia). rewrite orb_true_r, andb_true_r. reflexivity.
    + assert (k+1 <=? h = true) as -> by (apply Nat.leb_le; lia).
      replace (k+1) with (S k) by lia. f_equal. f_equal.
      assert (S k <= h) as Hk' by lia. destruct (E (S k) Hk') as (F1&F2&F3&F4&F5&F6&F7&F8&F9).
      apply IHd; auto. lia.
  - clear E1 E2 E3 E4 E5 E6 E7 E9. revert Hk E8. induction k as [|k IHk]; intros Hk E8; rewrite E8; cbn [pst].
    + apply IHy; lia.
    + rewrite IHx, IHy by auto. f_equal. f_equal. assert (k <= h) as Hk' by lia.
      destruct (E k Hk') as (_&_&_&_&_&_&_&F8&_). apply IHk; auto.
  - clear E1 E2 E3 E4 E5 E6 E7 E8. revert Hk E9. induction k as [|k IHk]; intros Hk E9; rewrite E9; cbn [pst].
    + apply IHy; lia.
    + rewrite IHx, IHy by auto. f_equal. f_equal. assert (k <= h) as Hk' by lia.
      destruct (E k Hk') as (_&_&_&_&_&_&_&_&F9). apply IHk; auto.
Qed.
End S.

