From Coq Require Import List Bool Arith Lia.
Require Import HT.
Section TEL.
Variable A : Type.
Inductive tf := TBot | TAt (a:A) | TAt0 (a:A) | TAnd (x y:tf) | TOr (x y:tf) | TImp (x y:tf)
              | TNx (weak:bool) (n:nat) (x:tf) | TPv (weak:bool) (n:nat) (x:tf)
              | TUn (x y:tf) | TRl (x y:tf) | TSi (x y:tf) | TTr (x y:tf).
Definition trace := nat -> A -> bool.
Variable h : nat.                                  (* last position; length = S h *)
Fixpoint fut (until:bool) (sx sy : nat -> bool) (d k:nat) : bool :=
  match d with
  | 0 => sy k
  | S d' => if until then sy k || (sx k && fut until sx sy d' (S k)) else sy k && (sx k || fut until sx sy d' (S k))
  end.
Fixpoint pst (since:bool) (sx sy : nat -> bool) (k:nat) : bool :=
  match k with
  | 0 => sy 0
  | S k' => if since then sy k || (sx k && pst since sx sy k') else sy k && (sx k || pst since sx sy k')
  end.
(* classical (LTLf) and here-and-there (THT_f) satisfaction *)
Fixpoint lsat (T:trace) (p:tf) : nat -> bool :=
  match p with
  | TBot => fun _ => false
  | TAt a => fun k => T k a
  | TAt0 a => fun _ => T 0 a
  | TAnd x y => fun k => lsat T x k && lsat T y k
  | TOr x y => fun k => lsat T x k || lsat T y k
  | TImp x y => fun k => implb (lsat T x k) (lsat T y k)
  | TNx w n x => fun k => if k+n <=? h then lsat T x (k+n) else w
  | TPv w n x => fun k => if n <=? k then lsat T x (k-n) else w
  | TUn x y => fun k => fut true (lsat T x) (lsat T y) (h-k) k
  | TRl x y => fun k => fut false (lsat T x) (lsat T y) (h-k) k
  | TSi x y => fun k => pst true (lsat T x) (lsat T y) k
  | TTr x y => fun k => pst false (lsat T x) (lsat T y) k
  end.
Fixpoint tsat (H T:trace) (p:tf) : nat -> bool :=
  match p with
  | TBot => fun _ => false
  | TAt a => fun k => H k a
  | TAt0 a => fun _ => H 0 a
  | TAnd x y => fun k => tsat H T x k && tsat H T y k
  | TOr x y => fun k => tsat H T x k || tsat H T y k
  | TImp x y => fun k => implb (tsat H T x k) (tsat H T y k) && implb (lsat T x k) (lsat T y k)
  | TNx w n x => fun k => if k+n <=? h then tsat H T x (k+n) else w
  | TPv w n x => fun k => if n <=? k then tsat H T x (k-n) else w
  | TUn x y => fun k => fut true (tsat H T x) (tsat H T y) (h-k) k
  | TRl x y => fun k => fut false (tsat H T x) (tsat H T y) (h-k) k
  | TSi x y => fun k => pst true (tsat H T x) (tsat H T y) k
  | TTr x y => fun k => pst false (tsat H T x) (tsat H T y) k
  end.
(* unfolding onto propositional HT over time-stamped atoms *)
Notation pf := (form (A*nat)).
Definition PTop : pf := Imp _ (Bot _) (Bot _).
Definition cst (b:bool) : pf := if b then PTop else Bot _.
Fixpoint ufut (until:bool) (ux uy : nat -> pf) (d k:nat) : pf :=
  match d with
  | 0 => uy k
  | S d' => if until then Or _ (uy k) (And _ (ux k) (ufut until ux uy d' (S k))) else And _ (uy k) (Or _ (ux k) (ufut until ux uy d' (S k)))
  end.
Fixpoint upst (since:bool) (ux uy : nat -> pf) (k:nat) : pf :=
  match k with
  | 0 => uy 0
  | S k' => if since then Or _ (uy k) (And _ (ux k) (upst since ux uy k')) else And _ (uy k) (Or _ (ux k) (upst since ux uy k'))
  end.
Fixpoint unf (p:tf) : nat -> pf :=
  match p with
  | TBot => fun _ => Bot _
  | TAt a => fun k => Var _ (a,k)
  | TAt0 a => fun _ => Var _ (a,0)
  | TAnd x y => fun k => And _ (unf x k) (unf y k)
  | TOr x y => fun k => Or _ (unf x k) (unf y k)
  | TImp x y => fun k => Imp _ (unf x k) (unf y k)
  | TNx w n x => fun k => if k+n <=? h then unf x (k+n) else cst w
  | TPv w n x => fun k => if n <=? k then unf x (k-n) else cst w
  | TUn x y => fun k => ufut true (unf x) (unf y) (h-k) k
  | TRl x y => fun k => ufut false (unf x) (unf y) (h-k) k
  | TSi x y => fun k => upst true (unf x) (unf y) k
  | TTr x y => fun k => upst false (unf x) (unf y) k
  end.
Definition flat (T:trace) : interp (A*nat) := fun '(a,k) => T k a.
Lemma csat_cst T b : csat _ T (cst b) = b.  Proof. destruct b; reflexivity. Qed.
Lemma hsat_cst H T b : hsat _ H T (cst b) = b.  Proof. destruct b; reflexivity. Qed.
Lemma ufut_c T u ux uy sx sy d : (forall k, csat _ T (ux k) = sx k) -> (forall k, csat _ T (uy k) = sy k) ->
  forall k, csat _ T (ufut u ux uy d k) = fut u sx sy d k.
Proof. intros Hx Hy; induction d as [|d IH]; intros k; cbn [ufut fut]; [apply Hy|]. destruct u; cbn [csat]; now rewrite Hx, Hy, IH. Qed.
Lemma upst_c T u ux uy sx sy : (forall k, csat _ T (ux k) = sx k) -> (forall k, csat _ T (uy k) = sy k) ->
  forall k, csat _ T (upst u ux uy k) = pst u sx sy k.
Proof. intros Hx Hy k; induction k as [|k IH]; cbn [upst pst]; [apply Hy|]. destruct u; cbn [csat]; now rewrite Hx, Hy, IH. Qed.
Lemma unf_classical T p : forall k, csat _ (flat T) (unf p k) = lsat T p k.
Proof.
  induction p as [|a|a|x IHx y IHy|x IHx y IHy|x IHx y IHy|w n x IH|w n x IH|x IHx y IHy|x IHx y IHy|x IHx y IHy|x IHx y IHy];
    intros k; cbn [unf lsat csat]; try reflexivity; rewrite ?IHx, ?IHy; try reflexivity.
  - destruct (k+n <=? h); [apply IH|apply csat_cst].
  - destruct (n <=? k); [apply IH|apply csat_cst].
  - now apply ufut_c. - now apply ufut_c. - now apply upst_c. - now apply upst_c.
Qed.
Lemma ufut_h H T u ux uy sx sy d : (forall k, hsat _ H T (ux k) = sx k) -> (forall k, hsat _ H T (uy k) = sy k) ->
  forall k, hsat _ H T (ufut u ux uy d k) = fut u sx sy d k.
Proof. intros Hx Hy; induction d as [|d IH]; intros k; cbn [ufut fut]; [apply Hy|]. destruct u; cbn [hsat]; now rewrite Hx, Hy, IH. Qed.
Lemma upst_h H T u ux uy sx sy : (forall k, hsat _ H T (ux k) = sx k) -> (forall k, hsat _ H T (uy k) = sy k) ->
  forall k, hsat _ H T (upst u ux uy k) = pst u sx sy k.
Proof. intros Hx Hy k; induction k as [|k IH]; cbn [upst pst]; [apply Hy|]. destruct u; cbn [hsat]; now rewrite Hx, Hy, IH. Qed.
Theorem unfolding H T p : forall k, hsat _ (flat H) (flat T) (unf p k) = tsat H T p k.
Proof.
  induction p as [|a|a|x IHx y IHy|x IHx y IHy|x IHx y IHy|w n x IH|w n x IH|x IHx y IHy|x IHx y IHy|x IHx y IHy|x IHx y IHy];
    intros k; cbn [unf tsat hsat]; try reflexivity; rewrite ?IHx, ?IHy, ?unf_classical; try reflexivity.
  - destruct (k+n <=? h); [apply IH|apply hsat_cst].
  - destruct (n <=? k); [apply IH|apply hsat_cst].
  - now apply ufut_h. - now apply ufut_h. - now apply upst_h. - now apply upst_h.
Qed.
(* persistence for THT_f follows from the propositional one through the unfolding *)
Corollary tsat_persist H T p k : (forall i a, H i a = true -> T i a = true) -> tsat H T p k = true -> lsat T p k = true.
Proof.
  intros L S. rewrite <- unfolding in S. rewrite <- unf_classical. eapply persist; [|exact S]. intros [a i]; apply L.
Qed.
End TEL.

