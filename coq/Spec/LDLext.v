(* Facts about the executable diamond LDL.ds that do not depend on any formula syntax: extensionality inside the trace, paths that consume a step,
   the relational reading of both modalities, and the fix-point equations of iteration that translate_KleeneStarPath writes down.
   (Moved out of Model/DynReduce.v so that Model/BodyTheoryFull.v can use them without depending on proofs over regenerated tables.) *)
From Coq Require Import List Bool Arith Lia.
Require Import LDL.
Section LDLext.
Variable A : Type.
Variable h : nat.
Variable T : trace A.
Notation path := (path A).
Notation ds := (ds A h T).
Notation run := (run A h T).
Lemma ds_ext_h p : forall c c' k, k <= h -> (forall j, k <= j <= h -> c j = c' j) -> ds p c k = ds p c' k.
Proof.
  induction p as [|t|p IHp q IHq|p IHp q IHq|p IHp]; intros c c' k Hk E; cbn [LDL.ds].
  - destruct (k <? h) eqn:L; cbn; [|reflexivity]. apply Nat.ltb_lt in L. apply E; lia.
  - rewrite (E k); [reflexivity|lia].
  - now rewrite (IHp c c' k Hk E), (IHq c c' k Hk E).
  - apply IHp; [exact Hk|]. intros i Hi. apply IHq; [lia|]. intros j Hj. apply E. lia.
  - generalize (S h - k) as fuel. intros fuel. revert k Hk E. induction fuel as [|f IHf]; intros k Hk E.
    + now rewrite (E k) by lia.
    + rewrite (E k) by lia. f_equal. apply IHp; [exact Hk|]. intros j Hj. destruct (k <? j) eqn:L; cbn; [|reflexivity].
      apply IHf; [lia|]. intros i Hi. apply E. apply Nat.ltb_lt in L. lia.
Qed.
Lemma ds_false p : forall k, ds p (fun _ => false) k = false.
Proof.
  induction p as [|t|p IHp q IHq|p IHp q IHq|p IHp]; intros k; cbn [LDL.ds].
  - now rewrite andb_false_r.
  - now rewrite andb_false_r.
  - now rewrite IHp, IHq.
  - rewrite (ds_ext A h T p (LDL.ds A h T q (fun _ => false)) (fun _ => false) k); [apply IHp|]. intros j _. apply IHq.
  - generalize (S h - k) as fuel. intros fuel. revert k. induction fuel as [|f IHf]; intros k; cbn; [reflexivity|].
    rewrite (ds_ext A h T p _ (fun _ => false) k); [apply IHp|]. intros j _. cbn in IHf. rewrite IHf. apply andb_false_r.
Qed.
(* paths every run of which makes at least one step *)
Fixpoint consuming (p : path) : bool :=
  match p with
  | Skip _ => true | Test _ _ => false
  | Choice _ a b => consuming a && consuming b
  | Seq _ a b => consuming a || consuming b
  | Star _ _ => false
  end.
Fixpoint wfp (p : path) : bool :=
  match p with
  | Skip _ | Test _ _ => true
  | Choice _ a b | Seq _ a b => wfp a && wfp b
  | Star _ q => consuming q && wfp q
  end.
Lemma consuming_ext p : consuming p = true -> forall c c' k, k <= h -> (forall j, k < j <= h -> c j = c' j) -> ds p c k = ds p c' k.
Proof.
  induction p as [|t|p IHp q IHq|p IHp q IHq|p IHp]; cbn [consuming]; intros C c c' k Hk E; try discriminate; cbn [LDL.ds].
  - destruct (k <? h) eqn:L; cbn; [|reflexivity]. apply Nat.ltb_lt in L. apply E; lia.
  - apply andb_true_iff in C as [Cp Cq]. now rewrite (IHp Cp c c' k Hk E), (IHq Cq c c' k Hk E).
  - apply orb_true_iff in C as [Cp|Cq].
    + apply IHp; [exact Cp|exact Hk|]. intros i Hi. apply ds_ext_h; [lia|]. intros j Hj. apply E. lia.
    + apply ds_ext_h; [exact Hk|]. intros i Hi. apply IHq; [exact Cq|lia|]. intros j Hj. apply E. lia.
Qed.
Lemma consuming_final p : consuming p = true -> forall c, ds p c h = false.
Proof.
  intros C c. rewrite (consuming_ext p C c (fun _ => false) h (le_n h)); [apply ds_false|]. intros j Hj. lia.
Qed.
(* the two modalities, relationally *)
Lemma dia_iff p c k : k <= h -> (ds p c k = true <-> exists j, run p k j /\ c j = true).
Proof. apply diamond_spec. Qed.
Lemma box_iff p c k : k <= h -> (negb (ds p (fun j => negb (c j)) k) = true <-> forall j, run p k j -> c j = true).
Proof.
  intros Hk. rewrite negb_true_iff. split.
  - intros F j R. destruct (c j) eqn:E; [reflexivity|exfalso].
    assert (ds p (fun j => negb (c j)) k = true) as X by (apply (proj2 (dia_iff p _ k Hk)); exists j; split; [exact R|now rewrite E]).
    congruence.
  - intros Hall. destruct (ds p (fun j => negb (c j)) k) eqn:E; [exfalso|reflexivity].
    apply (proj1 (dia_iff p _ k Hk)) in E. destruct E as [j [R N]]. rewrite (Hall j R) in N. discriminate.
Qed.
Lemma bool_eq_iff (a b : bool) : (a = true <-> b = true) -> a = b.
Proof. destruct a, b; intros [X Y]; try reflexivity; [symmetry; now apply X|now apply Y]. Qed.
Definition fin (k : nat) : bool := negb (k + 1 <=? h).
Lemma fin_spec k : k <= h -> (fin k = true <-> k = h).
Proof. intros Hk. unfold fin. rewrite negb_true_iff, Nat.leb_gt. lia. Qed.
Lemma run_star_inv q k j : run (Star _ q) k j -> k = j \/ exists i, run q k i /\ run (Star _ q) i j.
Proof. intros R. inversion R; subst; [now left|right; eauto]. Qed.
(* iteration: the fix-point equation that translate_KleeneStarPath writes down *)
Lemma star_dia_eq q c k : k <= h ->
  ds (Star _ q) c k = implb (fin k) (c k) && (c k || ds q (ds (Star _ q) c) k).
Proof.
  intros Hk. apply bool_eq_iff. rewrite (dia_iff _ _ _ Hk), andb_true_iff, orb_true_iff. split.
  - intros [j [R C]]. split.
    + destruct (fin k) eqn:F; [|reflexivity]. apply (fin_spec k Hk) in F. subst k. cbn.
      destruct (run_mono A h T _ _ _ R) as [L1 L2]. assert (j = h) as -> by (specialize (L2 (le_n h)); lia). exact C.
    + apply run_star_inv in R as [->|[i [R1 R2]]]; [now left|right].
      apply (proj2 (dia_iff q _ k Hk)). exists i. split; [exact R1|].
      destruct (run_mono A h T _ _ _ R1) as [_ Hi]. apply (proj2 (dia_iff _ _ i (Hi Hk))). exists j. now split.
  - intros [_ [C|D]].
    + exists k. split; [constructor|exact C].
    + apply (proj1 (dia_iff q _ k Hk)) in D as [i [R1 D]]. destruct (run_mono A h T _ _ _ R1) as [_ Hi].
      apply (proj1 (dia_iff _ _ i (Hi Hk))) in D as [j [R2 C]]. exists j. split; [econstructor; eauto|exact C].
Qed.
Lemma star_box_eq q c k : k <= h ->
  negb (ds (Star _ q) (fun j => negb (c j)) k) =
  implb (fin k) (c k) && (c k && negb (ds q (fun i => negb (negb (ds (Star _ q) (fun j => negb (c j)) i))) k)).
Proof.
  intros Hk. apply bool_eq_iff. rewrite (box_iff _ c _ Hk), !andb_true_iff.
  rewrite (box_iff q (fun i => negb (ds (Star _ q) (fun j => negb (c j)) i)) k Hk). split.
  - intros Hall. assert (c k = true) as Ck by (apply Hall; constructor). rewrite Ck. repeat split; [now destruct (fin k)|].
    intros i R1. destruct (run_mono A h T _ _ _ R1) as [_ Hi]. apply (proj2 (box_iff _ c i (Hi Hk))). intros j R2. apply Hall. econstructor; eauto.
  - intros [_ [Ck Hq]] j R. apply run_star_inv in R as [<-|[i [R1 R2]]]; [exact Ck|].
    destruct (run_mono A h T _ _ _ R1) as [_ Hi]. exact (proj1 (box_iff _ c i (Hi Hk)) (Hq i R1) j R2).
Qed.

End LDLext.
