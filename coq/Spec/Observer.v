(* Observers under equilibrium semantics (here-and-there, propositional):
   1. a constraint selects among the equilibrium models and never creates one; a literal splits them into two disjoint classes;
   2. a program extended with choice atoms X and constraints C that determine the atoms of X as a function of the other atoms
      (a definitional extension - what Theory.translate emits, see Props/C03, C13) has, up to the atoms of X, exactly the equilibrium
      models of the program itself: none is lost, none is invented, none is duplicated;
   3. a rule  w :- not not x  with a fresh atom w adds w exactly where x holds and changes nothing else. *)
From Coq Require Import List Bool Arith Lia.
Import ListNotations.
Require Import HT DecP DefElim Ext.
Section Select.
Variable A : Type.
Notation interp := (interp A).
Notation form := (form A).
Theorem constraint_selects (G : list form) (c : form) (T : interp) :
  equilibrium A T (Not A c :: G) <-> equilibrium A T G /\ csat A T c = false.
Proof.
  unfold equilibrium, model. split.
  - intros [M Min].
    assert (csat A T c = false) as Cc.
    { specialize (M (Not A c) (or_introl eq_refl)). rewrite hsat_total in M. cbn in M. destruct (csat A T c); [discriminate|reflexivity]. }
    split; [split|exact Cc].
    + intros f Hf. apply M. now right.
    + intros H S MH. apply (Min H S). intros f [<-|Hf]; [|now apply MH].
      rewrite hsat_not by apply S. now rewrite Cc.
  - intros [[M Min] Cc]. split.
    + intros f [<-|Hf]; [|now apply M]. rewrite hsat_total. cbn. now rewrite Cc.
    + intros H S MH. apply (Min H S). intros f Hf. apply MH. now right.
Qed.
(* :- x.  and  :- not x.  split the equilibrium models into two disjoint classes that together are all of them *)
Theorem literal_splits (G : list form) (x : A) (T : interp) :
  (equilibrium A T G <-> equilibrium A T (Not A (Var A x) :: G) \/ equilibrium A T (Not A (Not A (Var A x)) :: G)) /\
  ~ (equilibrium A T (Not A (Var A x) :: G) /\ equilibrium A T (Not A (Not A (Var A x)) :: G)).
Proof.
  rewrite !constraint_selects. cbn [csat Not]. split.
  - split.
    + intros E. destruct (T x) eqn:Tx; [right|left]; (split; [exact E|reflexivity]).
    + intros [[E _]|[E _]]; exact E.
  - intros [[_ C1] [_ C2]]. destruct (T x); discriminate.
Qed.
End Select.

Section Definitional.
Variable A : Type.
Variable isaux : A -> bool.
Notation interp := (interp A).
Notation form := (form A).
Notation clean := (clean A isaux).
Notation agree_user := (agree_clean A isaux).
Variable P : list form.          (* the program: no auxiliary atom occurs in it *)
Variable X : list A.             (* the auxiliary atoms, each a choice atom *)
Variable C : list form.          (* the constraints that define them *)
Hypothesis P_clean : forall f, In f P -> clean f.
Hypothesis X_aux : forall x, In x X <-> isaux x = true.
Definition okC (T : interp) := forall c, In c C -> csat A T c = false.
(* the constraints are definitional: every valuation of the user atoms has an extension that violates none, and only one *)
Hypothesis ext_exists : forall U : interp, exists T, agree_user T U /\ okC T.
Hypothesis ext_unique : forall T T' : interp, agree_user T T' -> okC T -> okC T' -> forall a, T a = T' a.
Definition extended := P ++ map (choice A) X ++ map (Not A) C.
Definition user (T : interp) : interp := fun a => if isaux a then false else T a.
Lemma user_agree T : agree_user (user T) T.  Proof. intros a E. unfold user. now rewrite E. Qed.
Lemma model_agree H T H' T' : agree_user H H' -> agree_user T T' -> model A H T P -> model A H' T' P.
Proof. intros AH AT M f Hf. rewrite <- (hsat_clean A isaux H T H' T' f (P_clean f Hf) AH AT). now apply M. Qed.
Lemma agree_sym I J : agree_user I J -> agree_user J I.  Proof. intros Ag a E. symmetry. now apply Ag. Qed.
(* none is invented: the user part of an equilibrium model of the extended program is an equilibrium model of the program *)
Theorem observers_project (T : interp) : equilibrium A T extended -> equilibrium A (user T) P.
Proof.
  unfold extended. rewrite (frozen_choice A isaux P X C T X_aux). intros [M [_ Min]]. split.
  - apply (model_agree T T); [apply agree_sym, user_agree|apply agree_sym, user_agree|exact M].
  - intros H [L [a [Ta Ha]]] MH.
    set (H' := fun b => if isaux b then T b else H b).
    assert (isaux a = false) as Ea by (unfold user in Ta; destruct (isaux a); [discriminate|reflexivity]).
    apply (Min H').
    + split.
      * intros b. unfold H'. destruct (isaux b) eqn:Eb; [auto|]. intros Hb. apply L in Hb. unfold user in Hb. now rewrite Eb in Hb.
      * exists a. unfold H'. rewrite Ea. split; [|exact Ha]. unfold user in Ta. now rewrite Ea in Ta.
    + intros b Eb. unfold H'. now rewrite Eb.
    + apply (model_agree H (user T)); [|apply user_agree|exact MH]. intros b Eb. unfold H'. now rewrite Eb.
Qed.
(* none is lost: every equilibrium model of the program extends to an equilibrium model of the extended program *)
Theorem observers_lift (U : interp) : equilibrium A U P -> exists T, agree_user T U /\ equilibrium A T extended.
Proof.
  intros [M Min]. destruct (ext_exists U) as [T [Ag Ok]]. exists T. split; [exact Ag|].
  unfold extended. rewrite (frozen_choice A isaux P X C T X_aux). split; [|split; [exact Ok|]].
  - apply (model_agree U U); [apply agree_sym, Ag|apply agree_sym, Ag|exact M].
  - intros H [L [a [Ta Ha]]] AgA MH.
    assert (isaux a = false) as Ea.
    { destruct (isaux a) eqn:Ea; [|reflexivity]. rewrite (AgA a Ea) in Ha. congruence. }
    set (H' := fun b => if isaux b then U b else H b).
    apply (Min H').
    + split.
      * intros b. unfold H'. destruct (isaux b) eqn:Eb; [auto|]. intros Hb. apply L in Hb. now rewrite (Ag b Eb) in Hb.
      * exists a. unfold H'. rewrite Ea. split; [|exact Ha]. now rewrite <- (Ag a Ea).
    + apply (model_agree H T); [|exact Ag|exact MH]. intros b Eb. unfold H'. now rewrite Eb.
Qed.
(* none is duplicated: two equilibrium models of the extended program with the same user atoms are the same *)
Theorem observers_no_duplicates (T T' : interp) : equilibrium A T extended -> equilibrium A T' extended -> agree_user T T' -> forall a, T a = T' a.
Proof.
  unfold extended. rewrite !(frozen_choice A isaux P X C _ X_aux). intros [_ [Ok _]] [_ [Ok' _]] Ag. exact (ext_unique T T' Ag Ok Ok').
Qed.
End Definitional.

Section Fresh.
Variable A : Type.
Variable A_eq_dec : forall a b : A, {a = b} + {a <> b}.
Notation interp := (interp A).
Notation form := (form A).
Variable w x : A.
Hypothesis w_x : w <> x.
Definition isw (a : A) : bool := if A_eq_dec a w then true else false.
Variable G : list form.          (* any program (rules, choice atoms, constraints) in which w does not occur *)
Hypothesis G_fresh : forall f, In f G -> clean A isw f.
Definition observer : form := Imp A (Not A (Not A (Var A x))) (Var A w).    (* w :- not not x. *)
Definition setw (b : bool) (T : interp) : interp := fun a => if A_eq_dec a w then b else T a.
Lemma setw_agree b T : agree_clean A isw (setw b T) T.
Proof. intros a E. unfold isw in E. unfold setw. destruct (A_eq_dec a w); [discriminate|reflexivity]. Qed.
Lemma setw_w b T : setw b T w = b.  Proof. unfold setw. destruct (A_eq_dec w w); [reflexivity|contradiction]. Qed.
Lemma setw_other b T a : a <> w -> setw b T a = T a.  Proof. intros N. unfold setw. destruct (A_eq_dec a w); [contradiction|reflexivity]. Qed.
Lemma modelG H T H' T' : agree_clean A isw H H' -> agree_clean A isw T T' -> model A H T G -> model A H' T' G.
Proof. intros AH AT M f Hf. rewrite <- (hsat_clean A isw H T H' T' f (G_fresh f Hf) AH AT). now apply M. Qed.
Lemma agree_sym' I J : agree_clean A isw I J -> agree_clean A isw J I.  Proof. intros Ag a E. symmetry. now apply Ag. Qed.
Lemma hsat_observer H T : le A H T -> hsat A H T observer = implb (T x) (H w) && implb (T x) (T w).
Proof.
  intros L. unfold observer. cbn [hsat csat]. rewrite (hsat_not A H T (Not A (Var A x)) L).
  change (csat A T (Not A (Var A x))) with (implb (T x) false).
  change (csat A T (Not A (Not A (Var A x)))) with (implb (implb (T x) false) false).
  destruct (T x); reflexivity.
Qed.
Theorem observer_forward (T : interp) : equilibrium A T (observer :: G) -> T w = T x /\ equilibrium A (setw false T) G.
Proof.
  intros [M Min].
  assert (T x = true -> T w = true) as R.
  { intros Tx. pose proof (M observer (or_introl eq_refl)) as Mo. rewrite hsat_observer in Mo by (intros a; auto). rewrite Tx in Mo. cbn in Mo.
    now apply andb_true_iff in Mo as [Mo _]. }
  assert (T w = T x) as Eq.
  { destruct (T x) eqn:Tx; [now apply R|]. destruct (T w) eqn:Tw; [exfalso|reflexivity].
    apply (Min (setw false T)).
    - split.
      + intros a. unfold setw. destruct (A_eq_dec a w); [discriminate|auto].
      + exists w. split; [exact Tw|apply setw_w].
    - intros f [<-|Hf].
      + rewrite hsat_observer; [now rewrite Tx|]. intros a. unfold setw. destruct (A_eq_dec a w); [discriminate|auto].
      + apply (modelG T T); [apply agree_sym', setw_agree|intros a _; reflexivity| |exact Hf]. intros g Hg. apply M. now right. }
  split; [exact Eq|]. split.
  - apply (modelG T T); [apply agree_sym', setw_agree|apply agree_sym', setw_agree|]. intros g Hg. apply M. now right.
  - intros H [L [a [Ta Ha]]] MH.
    assert (a <> w) as Na by (intros ->; rewrite setw_w in Ta; discriminate).
    rewrite (setw_other false T a Na) in Ta.
    assert (le A (setw (T w) H) T) as L'.
    { intros b. unfold setw. destruct (A_eq_dec b w) as [->|Nb]; [auto|]. intros Hb. apply L in Hb. now rewrite (setw_other false T b Nb) in Hb. }
    apply (Min (setw (T w) H)).
    + split; [exact L'|]. exists a. split; [exact Ta|]. now rewrite (setw_other _ H a Na).
    + intros f [<-|Hf].
      * rewrite (hsat_observer _ T L'), setw_w, Eq. now destruct (T x).
      * apply (modelG H (setw false T)); [apply agree_sym', setw_agree|apply setw_agree|exact MH|exact Hf].
Qed.
Theorem observer_backward (U : interp) : U w = false -> equilibrium A U G -> equilibrium A (setw (U x) U) (observer :: G).
Proof.
  intros Uw [M Min]. set (T := setw (U x) U).
  assert (T x = U x) as Tx by (unfold T; apply setw_other; congruence).
  assert (T w = U x) as Tw by apply setw_w.
  split.
  - intros f [<-|Hf].
    + rewrite hsat_observer by (intros a; auto). rewrite Tx, Tw. now destruct (U x).
    + apply (modelG U U); [apply agree_sym', setw_agree|apply agree_sym', setw_agree|exact M|exact Hf].
  - intros H [L [a [Ta Ha]]] MH.
    pose proof (MH observer (or_introl eq_refl)) as Mo. rewrite (hsat_observer H T L), Tx, Tw in Mo.
    assert (H w = U x) as Hw.
    { destruct (U x) eqn:Ux; cbn in Mo; [now apply andb_true_iff in Mo as [Mo _]|].
      destruct (H w) eqn:E; [|reflexivity]. apply L in E. congruence. }
    assert (a <> w) as Na by (intros ->; congruence).
    apply (Min (setw false H)).
    + split.
      * intros b. unfold setw. destruct (A_eq_dec b w) as [->|Nb]; [discriminate|]. intros Hb. apply L in Hb. unfold T in Hb. now rewrite (setw_other _ U b Nb) in Hb.
      * exists a. rewrite (setw_other _ H a Na). split; [|exact Ha]. unfold T in Ta. now rewrite (setw_other _ U a Na) in Ta.
    + apply (modelG H T); [apply agree_sym', setw_agree|apply setw_agree|]. intros g Hg. apply MH. now right.
Qed.
End Fresh.

(* The same three statements for theories given as predicates (infinitely many formulas allowed: the program accumulated by an incremental run
   is described that way in Model/CoreRun.v), with the auxiliary atoms given by their test and the constraints by a predicate. *)
Section DefinitionalP.
Variable A : Type.
Variable isaux : A -> bool.
Notation interp := (interp A).
Notation form := (form A).
Notation clean := (clean A isaux).
Notation agree_user := (agree_clean A isaux).
Variable P : theory A.
Variable C : form -> Prop.
Hypothesis P_clean : forall f, P f -> clean f.
Definition okCP (T : interp) := forall c, C c -> csat A T c = false.
Definition extendedP : theory A := fun f => P f \/ (exists x, isaux x = true /\ f = choice A x) \/ (exists c, C c /\ f = Not A c).
Lemma frozen_choiceP (T : interp) :
  equilibriumP A T extendedP <-> (modelP A T T P /\ okCP T /\ forall H, strict A H T -> agree_aux A isaux H T -> ~ modelP A H T P).
Proof.
  unfold equilibriumP, modelP. split.
  - intros [M Min].
    assert (okCP T) as Ok.
    { intros c Hc. specialize (M (Not A c)). rewrite hsat_total in M. cbn in M.
      assert (extendedP (Not A c)) as I by (right; right; eauto). apply M in I. destruct (csat A T c); [discriminate|reflexivity]. }
    repeat split.
    + intros f Hf. apply M. now left.
    + exact Ok.
    + intros H S Ag MP. apply (Min H S). intros f [Hf|[[x [Hx ->]]|[c [Hc ->]]]]; [auto| |].
      * apply (proj2 (hsat_choice A isaux H T x (proj1 S))). intros Tx. rewrite Ag; auto.
      * rewrite hsat_not by apply S. now rewrite (Ok c Hc).
  - intros [MP [MC Min]]. split.
    + intros f [Hf|[[x [Hx ->]]|[c [Hc ->]]]]; [auto| |].
      * apply (proj2 (hsat_choice A isaux T T x (fun a h => h))). intros; assumption.
      * rewrite hsat_total. cbn. now rewrite (MC c Hc).
    + intros H S M. apply (Min H S).
      * intros a Ha.
        assert (hsat A H T (choice A a) = true) as Hc by (apply M; right; left; eauto).
        pose proof (proj1 (hsat_choice A isaux H T a (proj1 S)) Hc) as Hc'.
        destruct (T a) eqn:Ta; [apply Hc'; reflexivity|]. destruct (H a) eqn:Ha'; [|reflexivity]. apply (proj1 S) in Ha'. congruence.
      * intros f Hf. apply M. now left.
Qed.
Lemma modelP_agree H T H' T' : agree_user H H' -> agree_user T T' -> modelP A H T P -> modelP A H' T' P.
Proof. intros AH AT M f Hf. rewrite <- (hsat_clean A isaux H T H' T' f (P_clean f Hf) AH AT). now apply M. Qed.
Notation userP := (user A isaux).
Theorem observers_projectP (T : interp) : equilibriumP A T extendedP -> equilibriumP A (userP T) P.
Proof.
  rewrite frozen_choiceP. intros [M [_ Min]]. split.
  - apply (modelP_agree T T); [intros a E; unfold user; now rewrite E|intros a E; unfold user; now rewrite E|exact M].
  - intros H [L [a [Ta Ha]]] MH.
    set (H' := fun b => if isaux b then T b else H b).
    assert (isaux a = false) as Ea by (unfold user in Ta; destruct (isaux a); [discriminate|reflexivity]).
    apply (Min H').
    + split.
      * intros b. unfold H'. destruct (isaux b) eqn:Eb; [auto|]. intros Hb. apply L in Hb. unfold user in Hb. now rewrite Eb in Hb.
      * exists a. unfold H'. rewrite Ea. split; [|exact Ha]. unfold user in Ta. now rewrite Ea in Ta.
    + intros b Eb. unfold H'. now rewrite Eb.
    + apply (modelP_agree H (userP T)); [|intros b Eb; unfold user; now rewrite Eb|exact MH]. intros b Eb. unfold H'. now rewrite Eb.
Qed.
Theorem observers_liftP (U : interp) : (exists T, agree_user T U /\ okCP T) -> equilibriumP A U P -> exists T, agree_user T U /\ equilibriumP A T extendedP.
Proof.
  intros [T [Ag Ok]] [M Min]. exists T. split; [exact Ag|].
  rewrite frozen_choiceP. split; [|split; [exact Ok|]].
  - apply (modelP_agree U U); [intros a E; symmetry; now apply Ag|intros a E; symmetry; now apply Ag|exact M].
  - intros H [L [a [Ta Ha]]] AgA MH.
    assert (isaux a = false) as Ea.
    { destruct (isaux a) eqn:Ea; [|reflexivity]. rewrite (AgA a Ea) in Ha. congruence. }
    set (H' := fun b => if isaux b then U b else H b).
    apply (Min H').
    + split.
      * intros b. unfold H'. destruct (isaux b) eqn:Eb; [auto|]. intros Hb. apply L in Hb. now rewrite (Ag b Eb) in Hb.
      * exists a. unfold H'. rewrite Ea. split; [|exact Ha]. now rewrite <- (Ag a Ea).
    + apply (modelP_agree H T); [|exact Ag|exact MH]. intros b Eb. unfold H'. now rewrite Eb.
Qed.
Theorem observers_no_duplicatesP (T T' : interp) :
  (forall a, isaux a = true -> okCP T -> okCP T' -> agree_user T T' -> T a = T' a) ->
  equilibriumP A T extendedP -> equilibriumP A T' extendedP -> agree_user T T' -> forall a, T a = T' a.
Proof.
  rewrite !frozen_choiceP. intros Uq [_ [Ok _]] [_ [Ok' _]] Ag a. destruct (isaux a) eqn:E; [now apply Uq|now apply Ag].
Qed.
End DefinitionalP.
