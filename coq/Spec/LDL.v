From Coq Require Import List Bool Arith Lia.
Import ListNotations.
(* LDLf on finite traces: relational semantics of paths (the readable specification) vs the executable
   continuation-style evaluator that matches the case analysis of DiamondFormula.translate_* . *)
Section LDL.
Variable A : Type.
Variable h : nat.                       (* last position *)
Definition trace := nat -> A -> bool.
Variable T : trace.
(* tests are atoms or constants in telingo's &del grammar *)
Inductive tst := TAtom (a:A) | TConst (b:bool).
Inductive path := Skip | Test (t:tst) | Choice (p q:path) | Seq (p q:path) | Star (p:path).
Definition tval (t:tst) (k:nat) : bool := match t with TAtom a => T k a | TConst b => b end.
(* relational semantics: run p k j  =  some execution of p leads from position k to position j (inside the trace) *)
Inductive run : path -> nat -> nat -> Prop :=
  | RSkip k : k < h -> run Skip k (S k)
  | RTest t k : tval t k = true -> run (Test t) k k
  | RChoiceL p q k j : run p k j -> run (Choice p q) k j
  | RChoiceR p q k j : run q k j -> run (Choice p q) k j
  | RSeq p q k i j : run p k i -> run q i j -> run (Seq p q) k j
  | RStar0 p k : run (Star p) k k
  | RStarS p k i j : run p k i -> run (Star p) i j -> run (Star p) k j.
Lemma run_mono p k j : run p k j -> k <= j /\ (k <= h -> j <= h).
Proof. induction 1; try lia. Qed.
(* executable diamond: ds p c k = exists j, run p k j /\ c j *)
Fixpoint ds (p:path) (c:nat->bool) (k:nat) : bool :=
  match p with
  | Skip => (k <? h) && c (S k)
  | Test t => tval t k && c k
  | Choice p q => ds p c k || ds q c k
  | Seq p q => ds p (ds q c) k
  | Star p =>
      (fix star (fuel:nat) (k:nat) : bool :=
         c k || match fuel with 0 => false | S f => ds p (fun j => (k <? j) && star f j) k end) (S h - k) k
  end.
Definition star_it (p:path) (c:nat->bool) : nat -> nat -> bool :=
  fix star (fuel:nat) (k:nat) : bool := c k || match fuel with 0 => false | S f => ds p (fun j => (k <? j) && star f j) k end.
Lemma ds_star p c k : ds (Star p) c k = star_it p c (S h - k) k.
Proof. reflexivity. Qed.
Lemma ds_ext p : forall c c' k, (forall j, k <= j -> c j = c' j) -> ds p c k = ds p c' k.
Proof.
  induction p as [|t|p IHp q IHq|p IHp q IHq|p IHp]; intros c c' k E; cbn [ds].
  - destruct (k <? h); cbn; [apply E; lia|reflexivity].
  - rewrite (E k); [reflexivity|lia].
  - now rewrite (IHp c c' k E), (IHq c c' k E).
  - apply IHp. intros i Hi. apply IHq. intros j Hj. apply E. lia.
  - generalize (S h - k) as fuel. intros fuel. revert k E. induction fuel as [|f IHf]; intros k E.
    + now rewrite (E k) by lia.
    + rewrite (E k) by lia. f_equal. apply IHp. intros j Hj. destruct (k <? j) eqn:L; cbn; [|reflexivity].
      apply IHf. intros i Hi. apply E. apply Nat.ltb_lt in L. lia.
Qed.
Lemma star_unfold p c f k : star_it p c (S f) k = c k || ds p (fun j => (k <? j) && star_it p c f j) k.
Proof. reflexivity. Qed.
Lemma star_fuel_mono p c : forall f f' k, f <= f' -> star_it p c f k = true -> star_it p c f' k = true.
Proof.
  induction f as [|f IH]; intros f' k Hf St.
  - cbn in St. rewrite orb_false_r in St. destruct f'; cbn [star_it]; rewrite St; reflexivity.
  - destruct f' as [|f']; [lia|]. rewrite star_unfold in *. apply orb_true_iff in St as [St|St]; [now rewrite St|].
    apply orb_true_iff. right.
    (* monotonicity of ds in its continuation *)
    assert (forall q c1 c2 k0, (forall j, c1 j = true -> c2 j = true) -> ds q c1 k0 = true -> ds q c2 k0 = true) as Mono.
    { clear. induction q as [|t|p IHp q IHq|p IHp q IHq|p IHp]; intros c1 c2 k0 M; cbn [ds].
      - rewrite !andb_true_iff. intros [? ?]; auto.
      - rewrite !andb_true_iff. intros [? ?]; auto.
      - rewrite !orb_true_iff. intros [?|?]; eauto.
      - apply IHp. intros j. now apply IHq.
      - generalize (S h - k0). intros fuel. revert k0. induction fuel as [|f IHf]; intros k0; cbn.
        + rewrite !orb_false_r. apply M.
        + rewrite !orb_true_iff. intros [?|D]; [left; auto|right]. revert D. apply IHp. intros j. rewrite !andb_true_iff. intros [? ?]. split; auto. }
    revert St. apply Mono. intros j. rewrite !andb_true_iff. intros [Hj Sj]. split; [exact Hj|]. apply (IH f' j); [lia|exact Sj].
Qed.
Theorem ds_sound p : forall c k, k <= h -> ds p c k = true -> exists j, run p k j /\ c j = true.
Proof.
  induction p as [|t|p IHp q IHq|p IHp q IHq|p IHp]; intros c k Hk D; cbn [ds] in D.
  - apply andb_true_iff in D as [L C]. apply Nat.ltb_lt in L. exists (S k). split; [now constructor|exact C].
  - apply andb_true_iff in D as [V C]. exists k. split; [now constructor|exact C].
  - apply orb_true_iff in D as [D|D].
    + destruct (IHp _ _ Hk D) as [j [R C]]. exists j. split; [now apply RChoiceL|exact C].
    + destruct (IHq _ _ Hk D) as [j [R C]]. exists j. split; [now apply RChoiceR|exact C].
  - destruct (IHp _ _ Hk D) as [i [R Di]]. destruct (run_mono _ _ _ R) as [_ Hi]. destruct (IHq _ _ (Hi Hk) Di) as [j [R' C]].
    exists j. split; [econstructor; eauto|exact C].
  - revert D. generalize (S h - k). intros fuel. revert k Hk. induction fuel as [|f IHf]; intros k Hk D; cbn in D.
    + rewrite orb_false_r in D. exists k. split; [constructor|exact D].
    + apply orb_true_iff in D as [D|D]; [exists k; split; [constructor|exact D]|].
      destruct (IHp _ _ Hk D) as [i [R Di]]. apply andb_true_iff in Di as [Lt St]. destruct (run_mono _ _ _ R) as [_ Hi].
      destruct (IHf i (Hi Hk) St) as [j [R' C]]. exists j. split; [econstructor; eauto|exact C].
Qed.
Theorem ds_complete p k j : run p k j -> forall c, k <= h -> c j = true -> ds p c k = true.
Proof.
  induction 1 as [k Hlt|t k V|p q k j R IH|p q k j R IH|p q k i j R1 IH1 R2 IH2|p k|p k i j R1 IH1 R2 IH2]; intros c Hk C; cbn [ds].
  - apply andb_true_iff. split; [now apply Nat.ltb_lt|exact C].
  - now rewrite V, C.
  - rewrite (IH c Hk C). reflexivity.
  - rewrite (IH c Hk C). now rewrite orb_true_r.
  - apply IH1; [exact Hk|]. destruct (run_mono _ _ _ R1) as [_ Hi]. now apply IH2; [apply Hi|].
  - change (star_it p c (S h - k) k = true). replace (S h - k) with (S (h - k)) by lia. rewrite star_unfold. now rewrite C.
  - destruct (run_mono _ _ _ R1) as [Hki Hi]. specialize (Hi Hk).
    pose proof (IH2 c Hi C) as St. cbn [ds] in St. change (star_it p c (S h - i) i = true) in St.
    destruct (Nat.eq_dec i k) as [->|Ne]; [exact St|].
    change (star_it p c (S h - k) k = true). replace (S h - k) with (S (h - k)) by lia. rewrite star_unfold. apply orb_true_iff. right.
    apply IH1; [exact Hk|]. apply andb_true_iff. split; [apply Nat.ltb_lt; lia|]. apply (star_fuel_mono p c (S h - i) (h - k) i); [lia|exact St].
Qed.
Corollary diamond_spec p c k : k <= h -> (ds p c k = true <-> exists j, run p k j /\ c j = true).
Proof. intros Hk. split; [now apply ds_sound|intros [j [R C]]; now apply (ds_complete p k j R)]. Qed.
End LDL.


(* Dynamic formulas of telingo's &del grammar and their LDLf value (classical reading: &del atoms are only allowed
   in constraints and behind default negation). *)
Section DSAT.
Variable A : Type.
Variable h : nat.
Variable T : trace A.
Inductive dform := DAtom (a:A) | DConst (b:bool) | DFinal | DDia (p:path A) (d:dform) | DBox (p:path A) (d:dform).
Fixpoint dsat (d:dform) : nat -> bool :=
  match d with
  | DAtom a => fun k => T k a
  | DConst b => fun _ => b
  | DFinal => fun k => h <=? k
  | DDia p d => ds A h T p (dsat d)
  | DBox p d => fun k => negb (ds A h T p (fun j => negb (dsat d j)) k)
  end.
Theorem dsat_dia p d k : k <= h -> (dsat (DDia p d) k = true <-> exists j, run A h T p k j /\ dsat d j = true).
Proof. intros Hk. cbn [dsat]. now apply diamond_spec. Qed.
Theorem dsat_box p d k : k <= h -> (dsat (DBox p d) k = true <-> forall j, run A h T p k j -> dsat d j = true).
Proof.
  intros Hk. cbn [dsat]. rewrite negb_true_iff. split.
  - intros F j R. destruct (dsat d j) eqn:E; [reflexivity|exfalso].
    assert (ds A h T p (fun j => negb (dsat d j)) k = true) as X.
    { apply (proj2 (diamond_spec A h T p _ k Hk)). exists j. split; [exact R|now rewrite E]. }
    congruence.
  - intros Hall. destruct (ds A h T p (fun j => negb (dsat d j)) k) eqn:E; [exfalso|reflexivity].
    apply (proj1 (diamond_spec A h T p _ k Hk)) in E. destruct E as [j [R N]]. rewrite (Hall j R) in N. discriminate.
Qed.
End DSAT.
