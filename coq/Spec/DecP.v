From Coq Require Import List Bool Arith Lia.
Require Import HT.
(* theories as predicates (sets of formulas), so that infinitely many decided atoms can be described *)
Section DecP.
Variable A : Type.
Notation interp := (interp A).
Notation form := (form A).
Definition theory := form -> Prop.
Definition modelP (H T:interp) (G:theory) := forall f, G f -> hsat A H T f = true.
Definition equilibriumP (T:interp) (G:theory) := modelP T T G /\ forall H, strict A H T -> ~ modelP H T G.
Definition union (G G':theory) : theory := fun f => G f \/ G' f.
Definition of_list (l:list form) : theory := fun f => In f l.
Variable dec : A -> option bool.
Definition agrees (T:interp) := forall a b, dec a = Some b -> T a = b.
(* true decided atoms are facts; false decided atoms are constrained false (in the real state: they have no rule) *)
Definition aux_theory : theory := fun f => (exists a, dec a = Some true /\ f = Var A a) \/ (exists a, dec a = Some false /\ f = Not A (Var A a)).
Lemma model_aux_T T : modelP T T aux_theory <-> agrees T.
Proof.
  split.
  - intros M a b E. destruct b.
    + apply (M (Var A a)). left. eauto.
    + assert (hsat A T T (Not A (Var A a)) = true) as Hn by (apply M; right; eauto).
      rewrite hsat_total in Hn. cbn in Hn. destruct (T a); [discriminate|reflexivity].
  - intros Ag f [[a [E ->]]|[a [E ->]]].
    + cbn. now apply Ag.
    + rewrite hsat_total. cbn. now rewrite (Ag a false E).
Qed.
Lemma model_aux_H H T : le A H T -> agrees T -> (modelP H T aux_theory <-> agrees H).
Proof.
  intros L AgT. split.
  - intros M a b E. destruct b.
    + apply (M (Var A a)). left; eauto.
    + destruct (H a) eqn:Ha; [|reflexivity]. apply L in Ha. rewrite (AgT a false E) in Ha. discriminate.
  - intros Ag f [[a [E ->]]|[a [E ->]]].
    + cbn. now apply Ag.
    + rewrite hsat_not by assumption. cbn. now rewrite (AgT a false E).
Qed.
Theorem decided_elimP (G : theory) (T : interp) :
  equilibriumP T (union G aux_theory)
  <-> agrees T /\ modelP T T G /\ forall H, strict A H T -> agrees H -> ~ modelP H T G.
Proof.
  unfold equilibriumP. split.
  - intros [M Min].
    assert (agrees T) as AgT by (apply model_aux_T; intros f Hf; apply M; now right).
    split; [exact AgT|]. split.
    + intros f Hf. apply M. now left.
    + intros H S AgH MH. apply (Min H S). intros f [Hf|Hf]; [now apply MH|].
      revert f Hf. apply model_aux_H; [apply S|assumption|assumption].
  - intros [AgT [M Min]]. split.
    + intros f [Hf|Hf]; [now apply M|]. revert f Hf. now apply model_aux_T.
    + intros H S MH.
      assert (agrees H) as AgH by (apply (model_aux_H H T (proj1 S) AgT); intros f Hf; apply MH; now right).
      apply (Min H S AgH). intros f Hf. apply MH. now left.
Qed.
End DecP.

