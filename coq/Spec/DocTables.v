(* The documented operator tables of the temporal and dynamic formula languages (constants, written once from the
   property text and the commented theory definition; NOT regenerated):
   level 7 prefix & and classical -, 6 arithmetic + - (left), 5 unary temporal operators and ~ and the n-fold binary
   < <: > >: (right), 4 binary temporal operators (left), 3 & (left), 2 | (left), 1 implications and equivalence (left),
   0 sequence operators (;> ;>: right, <; <:; left). *)
Require Import GenPrelude FromTables.
Local Open Scope string_scope.
Definition documented_tel : list tentry :=
  [("&", true, 7, ANone); ("-", true, 7, ANone); ("+", false, 6, ALeft); ("-", false, 6, ALeft);
   ("~", true, 5, ANone); ("<", true, 5, ANone); ("<", false, 5, ARight); ("<:", true, 5, ANone); ("<:", false, 5, ARight);
   ("<?", true, 5, ANone); ("<*", true, 5, ANone); ("<<", true, 5, ANone);
   (">", true, 5, ANone); (">", false, 5, ARight); (">:", true, 5, ANone); (">:", false, 5, ARight);
   (">?", true, 5, ANone); (">*", true, 5, ANone); (">>", true, 5, ANone);
   (">*", false, 4, ALeft); (">?", false, 4, ALeft); ("<*", false, 4, ALeft); ("<?", false, 4, ALeft);
   ("&", false, 3, ALeft); ("|", false, 2, ALeft); ("<-", false, 1, ALeft); ("->", false, 1, ALeft); ("<>", false, 1, ALeft);
   (";>", false, 0, ARight); (";>:", false, 0, ARight); ("<;", false, 0, ALeft); ("<:;", false, 0, ALeft)].
(* operators admitted in rule heads *)
Definition head_operator (e : tentry) : bool :=
  let '(o, u, _, _) := e in
  existsb (String.eqb o) (if u then ["&"; "-"; "~"; ">"; ">:"; ">?"; ">*"; ">>"] else ["+"; "-"; ">"; ">:"; ">*"; ">?"; "&"; "|"; ";>"; ";>:"]).
Definition documented_head : list tentry := filter head_operator documented_tel.
Definition documented_del : list tentry :=
  [("&", true, 7, ANone); ("?", true, 4, ANone); ("*", true, 3, ANone); ("+", false, 2, ALeft); (";;", false, 1, ALeft);
   (".>?", false, 0, ARight); (".>*", false, 0, ARight)].
