(* Documented abbreviations and dualities of the temporal language, over THT_f (tsat: heads and bodies) and LTLf (lsat: bodies). *)
From Coq Require Import List Bool Arith Lia.
Require Import HT TEL TELext PrefixSpec.
Section Laws.
Variable A : Type.
Variable h : nat.
Notation tf := (tf A).
Notation tsat := (tsat A h).
Notation lsat := (lsat A h).
Definition LTop : tf := TImp A (TBot A) (TBot A).
Definition LNot (f:tf) : tf := TImp A f (TBot A).
Definition LInitial : tf := TPv A true 1 (TBot A).        (* the keyword &initial *)
Definition LFinal : tf := TNx A true 1 (TBot A).          (* the keyword &final *)
Lemma tsat_top H T k : tsat H T LTop k = true.  Proof. reflexivity. Qed.
Lemma tsat_initial H T k : tsat H T LInitial k = (k =? 0).
Proof. cbn. destruct k; reflexivity. Qed.
Lemma tsat_final H T k : k <= h -> tsat H T LFinal k = (k =? h).
Proof.
  intros Hk. cbn. destruct (k + 1 <=? h) eqn:E; symmetry.
  - apply Nat.leb_le in E. apply Nat.eqb_neq. lia.
  - apply Nat.leb_gt in E. apply Nat.eqb_eq. lia.
Qed.
(* &false = ~ &true *)
Theorem law_false H T k : tsat H T (TBot A) k = tsat H T (LNot LTop) k.
Proof. reflexivity. Qed.
(* &initial = ~ < &true *)
Theorem law_initial H T k : tsat H T LInitial k = tsat H T (LNot (TPv A false 1 LTop)) k.
Proof. cbn. destruct k; reflexivity. Qed.
(* &final = ~ > &true *)
Theorem law_final H T k : tsat H T LFinal k = tsat H T (LNot (TNx A false 1 LTop)) k.
Proof. cbn. destruct (k + 1 <=? h); reflexivity. Qed.
(* << p = <* (~ &initial | p): the value of p at the initial state *)
Definition LInitially (p:tf) : tf := TTr A (TBot A) (TOr A (LNot LInitial) p).
Theorem law_initially H T p k : tsat H T (LInitially p) k = tsat H T p 0.
Proof.
  unfold LInitially. cbn [TEL.tsat]. induction k as [|k IH]; cbn [pst].
  - change (tsat H T (TOr A (LNot LInitial) p) 0 = tsat H T p 0). cbn. reflexivity.
  - rewrite IH. change (tsat H T (TOr A (LNot LInitial) p) (S k)) with (tsat H T (LNot LInitial) (S k) || tsat H T p (S k)).
    cbn. reflexivity.
Qed.
(* >> p = >* (~ &final | p): the value of p at the final state *)
Definition LFinally (p:tf) : tf := TRl A (TBot A) (TOr A (LNot LFinal) p).
Lemma fut_finally (sy : nat -> bool) (v : bool) : forall d k, k + d = h -> (forall j, j <= h -> sy j = if j =? h then v else true) ->
  fut false (fun _ => false) sy d k = v.
Proof.
  induction d as [|d IH]; intros k Hk Hy; cbn [fut].
  - rewrite Hy by lia. replace k with h by lia. now rewrite Nat.eqb_refl.
  - rewrite (IH (S k)) by (try lia; assumption). rewrite Hy by lia.
    assert (k =? h = false) as -> by (apply Nat.eqb_neq; lia). reflexivity.
Qed.
Theorem law_finally H T p k : k <= h -> tsat H T (LFinally p) k = tsat H T p h.
Proof.
  intros Hk. unfold LFinally. cbn [TEL.tsat]. apply fut_finally; [lia|].
  intros j Hj. change (tsat H T (LNot LFinal) j || tsat H T p j = if j =? h then tsat H T p h else true).
  assert (tsat H T (LNot LFinal) j = negb (j =? h)) as ->.
  { change (tsat H T (LNot LFinal) j) with (implb (tsat H T LFinal j) false && implb (lsat T LFinal j) false).
    assert (lsat T LFinal j = (j =? h)) as ->.
    { cbn. destruct (j + 1 <=? h) eqn:E; symmetry; [apply Nat.leb_le in E; apply Nat.eqb_neq; lia|apply Nat.leb_gt in E; apply Nat.eqb_eq; lia]. }
    rewrite (tsat_final H T j Hj). destruct (j =? h); reflexivity. }
  destruct (j =? h) eqn:E; cbn; [apply Nat.eqb_eq in E; now subst|reflexivity].
Qed.
(* sequence operators *)
Definition LSeqNext (w:bool) (a b:tf) : tf := TAnd A a (TNx A w 1 b).      (* a ;> b, a ;>: b *)
Definition LSeqPrev (w:bool) (a b:tf) : tf := TAnd A (TPv A w 1 a) b.      (* a <; b, a <:; b *)
(* n-fold next / previous are n nested ones; 0-fold is the formula itself *)
Theorem law_nfold_next H T w n p k : tsat H T (TNx A w (S n) p) k = tsat H T (TNx A w 1 (TNx A w n p)) k.
Proof.
  cbn [TEL.tsat]. destruct (k + S n <=? h) eqn:E1; destruct (k + 1 <=? h) eqn:E2; try destruct (k + 1 + n <=? h) eqn:E3;
    try apply Nat.leb_le in E1; try apply Nat.leb_gt in E1; try apply Nat.leb_le in E2; try apply Nat.leb_gt in E2;
    try apply Nat.leb_le in E3; try apply Nat.leb_gt in E3; try lia; try reflexivity.
  f_equal. lia.
Qed.
Theorem law_nfold_prev H T w n p k : tsat H T (TPv A w (S n) p) k = tsat H T (TPv A w 1 (TPv A w n p)) k.
Proof.
  cbn [TEL.tsat]. destruct k as [|k]; [reflexivity|].
  change (1 <=? S k) with true. cbn iota. replace (S k - 1) with k by lia. change (S n <=? S k) with (n <=? k).
  destruct (n <=? k); [|reflexivity]. f_equal.
Qed.
Theorem law_nfold0_next H T w p k : k <= h -> tsat H T (TNx A w 0 p) k = tsat H T p k.
Proof. intros Hk. cbn [TEL.tsat]. rewrite Nat.add_0_r. now apply Nat.leb_le in Hk as ->. Qed.
Theorem law_nfold0_prev H T w p k : tsat H T (TPv A w 0 p) k = tsat H T p k.
Proof. cbn [TEL.tsat]. cbn [Nat.leb]. now rewrite Nat.sub_0_r. Qed.
(* unary eventually / always are until / release with a trivial left-hand side: one-step unfoldings *)
Theorem law_until_unfold H T a b k : k < h -> tsat H T (TUn A a b) k = tsat H T (TOr A b (TAnd A a (TNx A false 1 (TUn A a b)))) k.
Proof.
  intros Hk. cbn [TEL.tsat]. replace (h - k) with (S (h - (k+1))) by lia. cbn [fut].
  assert (k + 1 <=? h = true) as -> by (apply Nat.leb_le; lia). replace (S k) with (k+1) by lia. reflexivity.
Qed.
Theorem law_release_unfold H T a b k : k < h -> tsat H T (TRl A a b) k = tsat H T (TAnd A b (TOr A a (TNx A true 1 (TRl A a b)))) k.
Proof.
  intros Hk. cbn [TEL.tsat]. replace (h - k) with (S (h - (k+1))) by lia. cbn [fut].
  assert (k + 1 <=? h = true) as -> by (apply Nat.leb_le; lia). replace (S k) with (k+1) by lia. reflexivity.
Qed.
Theorem law_until_last H T a b : tsat H T (TUn A a b) h = tsat H T b h.
Proof. cbn [TEL.tsat]. rewrite Nat.sub_diag. reflexivity. Qed.
Theorem law_release_last H T a b : tsat H T (TRl A a b) h = tsat H T b h.
Proof. cbn [TEL.tsat]. rewrite Nat.sub_diag. reflexivity. Qed.
(* classical dualities (bodies) *)
Theorem dual_wnext T n p k : lsat T (TNx A true n p) k = lsat T (LNot (TNx A false n (LNot p))) k.
Proof. unfold LNot. cbn [TEL.lsat]. destruct (k + n <=? h); [destruct (TEL.lsat A h T p (k+n))|]; reflexivity. Qed.
Theorem dual_wprev T n p k : lsat T (TPv A true n p) k = lsat T (LNot (TPv A false n (LNot p))) k.
Proof. unfold LNot. cbn [TEL.lsat]. destruct (n <=? k); [destruct (TEL.lsat A h T p (k-n))|]; reflexivity. Qed.
Lemma fut_dual sx sy d : forall k, fut false sx sy d k = negb (fut true (fun j => negb (sx j)) (fun j => negb (sy j)) d k).
Proof. induction d as [|d IH]; intros k; cbn [fut]; [now rewrite negb_involutive|]. rewrite IH. destruct (sy k), (sx k); cbn; try reflexivity; now rewrite ?negb_involutive. Qed.
Lemma pst_dual sx sy : forall k, pst false sx sy k = negb (pst true (fun j => negb (sx j)) (fun j => negb (sy j)) k).
Proof. induction k as [|k IH]; cbn [pst]; [now rewrite negb_involutive|]. rewrite IH. destruct (sy (S k)), (sx (S k)); cbn; try reflexivity; now rewrite ?negb_involutive. Qed.
Lemma lsat_not T p k : lsat T (LNot p) k = negb (lsat T p k).
Proof. cbn. destruct (lsat T p k); reflexivity. Qed.
Lemma fut_ext u sx sy sx' sy' d : (forall j, sx j = sx' j) -> (forall j, sy j = sy' j) -> forall k, fut u sx sy d k = fut u sx' sy' d k.
Proof. intros Ex Ey. induction d as [|d IH]; intros k; cbn [fut]; [apply Ey|]. now rewrite Ex, Ey, IH. Qed.
Lemma pst_ext u sx sy sx' sy' : (forall j, sx j = sx' j) -> (forall j, sy j = sy' j) -> forall k, pst u sx sy k = pst u sx' sy' k.
Proof. intros Ex Ey. induction k as [|k IH]; cbn [pst]; [apply Ey|]. now rewrite Ex, Ey, IH. Qed.
Theorem dual_release T a b k : lsat T (TRl A a b) k = lsat T (LNot (TUn A (LNot a) (LNot b))) k.
Proof.
  rewrite lsat_not. change (lsat T (TRl A a b) k) with (fut false (lsat T a) (lsat T b) (h-k) k).
  change (lsat T (TUn A (LNot a) (LNot b)) k) with (fut true (lsat T (LNot a)) (lsat T (LNot b)) (h-k) k).
  rewrite fut_dual. reflexivity.
Qed.
Theorem dual_trigger T a b k : lsat T (TTr A a b) k = lsat T (LNot (TSi A (LNot a) (LNot b))) k.
Proof.
  rewrite lsat_not. change (lsat T (TTr A a b) k) with (pst false (lsat T a) (lsat T b) k).
  change (lsat T (TSi A (LNot a) (LNot b)) k) with (pst true (lsat T (LNot a)) (lsat T (LNot b)) k).
  rewrite pst_dual. reflexivity.
Qed.
(* past/future mirror symmetry on reversed traces (formulas without the initially-atom form _p) *)
Fixpoint mirror (p:tf) : tf :=
  match p with
  | TBot _ => TBot A | TAt _ a => TAt A a | TAt0 _ a => TAt0 A a
  | TAnd _ x y => TAnd A (mirror x) (mirror y) | TOr _ x y => TOr A (mirror x) (mirror y) | TImp _ x y => TImp A (mirror x) (mirror y)
  | TNx _ w n x => TPv A w n (mirror x) | TPv _ w n x => TNx A w n (mirror x)
  | TUn _ x y => TSi A (mirror x) (mirror y) | TRl _ x y => TTr A (mirror x) (mirror y)
  | TSi _ x y => TUn A (mirror x) (mirror y) | TTr _ x y => TRl A (mirror x) (mirror y)
  end.
Fixpoint no_at0 (p:tf) : bool :=
  match p with
  | TBot _ | TAt _ _ => true | TAt0 _ _ => false
  | TAnd _ x y | TOr _ x y | TImp _ x y | TUn _ x y | TRl _ x y | TSi _ x y | TTr _ x y => no_at0 x && no_at0 y
  | TNx _ _ _ x | TPv _ _ _ x => no_at0 x
  end.
Definition rev_trace (T:trace A) : trace A := fun k a => T (h - k) a.
Lemma fut_pst u sx sy : forall d k, k + d = h -> fut u sx sy d k = pst u (fun j => sx (h - j)) (fun j => sy (h - j)) d.
Proof.
  induction d as [|d IH]; intros k Hk; cbn [fut pst].
  - f_equal. lia.
  - rewrite (IH (S k)) by lia. replace (h - S d) with k by lia. reflexivity.
Qed.
Lemma pst_ext_upto u sx sy sx' sy' : forall k, (forall j, j <= k -> sx j = sx' j) -> (forall j, j <= k -> sy j = sy' j) -> pst u sx sy k = pst u sx' sy' k.
Proof.
  induction k as [|k IH]; intros Ex Ey; cbn [pst]; [apply Ey; lia|].
  rewrite (Ex (S k)), (Ey (S k)) by lia. rewrite IH; [reflexivity| |]; intros j Hj; [apply Ex|apply Ey]; lia.
Qed.
Theorem mirror_lsat T p : no_at0 p = true -> forall k, k <= h -> lsat T p k = lsat (rev_trace T) (mirror p) (h - k).
Proof.
  induction p as [|a|a|x IHx y IHy|x IHx y IHy|x IHx y IHy|w n x IH|w n x IH|x IHx y IHy|x IHx y IHy|x IHx y IHy|x IHx y IHy];
    intros N k Hk; cbn [mirror TEL.lsat no_at0] in *; try discriminate;
    try (apply andb_true_iff in N as [N1 N2]).
  - reflexivity.
  - unfold rev_trace. f_equal. lia.
  - now rewrite (IHx N1 k Hk), (IHy N2 k Hk).
  - now rewrite (IHx N1 k Hk), (IHy N2 k Hk).
  - now rewrite (IHx N1 k Hk), (IHy N2 k Hk).
  - destruct (k + n <=? h) eqn:E1; destruct (n <=? h - k) eqn:E2;
      try apply Nat.leb_le in E1; try apply Nat.leb_gt in E1; try apply Nat.leb_le in E2; try apply Nat.leb_gt in E2; try lia; [|reflexivity].
    rewrite (IH N (k+n)) by lia. f_equal. lia.
  - destruct (n <=? k) eqn:E1; destruct (h - k + n <=? h) eqn:E2;
      try apply Nat.leb_le in E1; try apply Nat.leb_gt in E1; try apply Nat.leb_le in E2; try apply Nat.leb_gt in E2; try lia; [|reflexivity].
    rewrite (IH N (k-n)) by lia. f_equal. lia.
  - rewrite (fut_pst true _ _ (h-k) k) by lia. apply pst_ext_upto; intros j Hj.
    + rewrite (IHx N1 (h-j)) by lia. f_equal. lia.
    + rewrite (IHy N2 (h-j)) by lia. f_equal. lia.
  - rewrite (fut_pst false _ _ (h-k) k) by lia. apply pst_ext_upto; intros j Hj.
    + rewrite (IHx N1 (h-j)) by lia. f_equal. lia.
    + rewrite (IHy N2 (h-j)) by lia. f_equal. lia.
  - replace (h - (h - k)) with k by lia. rewrite (fut_pst true _ _ k (h-k)) by lia. apply pst_ext_upto; intros j Hj.
    + now rewrite (IHx N1 j) by lia.
    + now rewrite (IHy N2 j) by lia.
  - replace (h - (h - k)) with k by lia. rewrite (fut_pst false _ _ k (h-k)) by lia. apply pst_ext_upto; intros j Hj.
    + now rewrite (IHx N1 j) by lia.
    + now rewrite (IHy N2 j) by lia.
Qed.
(* congruence: THT_f-equivalent sub-formulas can be exchanged at any position of any formula (any context, any number
   of occurrences): substitution of an atom by equivalent formulas yields equivalent formulas *)
Definition teq (p q:tf) := forall H T k, k <= h -> tsat H T p k = tsat H T q k.
Definition leq (p q:tf) := forall T k, k <= h -> lsat T p k = lsat T q k.
Lemma teq_leq p q : teq p q -> leq p q.
Proof. intros E T k Hk. rewrite <- !(tsat_total A h T). now apply E. Qed.
Lemma fut_ext_range u sx sy sx' sy' : forall d k, (forall j, k <= j <= k + d -> sx j = sx' j) -> (forall j, k <= j <= k + d -> sy j = sy' j) ->
  fut u sx sy d k = fut u sx' sy' d k.
Proof.
  induction d as [|d IH]; intros k Ex Ey; cbn [fut]; [apply Ey; lia|].
  rewrite (Ex k), (Ey k) by lia. rewrite (IH (S k)); [reflexivity| |]; intros j Hj; [apply Ex|apply Ey]; lia.
Qed.
Variable A_eq_dec : forall a b : A, {a = b} + {a <> b}.
Fixpoint subst (a:A) (r:tf) (p:tf) : tf :=
  match p with
  | TBot _ => TBot A | TAt _ b => if A_eq_dec a b then r else TAt A b | TAt0 _ b => TAt0 A b
  | TAnd _ x y => TAnd A (subst a r x) (subst a r y) | TOr _ x y => TOr A (subst a r x) (subst a r y) | TImp _ x y => TImp A (subst a r x) (subst a r y)
  | TNx _ w n x => TNx A w n (subst a r x) | TPv _ w n x => TPv A w n (subst a r x)
  | TUn _ x y => TUn A (subst a r x) (subst a r y) | TRl _ x y => TRl A (subst a r x) (subst a r y)
  | TSi _ x y => TSi A (subst a r x) (subst a r y) | TTr _ x y => TTr A (subst a r x) (subst a r y)
  end.
Lemma subst_lsat a r r' : leq r r' -> forall p T k, k <= h -> lsat T (subst a r p) k = lsat T (subst a r' p) k.
Proof.
  intros E p T. induction p as [|b|b|x IHx y IHy|x IHx y IHy|x IHx y IHy|w n x IH|w n x IH|x IHx y IHy|x IHx y IHy|x IHx y IHy|x IHx y IHy];
    intros k Hk; cbn [subst TEL.lsat]; try reflexivity; rewrite ?(IHx k Hk), ?(IHy k Hk); try reflexivity.
  - destruct (A_eq_dec a b); [now apply E|reflexivity].
  - destruct (k + n <=? h) eqn:L; [apply IH; now apply Nat.leb_le in L|reflexivity].
  - destruct (n <=? k); [apply IH; lia|reflexivity].
  - apply fut_ext_range; intros j Hj; [apply IHx|apply IHy]; lia.
  - apply fut_ext_range; intros j Hj; [apply IHx|apply IHy]; lia.
  - apply pst_ext_upto; intros j Hj; [apply IHx|apply IHy]; lia.
  - apply pst_ext_upto; intros j Hj; [apply IHx|apply IHy]; lia.
Qed.
Theorem congruence a r r' : teq r r' -> forall p, teq (subst a r p) (subst a r' p).
Proof.
  intros E p H T. pose proof (subst_lsat a r r' (teq_leq r r' E)) as EL.
  induction p as [|b|b|x IHx y IHy|x IHx y IHy|x IHx y IHy|w n x IH|w n x IH|x IHx y IHy|x IHx y IHy|x IHx y IHy|x IHx y IHy];
    intros k Hk; cbn [subst TEL.tsat]; try reflexivity; rewrite ?(IHx k Hk), ?(IHy k Hk); try reflexivity.
  - destruct (A_eq_dec a b); [now apply E|reflexivity].
  - now rewrite (EL x T k Hk), (EL y T k Hk).
  - destruct (k + n <=? h) eqn:L; [apply IH; now apply Nat.leb_le in L|reflexivity].
  - destruct (n <=? k); [apply IH; lia|reflexivity].
  - apply fut_ext_range; intros j Hj; [apply IHx|apply IHy]; lia.
  - apply fut_ext_range; intros j Hj; [apply IHx|apply IHy]; lia.
  - apply pst_ext_upto; intros j Hj; [apply IHx|apply IHy]; lia.
  - apply pst_ext_upto; intros j Hj; [apply IHx|apply IHy]; lia.
Qed.
(* classical congruence, for the dualities that hold in bodies only *)
Theorem congruence_classical a r r' : leq r r' -> forall p, leq (subst a r p) (subst a r' p).
Proof. intros E p T k Hk. now apply subst_lsat. Qed.
End Laws.
