From Coq Require Import List Bool Arith Lia.
Import ListNotations.
Require Import HT DecP.
(* Simultaneous elimination of defined auxiliary atoms:
     G  ∪ { B -> x | B ∈ defs x, isx x }  ∪ { x -> use x | isx x }      (G, B, use x do not mention aux atoms)
   has the same equilibrium models, up to the values of the aux atoms, as
     G  ∪ { B -> use x | B ∈ defs x, isx x }.
   Instance: x = __future_p(args,n,t); B = the bodies of the rules with head p'..'(args) at position t-n;
   use x = p(args,t) (bridge rule) for t <= horizon, Bot (assumption) beyond. *)
Section DefElim.
Variable A : Type.
Variable isx : A -> bool.
Notation interp := (interp A).
Notation form := (form A).
Fixpoint clean (f:form) : Prop :=
  match f with
  | Bot _ => True | Var _ a => isx a = false
  | And _ f g | Or _ f g | Imp _ f g => clean f /\ clean g
  end.
Definition agree_clean (I J:interp) := forall a, isx a = false -> I a = J a.
Lemma csat_clean I J f : clean f -> agree_clean I J -> csat A I f = csat A J f.
Proof. induction f; cbn; intros C Ag; try reflexivity; try (destruct C as [C1 C2]; rewrite (IHf1 C1 Ag), (IHf2 C2 Ag); reflexivity). now apply Ag. Qed.
Lemma hsat_clean H T H' T' f : clean f -> agree_clean H H' -> agree_clean T T' -> hsat A H T f = hsat A H' T' f.
Proof.
  induction f; cbn; intros C AH AT; try reflexivity; try (destruct C as [C1 C2]; rewrite (IHf1 C1 AH AT), (IHf2 C2 AH AT)); try reflexivity.
  - now apply AH.
  - now rewrite (csat_clean T T' f1 C1 AT), (csat_clean T T' f2 C2 AT).
Qed.
Variable G : theory A.
Variable defs : A -> list form.
Variable use : A -> form.
Hypothesis G_clean : forall f, G f -> clean f.
Hypothesis defs_clean : forall x B, isx x = true -> In B (defs x) -> clean B.
Hypothesis use_clean : forall x, isx x = true -> clean (use x).
Definition with_aux : theory A := fun f =>
  G f \/ (exists x B, isx x = true /\ In B (defs x) /\ f = Imp A B (Var A x)) \/ (exists x, isx x = true /\ f = Imp A (Var A x) (use x)).
Definition without_aux : theory A := fun f =>
  G f \/ (exists x B, isx x = true /\ In B (defs x) /\ f = Imp A B (use x)).
(* the canonical value of the aux atoms in the two worlds *)
Definition auxT (T:interp) : interp := fun a => if isx a then existsb (csat A T) (defs a) else T a.
Definition auxH (H T:interp) : interp := fun a => if isx a then existsb (hsat A H T) (defs a) else H a.
Lemma auxT_agree T : agree_clean (auxT T) T.  Proof. intros a E. unfold auxT. now rewrite E. Qed.
Lemma auxH_agree H T : agree_clean (auxH H T) H.  Proof. intros a E. unfold auxH. now rewrite E. Qed.
Lemma existsb_csat_clean I J l : (forall B, In B l -> clean B) -> agree_clean I J -> existsb (csat A I) l = existsb (csat A J) l.
Proof. intros C Ag. induction l as [|B l IH]; cbn; [reflexivity|]. rewrite (csat_clean I J B); [|apply C; now left|exact Ag]. rewrite IH; [reflexivity|]. intros; apply C; now right. Qed.
Lemma existsb_hsat_clean H T H' T' l : (forall B, In B l -> clean B) -> agree_clean H H' -> agree_clean T T' -> existsb (hsat A H T) l = existsb (hsat A H' T') l.
Proof. intros C AH AT. induction l as [|B l IH]; cbn; [reflexivity|]. rewrite (hsat_clean H T H' T' B); [|apply C; now left|exact AH|exact AT]. rewrite IH; [reflexivity|]. intros; apply C; now right. Qed.
Hypothesis A_eq_dec : forall a b : A, {a = b} + {a <> b}.
Definition strict_clean (H T:interp) := le A H T /\ exists a, isx a = false /\ T a = true /\ H a = false.
Definition equilibrium_clean (T:interp) (Th:theory A) := modelP A T T Th /\ forall H, strict_clean H T -> ~ modelP A H T Th.
Definition canonical (T:interp) := forall x, isx x = true -> T x = existsb (csat A T) (defs x).
Lemma existsb_true {X} (p:X->bool) l : existsb p l = true <-> exists b, In b l /\ p b = true.
Proof. apply existsb_exists. Qed.
Lemma T_part H T f : le A H T -> hsat A H T f = true -> csat A T f = true.  Proof. apply persist. Qed.
Theorem elim_forward T : equilibriumP A T with_aux -> canonical T /\ equilibrium_clean T without_aux.
Proof.
  intros [M Min].
  assert (forall x B, isx x = true -> In B (defs x) -> csat A T B = true -> T x = true) as RuleT.
  { intros x B Ex HB C. assert (hsat A T T (Imp A B (Var A x)) = true) as R by (apply M; right; left; eauto).
    rewrite hsat_total in R. cbn in R. rewrite C in R. exact R. }
  assert (forall x, isx x = true -> T x = true -> csat A T (use x) = true) as UseT.
  { intros x Ex Tx. assert (hsat A T T (Imp A (Var A x) (use x)) = true) as R by (apply M; right; right; eauto).
    rewrite hsat_total in R. cbn in R. rewrite Tx in R. exact R. }
  assert (canonical T) as Can.
  { intros x Ex. destruct (existsb (csat A T) (defs x)) eqn:E.
    - apply existsb_true in E as [B [HB C]]. eauto.
    - destruct (T x) eqn:Tx; [exfalso|reflexivity].
      set (H := fun a => if A_eq_dec a x then false else T a).
      assert (le A H T) as L by (intros a; unfold H; destruct (A_eq_dec a x); [discriminate|auto]).
      assert (agree_clean H T) as Ag by (intros a Ea; unfold H; destruct (A_eq_dec a x) as [->|]; [congruence|reflexivity]).
      apply (Min H).
      + split; [exact L|]. exists x. split; [exact Tx|]. unfold H. destruct (A_eq_dec x x); [reflexivity|contradiction].
      + intros f [Gf|[[x' [B [Ex' [HB ->]]]]|[x' [Ex' ->]]]].
        * rewrite (hsat_clean H T T T f (G_clean f Gf) Ag (fun _ _ => eq_refl)). apply M. now left.
        * cbn [hsat]. rewrite (hsat_clean H T T T B (defs_clean x' B Ex' HB) Ag (fun _ _ => eq_refl)), hsat_total.
          destruct (csat A T B) eqn:C; cbn; [|reflexivity].
          rewrite (RuleT x' B Ex' HB C). unfold H. destruct (A_eq_dec x' x) as [->|]; [|now rewrite (RuleT x' B Ex' HB C)].
          exfalso. assert (existsb (csat A T) (defs x) = true) as E' by (apply existsb_true; eauto). congruence.
        * cbn [hsat csat]. rewrite (hsat_clean H T T T (use x') (use_clean x' Ex') Ag (fun _ _ => eq_refl)), hsat_total.
          unfold H at 1. destruct (A_eq_dec x' x) as [->|].
          -- cbn. rewrite Tx. cbn. now apply UseT.
          -- destruct (T x') eqn:Tx'; cbn; [|reflexivity]. rewrite (UseT x' Ex' Tx'). reflexivity. }
  split; [exact Can|]. split.
  - intros f [Gf|[x [B [Ex [HB ->]]]]]; [apply M; now left|].
    rewrite hsat_total. cbn. destruct (csat A T B) eqn:C; [|reflexivity]. cbn. apply UseT; eauto.
  - intros H [L [a [Ea [Ta Ha]]]] MH.
    set (H' := auxH H T).
    assert (agree_clean H' H) as AgH by apply auxH_agree.
    assert (le A H' T) as L'.
    { intros b Hb. unfold H', auxH in Hb. destruct (isx b) eqn:Eb; [|now apply L].
      apply existsb_true in Hb as [B [HB C]]. apply (T_part H T B L) in C. eauto. }
    apply (Min H').
    + split; [exact L'|]. exists a. split; [exact Ta|]. unfold H', auxH. now rewrite Ea.
    + intros f [Gf|[[x [B [Ex [HB ->]]]]|[x [Ex ->]]]].
      * rewrite (hsat_clean H' T H T f (G_clean f Gf) AgH (fun _ _ => eq_refl)). apply MH. now left.
      * cbn [hsat csat]. rewrite (hsat_clean H' T H T B (defs_clean x B Ex HB) AgH (fun _ _ => eq_refl)).
        assert (implb (csat A T B) (T x) = true) as -> by (destruct (csat A T B) eqn:C; cbn; [eauto|reflexivity]).
        rewrite andb_true_r. destruct (hsat A H T B) eqn:C; cbn; [|reflexivity].
        unfold H', auxH. rewrite Ex. apply existsb_true. eauto.
      * cbn [hsat csat]. rewrite (hsat_clean H' T H T (use x) (use_clean x Ex) AgH (fun _ _ => eq_refl)).
        assert (implb (T x) (csat A T (use x)) = true) as -> by (destruct (T x) eqn:Tx; cbn; [eauto|reflexivity]).
        rewrite andb_true_r. unfold H' at 1, auxH. rewrite Ex.
        destruct (existsb (hsat A H T) (defs x)) eqn:E; cbn; [|reflexivity].
        apply existsb_true in E as [B [HB C]].
        assert (hsat A H T (Imp A B (use x)) = true) as R by (apply MH; right; eauto).
        cbn in R. rewrite C in R. cbn in R. now apply andb_true_iff in R as [R _].
Qed.
Theorem elim_backward T : canonical T -> equilibrium_clean T without_aux -> equilibriumP A T with_aux.
Proof.
  intros Can [M Min]. split.
  - intros f [Gf|[[x [B [Ex [HB ->]]]]|[x [Ex ->]]]].
    + apply M. now left.
    + rewrite hsat_total. cbn. destruct (csat A T B) eqn:C; [|reflexivity]. cbn. rewrite (Can x Ex). apply existsb_true. eauto.
    + rewrite hsat_total. cbn. destruct (T x) eqn:Tx; [|reflexivity]. cbn. rewrite (Can x Ex) in Tx.
      apply existsb_true in Tx as [B [HB C]].
      assert (hsat A T T (Imp A B (use x)) = true) as R by (apply M; right; eauto).
      rewrite hsat_total in R. cbn in R. now rewrite C in R.
  - intros H [L [a [Ta Ha]]] MH.
    assert (modelP A H T without_aux) as MW.
    { intros f [Gf|[x [B [Ex [HB ->]]]]]; [apply MH; now left|].
      assert (hsat A H T (Imp A B (Var A x)) = true) as R1 by (apply MH; right; left; eauto).
      assert (hsat A H T (Imp A (Var A x) (use x)) = true) as R2 by (apply MH; right; right; eauto).
      cbn in R1, R2. apply andb_true_iff in R1 as [R1 R1']. apply andb_true_iff in R2 as [R2 R2'].
      cbn [hsat]. apply andb_true_iff. split.
      - destruct (hsat A H T B); cbn in *; [|reflexivity]. rewrite R1 in R2. exact R2.
      - destruct (csat A T B); cbn in *; [|reflexivity]. rewrite R1' in R2'. exact R2'. }
    assert (agree_clean H T) as Ag.
    { intros b Eb. destruct (T b) eqn:Tb.
      - destruct (H b) eqn:Hb; [reflexivity|]. exfalso. apply (Min H); [|exact MW]. split; [exact L|]. exists b. auto.
      - destruct (H b) eqn:Hb; [|reflexivity]. apply L in Hb. congruence. }
    destruct (isx a) eqn:Ea.
    + rewrite (Can a Ea) in Ta. apply existsb_true in Ta as [B [HB C]].
      assert (hsat A H T (Imp A B (Var A a)) = true) as R by (apply MH; right; left; eauto).
      cbn in R. rewrite (hsat_clean H T T T B (defs_clean a B Ea HB) Ag (fun _ _ => eq_refl)), hsat_total, C, Ha in R. discriminate.
    + rewrite (Ag a Ea) in Ha. congruence.
Qed.
End DefElim.

