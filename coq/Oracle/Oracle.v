(* Executable oracles extracted to OCaml: temporal stable models of a (ground) temporal program by brute force over
   THT_f, LTLf / LDLf values of formulas on a given trace.  Atoms are nat ids 0..n-1; interpretations are bit sets in
   N (bit k*n+a = atom a at state k). *)
From Coq Require Import List Bool Arith NArith Lia.
Import ListNotations.
Require Import HT TEL LDL.
Inductive sgn := Pos | Neg | NegNeg.
Notation tf := (tf nat).
Notation dform := (dform nat).
(* body literals: a temporal formula (atoms 'p, _p, keywords and &tel{..} are all temporal formulas) or a dynamic formula *)
Inductive blit := BTf (f:tf) | BDel (d:dform).
Inductive shead := SForm (f:tf) | SChoice (l:list nat).
Inductive spart := Initial | Always | Dynamic | Final.
Record srule := { sp : spart; sh : shead; sb : list (sgn * blit) }.
Definition TTop : tf := TImp nat (TBot nat) (TBot nat).
Definition TNot (f:tf) : tf := TImp nat f (TBot nat).
Definition sgn_tf (s:sgn) (f:tf) : tf := match s with Pos => f | Neg => TNot f | NegNeg => TNot (TNot f) end.
Fixpoint choice_tf (l:list nat) : tf := match l with [] => TTop | a::r => TAnd nat (TOr nat (TAt nat a) (TNot (TAt nat a))) (choice_tf r) end.
Definition head_tf (h:shead) : tf := match h with SForm f => f | SChoice l => choice_tf l end.
Definition admissible (h:nat) (p:spart) (k:nat) : bool := match p with Initial => k =? 0 | Always => true | Dynamic => 0 <? k | Final => k =? h end.
Section Sat.
Variable h : nat.
Definition lit_sat (H T:trace nat) (k:nat) (l:sgn*blit) : bool :=
  match l with
  | (s, BTf f) => tsat nat h H T (sgn_tf s f) k
  | (s, BDel d) => let v := dsat nat h T d k in match s with Neg => negb v | _ => v end
  end.
Definition body_sat (H T:trace nat) (k:nat) (b:list (sgn*blit)) : bool := forallb (lit_sat H T k) b.
(* here-and-there satisfaction of  body -> head  at position k *)
Definition rule_sat (H T:trace nat) (k:nat) (r:srule) : bool :=
  implb (body_sat H T k (sb r)) (tsat nat h H T (head_tf (sh r)) k) && implb (body_sat T T k (sb r)) (tsat nat h T T (head_tf (sh r)) k).
Definition prog_sat (H T:trace nat) (P:list srule) : bool :=
  forallb (fun r => forallb (fun k => implb (admissible h (sp r) k) (rule_sat H T k r)) (seq 0 (S h))) P.
End Sat.
Definition tr_of (n:nat) (b:N) : trace nat := fun k a => if a <? n then N.testbit b (N.of_nat (k*n + a)) else false.
Definition tmodelb (n h:nat) (P:list srule) (H T:N) : bool := prog_sat h (tr_of n H) (tr_of n T) P.
Fixpoint exists_sub (bits:list N) (acc:N) (strict:bool) (p:N->bool) : bool :=
  match bits with
  | [] => strict && p acc
  | b::r => exists_sub r acc true p || exists_sub r (N.lor acc (N.shiftl 1 b)) strict p
  end.
Definition set_bits (nbits:nat) (t:N) : list N := filter (N.testbit t) (map N.of_nat (seq 0 nbits)).
Definition is_tsm (n h:nat) (P:list srule) (t:N) : bool :=
  tmodelb n h P t t && negb (exists_sub (set_bits (n * S h) t) 0%N false (fun hh => tmodelb n h P hh t)).
Fixpoint enum (bits:list N) (acc:N) (p:N->bool) (out:list N) : list N :=
  match bits with
  | [] => if p acc then acc :: out else out
  | b::r => enum r acc p (enum r (N.lor acc (N.shiftl 1 b)) p out)
  end.
Definition tsm_enum (n h:nat) (P:list srule) : list N := enum (map N.of_nat (seq 0 (n * S h))) 0%N (is_tsm n h P) [].
(* classical models only (for C04_classical style comparisons) *)
Definition cls_enum (n h:nat) (P:list srule) : list N := enum (map N.of_nat (seq 0 (n * S h))) 0%N (fun t => tmodelb n h P t t) [].
(* values of a formula at every position of a trace *)
Definition tf_values (n h:nat) (t:N) (f:tf) : list bool := map (lsat nat h (tr_of n t) f) (seq 0 (S h)).
Definition df_values (n h:nat) (t:N) (d:dform) : list bool := map (dsat nat h (tr_of n t) d) (seq 0 (S h)).
Definition tht_values (n h:nat) (hh t:N) (f:tf) : list bool := map (tsat nat h (tr_of n hh) (tr_of n t) f) (seq 0 (S h)).
