(* Extraction of the executable oracles and models.  ExtrOcamlBasic only; nat, N, Z, positive, string stay extracted datatypes. *)
From Coq Require Import extraction.Extraction extraction.ExtrOcamlBasic.
Require Import GenPrelude FromSource FromTransformers FromApp Loop Ctx Print Oracle.
Extraction "model.ml" tsm_enum cls_enum tf_values df_values tht_values imain_run default_imin_gen default_imax_gen default_istop_gen decide tel_ctx_reject_gen del_ctx_reject_gen lookahead_part_gen print_model parse_imin_gen parse_imax_gen istop_values_gen.
