(* Extraction of the executable oracles and models.  ExtrOcamlBasic only; nat, N, Z, positive, string stay extracted datatypes. *)
From Coq Require Import extraction.Extraction extraction.ExtrOcamlBasic.
Require Import GenPrelude FromSource FromTransformers FromApp FromTables DocTables Loop Ctx Print Parser ParserTable Oracle.
Extraction "model.ml" tsm_enum cls_enum tf_values df_values tht_values imain_run default_imin_gen default_imax_gen default_istop_gen decide tel_ctx_reject_gen del_ctx_reject_gen lookahead_part_gen print_model parse_imin_gen parse_imax_gen istop_values_gen parse_tbl known tel_body_table_gen tel_head_table_gen del_table_gen py_head_table_gen documented_tel documented_head documented_del.
