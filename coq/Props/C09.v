(* C09 — Every reported answer set is a well-formed finite trace.  Property theorems only.
   For the ground core fragment the facts are read off the characterisation of the stable models of the incremental run
   (Model/CoreRun.v, C01): every stable model agrees with the decided atoms. *)
From Coq Require Import List Bool Arith ZArith Lia.
Require Import HT TEL DecP DefElim CoreRun GenPrelude FromSource Leaf_imain.
Section C09.
Variable A : Type.
Variable h : nat.
Variable P : list (srule A).
Variable T' : interp (gatom A).
Hypothesis Stable : equilibriumP _ T' (union _ (prog A h P) (aux_theory _ (dec A h))).
Lemma agrees_T' : agrees _ (dec A h) T'.
Proof. exact (proj1 (proj1 (C01_reduced A h P T') Stable)). Qed.
(* every time-stamped user atom of the answer set has a time point in [0,h] *)
Theorem C09_time_in_range : forall a t, T' (GU A a t) = true -> (0 <= t <= Z.of_nat h)%Z.
Proof.
  intros a t Ht. destruct ((0 <=? t)%Z && (t <=? Z.of_nat h)%Z) eqn:E.
  - apply andb_true_iff in E as [E1 E2]. apply Z.leb_le in E1, E2. lia.
  - assert (dec A h (GU A a t) = Some false) as D by (cbn; now rewrite E).
    rewrite (agrees_T' _ _ D) in Ht. discriminate.
Qed.
(* exactly state 0 is marked initial, exactly state h is marked final *)
Theorem C09_initial_marker : forall t, T' (GI A t) = true <-> t = 0%Z.
Proof. intros t. rewrite (agrees_T' (GI A t) _ eq_refl). apply Z.eqb_eq. Qed.
Theorem C09_final_marker : forall t, T' (GF A t) = true <-> t = Z.of_nat h.
Proof. intros t. rewrite (agrees_T' (GF A t) _ eq_refl). apply Z.eqb_eq. Qed.
End C09.
(* future atoms: in every equilibrium model of a program with auxiliary future atoms x = __future_p(..,n,t) defined by
   bodies defs x, the value of x is determined by its definitions (canonical) - an auxiliary future atom never holds
   without one of its defining bodies; its use (the bridge rule x -> p(t), or the assumption "x false" beyond the
   horizon) is part of the program, so x true at t <= h forces p(t). *)
Theorem C09_future_atoms_determined : forall (A : Type) (isx : A -> bool) (G : theory A) (defs : A -> list (form A)) (use : A -> form A),
  (forall f, G f -> clean A isx f) -> (forall x B, isx x = true -> In B (defs x) -> clean A isx B) ->
  (forall x, isx x = true -> clean A isx (use x)) -> (forall a b : A, {a = b} + {a <> b}) ->
  forall T, equilibriumP A T (with_aux A isx G defs use) -> canonical A isx defs T.
Proof. intros A isx G defs use H1 H2 H3 D T E. exact (proj1 (elim_forward A isx G defs use H1 H2 H3 D T E)). Qed.
(* tie: the future atoms assumed false at step s are exactly those with a time stamp beyond s (regenerated filter),
   and __final(s-1) is released before, __final(s) assigned true after grounding step s (regenerated call order) *)
Theorem C09_assumptions : forall t s, assume_false_gen t s = Some (s <? t).
Proof. exact assume_false_gen_spec. Qed.
Print Assumptions C09_time_in_range.
Print Assumptions C09_initial_marker.
Print Assumptions C09_final_marker.
Print Assumptions C09_future_atoms_determined.
Print Assumptions C09_assumptions.
