(* C04 — &tel head formulas derive atoms according to temporal here-and-there semantics.  Property theorems only.
   Model: Model/HeadShift.v, a model of ShiftFormula (theory/head.py): shifting a head formula from its origin step s to
   the current step s+d, with until/release unrolled and parts behind the current step read classically. *)
From Coq Require Import List Bool Arith ZArith Lia.
Require Import HeadShift.
(* at the origin step the shifted formula is classically the formula itself *)
Theorem C04_shift_origin_classical : forall (A : Type) (h : nat) (T : trace A) (p : hf A) (k : nat), k <= h ->
  ssat A h T T (shift A p 0) k = csat A h T p k.
Proof. exact shift0_classical. Qed.
(* every later shift is a THT_f consequence of the head formula at its origin: a smaller here-world that satisfies the
   head formula satisfies every emitted clause, so no rule of the translation removes a temporal HT model *)
Theorem C04_shift_is_consequence : forall (A : Type) (h : nat) (H T : trace A), tle A H T ->
  forall (p : hf A) (s d : nat), s + d <= h -> hsat A h H T p s = true -> ssat A h H T (shift A p d) (s + d) = true.
Proof. exact shift_consequence. Qed.
Print Assumptions C04_shift_origin_classical.
Print Assumptions C04_shift_is_consequence.
