(* C04 — &tel head formulas derive atoms according to temporal here-and-there semantics.  Property theorems only.
   Model: Model/HeadShift.v, a model of ShiftFormula (theory/head.py): shifting a head formula from its origin step s to
   the current step s+d, with until/release unrolled and parts behind the current step read classically. *)
From Coq Require Import List Bool Arith ZArith Lia.
Require Import GenPrelude TheoryPrelude FormPrelude FromHeadForm FromHeadRanges HT TEL Laws HeadShift HeadComplete HeadForm TheorySem BodyTheoryFull HeadRulesProofs HeadBodyLink IntervalSet IntervalProofs HeadRanges RangesCover HeadDomain HeadDomainProofs.
(* at the origin step the shifted formula is classically the formula itself *)
Theorem C04_shift_origin_classical : forall (A : Type) (h : nat) (T : trace A) (p : hf A) (k : nat), k <= h ->
  ssat A h T T (shift A p 0) k = csat A h T p k.
Proof. exact shift0_classical. Qed.
(* every later shift is a THT_f consequence of the head formula at its origin: a smaller here-world that satisfies the
   head formula satisfies every emitted clause, so no rule of the translation removes a temporal HT model *)
Theorem C04_shift_is_consequence : forall (A : Type) (h : nat) (H T : trace A), tle A H T ->
  forall (p : hf A) (s d : nat), s + d <= h -> hsat A h H T p s = true -> ssat A h H T (shift A p d) (s + d) = true.
Proof. exact shift_consequence. Qed.
(* a here-world that differs from the there-world at ONE state only satisfies the head formula at its origin s iff it satisfies the
   formula shifted to that state: everything the shifted formula reads classically (double negation) lies at states where both worlds agree *)
Theorem C04_single_state_reading : forall (A : Type) (h : nat) (H T : trace A) (p : hf A) (s d : nat), s + d <= h ->
  (forall t a, t <> s + d -> H t a = T t a) -> hsat A h H T p s = ssat A h H T (shift A p d) (s + d).
Proof. exact single_point. Qed.
(* EXACTNESS at the level of equilibrium models: for any rest of the program Pi that is splittable (closed under cutting a smaller
   here-world back to the there-world after a state), the total traces T that are equilibrium models of Pi + (head formula p at state s) are
   exactly those of Pi + (all shifted formulas shift p d read at s+d, d = 0..h-s) - no answer set is added and none is lost *)
Theorem C04_translation_exact : forall (A : Type) (h : nat) (U : list A) (Pi : trace A -> trace A -> Prop) (p : hf A) (s : nat) (T : trace A),
  s <= h -> splittable A Pi -> supported A h U T -> (orig_eq A h Pi p s T <-> trans_eq A h Pi p s T).
Proof. exact head_translation_exact. Qed.
(* programs whose rules have bodies over the present and the past and heads in the present or the future (normal, choice and disjunctive
   rules, constraints, bridge rules of future heads, other head formulas) are splittable *)
Theorem C04_rules_splittable : forall (A : Type) (h : nat) (R : list (rule A)),
  (forall r, In r R -> past_body A r /\ future_head A r /\ mono_body A r /\ mono_head A r) ->
  forall H T m, tle A H T -> PiR A h R T T -> PiR A h R H T -> PiR A h R (trunc A H T m) T.
Proof. exact rules_splittable. Qed.
Theorem C04_head_formulas_are_admissible_heads : forall (A : Type) (h : nat) (b : trace A -> trace A -> nat -> bool) (q : hf A),
  past_body A {| body := b; head := fun H T t => hsat A h H T q t |} -> mono_body A {| body := b; head := fun H T t => hsat A h H T q t |} ->
  let r := {| body := b; head := fun H T t => hsat A h H T q t |} in past_body A r /\ future_head A r /\ mono_body A r /\ mono_head A r.
Proof. exact head_formula_rule_admissible. Qed.
(* ---- the implementation side, over tables and guards REGENERATED from theory/head.py ---- *)
(* for every operator admitted in heads and every number of arguments, the head formula object built by create_formula denotes (THT_f, any
   pair of worlds H <= T) the documented formula: a ;> b = a & > b, >> p = >* (~ &final | p), 0 > p = p, >? p = &true >? p, >* p = &false >* p *)
Theorem C04_create_formula_builds_the_documented_formulas : forall (A : Type) (h : nat) (ini fin : A) (H T : trace A),
  tle A H T -> markers A h ini fin H -> markers A h ini fin T -> Forall (head_entry_ok A h ini fin H T) head_doc_ops.
Proof. exact head_create_sound. Qed.
Theorem C04_past_operators_rejected_in_heads : forall op, In op head_forbidden -> head_create_gen op 1 = None /\ head_create_gen op 2 = None.
Proof. exact head_forbidden_rejected. Qed.
(* the hand-written model of ShiftFormula takes the decisions regenerated from the source *)
Theorem C04_shift_model_follows_source_next : forall (A : Type) n w (x : hf A) d,
  shift A (HNx A n w x) d =
  match shift_next_inside_gen n d, shift_next_rest_gen n d, shift_next_ahead_gen n d with
  | Some true, Some rest, _ => shift A x (Z.to_nat rest)
  | Some false, _, Some ahead => SFwd A (Z.to_nat ahead) w x
  | _, _, _ => SBack A d (HNx A n w x)
  end.
Proof. exact shift_next_spec. Qed.
Theorem C04_shift_model_follows_source_until : forall (A : Type) u (l r : hf A) d,
  shift A (HUn A u l r) d =
  clause_of A (shift_until_outer_conj_gen u) (shift A r d)
    (clause_of A (shift_until_inner_conj_gen u) (shift A l d)
       (match d with 0 => SFwd A 1 (shift_until_next_weak_gen u) (HUn A u l r) | S e => shift A (HUn A u l r) e end)).
Proof. exact shift_until_spec. Qed.
(* the clause list of UnfoldFormula is the conjunctive normal form of the shifted formula: all clauses hold iff the formula holds *)
Theorem C04_unfold_is_cnf : forall (A : Type) (h : nat) (H T : trace A) (k : nat) (g : sf A),
  forallb (clause_sat A h H T k) (unfold A g) = ssat A h H T g k.
Proof. exact unfold_sat. Qed.
(* ClauseToRule / HeadFormulaToBodyFormula (decisions REGENERATED): the body formula object built for a sub-formula of a head formula has
   its classical (LTLf) value, ... *)
Theorem C04_head_to_body_formula_keeps_the_value : forall (A : Type) (h : nat) (T : HeadShift.trace A) (p : hf A) (b : bf A),
  h2b A p = Some b -> forall k, BodyTheoryFull.lsat A h T b k = csat A h T p k.
Proof. exact h2b_value. Qed.
(* ... the formula handed to the body theory for a shifted part is false exactly if that part holds (its literal enters the rule body), ... *)
Theorem C04_rule_body_formula_negates_the_shifted_part : forall (A : Type) (h : nat) (H T : HeadShift.trace A) (g : sf A) (b : bf A),
  body_formula A g = Some b -> forall k, BodyTheoryFull.lsat A h T b k = negb (ssat A h H T g k).
Proof. exact body_formula_value. Qed.
(* ... and the rules added at a state (one per clause; atoms outside the atom base - which are false - left out of the head) are jointly
   HT-satisfied exactly if the shifted formula is; a rule exists for every clause of every head formula at every distance *)
Theorem C04_rules_of_a_state_mean_the_shifted_formula : forall (A : Type) (h : nat) (H T : HeadShift.trace A) (inbase : A -> bool) (F : hf A) (d k : nat) (rs : list (hrule A)),
  (forall a, inbase a = false -> H k a = false) -> rules_at A inbase F d = Some rs ->
  forallb (rule_sat A h H T k) rs = ssat A h H T (shift A F d) k.
Proof. exact rules_at_sat. Qed.
Theorem C04_every_clause_becomes_a_rule : forall (A : Type) (inbase : A -> bool) (F : hf A) (d : nat), exists rs, rules_at A inbase F d = Some rs.
Proof. exact rules_at_total. Qed.
(* the two theory layers together: read with the literals the body theory (Model/BodyTheoryFull.v) has cached for their body formulas, in any
   assignment that violates none of its constraints, the rules added at a state are jointly HT-satisfied exactly if the shifted formula is *)
Theorem C04_added_rules_with_their_literals_mean_the_shifted_formula :
  forall (A : Type) (A_eq_dec : forall a b : A, {a = b} + {a <> b}) (h : nat) (s : st A), Inv A A_eq_dec h nil s -> Wf A A_eq_dec s ->
  forall (T : HeadShift.trace A) (v : nat -> bool), ok_cls A T v s -> ok_ext A A_eq_dec v s ->
  forall (H : HeadShift.trace A) (inbase : A -> bool) (F : hf A) (d k : nat) (rs : list (hrule A)) (lss : list (list (lit A))),
  (forall a, inbase a = false -> H k a = false) -> rules_at A inbase F d = Some rs -> Forall2 (fun r ls => lits_of A A_eq_dec s k (bd A r) ls) rs lss ->
  forallb (fun p => added_rule_sat A T v H k (hd A (fst p)) (snd p)) (List.combine rs lss) = ssat A h H T (shift A F d) k.
Proof. exact added_rules_mean_shifted_formula. Qed.
(* the domain rule: the time ranges computed for the atoms of a head formula (TheoryAtomTransformer, increments REGENERATED from
   transformers/head.py) cover every atom that a shifted formula can have in a rule head, at its distance from the origin state - so the atom
   has been introduced into the atom base and ClauseToRule finds it *)
Theorem C04_ranges_cover_every_head_atom : forall (A : Type) (p : hf A) (d : nat) (a : A),
  In a (head_atoms A (shift A p d)) -> exists r, In (a, r) (ranges A p (0, Some 0)) /\ within d r.
Proof. exact ranges_cover. Qed.
(* ... and so do the entries of the domain rule as it is emitted: the ranges of every atom merged by IntervalSet (bounded and unbounded ones alike);
   the entries of the extracted model are compared with the conditional literals of the rule telingo writes on every run *)
Theorem C04_domain_rule_covers_every_head_atom : forall (A : Type) (eqA : A -> A -> bool), (forall a b, eqA a b = true <-> a = b) ->
  forall (p : hf A) (d : nat) (a : A), In a (head_atoms A (shift A p d)) -> exists e, In e (entries A eqA p) /\ fst e = a /\ covers A d e.
Proof. exact domain_covers. Qed.
(* IntervalSet (comparison, union and emptiness test of Interval REGENERATED): add keeps the intervals sorted, non-empty and separated
   and adds exactly the points of the new interval; a set built from a list of intervals contains exactly the points of its members *)
Theorem C04_interval_set_add : forall (l : list iv) (y : iv), wf l -> wf (add y l) /\ forall z, mem z (add y l) = inb z y || mem z l.
Proof. exact add_ok. Qed.
Theorem C04_interval_set_of_list : forall xs : list iv, wf (of_list xs) /\ forall z, mem z (of_list xs) = existsb (inb z) xs.
Proof. exact of_list_ok. Qed.
(* head formulas are shared through Theory.add_formula under their representation string (FormulaToStr of theory/head.py, REGENERATED method by method:
   Gen/FromReps.v hrep_*_gen; literal pieces character by character).  It is injective on the head formulas of the model - weak and strong next, until and release, an atom and its classical
   complement, conjunction and disjunction, operands exchanged never share an entry - and the arguments of an atom are separated by a comma *)
Require HeadRepsProofs.
Theorem C04_head_formula_representation_is_injective : forall f g : HeadRepsProofs.hf, HeadRepsProofs.flat (HeadRepsProofs.hrep f) = HeadRepsProofs.flat (HeadRepsProofs.hrep g) -> f = g.
Proof. exact HeadRepsProofs.hrep_injective. Qed.
Theorem C04_atom_arguments_are_separated_by_a_comma : FromReps.hrep_args_separator_gen = ","%string /\ FromReps.rep_args_separator_gen = ","%string.
Proof. exact HeadRepsProofs.argument_separators. Qed.
Print Assumptions C04_head_formula_representation_is_injective.
Print Assumptions C04_atom_arguments_are_separated_by_a_comma.
Print Assumptions C04_shift_origin_classical.
Print Assumptions C04_shift_is_consequence.
Print Assumptions C04_single_state_reading.
Print Assumptions C04_translation_exact.
Print Assumptions C04_rules_splittable.
Print Assumptions C04_head_formulas_are_admissible_heads.
Print Assumptions C04_create_formula_builds_the_documented_formulas.
Print Assumptions C04_past_operators_rejected_in_heads.
Print Assumptions C04_shift_model_follows_source_next.
Print Assumptions C04_shift_model_follows_source_until.
Print Assumptions C04_unfold_is_cnf.
Print Assumptions C04_head_to_body_formula_keeps_the_value.
Print Assumptions C04_rule_body_formula_negates_the_shifted_part.
Print Assumptions C04_rules_of_a_state_mean_the_shifted_formula.
Print Assumptions C04_every_clause_becomes_a_rule.
Print Assumptions C04_added_rules_with_their_literals_mean_the_shifted_formula.
Print Assumptions C04_ranges_cover_every_head_atom.
Print Assumptions C04_domain_rule_covers_every_head_atom.
Print Assumptions C04_interval_set_add.
Print Assumptions C04_interval_set_of_list.
