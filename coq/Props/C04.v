(* C04 — &tel head formulas derive atoms according to temporal here-and-there semantics.  Property theorems only.
   Model: Model/HeadShift.v, a model of ShiftFormula (theory/head.py): shifting a head formula from its origin step s to
   the current step s+d, with until/release unrolled and parts behind the current step read classically. *)
From Coq Require Import List Bool Arith ZArith Lia.
Require Import HeadShift HeadComplete.
(* at the origin step the shifted formula is classically the formula itself *)
Theorem C04_shift_origin_classical : forall (A : Type) (h : nat) (T : trace A) (p : hf A) (k : nat), k <= h ->
  ssat A h T T (shift A p 0) k = csat A h T p k.
Proof. exact shift0_classical. Qed.
(* every later shift is a THT_f consequence of the head formula at its origin: a smaller here-world that satisfies the
   head formula satisfies every emitted clause, so no rule of the translation removes a temporal HT model *)
Theorem C04_shift_is_consequence : forall (A : Type) (h : nat) (H T : trace A), tle A H T ->
  forall (p : hf A) (s d : nat), s + d <= h -> hsat A h H T p s = true -> ssat A h H T (shift A p d) (s + d) = true.
Proof. exact shift_consequence. Qed.
(* a here-world that differs from the there-world at ONE state only satisfies the head formula at its origin s iff it satisfies the
   formula shifted to that state: everything the shifted formula reads classically (double negation) lies at states where both worlds agree *)
Theorem C04_single_state_reading : forall (A : Type) (h : nat) (H T : trace A) (p : hf A) (s d : nat), s + d <= h ->
  (forall t a, t <> s + d -> H t a = T t a) -> hsat A h H T p s = ssat A h H T (shift A p d) (s + d).
Proof. exact single_point. Qed.
(* EXACTNESS at the level of equilibrium models: for any rest of the program Pi that is splittable (closed under cutting a smaller
   here-world back to the there-world after a state), the total traces T that are equilibrium models of Pi + (head formula p at state s) are
   exactly those of Pi + (all shifted formulas shift p d read at s+d, d = 0..h-s) - no answer set is added and none is lost *)
Theorem C04_translation_exact : forall (A : Type) (h : nat) (U : list A) (Pi : trace A -> trace A -> Prop) (p : hf A) (s : nat) (T : trace A),
  s <= h -> splittable A Pi -> supported A h U T -> (orig_eq A h Pi p s T <-> trans_eq A h Pi p s T).
Proof. exact head_translation_exact. Qed.
(* programs whose rules have bodies over the present and the past and heads in the present or the future (normal, choice and disjunctive
   rules, constraints, bridge rules of future heads, other head formulas) are splittable *)
Theorem C04_rules_splittable : forall (A : Type) (h : nat) (R : list (rule A)),
  (forall r, In r R -> past_body A r /\ future_head A r /\ mono_body A r /\ mono_head A r) ->
  forall H T m, tle A H T -> PiR A h R T T -> PiR A h R H T -> PiR A h R (trunc A H T m) T.
Proof. exact rules_splittable. Qed.
Theorem C04_head_formulas_are_admissible_heads : forall (A : Type) (h : nat) (b : trace A -> trace A -> nat -> bool) (q : hf A),
  past_body A {| body := b; head := fun H T t => hsat A h H T q t |} -> mono_body A {| body := b; head := fun H T t => hsat A h H T q t |} ->
  let r := {| body := b; head := fun H T t => hsat A h H T q t |} in past_body A r /\ future_head A r /\ mono_body A r /\ mono_head A r.
Proof. exact head_formula_rule_admissible. Qed.
Print Assumptions C04_shift_origin_classical.
Print Assumptions C04_shift_is_consequence.
Print Assumptions C04_single_state_reading.
Print Assumptions C04_translation_exact.
Print Assumptions C04_rules_splittable.
Print Assumptions C04_head_formulas_are_admissible_heads.
