(* C05 — &del formulas are evaluated with linear dynamic logic on finite traces.  Property theorems only. *)
From Coq Require Import List Bool Arith ZArith Lia.
Require Import LDL.
(* the executable diamond (continuation style, one case per path constructor, as the translate_X methods of DiamondFormula) is the
   relational "some run of the path from k ends in a state satisfying c", for ALL paths *)
Theorem C05_diamond : forall (A : Type) (h : nat) (T : trace A) (p : path A) (c : nat -> bool) (k : nat), k <= h ->
  (ds A h T p c k = true <-> exists j, run A h T p k j /\ c j = true).
Proof. exact diamond_spec. Qed.
Theorem C05_dia_formula : forall (A : Type) (h : nat) (T : trace A) (p : path A) (d : dform A) (k : nat), k <= h ->
  (dsat A h T (DDia A p d) k = true <-> exists j, run A h T p k j /\ dsat A h T d j = true).
Proof. exact dsat_dia. Qed.
Theorem C05_box_formula : forall (A : Type) (h : nat) (T : trace A) (p : path A) (d : dform A) (k : nat), k <= h ->
  (dsat A h T (DBox A p d) k = true <-> forall j, run A h T p k j -> dsat A h T d j = true).
Proof. exact dsat_box. Qed.
(* runs never leave the trace *)
Theorem C05_runs_inside : forall (A : Type) (h : nat) (T : trace A) (p : path A) (k j : nat), run A h T p k j -> k <= j /\ (k <= h -> j <= h).
Proof. exact run_mono. Qed.
Print Assumptions C05_diamond.
Print Assumptions C05_dia_formula.
Print Assumptions C05_box_formula.
Print Assumptions C05_runs_inside.
