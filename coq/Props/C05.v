(* C05 — &del formulas are evaluated with linear dynamic logic on finite traces.  Property theorems only. *)
From Coq Require Import List Bool Arith ZArith Lia.
Require Import GenPrelude TheoryPrelude FromTheory DynPrelude FromDynamic LDL Leaf_theory DynReduce.
Require BodyTheoryFull.
(* the executable diamond (continuation style, one case per path constructor, as the translate_X methods of DiamondFormula) is the
   relational "some run of the path from k ends in a state satisfying c", for ALL paths *)
Theorem C05_diamond : forall (A : Type) (h : nat) (T : trace A) (p : path A) (c : nat -> bool) (k : nat), k <= h ->
  (ds A h T p c k = true <-> exists j, run A h T p k j /\ c j = true).
Proof. exact diamond_spec. Qed.
Theorem C05_dia_formula : forall (A : Type) (h : nat) (T : trace A) (p : path A) (d : dform A) (k : nat), k <= h ->
  (dsat A h T (DDia A p d) k = true <-> exists j, run A h T p k j /\ dsat A h T d j = true).
Proof. exact dsat_dia. Qed.
Theorem C05_box_formula : forall (A : Type) (h : nat) (T : trace A) (p : path A) (d : dform A) (k : nat), k <= h ->
  (dsat A h T (DBox A p d) k = true <-> forall j, run A h T p k j -> dsat A h T d j = true).
Proof. exact dsat_box. Qed.
(* runs never leave the trace *)
Theorem C05_runs_inside : forall (A : Type) (h : nat) (T : trace A) (p : path A) (k j : nat), run A h T p k j -> k <= j /\ (k <= h -> j <= h).
Proof. exact run_mono. Qed.
(* ---- the implementation side: what DiamondFormula / BoxFormula build (tables REGENERATED from theory/body.py) ---- *)
(* every construction of translate_ChoicePath / SequencePath / CheckPath / KleeneStarPath / SkipPath, for both modalities and for ALL
   paths, has the LDLf value of the modality it replaces *)
Theorem C05_constructions_valid : forall (A : Type) (h : nat) (T : trace A) (f g : bf A), reduce A f = Some g ->
  forall k, k <= h -> bsat A h T g k = bsat A h T f k.
Proof. exact reduce_valid. Qed.
(* whatever truth values the solver gives to the literals of the formula objects: if none of the emitted constraints (clause tables
   regenerated from theory/formula.py and body.py) is violated, every formula whose iteration bodies consume a step has its LDLf
   value at every state of the trace *)
Theorem C05_translation_determines_value : forall (A : Type) (h : nat) (T : trace A) (v : bf A -> nat -> bool),
  (forall f k, wf A f = true -> k <= h -> node_ok A h T v f k) ->
  forall f, wf A f = true -> forall k, k <= h -> v f k = bsat A h T f k.
Proof. exact dyn_unique. Qed.
(* ... and the LDLf semantics itself is such an assignment (the hypothesis above is satisfiable; no formula is over-constrained) *)
Theorem C05_semantics_is_a_solution : forall (A : Type) (h : nat) (T : trace A) (f : bf A) (k : nat), k <= h -> node_ok A h T (bsat A h T) f k.
Proof. exact dyn_semantics_is_a_solution. Qed.
(* the formula objects built for the specification's dynamic formulas (with &final as the generated [skip]false) have the value
   the oracle computes *)
Theorem C05_objects_match_spec : forall (A : Type) (h : nat) (T : trace A) (d : dform A) (k : nat), k <= h ->
  bsat A h T (emb A d) k = dsat A h T d k.
Proof. exact emb_sat. Qed.
(* non-vacuity: a diamond over an iteration of an atom step is well-formed, reducible and has both truth values on concrete traces *)
Example C05_example_wf : wf nat (FDia nat (Star nat (Seq nat (Test nat (TAtom nat 0)) (Skip nat))) (FAtom nat 1)) = true /\
  (exists g, reduce nat (FDia nat (Star nat (Seq nat (Test nat (TAtom nat 0)) (Skip nat))) (FAtom nat 1)) = Some g) /\
  bsat nat 2 (fun k a => match a with 0 => k <? 2 | _ => k =? 2 end) (FDia nat (Star nat (Seq nat (Test nat (TAtom nat 0)) (Skip nat))) (FAtom nat 1)) 0 = true /\
  bsat nat 2 (fun k a => match a with 0 => k <? 1 | _ => k =? 2 end) (FDia nat (Star nat (Seq nat (Test nat (TAtom nat 0)) (Skip nat))) (FAtom nat 1)) 0 = false.
Proof. repeat split; [eexists; reflexivity]. Qed.
(* ---- the OPERATIONAL model with the dynamic layer inside (Model/BodyTheoryFull.v: DiamondFormula / BoxFormula allocate a literal and tie it to
   the literal of what translate_<PathClass> builds; cache, placeholders and pending list as for &tel; compared with Theory.translate event by
   event on every run) ---- *)
Module F := BodyTheoryFull.
Require Import Leaf_dynamic.
(* the regenerated construction tables build, for every path class, the formulas the model reasons about *)
Theorem C05_constructions_follow_the_source : forall (A : Type) (p : LDL.path A) (g : F.bf A),
  F.reduce A (F.Dia A p g) = Some (F.dia_built A p g) /\ F.reduce A (F.Box A p g) = Some (F.box_built A p g).
Proof. exact reduce_eqs_hold. Qed.
(* at every stable point of the incremental run, in every assignment that violates no emitted constraint, the literal cached for a diamond
   (box) formula at state k is true exactly if some (every) run of the path from k ends in a state where the literal's argument formula holds -
   provided the formulas are in the documented normal form (F.Wf: iteration only over step-consuming paths) *)
Theorem C05_cached_literals_have_the_LDLf_value : forall (A : Type) (A_eq_dec : forall a b : A, {a = b} + {a <> b}) (h : nat) (s : F.st A),
  F.Inv A A_eq_dec h nil s -> F.Wf A A_eq_dec s -> forall (T : F.trace A) (v : nat -> bool), F.ok_cls A T v s -> F.ok_ext A A_eq_dec v s ->
  forall (p : LDL.path A) (g : F.bf A) (k : nat) (l : F.lit A),
    (F.cached A A_eq_dec s (F.Dia A p g) k l -> F.ev A T v l = LDL.ds A h T p (F.lsat A h T g) k) /\
    (F.cached A A_eq_dec s (F.Box A p g) k l -> F.ev A T v l = negb (LDL.ds A h T p (fun j => negb (F.lsat A h T g j)) k)).
Proof.
  intros A D h s I W T v Oc Oe p g k l. split; intros C; exact (F.value_full A D (reduce_eqs_hold A) h s I W T v Oc Oe _ k l C).
Qed.
(* the normal form is kept by Theory.translate: what enters the cache is the translated formula, its sub-formulas and what the tables build *)
Theorem C05_normal_form_is_kept : forall (A : Type) (A_eq_dec : forall a b : A, {a = b} + {a <> b}) (fuel h : nat) (s : F.st A) (roots : list (nat * F.bf A)) (s' : F.st A),
  F.Wf A A_eq_dec s -> (forall p, In p roots -> F.wfb A (snd p) = true) -> F.theory_translate A A_eq_dec fuel h roots s = Some s' -> F.Wf A A_eq_dec s'.
Proof. exact (fun A D => F.theory_translate_wf A D (reduce_eqs_hold A)). Qed.
(* every construction is LDLf-equivalent to the modality it stands for (in the operational model's formula language) *)
Theorem C05_built_formulas_are_equivalent : forall (A : Type) (h : nat) (T : F.trace A) (p : LDL.path A) (g : F.bf A) (k : nat), k <= h ->
  F.lsat A h T (F.dia_built A p g) k = F.lsat A h T (F.Dia A p g) k /\ F.lsat A h T (F.box_built A p g) k = F.lsat A h T (F.Box A p g) k.
Proof. exact F.built_valid. Qed.
(* path expressions are shared through their representation string as well: it is injective on the path expressions of the model (step, test, choice,
   sequence, iteration, nested), and no formula has the representation of a path expression (Gen/FromReps.v regenerated from theory/path.py, body.py) *)
Require RepsProofs.
Theorem C05_path_representation_is_injective : forall p q : RepsProofs.path, RepsProofs.flat (RepsProofs.prep p) = RepsProofs.flat (RepsProofs.prep q) -> p = q.
Proof. exact RepsProofs.prep_injective. Qed.
Theorem C05_formulas_and_paths_have_different_representations : forall (f : RepsProofs.bf) (p : RepsProofs.path), RepsProofs.flat (RepsProofs.rep f) <> RepsProofs.flat (RepsProofs.prep p).
Proof. exact RepsProofs.rep_is_not_a_path. Qed.
Print Assumptions C05_path_representation_is_injective.
Print Assumptions C05_formulas_and_paths_have_different_representations.
Print Assumptions C05_diamond.
Print Assumptions C05_dia_formula.
Print Assumptions C05_box_formula.
Print Assumptions C05_runs_inside.
Print Assumptions C05_constructions_valid.
Print Assumptions C05_translation_determines_value.
Print Assumptions C05_semantics_is_a_solution.
Print Assumptions C05_objects_match_spec.
Print Assumptions C05_constructions_follow_the_source.
Print Assumptions C05_cached_literals_have_the_LDLf_value.
Print Assumptions C05_normal_form_is_kept.
Print Assumptions C05_built_formulas_are_equivalent.
