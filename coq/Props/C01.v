(* C01 — Core temporal rules yield exactly the temporal stable models at every horizon.
   Model: Model/CoreRun.v (source rules -> transform -> per-step grounding with the part selection -> accumulated ground
   program of steps 0..h; __initial/__final and atoms outside [0,h] are decided atoms).  Specification: temporal
   equilibrium models over traces of length h+1 (Spec/TEL.v).  Property theorems only. *)
From Coq Require Import List NArith.
Require Import Oracle OracleCorrect.
Require Import HT TEL TELext DecP CoreRun GenPrelude FromSource Leaf_imain.

(* The stable models (equilibrium models) of the program accumulated by the incremental run of steps 0..h, together
   with the decided atoms (__initial(t) true iff t=0, __final(t) true iff t=h, user atoms outside [0,h] false), are
   exactly the interpretations that agree with the decided atoms and whose user part is a temporal stable model of P
   over the trace of length h+1: no unsupported atom, no missing and no extra trace, for every program of the fragment
   (every part, normal/disjunctive/choice/constraint heads, present, past, initially atoms and &initial/&final under
   none, single and double default negation) and every horizon h. *)
Theorem C01_core_exact : forall (A : Type) (h : nat) (P : list (srule A)) (T' : interp (gatom A)),
  equilibriumP _ T' (union _ (prog A h P) (aux_theory _ (dec A h))) <-> agrees _ (dec A h) T' /\ tsm A h P (tr A T').
Proof. exact C01_reduced. Qed.

(* One ground instance of a transformed rule at an admissible position means the source rule at that position, in both
   worlds of a here-and-there interpretation that agrees with the decided atoms. *)
Theorem C01_instance_meaning : forall (A : Type) (h : nat) (H T : interp (gatom A)),
  agrees _ (dec A h) H -> agrees _ (dec A h) T ->
  forall (r : srule A) (k : nat), k <= h -> part_selected (pp A (transform A r)) k = true ->
  hsat _ H T (ground A (Z.of_nat k) (transform A r))
  = (if admissible h (sp A r) k then tsat A h (tr A H) (tr A T) (rule_tf A r) k else true).
Proof. exact instance_meaning. Qed.

(* The accumulated program is the per-step grounding of exactly the parts the REGENERATED part selection of imain picks
   (offset 0 of every core part). *)
Definition root_of (p : opart) : root := match p with OAlways => RAlways | ODynamic => RDynamic | OInitial => RInitial end.
Theorem C01_part_selection_tied : forall p s, part_selected_gen (root_of p) s 0 = Some (part_selected p s).
Proof.
  intros p s. rewrite part_selected_gen_spec. unfold part_sel, part_selected. destruct p; cbn [root_of].
  all: f_equal; destruct s; reflexivity.
Qed.
(* The oracle of the end-to-end correspondence (extracted Oracle.tsm_enum, used by the checks of C01-C05, C09, C13) is
   correct and complete: it lists exactly the bit sets, within the n*(h+1) bits of the finite universe, whose trace is a
   temporal stable model of the program (satisfied classically, and by no strictly smaller here-world), each once.
   Rules may have arbitrary THT_f heads and bodies with temporal and dynamic formulas (Oracle.srule). *)
Theorem C01_oracle_correct : forall (n h : nat) (P : list Oracle.srule) (t : N),
  In t (Oracle.tsm_enum n h P) <-> OracleCorrect.in_range (n * S h) t /\ OracleCorrect.tsm_fin h P (Oracle.tr_of n t).
Proof. exact tsm_enum_correct. Qed.
Theorem C01_oracle_no_duplicates : forall (n h : nat) (P : list Oracle.srule), NoDup (Oracle.tsm_enum n h P).
Proof. exact tsm_enum_nodup. Qed.
(* the final part is the always part guarded by &final: a rule of `#program final.` and the same rule in `#program always.` with &final added to its body
   have, in any program and at every horizon, the same temporal stable models (the pipeline is compared on this law for every kind of statement with a body) *)
Require Import FinalPart.
Theorem C01_final_part_is_the_always_part_with_final : forall (A : Type) (h : nat) (P : list (srule A)) (r : srule A), sp A r = Final ->
  forall T : trace A, tsm A h (r :: P) T <-> tsm A h (as_always A r :: P) T.
Proof. exact final_part_same_stable_models. Qed.
(* ... likewise the initial part is the always part guarded by &initial, the dynamic part the always part guarded by not &initial *)
Theorem C01_initial_and_dynamic_parts_are_guarded_always_parts : forall (A : Type) (h : nat) (P : list (srule A)) (r : srule A) (T : trace A),
  (sp A r = Initial -> (tsm A h (r :: P) T <-> tsm A h (initial_as_always A r :: P) T)) /\
  (sp A r = Dynamic -> (tsm A h (r :: P) T <-> tsm A h (dynamic_as_always A r :: P) T)).
Proof. exact parts_same_stable_models. Qed.
Print Assumptions C01_initial_and_dynamic_parts_are_guarded_always_parts.
Print Assumptions C01_final_part_is_the_always_part_with_final.
Print Assumptions C01_core_exact.
Print Assumptions C01_instance_meaning.
Print Assumptions C01_part_selection_tied.
Print Assumptions C01_oracle_correct.
Print Assumptions C01_oracle_no_duplicates.
