(* C06 — Non-ground programs mean the same as their ground instances.  Property theorems only.
   Grounding itself is gringo's.  What telingo contributes is that its rewriting commutes with instantiation, and the
   meaning it gives to ground theory atoms with conditional elements. *)
From Coq Require Import List Bool Arith ZArith Lia.
Import ListNotations.
Require Import HT TEL.
Section Commute.
(* terms with variables; the time parameters __t, __u are symbols that no substitution of user variables touches *)
Variable V : Type.            (* user variables *)
Variable C : Type.            (* constants, function symbols applied to ground terms, arithmetic: opaque *)
Inductive term := TVar (v : V) | TCon (c : C) | TFun (c : C) (args : list term) | TTime (shift : Z) | TZero.
Variable sigma : V -> term.   (* a substitution of user variables; by construction it cannot mention or replace TTime *)
Fixpoint subst (t : term) : term :=
  match t with
  | TVar v => sigma v | TCon c => TCon c | TFun c args => TFun c (map subst args) | TTime s => TTime s | TZero => TZero
  end.
Record atom := { pred : C; future : bool; aargs : list term }.
(* the rewriting of an atom: the time term (t+shift, or 0 for initially atoms) is appended; a future head atom is
   renamed and gets its shift as an additional argument *)
Definition rewrite (shift : Z) (initially renamed : bool) (a : atom) : atom :=
  {| pred := pred a; future := renamed;
     aargs := aargs a ++ (if renamed then [TTime 0 (* placeholder for the number *)] else []) ++ [if initially then TZero else TTime shift] |}.
Definition subst_atom (a : atom) : atom := {| pred := pred a; future := future a; aargs := map subst (aargs a) |}.
Theorem C06_rewrite_commutes_with_instantiation : forall shift initially renamed a,
  rewrite shift initially renamed (subst_atom a) = subst_atom (rewrite shift initially renamed a).
Proof.
  intros shift ini ren a. unfold rewrite, subst_atom. cbn [pred future aargs]. f_equal.
  rewrite !map_app. f_equal. destruct ren, ini; reflexivity.
Qed.
End Commute.
Section Elements.
(* a ground body theory atom with elements (phi_i : c_i1, .., c_ik) is translated to the conjunction of (c_i1 & .. & c_ik -> phi_i);
   its LTLf value is "every element whose conditions hold has a true formula" *)
Variable A : Type.
Variable h : nat.
Notation tf := (tf A).
Definition TTop' : tf := TImp A (TBot A) (TBot A).
Fixpoint conj (l : list tf) : tf := match l with [] => TTop' | [x] => x | x :: r => TAnd A x (conj r) end.
Definition element (e : list tf * tf) : tf := match fst e with [] => snd e | cs => TImp A (conj cs) (snd e) end.
Definition elements (es : list (list tf * tf)) : tf := conj (map element es).
Lemma lsat_conj T l k : lsat A h T (conj l) k = forallb (fun x => lsat A h T x k) l.
Proof.
  induction l as [|x r IH]; [reflexivity|]. destruct r as [|y r']; [cbn; now rewrite andb_true_r|].
  change (conj (x :: y :: r')) with (TAnd A x (conj (y :: r'))). cbn [TEL.lsat]. rewrite IH. reflexivity.
Qed.
Lemma forallb_map' {X Y} (f : X -> Y) (p : Y -> bool) l : forallb p (map f l) = forallb (fun x => p (f x)) l.
Proof. induction l as [|x r IH]; [reflexivity|]. cbn. now rewrite IH. Qed.
Lemma forallb_ext' {X} (p q : X -> bool) l : (forall x, p x = q x) -> forallb p l = forallb q l.
Proof. intros E. induction l as [|x r IH]; [reflexivity|]. cbn. now rewrite E, IH. Qed.
Theorem C06_elements_mean_conjunction_of_implications : forall T es k,
  lsat A h T (elements es) k = forallb (fun e => implb (forallb (fun c => lsat A h T c k) (fst e)) (lsat A h T (snd e) k)) es.
Proof.
  intros T es k. unfold elements. rewrite lsat_conj, forallb_map'. apply forallb_ext'. intros [cs f]. unfold element. cbn [fst snd].
  destruct cs as [|c r]; [reflexivity|]. cbn [TEL.lsat]. now rewrite lsat_conj.
Qed.
End Elements.
Require Import GenPrelude FromTransformers Ctx FutTransform FutTransformProofs.
(* the same for the transformer model that is compared with transformers.transform on every run (Model/FutTransform.v): the rewriting of a rule never
   looks inside an atom - for any instantiation f of atom schemata, rewriting the instance of a rule gives the instance of the rewritten rule (same
   acceptance, same look-ahead depth, instances of the future predicates) *)
Theorem C06_transformer_commutes_with_instantiation : forall (A B : Type) (f : A -> B) (r : frule A),
  transform_rule B (map_frule A B f r) = option_map (map_tres A B f) (transform_rule A r).
Proof. exact transform_rule_natural. Qed.
(* the arguments of atoms inside body formulas (Model/Symbols.v, compared with create_symbol of /repo on the theory terms gringo delivers): a variable
   bound to the symbol s - a number of either sign, a string with any escape sequences, a constant, a function term, a classically negated one, a
   tuple, #inf / #sup, nested - stands inside the formula for s itself: create_symbol undoes the way the symbol is written into the theory term *)
Require Import String Symbols SymbolsProofs.
Theorem C06_variables_in_formulas_denote_their_bindings : forall s : sym, wfs s = true -> create_symbol (encode s) = Some s.
Proof. exact create_symbol_undoes_the_encoding. Qed.
(* and two different symbols never stand for the same atom: the atoms p(X) for two bindings of X are looked up apart *)
Theorem C06_different_bindings_denote_different_atoms : forall s1 s2 : sym, wfs s1 = true -> wfs s2 = true ->
  create_symbol (encode s1) = create_symbol (encode s2) -> s1 = s2.
Proof. exact distinct_symbols_stay_distinct. Qed.
Theorem C06_strings_keep_their_text : forall s : string, unquote (quote s) = s.
Proof. exact unquote_quote. Qed.
(* a ground term written as the argument of an atom - numbers, strings, constants, function terms, tuples, unary minus, + and -, nested - reaches
   telingo in two forms: inside a BODY formula as the theory term gringo delivers (in_body), looked up through create_symbol; inside a HEAD formula as
   the syntax tree of clingo's parser (in_head), turned into a term of the rewritten rule (to_term: TheoryTermToTermTransformer of transformers/head.py)
   that gringo evaluates (eval).  Both give the same symbol, or both give none *)
Theorem C06_head_and_body_formulas_read_atom_arguments_alike : forall (sg : string -> sym) (w : wterm), wfw w = true ->
  create_symbol (in_body w) = obind (to_term (in_head w)) (eval sg).
Proof. intros sg w W. exact (proj1 (head_and_body_read_arguments_alike sg w W)). Qed.
Print Assumptions C06_head_and_body_formulas_read_atom_arguments_alike.
Print Assumptions C06_variables_in_formulas_denote_their_bindings.
Print Assumptions C06_strings_keep_their_text.
Print Assumptions C06_different_bindings_denote_different_atoms.
Print Assumptions C06_transformer_commutes_with_instantiation.
Print Assumptions C06_rewrite_commutes_with_instantiation.
Print Assumptions C06_elements_mean_conjunction_of_implications.
