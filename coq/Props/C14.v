(* C14 — Translation is a deterministic, side-effect-free function of the input text.  Property theorems only.
   A Gallina function is deterministic by construction, so the theorems are about the sources of order the code touches:
   Python sets are consumed only through sorted() (future predicates, ranges of head formulas) and min() (equivalent
   literals of a formula); both are invariant under every permutation, i.e. under every hash-dependent iteration order. *)
From Coq Require Import List Bool Arith ZArith Lia Permutation Sorting.Sorted.
Import ListNotations.
Section C14.
Variable A : Type.
Variable leb : A -> A -> bool.
Hypothesis leb_total : forall a b, leb a b = true \/ leb b a = true.
Hypothesis leb_trans : forall a b c, leb a b = true -> leb b c = true -> leb a c = true.
Hypothesis leb_antisym : forall a b, leb a b = true -> leb b a = true -> a = b.
Fixpoint insert (x : A) (l : list A) : list A := match l with [] => [x] | y :: r => if leb x y then x :: l else y :: insert x r end.
Fixpoint sort (l : list A) : list A := match l with [] => [] | x :: r => insert x (sort r) end.
Definition le (a b : A) : Prop := leb a b = true.
Lemma insert_perm x l : Permutation (x :: l) (insert x l).
Proof. induction l as [|y r IH]; cbn; [reflexivity|]. destruct (leb x y); [reflexivity|]. rewrite perm_swap. now apply perm_skip. Qed.
Lemma sort_perm l : Permutation l (sort l).
Proof. induction l as [|x r IH]; cbn; [reflexivity|]. rewrite <- insert_perm. now apply perm_skip. Qed.
Lemma insert_sorted x l : StronglySorted le l -> StronglySorted le (insert x l).
Proof.
  induction 1 as [|y r S IH F]; cbn; [repeat constructor|]. destruct (leb x y) eqn:E.
  - constructor; [now constructor|]. constructor; [exact E|]. eapply Forall_impl; [|exact F]. intros z Hz. exact (leb_trans _ _ _ E Hz).
  - constructor; [exact IH|]. apply (Permutation_Forall (insert_perm x r)). constructor; [|exact F].
    destruct (leb_total x y) as [H|H]; [congruence|exact H].
Qed.
Lemma sort_sorted l : StronglySorted le (sort l).
Proof. induction l as [|x r IH]; cbn; [constructor|now apply insert_sorted]. Qed.
Lemma sorted_perm_eq : forall l l', StronglySorted le l -> StronglySorted le l' -> Permutation l l' -> l = l'.
Proof.
  induction l as [|x r IH]; intros l' S S' P.
  - apply Permutation_nil in P. now subst.
  - destruct l' as [|y r']; [apply Permutation_sym, Permutation_nil in P; discriminate|].
    inversion S as [|? ? Sr Fr]; subst. inversion S' as [|? ? Sr' Fr']; subst.
    assert (x = y) as ->.
    { assert (In x (y :: r')) as Hx by (eapply Permutation_in; [exact P|now left]).
      assert (In y (x :: r)) as Hy by (eapply Permutation_in; [apply Permutation_sym; exact P|now left]).
      destruct Hx as [->|Hx]; [reflexivity|]. destruct Hy as [->|Hy]; [reflexivity|].
      apply leb_antisym; [exact (proj1 (Forall_forall _ _) Fr _ Hy)|exact (proj1 (Forall_forall _ _) Fr' _ Hx)]. }
    f_equal. apply IH; try assumption. now apply Permutation_cons_inv in P.
Qed.
(* sorted(set) does not depend on the iteration order of the set *)
Theorem C14_sorted_order_independent : forall l l', Permutation l l' -> sort l = sort l'.
Proof.
  intros l l' P. apply sorted_perm_eq; try apply sort_sorted.
  rewrite <- (sort_perm l), <- (sort_perm l'). exact P.
Qed.
(* min(set) does not depend on the iteration order either *)
Definition minimum (d : A) (l : list A) : A := hd d (sort l).
Theorem C14_min_order_independent : forall d l l', Permutation l l' -> minimum d l = minimum d l'.
Proof. intros d l l' P. unfold minimum. now rewrite (C14_sorted_order_independent l l' P). Qed.
(* what sorted() returns is a function of the set alone: it has exactly the elements of the set ... *)
Theorem C14_sorted_has_the_elements_of_the_set : forall l x, In x (sort l) <-> In x l.
Proof. intros l x. split; apply Permutation_in; [apply Permutation_sym|]; apply sort_perm. Qed.
(* ... and what min() returns is the least element of the set, which no iteration order can change: a member that is below every member *)
Theorem C14_min_is_the_least_element : forall d l, l <> [] -> In (minimum d l) l /\ forall x, In x l -> le (minimum d l) x.
Proof.
  intros d l Hl. unfold minimum. pose proof (sort_perm l) as P. pose proof (sort_sorted l) as S.
  destruct (sort l) as [|m r] eqn:E; [apply Permutation_sym, Permutation_nil in P; contradiction|]. cbn. split.
  - apply (Permutation_in m (Permutation_sym P)). now left.
  - intros x Hx. apply (Permutation_in x P) in Hx. inversion S as [|? ? _ F]; subst. destruct Hx as [<-|Hx].
    + destruct (leb_total m m); assumption.
    + exact (proj1 (Forall_forall _ _) F x Hx).
Qed.
End C14.
Require Import GenPrelude FromTransformers Ctx FutTransform FutTransformProofs.
(* the same for the transformer model that is compared with transformers.transform on every run (Model/FutTransform.v): the future predicates - one
   bridge rule and one future signature each - come out strictly sorted and are exactly those of the rule heads, whatever order the set is iterated in
   and whatever the order or repetition of the statements *)
Theorem C14_future_predicates_sorted_and_exact : forall (A : Type) (leA : A -> A -> bool), (forall a b, leA a b = true \/ leA b a = true) ->
  (forall a b c, leA a b = true -> leA b c = true -> leA a c = true) -> (forall a b, leA a b = true -> leA b a = true -> a = b) ->
  forall (P : list (frule A)) (o : output A), transform_program A leA P = Some o ->
  StronglySorted (lt_fut A leA) (o_bridge A o) /\ forall z, In z (o_bridge A o) <-> futs_of A P z.
Proof. exact bridges_sorted_and_exact. Qed.
Print Assumptions C14_future_predicates_sorted_and_exact.
Print Assumptions C14_sorted_order_independent.
Print Assumptions C14_min_order_independent.
Print Assumptions C14_sorted_has_the_elements_of_the_set.
Print Assumptions C14_min_is_the_least_element.
