(* C11 — Unsupported placements of temporal constructs are rejected, all others accepted.  Property theorems only.
   Decisions: regenerated from transformers/program.py, transformer.py, term.py (Gen/FromTransformers.v); traversal
   model: Model/Ctx.v; specification [allowed]: Proofs/CtxProofs.v, written from the property text. *)
From Coq Require Import List Bool Arith ZArith Lia.
Require Import GenPrelude FromTransformers Ctx CtxProofs.
(* For every statement shape, every place of an atom in it, every number of leading and trailing primes and the
   initially marker: the atom is accepted, rejected as a future atom or rejected as a past atom exactly as the
   property says - future atoms only in normal-rule heads and constraints, past / initially atoms everywhere except
   positive head positions, everything inside constraints (incl. negative heads); the decision never raises. *)
Theorem C11_atoms : forall sh pl lead stem trail initially, wf_place sh pl = true -> (initially = true -> lead = 0 /\ trail = 0) ->
  verdict_class (decide sh pl lead stem trail initially) = Some (allowed sh pl (Z.of_nat trail - Z.of_nat lead)%Z initially).
Proof. exact decide_spec. Qed.
(* Prime arithmetic is uniform: the shift is trailing minus leading primes, for every number of primes
   ('p'' = p', ''p' = 'p, 'p' = p) and independent of the rest of the name (inner primes, __ prefixes). *)
Theorem C11_primes : forall lead stem trail, shift_of lead stem trail = Some (Z.of_nat trail - Z.of_nat lead)%Z.
Proof. exact shift_of_spec. Qed.
(* An accepted atom gets the time parameter t+shift (0 for initially atoms), is renamed to a __future_ atom exactly in a
   positive normal-rule head, and makes its constraint a look-ahead constraint exactly otherwise. *)
Theorem C11_rewrite : forall sh pl lead stem trail initially r la ts tz,
  decide sh pl lead stem trail initially = Accept r la ts tz ->
  ts = (Z.of_nat trail - Z.of_nat lead)%Z /\ tz = (((Z.of_nat trail - Z.of_nat lead) =? 0)%Z && initially) /\
  r = ((0 <? Z.of_nat trail - Z.of_nat lead)%Z && (head_before pl && lit_nosign sh pl)) /\
  la = ((0 <? Z.of_nat trail - Z.of_nat lead)%Z && negb (head_before pl && lit_nosign sh pl)).
Proof. exact decide_accept. Qed.
(* &tel / &del atoms are rejected exactly in a positive body literal of a non-constraint *)
Theorem C11_theory_context : forall negation constraint,
  tel_ctx_reject_gen negation constraint = Some (negb negation && negb constraint) /\ del_ctx_reject_gen negation constraint = Some (negb negation && negb constraint).
Proof. exact tel_ctx_spec. Qed.
Theorem C11_literal_flags : forall head ns, literal_negation_gen ns = Some (negb ns) /\ literal_head_gen head ns = Some (head && ns).
Proof. exact literal_flags_spec. Qed.
Theorem C11_initially_marker : forall us1 us2, initially_gen us1 us2 = Some (us1 && negb us2).
Proof. exact initially_spec. Qed.
Require Import FutTransform FutTransformProofs.
(* whole rules (the transformer model that is compared with transformers.transform on every run, Model/FutTransform.v): a rule - normal rule with or
   without future head, disjunction, choice rule, constraint, rule whose head is a temporal formula; atoms with any primes, initially atoms, &initial,
   &final, &tel / &del atoms in the body - is accepted exactly if every atom of it stands at a placement the table allows *)
Theorem C11_rule_accepted_iff_every_placement_is_allowed : forall (A : Type) (r : frule A),
  (exists t, transform_rule A r = Some t) <-> head_allowed A (fh A r) = true /\ forallb (lit_allowed A (shape_of A (fh A r))) (fb A r) = true.
Proof. exact rule_accepted_iff_all_placements_allowed. Qed.
(* whole programs: the transformer model produces an output exactly if every rule is accepted - one forbidden placement anywhere rejects the input, and
   nothing else does (no rule is rejected because of another rule, the order of the rules, or the number of future predicates met so far) *)
Theorem C11_program_accepted_iff_every_placement_is_allowed : forall (A : Type) (leA : A -> A -> bool) (P : list (frule A)),
  (exists o, transform_program A leA P = Some o) <->
  forall r, In r P -> head_allowed A (fh A r) = true /\ forallb (lit_allowed A (shape_of A (fh A r))) (fb A r) = true.
Proof. exact transform_program_accepts_iff. Qed.
Print Assumptions C11_program_accepted_iff_every_placement_is_allowed.
Require Import Loc LocProofs.
(* the source location named in a diagnostic (str_location, Model/Loc.v, compared with the function of /repo on every run): the rendering is
   file:line:column followed by the part of the end position from the first differing component on, and begin and end can be read back from it -
   two different locations are never rendered alike *)
Theorem C11_location_has_the_documented_shape : forall b e : pos, str_location b e = loc_shape b e.
Proof. exact str_location_shape. Qed.
Theorem C11_location_is_named_faithfully : forall b e : pos, read_back (str_location b e) = Some (b, e).
Proof. exact str_location_faithful. Qed.
Print Assumptions C11_location_has_the_documented_shape. Print Assumptions C11_location_is_named_faithfully.
Print Assumptions C11_rule_accepted_iff_every_placement_is_allowed.
Print Assumptions C11_atoms. Print Assumptions C11_primes. Print Assumptions C11_rewrite.
Print Assumptions C11_theory_context. Print Assumptions C11_literal_flags. Print Assumptions C11_initially_marker.
