(* C12 — Answer sets do not depend on statement order, duplication or file layout.  Property theorems only.
   The accumulated ground program of the incremental run is used as a SET of instances (Model/CoreRun.v: [prog] is the
   predicate "f is an instance of some rule of P at some selected step"), so its equilibrium models depend only on the
   set of rules of each part. *)
From Coq Require Import List Bool Arith ZArith Lia.
Require Import HT TEL DecP CoreRun.
Section C12.
Variable A : Type.
Variable h : nat.
(* two statement lists with the same members (any order, any multiplicity, any split over input texts) *)
Definition same_rules (P Q : list (srule A)) := forall r, In r P <-> In r Q.
Lemma prog_same P Q : same_rules P Q -> forall f, prog A h P f <-> prog A h Q f.
Proof.
  intros S f. unfold prog, of_list. rewrite !in_rules. split; intros (r & k & Hr & Hk & Hs & ->); exists r, k; (split; [apply S; exact Hr|auto]).
Qed.
Lemma equilibrium_same (G G' : theory (gatom A)) T : (forall f, G f <-> G' f) -> equilibriumP _ T G -> equilibriumP _ T G'.
Proof.
  intros E [M Min]. split.
  - intros f Hf. apply M. now apply E.
  - intros H S MH. apply (Min H S). intros f Hf. apply MH. now apply E.
Qed.
Theorem C12_order_dup_split : forall P Q : list (srule A), same_rules P Q -> forall T' : interp (gatom A),
  equilibriumP _ T' (union _ (prog A h P) (aux_theory _ (dec A h))) <-> equilibriumP _ T' (union _ (prog A h Q) (aux_theory _ (dec A h))).
Proof.
  intros P Q S T'. split; apply equilibrium_same; intros f; unfold union; rewrite (prog_same P Q S f); tauto.
Qed.
(* hence, by C01, the reported traces are the temporal stable models of the SET of rules *)
Theorem C12_tsm_same : forall P Q : list (srule A), same_rules P Q -> forall T, tsm A h P T <-> tsm A h Q T.
Proof.
  intros P Q S T. unfold tsm, tmodel. split; intros [M Min]; (split; [intros r k Hr; apply M; now apply S|]);
    intros H St MH; apply (Min H St); intros r k Hr; apply MH; now apply S.
Qed.
(* duplication and append/split are instances *)
Corollary C12_duplicate : forall (P : list (srule A)) r, In r P -> same_rules (r :: P) P.
Proof. intros P r Hr x. cbn. split; [intros [<-|Hx]; assumption|intros Hx; now right]. Qed.
Corollary C12_split : forall P1 P2 : list (srule A), same_rules (P1 ++ P2) (P2 ++ P1).
Proof. intros P1 P2 x. rewrite !in_app_iff. tauto. Qed.
End C12.
Require Import GenPrelude FromTransformers Ctx FutTransform FutTransformProofs.
(* the transformer model compared with transformers.transform on every run: two accepted programs with the same statements (any order, any
   repetition) get the same bridge rules and future signatures *)
Theorem C12_future_predicates_do_not_depend_on_statement_order : forall (A : Type) (leA : A -> A -> bool), (forall a b, leA a b = true \/ leA b a = true) ->
  (forall a b c, leA a b = true -> leA b c = true -> leA a c = true) -> (forall a b, leA a b = true -> leA b a = true -> a = b) ->
  forall (P Q : list (frule A)) (o o' : output A), (forall r, In r P <-> In r Q) ->
  transform_program A leA P = Some o -> transform_program A leA Q = Some o' -> o_bridge A o = o_bridge A o'.
Proof. exact bridges_order_independent. Qed.
(* one counter for the auxiliary atoms of head formulas across all statements (and input files): the rewritten program uses __aux_0 .. __aux_(n-1) for
   the n rules whose head is a temporal formula *)
Theorem C12_head_formulas_are_numbered_across_the_whole_input : forall (A : Type) (leA : A -> A -> bool) (P : list (frule A)) (o : output A),
  transform_program A leA P = Some o -> o_naux A o = tel_heads A P.
Proof. exact aux_atoms_count. Qed.
(* ---- input texts and #program directives (Model/Inputs.v; what a directive does is REGENERATED from ProgramTransformer.visit_Program, the model is
   compared with transform() on random layouts of directives and texts on every run) ---- *)
Require Import String FromParts Inputs InputsProofs.
(* every text is resolved on its own: the statements of several input texts get the parts they get when each text is read alone, one text after the
   other - nothing of an earlier text (its last directive, its final flag) reaches a later one *)
Theorem C12_texts_are_resolved_one_by_one : forall (R : Type) (inputs : list (list (stmt R))),
  resolve_inputs R inputs = List.concat (map (resolve R initial_state) inputs).
Proof. exact texts_are_resolved_one_by_one. Qed.
(* a text may be cut into two texts in front of any directive ... *)
Theorem C12_cut_before_a_directive : forall (R : Type) (a b : list (stmt R)) (n : string),
  resolve_inputs R ((a ++ SProg R n :: b) :: nil) = resolve_inputs R (a :: (SProg R n :: b) :: nil).
Proof. exact cut_before_a_directive. Qed.
(* ... and in front of another statement if the initial part is in force there - and only then: elsewhere the cut moves the statement into the initial part *)
Theorem C12_cut_in_the_initial_part : forall (R : Type) (a b : list (stmt R)), state_after R initial_state a = initial_state ->
  resolve_inputs R ((a ++ b) :: nil) = resolve_inputs R (a :: b :: nil).
Proof. exact cut_in_the_initial_part. Qed.
Theorem C12_cut_elsewhere_changes_the_part : forall (R : Type) (a : list (stmt R)) (r : R) (b : list (stmt R)), state_after R initial_state a <> initial_state ->
  resolve_inputs R ((a ++ SRule R r :: b) :: nil) <> resolve_inputs R (a :: (SRule R r :: b) :: nil).
Proof. exact cut_elsewhere_changes_the_part. Qed.
(* the rewritten program (rules, bridge rules, look-ahead parts, numbering of head formulas) is the same for both layouts *)
Theorem C12_transformer_output_does_not_depend_on_the_cut : forall (A : Type) (leA : A -> A -> bool) (a b : list (stmt (body_of A))) (n : string),
  transform_inputs A leA ((a ++ SProg _ n :: b) :: nil) = transform_inputs A leA (a :: (SProg _ n :: b) :: nil).
Proof. exact transformer_cut_before_a_directive. Qed.
Print Assumptions C12_texts_are_resolved_one_by_one.
Print Assumptions C12_cut_before_a_directive.
Print Assumptions C12_cut_in_the_initial_part.
Print Assumptions C12_cut_elsewhere_changes_the_part.
Print Assumptions C12_transformer_output_does_not_depend_on_the_cut.
Print Assumptions C12_head_formulas_are_numbered_across_the_whole_input.
Print Assumptions C12_future_predicates_do_not_depend_on_statement_order.
Print Assumptions C12_order_dup_split.
Print Assumptions C12_tsm_same.
Print Assumptions C12_duplicate.
Print Assumptions C12_split.
