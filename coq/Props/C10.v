(* C10 — The command line prints each answer set as its states, completely and only.  Property theorems only.
   Model: Model/Print.v over the guards regenerated from TelApp.print_model (Gen/FromApp.v). *)
From Coq Require Import List Bool Arith ZArith Lia.
Require Import GenPrelude FromApp Print PrintProofs.
(* print_model is total - no shown symbol aborts it - and prints exactly the states 0..h, in order *)
Theorem C10_total_and_states : forall shown h, exists sts, print_model shown h = Printed sts /\ List.length sts = S h.
Proof. intros shown h. eexists. split; [apply print_model_spec|]. now rewrite map_length, seq_length. Qed.
(* an atom appears under State k exactly if it is the text of a shown function symbol with last argument the number k
   whose name does not start with "__": no user atom is dropped or attached to the wrong state, auxiliary atoms never
   appear, symbols without a numeric time stamp are skipped *)
Theorem C10_state_contents : forall shown h k x, k <= h ->
  exists sts, print_model shown h = Printed sts /\
   (In x (nth k sts nil) <-> exists s, In s shown /\ is_fun s = true /\ 0 < nargs s /\ last s = Some (Z.of_nat k) /\ dunder s = false /\ txt s = x).
Proof.
  intros shown h k x Hk. eexists. split; [apply print_model_spec|].
  rewrite <- in_state_atoms.
  rewrite (nth_indep _ nil (state_atoms shown 0)) by (rewrite map_length, seq_length; lia).
  rewrite map_nth, seq_nth by lia. reflexivity.
Qed.
(* option values: --imin accepts exactly integers >= 0, --imax exactly integers >= 0 or the empty value, and a value that is
   not an integer is rejected by the parser (never an exception); --istop accepts exactly sat/unsat/unknown (upper-cased) *)
Theorem C10_C08_option_values : forall iv, parse_imin_gen iv = Some (match iv with Some v => (0 <=? v)%Z | None => false end)
  /\ forall e, parse_imax_gen e iv = Some (e || match iv with Some v => (0 <=? v)%Z | None => false end).
Proof.
  intros iv. split; [|intros e; destruct e; [reflexivity|]]; unfold parse_imin_gen, parse_imax_gen; destruct iv as [v|]; try reflexivity;
    cbn [olift2]; rewrite Z.geb_leb; reflexivity.
Qed.
Theorem C10_C08_istop_values : istop_values_gen = ("SAT" :: "UNSAT" :: "UNKNOWN" :: nil)%string.
Proof. reflexivity. Qed.
(* programs are read from all texts given, each text starting in the initial part (Model/Inputs.v over the REGENERATED visit_Program; every text begins
   with the `#program base.` of clingo's parser): whatever state the texts before it left behind, the statements of a text up to its first directive are
   in the initial part without the final flag, `base` names the initial part, `final` the always part with the flag *)
Require Import String FromParts FromShow FutTransform Inputs InputsProofs.
Theorem C10_every_text_starts_in_the_initial_part : forall (R : Type) (st : pstate) (i : list (stmt R)),
  resolve R st (text R i) = resolve R initial_state i /\ state_after R st (text R i) = state_after R initial_state i.
Proof. exact text_starts_in_the_initial_part. Qed.
Theorem C10_directive_table : forall (f : bool) (p : string),
  visit_program_gen "initial" f p = ("initial", false, "initial")%string /\ visit_program_gen "always" f p = ("always", false, "always")%string /\
  visit_program_gen "dynamic" f p = ("dynamic", false, "dynamic")%string /\ visit_program_gen "final" f p = ("always", true, "always")%string /\
  visit_program_gen "base" f p = ("initial", false, "initial")%string.
Proof. intros f p. destruct (directive_table f p) as [H1 [H2 [H3 H4]]]. split; [exact H1|split; [exact H2|split; [exact H3|split; [exact H4|exact (base_is_initial f p)]]]]. Qed.
(* the texts the command line tool reads (TelApp.main: the condition for standard input is REGENERATED; that every file is opened, every source read into
   a text of its own and the texts handed to transform() in that order is checked textually by the translator on every run): all files named, in the
   order given, and standard input exactly if no file is named *)
Theorem C10_all_files_are_read_in_order : forall n : nat, main_sources n = Some (if Nat.eqb n 0 then SrcStdin :: nil else map SrcFile (seq 0 n)).
Proof. exact all_files_are_read_in_order. Qed.
(* `#show p/n.` (and `#project p/n.`) of the input concerns the atoms p(args,k): the rewritten statement counts the time stamp, for a classically negated
   signature as for a positive one (REGENERATED from visit_ShowSignature / visit_ProjectSignature: the arity is incremented unconditionally) *)
Theorem C10_show_signatures_count_the_time_stamp : forall n : nat, show_arity_gen n = S n /\ project_arity_gen n = S n.
Proof. intros n. unfold show_arity_gen, project_arity_gen. split; apply Nat.add_1_r. Qed.
Print Assumptions C10_show_signatures_count_the_time_stamp.
Print Assumptions C10_all_files_are_read_in_order.
Print Assumptions C10_every_text_starts_in_the_initial_part.
Print Assumptions C10_directive_table.
Print Assumptions C10_total_and_states.
Print Assumptions C10_state_contents.
Print Assumptions C10_C08_option_values.
Print Assumptions C10_C08_istop_values.
