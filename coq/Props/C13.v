(* C13 — Body temporal formulas are pure observers of the trace.  Property theorems only. *)
From Coq Require Import List Bool Arith ZArith Lia.
Require Import HT Ext BodyTheoryCore GenPrelude TheoryPrelude FromTheory Leaf_theory.
Require BodyTheoryFull.
Require Import Leaf_dynamic TheoryAtomsProofs.
(* Frozen choice: a program P extended with choice atoms X (the Tseitin atoms) and negated constraints C (the clauses)
   has T as equilibrium model iff T satisfies P, violates no constraint, and no smaller H that AGREES WITH T ON X
   satisfies P: the auxiliary atoms never take part in minimisation. *)
Theorem C13_frozen_choice : forall (A : Type) (isaux : A -> bool) (P : list (form A)) (X : list A) (C : list (form A)) (T : interp A),
  (forall x, In x X <-> isaux x = true) ->
  (equilibrium A T (P ++ map (choice A) X ++ map (Not A) C) <->
   model A T T P /\ (forall c, In c C -> csat A T c = false) /\ (forall H, strict A H T -> agree_aux A isaux H T -> ~ model A H T P)).
Proof. exact frozen_choice. Qed.
(* Existence and uniqueness of the auxiliary assignment for every trace (see C03_definitional): together with frozen
   choice, adding an observer cannot create, destroy or duplicate answer sets, and every formula has a definite value. *)
Theorem C13_unique_extension : forall (A : Type) (A_eq_dec : forall a b : A, {a = b} + {a <> b}) (h : nat) (s : st A) (T : BodyTheoryCore.trace A),
  Inv A A_eq_dec h nil s -> Gh A A_eq_dec h s ->
  (ok_cls A T (vstar A h T s) s /\ ok_ext A A_eq_dec (vstar A h T s) s) /\
  forall v, ok_cls A T v s -> ok_ext A A_eq_dec v s -> forall n, n < nxt A s -> v n = vstar A h T s n.
Proof. intros A D h s T I G. split; [exact (C03_exists A D h s T I G)|intros v Hc He; exact (C03_unique A D h s T v I G Hc He)]. Qed.
(* the same for the FULL operator set (Model/BodyTheoryFull.v, a model that the correspondence compares with Theory.translate event by event):
   in every state reached with an empty work list, for every trace there is exactly one assignment of the auxiliary atoms that violates no
   emitted constraint and respects the pending placeholders *)
Module F := BodyTheoryFull.
Theorem C13_unique_extension_full : forall (A : Type) (A_eq_dec : forall a b : A, {a = b} + {a <> b}) (h : nat) (s : F.st A) (T : F.trace A),
  F.Inv A A_eq_dec h nil s -> F.Gw A A_eq_dec s -> F.Wf A A_eq_dec s ->
  (F.ok_cls A T (F.vstar A h T s) s /\ F.ok_ext A A_eq_dec (F.vstar A h T s) s) /\
  forall v, F.ok_cls A T v s -> F.ok_ext A A_eq_dec v s -> forall z, 0 < z < F.nxt A s -> v z = F.vstar A h T s z.
Proof.
  intros A D h s T I G W. split; [exact (F.exists_full A D boolean_clauses_spec tel_clauses_spec make_equal_spec (reduce_eqs_hold A) h s I G W T)|].
  intros v Hc He. exact (F.unique_full A D (reduce_eqs_hold A) h s I G W T v Hc He).
Qed.
(* ... and the ground theory atoms themselves are determined by the trace: two assignments that violate no constraint and respect the ties of the
   theory atoms agree on every theory atom - a body formula has a definite truth value in every answer set *)
Theorem C13_theory_atoms_are_determined : forall (A : Type) (D : forall a b : A, {a = b} + {a <> b}) (h : nat) (s : F.st A) (ts : list (tie A)),
  F.Inv A D h nil s -> F.Wf A D s -> TInv A D s ts ->
  forall (T : F.trace A) (v tv v' tv' : nat -> bool), F.ok_cls A T v s -> F.ok_ext A D v s -> ok_ties A T v tv ts -> F.ok_cls A T v' s -> F.ok_ext A D v' s -> ok_ties A T v' tv' ts ->
  forall x, In x ts -> tv (t_atom A x) = tv' (t_atom A x).
Proof. exact theory_atoms_determined. Qed.
(* tie to the source: the clause groups REGENERATED from theory/body.py are definitional - whatever values the argument
   literals have, exactly one value of the node's own literal violates no constraint (so a formula literal is a choice atom
   fully determined by its constraints: it can neither destroy nor duplicate an answer set) *)
Definition upd (v : lvar -> bool) (b : bool) : lvar -> bool := fun x => match x with Llit => b | _ => v x end.
Theorem C13_temporal_clauses_definitional : forall op has v, exists b, forall b', holds (upd v b') (tel_clauses_gen op has) = Bool.eqb b' b.
Proof.
  intros op has v. exists (tel_spec op has (v Llhs) (v Lrhs) (v Lpre)). intros b'. rewrite tel_clauses_spec. reflexivity.
Qed.
Theorem C13_boolean_clauses_definitional : forall op v, exists b, forall b', holds (upd v b') (boolean_clauses_gen op) = Bool.eqb b' b.
Proof.
  intros op v. exists (bool_spec op (v Llhs) (v Lrhs)). intros b'. rewrite boolean_clauses_spec. reflexivity.
Qed.
Print Assumptions C13_frozen_choice.
Print Assumptions C13_unique_extension.
Print Assumptions C13_temporal_clauses_definitional.
Print Assumptions C13_boolean_clauses_definitional.
Print Assumptions C13_unique_extension_full.
Print Assumptions C13_theory_atoms_are_determined.
