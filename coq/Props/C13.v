(* C13 — Body temporal formulas are pure observers of the trace.  Property theorems only. *)
From Coq Require Import List Bool Arith ZArith Lia.
Require Import HT Ext Observer BodyTheoryCore GenPrelude TheoryPrelude FromTheory Leaf_theory.
Require BodyTheoryFull.
Require Import Leaf_dynamic TheoryAtomsProofs.
(* Frozen choice: a program P extended with choice atoms X (the Tseitin atoms) and negated constraints C (the clauses)
   has T as equilibrium model iff T satisfies P, violates no constraint, and no smaller H that AGREES WITH T ON X
   satisfies P: the auxiliary atoms never take part in minimisation. *)
Theorem C13_frozen_choice : forall (A : Type) (isaux : A -> bool) (P : list (form A)) (X : list A) (C : list (form A)) (T : interp A),
  (forall x, In x X <-> isaux x = true) ->
  (equilibrium A T (P ++ map (choice A) X ++ map (Not A) C) <->
   model A T T P /\ (forall c, In c C -> csat A T c = false) /\ (forall H, strict A H T -> agree_aux A isaux H T -> ~ model A H T P)).
Proof. exact frozen_choice. Qed.
(* Existence and uniqueness of the auxiliary assignment for every trace (see C03_definitional): together with frozen
   choice, adding an observer cannot create, destroy or duplicate answer sets, and every formula has a definite value. *)
Theorem C13_unique_extension : forall (A : Type) (A_eq_dec : forall a b : A, {a = b} + {a <> b}) (h : nat) (s : st A) (T : BodyTheoryCore.trace A),
  Inv A A_eq_dec h nil s -> Gh A A_eq_dec h s ->
  (ok_cls A T (vstar A h T s) s /\ ok_ext A A_eq_dec (vstar A h T s) s) /\
  forall v, ok_cls A T v s -> ok_ext A A_eq_dec v s -> forall n, n < nxt A s -> v n = vstar A h T s n.
Proof. intros A D h s T I G. split; [exact (C03_exists A D h s T I G)|intros v Hc He; exact (C03_unique A D h s T v I G Hc He)]. Qed.
(* the same for the FULL operator set (Model/BodyTheoryFull.v, a model that the correspondence compares with Theory.translate event by event):
   in every state reached with an empty work list, for every trace there is exactly one assignment of the auxiliary atoms that violates no
   emitted constraint and respects the pending placeholders *)
Module F := BodyTheoryFull.
Theorem C13_unique_extension_full : forall (A : Type) (A_eq_dec : forall a b : A, {a = b} + {a <> b}) (h : nat) (s : F.st A) (T : F.trace A),
  F.Inv A A_eq_dec h nil s -> F.Gw A A_eq_dec s -> F.Wf A A_eq_dec s ->
  (F.ok_cls A T (F.vstar A h T s) s /\ F.ok_ext A A_eq_dec (F.vstar A h T s) s) /\
  forall v, F.ok_cls A T v s -> F.ok_ext A A_eq_dec v s -> forall z, 0 < z < F.nxt A s -> v z = F.vstar A h T s z.
Proof.
  intros A D h s T I G W. split; [exact (F.exists_full A D boolean_clauses_spec tel_clauses_spec make_equal_spec (reduce_eqs_hold A) h s I G W T)|].
  intros v Hc He. exact (F.unique_full A D (reduce_eqs_hold A) h s I G W T v Hc He).
Qed.
(* ... and the ground theory atoms themselves are determined by the trace: two assignments that violate no constraint and respect the ties of the
   theory atoms agree on every theory atom - a body formula has a definite truth value in every answer set *)
Theorem C13_theory_atoms_are_determined : forall (A : Type) (D : forall a b : A, {a = b} + {a <> b}) (h : nat) (s : F.st A) (ts : list (tie A)),
  F.Inv A D h nil s -> F.Wf A D s -> TInv A D s ts ->
  forall (T : F.trace A) (v tv v' tv' : nat -> bool), F.ok_cls A T v s -> F.ok_ext A D v s -> ok_ties A T v tv ts -> F.ok_cls A T v' s -> F.ok_ext A D v' s -> ok_ties A T v' tv' ts ->
  forall x, In x ts -> tv (t_atom A x) = tv' (t_atom A x).
Proof. exact theory_atoms_determined. Qed.
(* tie to the source: the clause groups REGENERATED from theory/body.py are definitional - whatever values the argument
   literals have, exactly one value of the node's own literal violates no constraint (so a formula literal is a choice atom
   fully determined by its constraints: it can neither destroy nor duplicate an answer set) *)
Definition upd (v : lvar -> bool) (b : bool) : lvar -> bool := fun x => match x with Llit => b | _ => v x end.
Theorem C13_temporal_clauses_definitional : forall op has v, exists b, forall b', holds (upd v b') (tel_clauses_gen op has) = Bool.eqb b' b.
Proof.
  intros op has v. exists (tel_spec op has (v Llhs) (v Lrhs) (v Lpre)). intros b'. rewrite tel_clauses_spec. reflexivity.
Qed.
Theorem C13_boolean_clauses_definitional : forall op v, exists b, forall b', holds (upd v b') (boolean_clauses_gen op) = Bool.eqb b' b.
Proof.
  intros op v. exists (bool_spec op (v Llhs) (v Lrhs)). intros b'. rewrite boolean_clauses_spec. reflexivity.
Qed.
(* ---- the property at the level of equilibrium logic, composed ----
   (1) none is invented: the user part of an answer set of the program extended with the auxiliary choice atoms X and the constraints C
       (what Theory.translate adds for the body formulas, a program P in which no auxiliary atom occurs) is an answer set of P *)
Theorem C13_observers_invent_no_answer_set : forall (A : Type) (isaux : A -> bool) (P : list (form A)) (X : list A) (C : list (form A)),
  (forall f, In f P -> DefElim.clean A isaux f) -> (forall x, In x X <-> isaux x = true) ->
  forall T : interp A, equilibrium A T (extended A P X C) -> equilibrium A (user A isaux T) P.
Proof. exact observers_project. Qed.
(* (2) none is lost: when every valuation of the user atoms has an extension to the auxiliary atoms that violates no constraint (existence half of
       C13_unique_extension_full), every answer set of P extends to an answer set of the extended program *)
Theorem C13_observers_lose_no_answer_set : forall (A : Type) (isaux : A -> bool) (P : list (form A)) (X : list A) (C : list (form A)),
  (forall f, In f P -> DefElim.clean A isaux f) -> (forall x, In x X <-> isaux x = true) ->
  (forall U : interp A, exists T, DefElim.agree_clean A isaux T U /\ okC A C T) ->
  forall U : interp A, equilibrium A U P -> exists T, DefElim.agree_clean A isaux T U /\ equilibrium A T (extended A P X C).
Proof. exact observers_lift. Qed.
(* (3) none is duplicated: when that extension is unique (uniqueness half), two answer sets of the extended program with the same user atoms are equal *)
Theorem C13_observers_duplicate_no_answer_set : forall (A : Type) (isaux : A -> bool) (P : list (form A)) (X : list A) (C : list (form A)),
  (forall x, In x X <-> isaux x = true) ->
  (forall T T' : interp A, DefElim.agree_clean A isaux T T' -> okC A C T -> okC A C T' -> forall a, T a = T' a) ->
  forall T T' : interp A, equilibrium A T (extended A P X C) -> equilibrium A T' (extended A P X C) -> DefElim.agree_clean A isaux T T' -> forall a, T a = T' a.
Proof. exact observers_no_duplicates. Qed.
(* (4) the rule  w :- not not x  with an atom w that occurs nowhere else adds w exactly where x holds and changes nothing else: the answer sets of the
       program with the rule, with w removed, are answer sets of the program, and every answer set of the program (without w) becomes one of the
       program with the rule by setting w to the value of x.  G is ANY program - rules, choice atoms, constraints, other observers *)
Theorem C13_fresh_observer_adds_only_w : forall (A : Type) (D : forall a b : A, {a = b} + {a <> b}) (w x : A) (G : list (form A)),
  (forall f, In f G -> DefElim.clean A (isw A D w) f) ->
  forall T : interp A, equilibrium A T (observer A w x :: G) -> T w = T x /\ equilibrium A (setw A D w false T) G.
Proof. exact observer_forward. Qed.
Theorem C13_fresh_observer_keeps_every_answer_set : forall (A : Type) (D : forall a b : A, {a = b} + {a <> b}) (w x : A), w <> x -> forall G : list (form A),
  (forall f, In f G -> DefElim.clean A (isw A D w) f) ->
  forall U : interp A, U w = false -> equilibrium A U G -> equilibrium A (setw A D w (U x) U) (observer A w x :: G).
Proof. exact observer_backward. Qed.
(* (5) a constraint only selects among the answer sets, and  :- x.  /  :- not x.  split them into two disjoint classes that together are all of them *)
Theorem C13_constraint_only_selects : forall (A : Type) (G : list (form A)) (c : form A) (T : interp A),
  equilibrium A T (Not A c :: G) <-> equilibrium A T G /\ csat A T c = false.
Proof. exact constraint_selects. Qed.
Theorem C13_literal_splits_the_answer_sets : forall (A : Type) (G : list (form A)) (x : A) (T : interp A),
  (equilibrium A T G <-> equilibrium A T (Not A (Var A x) :: G) \/ equilibrium A T (Not A (Not A (Var A x)) :: G)) /\
  ~ (equilibrium A T (Not A (Var A x) :: G) /\ equilibrium A T (Not A (Not A (Var A x)) :: G)).
Proof. exact literal_splits. Qed.
(* ---- end to end for the translation model ----
   In every state s the model of Theory.translate reaches (invariant Inv / Gw / Wf, kept by every call: C03_full_*; the model is compared with the code
   event by event on every run), the program `translated s P` is: any program P over the user atoms (VU a k, no numbered atom VX n occurs in P), every
   auxiliary atom allocated so far as a choice atom, one constraint per emitted clause, the false literal, the value of every pending placeholder.
   Its answer sets are, up to the auxiliary atoms, exactly those of P: *)
Require Import DecP TranslationConservative.
Theorem C13_translation_invents_no_answer_set : forall (A : Type) (D : forall a b : A, {a = b} + {a <> b}) (s : F.st A) (P : theory (F.var A)),
  (forall f, P f -> DefElim.clean (F.var A) (isvx A) f) ->
  forall T : interp (F.var A), equilibriumP (F.var A) T (translated A D s P) -> equilibriumP (F.var A) (user (F.var A) (isaux A s) T) P.
Proof. exact translation_invents_no_answer_set. Qed.
Theorem C13_translation_loses_no_answer_set : forall (A : Type) (D : forall a b : A, {a = b} + {a <> b}) (h : nat) (s : F.st A),
  F.Inv A D h nil s -> F.Gw A D s -> F.Wf A D s ->
  forall P : theory (F.var A), (forall f, P f -> DefElim.clean (F.var A) (isvx A) f) ->
  forall U : interp (F.var A), equilibriumP (F.var A) U P ->
  exists T, DefElim.agree_clean (F.var A) (isaux A s) T U /\ equilibriumP (F.var A) T (translated A D s P).
Proof. exact translation_loses_no_answer_set. Qed.
Theorem C13_translation_duplicates_no_answer_set : forall (A : Type) (D : forall a b : A, {a = b} + {a <> b}) (h : nat) (s : F.st A),
  F.Inv A D h nil s -> F.Gw A D s -> F.Wf A D s ->
  forall (P : theory (F.var A)) (T T' : interp (F.var A)),
  equilibriumP (F.var A) T (translated A D s P) -> equilibriumP (F.var A) T' (translated A D s P) ->
  DefElim.agree_clean (F.var A) (isaux A s) T T' -> forall x, T x = T' x.
Proof. exact translation_duplicates_no_answer_set. Qed.
Print Assumptions C13_translation_invents_no_answer_set.
Print Assumptions C13_translation_loses_no_answer_set.
Print Assumptions C13_translation_duplicates_no_answer_set.
Print Assumptions C13_observers_invent_no_answer_set.
Print Assumptions C13_observers_lose_no_answer_set.
Print Assumptions C13_observers_duplicate_no_answer_set.
Print Assumptions C13_fresh_observer_adds_only_w.
Print Assumptions C13_fresh_observer_keeps_every_answer_set.
Print Assumptions C13_constraint_only_selects.
Print Assumptions C13_literal_splits_the_answer_sets.
Print Assumptions C13_frozen_choice.
Print Assumptions C13_unique_extension.
Print Assumptions C13_temporal_clauses_definitional.
Print Assumptions C13_boolean_clauses_definitional.
Print Assumptions C13_unique_extension_full.
Print Assumptions C13_theory_atoms_are_determined.
