(* C17 — Growing the trace never rewrites the past of past-only programs.  Property theorems only. *)
From Coq Require Import List Bool Arith ZArith Lia.
Require Import HT TEL TELext DecP PrefixSpec CoreRun PrefixImpl.
(* For a program whose rules have past-only bodies and present-only heads (parts initial/always/dynamic), every
   temporal stable model over the trace of length h+2, cut to its first h+1 states, is a temporal stable model over
   the trace of length h+1. *)
Theorem C17_prefix_closed : forall (A : Type) (P : list (PrefixSpec.rule A)), (forall r, In r P -> PrefixSpec.wf A r) ->
  forall (h : nat) (T : trace A), PrefixSpec.tsm A P (S h) T -> PrefixSpec.tsm A P h T.
Proof. exact C17_spec. Qed.
(* past-only formulas do not read the length of the trace *)
Theorem C17_past_ignores_horizon : forall (A : Type) (h h' : nat) (H T : trace A) (p : tf A), past_only A p = true ->
  forall k, tsat A h H T p k = tsat A h' H T p k.
Proof. exact tsat_past. Qed.
(* Implementation side (model of the incremental run, Model/CoreRun.v): for every past-only core program - no final part,
   no &final, any head form, past / initially atoms and &initial under any default negation - every stable model of the
   program accumulated by steps 0..h+1 has a stable model of the program accumulated by steps 0..h with the same first h+1
   states: extending the horizon only appends a state. *)
Theorem C17_run_prefix : forall (A : Type) (P : list (srule A)), (forall r, In r P -> past_rule A r = true) ->
  forall (h : nat) (T' : interp (gatom A)),
  equilibriumP _ T' (union _ (prog A (S h) P) (aux_theory _ (dec A (S h)))) ->
  exists T0 : interp (gatom A), equilibriumP _ T0 (union _ (prog A h P) (aux_theory _ (dec A h))) /\
                                forall k a, k <= h -> tr A T0 k a = tr A T' k a.
Proof. exact prefix_impl. Qed.
Print Assumptions C17_prefix_closed.
Print Assumptions C17_past_ignores_horizon.
Print Assumptions C17_run_prefix.
