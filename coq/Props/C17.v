(* C17 — Growing the trace never rewrites the past of past-only programs.  Property theorems only. *)
From Coq Require Import List Bool Arith ZArith Lia.
Require Import HT TEL TELext PrefixSpec.
(* For a program whose rules have past-only bodies and present-only heads (parts initial/always/dynamic), every
   temporal stable model over the trace of length h+2, cut to its first h+1 states, is a temporal stable model over
   the trace of length h+1. *)
Theorem C17_prefix_closed : forall (A : Type) (P : list (rule A)), (forall r, In r P -> wf A r) ->
  forall (h : nat) (T : trace A), tsm A P (S h) T -> tsm A P h T.
Proof. exact C17_spec. Qed.
(* past-only formulas do not read the length of the trace *)
Theorem C17_past_ignores_horizon : forall (A : Type) (h h' : nat) (H T : trace A) (p : tf A), past_only A p = true ->
  forall k, tsat A h H T p k = tsat A h' H T p k.
Proof. exact tsat_past. Qed.
Print Assumptions C17_prefix_closed.
Print Assumptions C17_past_ignores_horizon.
