(* C17 — Growing the trace never rewrites the past of past-only programs.  Property theorems only. *)
From Coq Require Import List Bool Arith ZArith Lia.
Require Import HT TEL TELext DecP PrefixSpec CoreRun PrefixImpl.
(* For a program whose rules have past-only bodies and present-only heads (parts initial/always/dynamic), every
   temporal stable model over the trace of length h+2, cut to its first h+1 states, is a temporal stable model over
   the trace of length h+1. *)
Theorem C17_prefix_closed : forall (A : Type) (P : list (PrefixSpec.rule A)), (forall r, In r P -> PrefixSpec.wf A r) ->
  forall (h : nat) (T : trace A), PrefixSpec.tsm A P (S h) T -> PrefixSpec.tsm A P h T.
Proof. exact C17_spec. Qed.
(* past-only formulas do not read the length of the trace *)
Theorem C17_past_ignores_horizon : forall (A : Type) (h h' : nat) (H T : trace A) (p : tf A), past_only A p = true ->
  forall k, tsat A h H T p k = tsat A h' H T p k.
Proof. exact tsat_past. Qed.
(* Implementation side (model of the incremental run, Model/CoreRun.v): for every past-only core program - no final part,
   no &final, any head form, past / initially atoms and &initial under any default negation - every stable model of the
   program accumulated by steps 0..h+1 has a stable model of the program accumulated by steps 0..h with the same first h+1
   states: extending the horizon only appends a state. *)
Theorem C17_run_prefix : forall (A : Type) (P : list (srule A)), (forall r, In r P -> past_rule A r = true) ->
  forall (h : nat) (T' : interp (gatom A)),
  equilibriumP _ T' (union _ (prog A (S h) P) (aux_theory _ (dec A (S h)))) ->
  exists T0 : interp (gatom A), equilibriumP _ T0 (union _ (prog A h P) (aux_theory _ (dec A h))) /\
                                forall k a, k <= h -> tr A T0 k a = tr A T' k a.
Proof. exact prefix_impl. Qed.
(* body formulas (&tel with past operators; the model of Theory.translate, Model/BodyTheoryFull.v): the value of a formula built from atoms, constants,
   Boolean connectives, previous / weak previous (n-fold), initially, since and trigger at a state depends on the states up to it only, not on the horizon and not on later states ... *)
Require Import PastFormulas.
Theorem C17_past_body_formulas_ignore_the_horizon : forall (A : Type) (f : F.bf A), past_bf A f = true ->
  forall (h h' : nat) (T T' : F.trace A) (k : nat), (forall j a, j <= k -> T j a = T' j a) -> F.lsat A h T f k = F.lsat A h' T' f k.
Proof. exact past_formulas_ignore_the_horizon. Qed.
(* ... and neither does the literal the translation ties to it: in two states of the translation reached at any two horizons, the literals cached for
   a past formula at state k have the same value, over two traces with the same first k+1 states, under any two assignments of the auxiliary atoms that violate no constraint *)
Theorem C17_past_literals_are_never_rewritten : forall (A : Type) (D : forall a b : A, {a = b} + {a <> b}) (h : nat) (s : F.st A) (h' : nat) (s' : F.st A),
  F.Inv A D h nil s -> F.Wf A D s -> F.Inv A D h' nil s' -> F.Wf A D s' ->
  forall (T T' : F.trace A) (v v' : nat -> bool), F.ok_cls A T v s -> F.ok_ext A D v s -> F.ok_cls A T' v' s' -> F.ok_ext A D v' s' ->
  forall (f : F.bf A) (k : nat) (l l' : F.lit A), past_bf A f = true -> (forall j a, j <= k -> T j a = T' j a) ->
  F.cached A D s f k l -> F.cached A D s' f k l' -> F.ev A T v l = F.ev A T' v' l'.
Proof. exact past_literals_are_never_rewritten. Qed.
Print Assumptions C17_past_body_formulas_ignore_the_horizon.
Print Assumptions C17_past_literals_are_never_rewritten.
Print Assumptions C17_prefix_closed.
Print Assumptions C17_past_ignores_horizon.
Print Assumptions C17_run_prefix.
