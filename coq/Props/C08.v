(* C08 — The solving loop visits horizons 0,1,2,... and stops as imin/imax/istop dictate.
   Property theorems only; every proof is `exact <lemma>`.  The loop decisions are the definitions regenerated from
   telingo/__init__.py (Gen/FromSource.v); the model of the loop is Model/Loop.v. *)
Require Import GenPrelude FromSource FromApp Loop Leaf_imain LoopProofs.
Section C08.
Variables (imax : option nat) (imin : nat) (istop : stopc).
Variable parts : list ppart.
Variable res : nat -> result.          (* arbitrary sequence of per-horizon results *)
Variable future : nat -> list nat.     (* arbitrary atom base *)
Notation count := (count imax imin istop res).
Notation run := (imain_run imax imin istop parts res future).

(* The loop never raises; the calls it makes are exactly the per-step call sequences of horizons 0,1,..,count-1, in
   this order, without gaps or repetitions; and the calls of one horizon ([step_events], which mentions neither the
   options nor any solve result) are the same under every option setting. *)
Theorem C08_trace : forall fuel, run fuel = Steps (flat_map (step_events parts future) (seq 0 (count fuel 0))).
Proof. exact (run_closed_form imax imin istop parts res future). Qed.

Theorem C08_horizons : forall fuel, exists evs, run fuel = Steps evs /\ solves evs = seq 0 (count fuel 0).
Proof. intros fuel. eexists. split; [exact (run_closed_form imax imin istop parts res future fuel)| exact (solves_flat parts future _)]. Qed.

Theorem C08_at_most_imax : forall m fuel, imax = Some m -> count fuel 0 <= m.
Proof. exact (count_max imax imin istop res). Qed.

Theorem C08_at_least_min : forall fuel m, imax = Some m -> Nat.min imin m <= fuel -> Nat.min imin m <= count fuel 0.
Proof. exact (count_min_imax imax imin istop res). Qed.

Theorem C08_at_least_imin_unbounded : forall fuel, imax = None -> imin <= fuel -> imin <= count fuel 0.
Proof.
  intros fuel E Hf. apply (count_min imax imin istop res); [|lia|exact Hf]. intros j _. unfold below_max. now rewrite E.
Qed.

(* when the loop stops by itself (not by exhausting the fuel of the model), it stops because imax is reached or because
   the last result matches the stop criterion after at least max(1,imin) calls ... *)
Theorem C08_stop_reason : forall fuel, count fuel 0 < fuel -> let n := count fuel 0 in
  below_max imax n = false \/ (n <> 0 /\ imin <= n /\ stops istop (res (n-1)) = true).
Proof. exact (count_first_stop imax imin istop res). Qed.

(* ... and it never stops earlier: no result before the last one matched the criterion once imin was reached *)
Theorem C08_no_early_stop : forall fuel k, k < count fuel 0 -> k <> 0 -> imin <= k -> stops istop (res (k-1)) = false.
Proof. exact (count_no_early_stop imax imin istop res). Qed.
End C08.

(* Default options: the first satisfiable horizon is the last one solved, hence the first answer set reported has the
   shortest possible trace. *)
Theorem C08_default_shortest : forall (res : nat -> result) fuel,
  let n := count default_imax_gen default_imin_gen default_istop_gen res fuel 0 in
  n < fuel -> n <> 0 /\ res (n-1) = SAT /\ forall k, k < n - 1 -> res k <> SAT.
Proof.
  intros res fuel n Hn. destruct defaults_gen_spec as (Emin & Emax & Estop).
  unfold n in *. rewrite Emin, Emax, Estop in *.
  destruct (count_first_stop None 0 StopSAT res fuel Hn) as [H|(H0 & _ & Hs)]; [discriminate H|].
  split; [exact H0|]. split; [destruct (res _); try discriminate Hs; reflexivity|].
  intros k Hk E. pose proof (count_no_early_stop None 0 StopSAT res fuel (S k)) as Hno.
  cbn [Nat.sub] in Hno. rewrite Nat.sub_0_r in Hno. rewrite E in Hno. cbn in Hno.
  assert (true = false) as X by (apply Hno; lia). discriminate X.
Qed.

(* Option values (parsers regenerated from TelApp): --imin accepts exactly the integers >= 0, --imax exactly the integers
   >= 0 (or no bound), --istop exactly sat/unsat/unknown in any letter case; a value that is not an integer is rejected by
   the parser itself and never escapes as an exception (iv = what int(value) yields, None = ValueError). *)
Theorem C08_option_values : forall iv, parse_imin_gen iv = Some (match iv with Some v => (0 <=? v)%Z | None => false end)
  /\ forall e, parse_imax_gen e iv = Some (e || match iv with Some v => (0 <=? v)%Z | None => false end).
Proof.
  intros iv. split; [|intros e; destruct e; [reflexivity|]]; unfold parse_imin_gen, parse_imax_gen; destruct iv as [v|]; try reflexivity;
    cbn [olift2]; rewrite Z.geb_leb; reflexivity.
Qed.
Theorem C08_istop_values : istop_values_gen = ("SAT" :: "UNSAT" :: "UNKNOWN" :: nil)%string.
Proof. reflexivity. Qed.

(* non-vacuity: a concrete run (imin=2, imax=5, results UNSAT,SAT,...; one always part with look-back 1, a dynamic part) *)
Example C08_example :
  imain_run (Some 5) 2 StopSAT [(RAlways, "always"%string, [0;1]); (RDynamic, "dynamic"%string, [0])]
            (fun n => if n =? 0 then UNSAT else SAT) (fun n => [n; S n]) 10
  = Steps (flat_map (step_events [(RAlways, "always"%string, [0;1]); (RDynamic, "dynamic"%string, [0])] (fun n => [n; S n])) [0;1]).
Proof. vm_compute. reflexivity. Qed.

Print Assumptions C08_trace.
Print Assumptions C08_horizons.
Print Assumptions C08_at_most_imax.
Print Assumptions C08_at_least_min.
Print Assumptions C08_at_least_imin_unbounded.
Print Assumptions C08_stop_reason.
Print Assumptions C08_no_early_stop.
Print Assumptions C08_default_shortest.
Print Assumptions C08_option_values.
Print Assumptions C08_istop_values.
