(* C03 — &tel body formulas are evaluated with LTLf.  Property theorems only.
   Model: Model/BodyTheoryCore.v, an executable model of Theory.translate / BodyFormula.translate (formula store, per-step
   cache, Tseitin clauses as integrity constraints over choice atoms, placeholders for next-formulas beyond the horizon
   as externals that are later equated and freed, pending list) for the operator core {atom, ~, &, >, >:, >?, <?};
   Spec/LTLUnique.v for the full operator set at the semantic level. *)
From Coq Require Import List Bool Arith ZArith Lia.
Require Import HT TEL LTLUnique BodyTheoryCore.

(* In every state reachable with an empty work list, for every assignment v of the auxiliary atoms that violates no
   emitted constraint and gives unresolved placeholders their external value, the literal cached for formula f at
   state k has the LTLf value of f at k on the trace of length h+1. *)
Theorem C03_value_is_LTLf : forall (A : Type) (A_eq_dec : forall a b : A, {a = b} + {a <> b}) (h : nat) (s : st A),
  Inv A A_eq_dec h nil s -> forall (T : BodyTheoryCore.trace A) (v : nat -> bool), ok_cls A T v s -> ok_ext A A_eq_dec v s ->
  forall (f : bf A) (k : nat) (l : lit A), cached A A_eq_dec s f k l -> ev A T v l = BodyTheoryCore.lsat A h T f k.
Proof. exact C03_value. Qed.

(* The invariant is preserved by one more call of Theory.translate at horizon h+1 (new roots, re-translation of the
   pending list): every formula translated so far, including the placeholders decided by the boundary rules at horizon
   h, now has its LTLf value over the longer trace ("re-decided correctly once the horizon grows"). *)
Theorem C03_step : forall (A : Type) (A_eq_dec : forall a b : A, {a = b} + {a <> b}) (fuel h : nat) (s : st A)
  (roots : list (nat * bf A)) (s' : st A) (T : BodyTheoryCore.trace A) (v : nat -> bool),
  Inv A A_eq_dec h nil s -> (forall p, In p (pending A s) -> fst p <= S h) -> (forall p, In p roots -> fst p <= S h) ->
  theory_translate A A_eq_dec fuel (S h) roots s = Some s' -> ok_cls A T v s' -> ok_ext A A_eq_dec v s' ->
  forall (f : bf A) (k : nat) (l : lit A), cached A A_eq_dec s' f k l -> ev A T v l = BodyTheoryCore.lsat A (S h) T f k.
Proof. exact C03_incremental. Qed.

(* Definitional extension: after every translate call the invariants hold again, the canonical assignment (every
   auxiliary atom gets the LTLf value of the entry that owns it) satisfies all emitted constraints, and every other
   satisfying assignment coincides with it on all allocated atoms: formulas have a definite truth value in every
   answer set and mentioning one neither creates, destroys nor duplicates answer sets. *)
Theorem C03_definitional : forall (A : Type) (A_eq_dec : forall a b : A, {a = b} + {a <> b}) (fuel h : nat) (s : st A)
  (roots : list (nat * bf A)) (s' : st A),
  Inv A A_eq_dec h nil s -> Gh A A_eq_dec h s -> (forall p, In p (pending A s) -> fst p <= S h) -> (forall p, In p roots -> fst p <= S h) ->
  theory_translate A A_eq_dec fuel (S h) roots s = Some s' ->
  Inv A A_eq_dec (S h) nil s' /\ Gh A A_eq_dec (S h) s' /\
  forall T : BodyTheoryCore.trace A,
    (ok_cls A T (vstar A (S h) T s') s' /\ ok_ext A A_eq_dec (vstar A (S h) T s') s') /\
    forall v : nat -> bool, ok_cls A T v s' -> ok_ext A A_eq_dec v s' ->
      (forall n, n < nxt A s' -> v n = vstar A (S h) T s' n) /\
      (forall f k l, cached A A_eq_dec s' f k l -> ev A T v l = BodyTheoryCore.lsat A (S h) T f k).
Proof. exact C03_definitional_extension. Qed.

(* Semantic layer for the FULL body operator set: any valuation that satisfies the per-horizon definitional equations
   (the equations the Tseitin clauses of each constructor encode) is the LTLf value. *)
Theorem C03_equations_determine_LTLf : forall (A : Type) (T : nat -> A -> bool) (h : nat) (v : LTLUnique.f A -> nat -> bool),
  LTLUnique.eqs A T h v -> forall (p : LTLUnique.f A) (k : nat), k <= h -> v p k = LTLUnique.sat A T h p k.
Proof. exact unique. Qed.
Print Assumptions C03_value_is_LTLf.
Print Assumptions C03_step.
Print Assumptions C03_definitional.
Print Assumptions C03_equations_determine_LTLf.
