(* C03 — &tel body formulas are evaluated with LTLf.  Property theorems only.
   Model: Model/BodyTheoryCore.v, an executable model of Theory.translate / BodyFormula.translate (formula store, per-step
   cache, Tseitin clauses as integrity constraints over choice atoms, placeholders for next-formulas beyond the horizon
   as externals that are later equated and freed, pending list) for the operator core {atom, ~, &, >, >:, >?, <?};
   Spec/LTLUnique.v for the full operator set at the semantic level. *)
From Coq Require Import List Bool Arith ZArith Lia.
Require Import HT TEL LTLUnique BodyTheoryCore GenPrelude TheoryPrelude FromTheory Leaf_theory FullOps.
Require BodyTheoryFull.
Require Import FormPrelude FromBodyForm BodyForm TheoryBuild TheoryLink Leaf_dynamic TheoryAtomsProofs.

(* In every state reachable with an empty work list, for every assignment v of the auxiliary atoms that violates no
   emitted constraint and gives unresolved placeholders their external value, the literal cached for formula f at
   state k has the LTLf value of f at k on the trace of length h+1. *)
Theorem C03_value_is_LTLf : forall (A : Type) (A_eq_dec : forall a b : A, {a = b} + {a <> b}) (h : nat) (s : st A),
  Inv A A_eq_dec h nil s -> forall (T : BodyTheoryCore.trace A) (v : nat -> bool), ok_cls A T v s -> ok_ext A A_eq_dec v s ->
  forall (f : bf A) (k : nat) (l : lit A), cached A A_eq_dec s f k l -> ev A T v l = BodyTheoryCore.lsat A h T f k.
Proof. exact C03_value. Qed.

(* The invariant is preserved by one more call of Theory.translate at horizon h+1 (new roots, re-translation of the
   pending list): every formula translated so far, including the placeholders decided by the boundary rules at horizon
   h, now has its LTLf value over the longer trace ("re-decided correctly once the horizon grows"). *)
Theorem C03_step : forall (A : Type) (A_eq_dec : forall a b : A, {a = b} + {a <> b}) (fuel h : nat) (s : st A)
  (roots : list (nat * bf A)) (s' : st A) (T : BodyTheoryCore.trace A) (v : nat -> bool),
  Inv A A_eq_dec h nil s -> (forall p, In p (pending A s) -> fst p <= S h) -> (forall p, In p roots -> fst p <= S h) ->
  theory_translate A A_eq_dec fuel (S h) roots s = Some s' -> ok_cls A T v s' -> ok_ext A A_eq_dec v s' ->
  forall (f : bf A) (k : nat) (l : lit A), cached A A_eq_dec s' f k l -> ev A T v l = BodyTheoryCore.lsat A (S h) T f k.
Proof. exact C03_incremental. Qed.

(* Definitional extension: after every translate call the invariants hold again, the canonical assignment (every
   auxiliary atom gets the LTLf value of the entry that owns it) satisfies all emitted constraints, and every other
   satisfying assignment coincides with it on all allocated atoms: formulas have a definite truth value in every
   answer set and mentioning one neither creates, destroys nor duplicates answer sets. *)
Theorem C03_definitional : forall (A : Type) (A_eq_dec : forall a b : A, {a = b} + {a <> b}) (fuel h : nat) (s : st A)
  (roots : list (nat * bf A)) (s' : st A),
  Inv A A_eq_dec h nil s -> Gh A A_eq_dec h s -> (forall p, In p (pending A s) -> fst p <= S h) -> (forall p, In p roots -> fst p <= S h) ->
  theory_translate A A_eq_dec fuel (S h) roots s = Some s' ->
  Inv A A_eq_dec (S h) nil s' /\ Gh A A_eq_dec (S h) s' /\
  forall T : BodyTheoryCore.trace A,
    (ok_cls A T (vstar A (S h) T s') s' /\ ok_ext A A_eq_dec (vstar A (S h) T s') s') /\
    forall v : nat -> bool, ok_cls A T v s' -> ok_ext A A_eq_dec v s' ->
      (forall n, n < nxt A s' -> v n = vstar A (S h) T s' n) /\
      (forall f k l, cached A A_eq_dec s' f k l -> ev A T v l = BodyTheoryCore.lsat A (S h) T f k).
Proof. exact C03_definitional_extension. Qed.

(* ---- the FULL operator set (Model/BodyTheoryFull.v): Atom, BooleanConstant, Negation, the five Boolean connectives, n-fold weak / strong
   Previous and Next, Initially, since / trigger and until / release with and without left operand; the clause groups are the tables
   regenerated from the source; same cache / choice atom / placeholder / pending list mechanics as the core model ---- *)
Module F := BodyTheoryFull.
Theorem C03_full_translate_keeps_invariant : forall (A : Type) (A_eq_dec : forall a b : A, {a = b} + {a <> b}) (fuel h : nat) (todo : list (nat * F.bf A))
  (f : F.bf A) (k : nat) (s : F.st A) (l : F.lit A) (s' : F.st A),
  F.Inv A A_eq_dec h todo s -> k <= h -> F.translate A A_eq_dec fuel h f k s = Some (l, s') ->
  F.Inv A A_eq_dec h todo s' /\ F.ext A A_eq_dec s s' /\ F.cached A A_eq_dec s' f k l.
Proof. exact (fun A D => F.translate_inv A D boolean_clauses_spec tel_clauses_spec make_equal_spec). Qed.
(* (F.Wf: every formula in the cache or on the pending list is in the documented normal form - iteration only over step-consuming paths; it is
   kept by Theory.translate when the new roots are in normal form, C05_normal_form_is_kept, and holds trivially for &tel formulas) *)
Theorem C03_full_value_is_LTLf : forall (A : Type) (A_eq_dec : forall a b : A, {a = b} + {a <> b}) (h : nat) (s : F.st A),
  F.Inv A A_eq_dec h nil s -> F.Wf A A_eq_dec s -> forall (T : F.trace A) (v : nat -> bool), F.ok_cls A T v s -> F.ok_ext A A_eq_dec v s ->
  forall (f : F.bf A) (k : nat) (l : F.lit A), F.cached A A_eq_dec s f k l -> F.ev A T v l = F.lsat A h T f k.
Proof. exact (fun A D => F.value_full A D (reduce_eqs_hold A)). Qed.
Theorem C03_full_step : forall (A : Type) (A_eq_dec : forall a b : A, {a = b} + {a <> b}) (fuel h : nat) (s : F.st A)
  (roots : list (nat * F.bf A)) (s' : F.st A) (T : F.trace A) (v : nat -> bool),
  F.Inv A A_eq_dec h nil s -> F.Wf A A_eq_dec s -> (forall p, In p (F.pending A s) -> fst p <= S h) -> (forall p, In p roots -> fst p <= S h /\ F.wfb A (snd p) = true) ->
  F.theory_translate A A_eq_dec fuel (S h) roots s = Some s' -> F.ok_cls A T v s' -> F.ok_ext A A_eq_dec v s' ->
  forall (f : F.bf A) (k : nat) (l : F.lit A), F.cached A A_eq_dec s' f k l -> F.ev A T v l = F.lsat A (S h) T f k.
Proof. exact (fun A D => F.incremental_full A D boolean_clauses_spec tel_clauses_spec make_equal_spec (reduce_eqs_hold A)). Qed.
Theorem C03_full_first_horizon : forall (A : Type) (A_eq_dec : forall a b : A, {a = b} + {a <> b}) (fuel : nat) (roots : list (nat * F.bf A)) (s' : F.st A),
  (forall p, In p roots -> fst p <= 0) -> F.run_list A A_eq_dec fuel 0 roots (F.init A) = Some s' -> F.Inv A A_eq_dec 0 nil s'.
Proof. exact (fun A D => F.first_horizon_inv A D boolean_clauses_spec tel_clauses_spec make_equal_spec). Qed.

(* definitional extension for the FULL operator set: after every call of Theory.translate both invariants hold again, the canonical
   assignment (every auxiliary atom gets the LTLf value of the entry that allocated it) violates no emitted constraint, every other such
   assignment coincides with it on all allocated atoms, and every cached literal has the LTLf value of its formula *)
Theorem C03_full_definitional : forall (A : Type) (A_eq_dec : forall a b : A, {a = b} + {a <> b}) (fuel h : nat) (s : F.st A)
  (roots : list (nat * F.bf A)) (s' : F.st A),
  F.Inv A A_eq_dec h nil s -> F.Gw A A_eq_dec s -> F.Wf A A_eq_dec s -> (forall p, In p (F.pending A s) -> fst p <= S h) ->
  (forall p, In p roots -> fst p <= S h /\ F.wfb A (snd p) = true) ->
  F.theory_translate A A_eq_dec fuel (S h) roots s = Some s' ->
  F.Inv A A_eq_dec (S h) nil s' /\ F.Gw A A_eq_dec s' /\ F.Wf A A_eq_dec s' /\
  forall T : F.trace A,
    (F.ok_cls A T (F.vstar A (S h) T s') s' /\ F.ok_ext A A_eq_dec (F.vstar A (S h) T s') s') /\
    forall v : nat -> bool, F.ok_cls A T v s' -> F.ok_ext A A_eq_dec v s' ->
      (forall z, 0 < z < F.nxt A s' -> v z = F.vstar A (S h) T s' z) /\
      (forall f k l, F.cached A A_eq_dec s' f k l -> F.ev A T v l = F.lsat A (S h) T f k).
Proof. exact (fun A D => F.definitional_extension_full A D boolean_clauses_spec tel_clauses_spec make_equal_spec (reduce_eqs_hold A)). Qed.
Theorem C03_full_initial_state : forall (A : Type) (A_eq_dec : forall a b : A, {a = b} + {a <> b}) (h : nat),
  F.Inv A A_eq_dec h nil (F.init A) /\ F.Gw A A_eq_dec (F.init A) /\ F.Wf A A_eq_dec (F.init A).
Proof. intros A D h. split; [apply F.Inv_init|split; [apply F.Gw_init|apply F.Wf_init]]. Qed.
(* formulas without dynamic operators are in normal form *)
Theorem C03_tel_formulas_are_in_normal_form : forall (A : Type) (f : F.bf A), tel_only A f = true -> F.wfb A f = true.
Proof.
  intros A. induction f as [a|b|x IH|op x IHx y IHy|n w x IH|x IH|n w x IH|u l IHl r IHr|u r IHr|u l IHl r IHr|u r IHr|p g IHg|p g IHg]; cbn [tel_only F.wfb]; intros To; try discriminate; try reflexivity;
    try (apply andb_true_iff in To as [T1 T2]); auto; try (rewrite IHx, IHy by assumption; reflexivity); rewrite IHl, IHr by assumption; reflexivity.
Qed.

(* the ground THEORY ATOMS themselves (what the rest of the program sees): Theory.translate ties the literal of every ground &tel / &del atom to the
   literal of its (formula, state) pair; the ties of one more call exist (every new root is cached), old ties stay valid, and in every assignment that
   violates no constraint and respects the ties every theory atom ever grounded has the value of its formula at its state at the CURRENT horizon *)
Theorem C03_theory_atoms_are_tied : forall (A : Type) (D : forall a b : A, {a = b} + {a <> b}) (fuel h : nat) (s : F.st A) (roots : list (nat * F.bf A)) (s' : F.st A)
  (ids : list (nat * (nat * F.bf A))) (ts : list (tie A)),
  F.Inv A D h nil s -> (forall p, In p (F.pending A s) -> fst p <= S h) -> (forall p, In p roots -> fst p <= S h) -> (forall r, In r ids -> In (snd r) roots) ->
  F.theory_translate A D fuel (S h) roots s = Some s' -> TInv A D s ts ->
  exists new, link A D s' ids = Some new /\ TInv A D s' (new ++ ts) /\ map (t_atom A) new = map fst ids.
Proof. exact link_step. Qed.
Theorem C03_theory_atoms_have_the_value_of_their_formula : forall (A : Type) (D : forall a b : A, {a = b} + {a <> b}) (h : nat) (s : F.st A) (ts : list (tie A)),
  F.Inv A D h nil s -> F.Wf A D s -> TInv A D s ts ->
  forall (T : F.trace A) (v tv : nat -> bool), F.ok_cls A T v s -> F.ok_ext A D v s -> ok_ties A T v tv ts ->
  forall x, In x ts -> tv (t_atom A x) = F.lsat A h T (t_f A x) (t_k A x).
Proof. exact theory_atom_value. Qed.
(* the LTLf semantics of the model's formula objects is the semantics of the specification (what the extracted oracle evaluates) *)
Theorem C03_model_semantics_is_the_specification : forall (A : Type) (h : nat) (T : TEL.trace A) (f : F.bf A), tel_only A f = true -> forall (k : nat),
  F.lsat A h T f k = TEL.lsat A h T (embf A f) k.
Proof. exact lsat_embf. Qed.
(* an object built for a table entry of create_formula (regenerated) has the value semantics of Model/BodyForm.v, which is the documented
   reading of the operator (C16_create_formula_builds_the_documented_formulas) *)
Theorem C03_built_objects_have_the_table_semantics : forall (h : nat) (T : TEL.trace nat) (ini fin : nat),
  (forall k, T k ini = (k =? 0)) -> (forall k, T k fin = (k =? h)) ->
  forall e L R n b, den ini fin e L R n = Some b -> forall k, F.lsat nat h T b k = fval h e (F.lsat nat h T L) (F.lsat nat h T R) n k.
Proof. exact den_sem. Qed.

(* Semantic layer for the FULL body operator set: any valuation that satisfies the per-horizon definitional equations
   (the equations the Tseitin clauses of each constructor encode) is the LTLf value. *)
Theorem C03_equations_determine_LTLf : forall (A : Type) (T : nat -> A -> bool) (h : nat) (v : LTLUnique.f A -> nat -> bool),
  LTLUnique.eqs A T h v -> forall (p : LTLUnique.f A) (k : nat), k <= h -> v p k = LTLUnique.sat A T h p k.
Proof. exact unique. Qed.
(* ---- tie to the source: the clause tables and guards REGENERATED from theory/{formula,body}.py ---- *)
(* An assignment violates none of the constraints emitted for a Boolean / temporal node iff the node's literal has the
   value of the connective applied to the literals of its arguments (pre = the literal of the inductive step). *)
Theorem C03_boolean_clauses : forall op v, holds v (boolean_clauses_gen op) = Bool.eqb (v Llit) (bool_spec op (v Llhs) (v Lrhs)).
Proof. exact boolean_clauses_spec. Qed.
Theorem C03_temporal_clauses : forall op has v, holds v (tel_clauses_gen op has) = Bool.eqb (v Llit) (tel_spec op has (v Llhs) (v Lrhs) (v Lpre)).
Proof. exact tel_clauses_spec. Qed.
Theorem C03_equal_clauses : forall v, holds v make_equal_cl_gen = Bool.eqb (v La) (v Lb).
Proof. exact make_equal_spec. Qed.
(* ... and these node equations, with the regenerated case analysis on step, n and horizon, are the LTLf equations:
   previous / next (any n, weak or strong) with the finite-trace boundary values, *)
Theorem C03_previous_is_LTLf : forall (A : Type) (h : nat) (T : TEL.trace A) w n x k,
  TEL.lsat A h T (TPv A w n x) k =
  match prev_inside_gen k n, prev_target_gen k n, prev_boundary_true_gen k n w with
  | Some true, Some t, _ => TEL.lsat A h T x (Z.to_nat t) | Some false, _, Some b => b | _, _, _ => false end.
Proof. exact previous_case. Qed.
Theorem C03_next_is_LTLf : forall (A : Type) (h : nat) (T : TEL.trace A) w n x k,
  TEL.lsat A h T (TNx A w n x) k =
  match next_inside_gen k n h, next_target_gen k n with
  | Some true, Some t => TEL.lsat A h T x (Z.to_nat t) | Some false, _ => next_placeholder_value_gen w | _, _ => false end.
Proof. exact next_case. Qed.
(* until / release through the literal of `> self` / `>: self`, at every state including the last, *)
Theorem C03_until_release_is_LTLf : forall (A : Type) (h : nat) (T : TEL.trace A) (u : bool) a b k, k <= h ->
  TEL.lsat A h T (if u then TUn A a b else TRl A a b) k =
  tel_spec (if u then OpUntil else OpRelease) true (TEL.lsat A h T a k) (TEL.lsat A h T b k)
           (TEL.lsat A h T (TNx A (if u then until_future_weak_gen else release_future_weak_gen) 1 (if u then TUn A a b else TRl A a b)) k).
Proof. exact until_release_case. Qed.
(* since / trigger through the literal of the previous state, with the base case at state 0, *)
Theorem C03_since_trigger_is_LTLf : forall (A : Type) (h : nat) (T : TEL.trace A) (s : bool) a b k,
  TEL.lsat A h T (if s then TSi A a b else TTr A a b) k =
  match telp_base_gen k, telp_pre_gen k with
  | Some true, _ => TEL.lsat A h T b k
  | Some false, Some p => tel_spec (if s then OpSince else OpTrigger) true (TEL.lsat A h T a k) (TEL.lsat A h T b k) (TEL.lsat A h T (if s then TSi A a b else TTr A a b) (Z.to_nat p))
  | _, _ => false end.
Proof. exact since_trigger_case. Qed.
(* and the Boolean connectives. *)
Theorem C03_boolean_is_LTLf : forall (A : Type) (h : nat) (T : TEL.trace A) op a b k,
  TEL.lsat A h T (match op with OpAnd => TAnd A a b | OpOr => TOr A a b | OpLImp => TImp A b a | OpRImp => TImp A a b
                              | OpEqv => TAnd A (TImp A a b) (TImp A b a) end) k = bool_spec op (TEL.lsat A h T a k) (TEL.lsat A h T b k).
Proof. exact boolean_case. Qed.
(* FULL operator set, tied to the regenerated tables: let v phi k be the value an assignment gives to the literal of
   formula phi at state k.  If at every node (phi, k), k <= h, the assignment violates none of the constraints that the
   regenerated clause table of phi's constructor emits over the literals of its arguments (node_ok: Boolean connectives,
   n-fold weak/strong previous and next with the regenerated case analysis on k, n and h, until/release through the
   literal of `> self` / `>: self`, since/trigger through the literal of state k-1), then every literal has the LTLf
   value of its formula at its state - arbitrary nesting, any sharing (v is a function of the formula, not of the atom
   that mentions it). *)
Theorem C03_full_operator_set : forall (A : Type) (h : nat) (T : TEL.trace A) (v : tf A -> nat -> bool),
  (forall p k, k <= h -> node_ok A h T v p k) -> forall p k, k <= h -> v p k = TEL.lsat A h T p k.
Proof. exact full_ops_value. Qed.
(* formulas are "shared between atoms" through the formula table of Theory and the per-step data, both keyed by the representation string (_rep) of a
   formula.  With the representation of every class REGENERATED from its __init__ (Gen/FromReps.v; a number, a name, an argument list are one token
   each, the literal pieces of the format strings are taken character by character - RepsProofs.flat), the representation is injective on the formulas of the model: two different formulas - weak / strong,
   an atom and its classical complement, operands exchanged, another nesting - never share an entry; nor do two states of one formula *)
Require RepsProofs.
Theorem C03_formula_representation_is_injective : forall f g : RepsProofs.bf, RepsProofs.flat (RepsProofs.rep f) = RepsProofs.flat (RepsProofs.rep g) -> f = g.
Proof. exact RepsProofs.rep_injective. Qed.
Theorem C03_table_keys_are_injective : forall (k k' : nat) (f g : RepsProofs.bf), (k, RepsProofs.flat (RepsProofs.rep f)) = (k', RepsProofs.flat (RepsProofs.rep g)) -> k = k' /\ f = g.
Proof. exact RepsProofs.table_key_injective. Qed.
Print Assumptions C03_formula_representation_is_injective.
Print Assumptions C03_table_keys_are_injective.
Print Assumptions C03_value_is_LTLf.
Print Assumptions C03_step.
Print Assumptions C03_definitional.
Print Assumptions C03_equations_determine_LTLf.
Print Assumptions C03_boolean_clauses. Print Assumptions C03_temporal_clauses. Print Assumptions C03_equal_clauses.
Print Assumptions C03_previous_is_LTLf. Print Assumptions C03_next_is_LTLf. Print Assumptions C03_until_release_is_LTLf.
Print Assumptions C03_since_trigger_is_LTLf. Print Assumptions C03_boolean_is_LTLf.
Print Assumptions C03_full_operator_set.
Print Assumptions C03_full_translate_keeps_invariant.
Print Assumptions C03_full_value_is_LTLf.
Print Assumptions C03_full_step.
Print Assumptions C03_full_first_horizon.
Print Assumptions C03_full_definitional.
Print Assumptions C03_full_initial_state.
Print Assumptions C03_theory_atoms_are_tied.
Print Assumptions C03_theory_atoms_have_the_value_of_their_formula.
Print Assumptions C03_tel_formulas_are_in_normal_form.
Print Assumptions C03_model_semantics_is_the_specification.
Print Assumptions C03_built_objects_have_the_table_semantics.
