(* C16 — Documented abbreviations and dualities of the language hold in every context.  Property theorems only.
   Abbreviation laws are stated in THT_f (tsat), hence they hold in heads and bodies; dualities and the mirror symmetry
   are classical (lsat), hence for bodies.  Congruence lifts every law to every sub-formula position of every formula. *)
From Coq Require Import List Bool Arith Lia.
Require Import GenPrelude TheoryPrelude FormPrelude FromBodyForm HT TEL Laws BodyForm.
Section C16.
Variable A : Type.
Variable h : nat.
Notation tsat := (tsat A h).
Notation lsat := (lsat A h).
Theorem C16_false : forall H T k, tsat H T (TBot A) k = tsat H T (LNot A (LTop A)) k.
Proof. exact (law_false A h). Qed.
Theorem C16_initial : forall H T k, tsat H T (LInitial A) k = tsat H T (LNot A (TPv A false 1 (LTop A))) k.
Proof. exact (law_initial A h). Qed.
Theorem C16_final : forall H T k, tsat H T (LFinal A) k = tsat H T (LNot A (TNx A false 1 (LTop A))) k.
Proof. exact (law_final A h). Qed.
(* << p  =  <* (~ &initial | p)  is the value of p at the initial state;  >> p  =  >* (~ &final | p)  at the final state *)
Theorem C16_initially : forall H T p k, tsat H T (LInitially A p) k = tsat H T p 0.
Proof. exact (law_initially A h). Qed.
Theorem C16_finally : forall H T p k, k <= h -> tsat H T (LFinally A p) k = tsat H T p h.
Proof. exact (law_finally A h). Qed.
(* n > p = n nested >, 0 > p = p (and the same for >:, <, <:) *)
Theorem C16_nfold_next : forall H T w n p k, tsat H T (TNx A w (S n) p) k = tsat H T (TNx A w 1 (TNx A w n p)) k.
Proof. exact (law_nfold_next A h). Qed.
Theorem C16_nfold_prev : forall H T w n p k, tsat H T (TPv A w (S n) p) k = tsat H T (TPv A w 1 (TPv A w n p)) k.
Proof. exact (law_nfold_prev A h). Qed.
Theorem C16_nfold0_next : forall H T w p k, k <= h -> tsat H T (TNx A w 0 p) k = tsat H T p k.
Proof. exact (law_nfold0_next A h). Qed.
Theorem C16_nfold0_prev : forall H T w p k, tsat H T (TPv A w 0 p) k = tsat H T p k.
Proof. exact (law_nfold0_prev A h). Qed.
(* until / release one-step unfoldings and their value at the last state *)
Theorem C16_until_unfold : forall H T a b k, k < h -> tsat H T (TUn A a b) k = tsat H T (TOr A b (TAnd A a (TNx A false 1 (TUn A a b)))) k.
Proof. exact (law_until_unfold A h). Qed.
Theorem C16_release_unfold : forall H T a b k, k < h -> tsat H T (TRl A a b) k = tsat H T (TAnd A b (TOr A a (TNx A true 1 (TRl A a b)))) k.
Proof. exact (law_release_unfold A h). Qed.
(* classical dualities *)
Theorem C16_dual_wnext : forall T n p k, lsat T (TNx A true n p) k = lsat T (LNot A (TNx A false n (LNot A p))) k.
Proof. exact (dual_wnext A h). Qed.
Theorem C16_dual_wprev : forall T n p k, lsat T (TPv A true n p) k = lsat T (LNot A (TPv A false n (LNot A p))) k.
Proof. exact (dual_wprev A h). Qed.
Theorem C16_dual_release : forall T a b k, lsat T (TRl A a b) k = lsat T (LNot A (TUn A (LNot A a) (LNot A b))) k.
Proof. exact (dual_release A h). Qed.
Theorem C16_dual_trigger : forall T a b k, lsat T (TTr A a b) k = lsat T (LNot A (TSi A (LNot A a) (LNot A b))) k.
Proof. exact (dual_trigger A h). Qed.
(* past/future mirror symmetry on reversed traces *)
Theorem C16_mirror : forall T p, no_at0 A p = true -> forall k, k <= h -> lsat T p k = lsat (rev_trace A h T) (mirror A p) (h - k).
Proof. exact (mirror_lsat A h). Qed.
(* every law can be applied at every sub-formula position *)
Theorem C16_congruence : forall (D : forall a b : A, {a = b} + {a <> b}) a r r', teq A h r r' -> forall p, teq A h (subst A D a r p) (subst A D a r' p).
Proof. exact (congruence A h). Qed.
Theorem C16_congruence_classical : forall (D : forall a b : A, {a = b} + {a <> b}) a r r', leq A h r r' -> forall p, leq A h (subst A D a r p) (subst A D a r' p).
Proof. exact (congruence_classical A h). Qed.
(* ---- the implementation side: create_formula (theory/body.py), table REGENERATED from the source ---- *)
(* for every operator of the body grammar and every admissible number of arguments, the formula object that create_formula builds has,
   at every state, the LTLf value of the documented reading of the operator: a ;> b = a & > b, a <; b = < a & b, << p = <* (~ &initial | p),
   >> p = >* (~ &final | p), n-fold prefixes with 0 > p = p, >? p = &true >? p, >* p = &false >* p, and the plain connectives *)
Theorem C16_create_formula_builds_the_documented_formulas : forall T, Forall (entry_ok A h T) doc_ops.
Proof. exact (create_formula_sound A h). Qed.
Theorem C16_keywords_in_formulas : forall T k, k <= h ->
  option_map (fun e => fval h e (fun _ => false) (fun _ => false) 0 k) (keyword_gen "initial") = Some (lsat T (LInitial A) k) /\
  option_map (fun e => fval h e (fun _ => false) (fun _ => false) 0 k) (keyword_gen "final") = Some (lsat T (LFinal A) k) /\
  option_map (fun e => fval h e (fun _ => false) (fun _ => false) 0 k) (keyword_gen "true") = Some true /\
  option_map (fun e => fval h e (fun _ => false) (fun _ => false) 0 k) (keyword_gen "false") = Some false.
Proof. exact (keyword_values A h). Qed.
End C16.
Print Assumptions C16_false. Print Assumptions C16_initial. Print Assumptions C16_final. Print Assumptions C16_initially. Print Assumptions C16_finally.
Print Assumptions C16_nfold_next. Print Assumptions C16_nfold_prev. Print Assumptions C16_nfold0_next. Print Assumptions C16_nfold0_prev.
Print Assumptions C16_until_unfold. Print Assumptions C16_release_unfold. Print Assumptions C16_dual_wnext. Print Assumptions C16_dual_wprev.
Print Assumptions C16_dual_release. Print Assumptions C16_dual_trigger. Print Assumptions C16_mirror. Print Assumptions C16_congruence. Print Assumptions C16_congruence_classical.
Print Assumptions C16_create_formula_builds_the_documented_formulas. Print Assumptions C16_keywords_in_formulas.
