(* C15 — Failures surface as diagnostics, never as internal errors.  Property theorems only (the decision fragments that are
   regenerated from the source never take the branch in which the Python expression would raise). *)
From Coq Require Import List Bool Arith ZArith Lia.
Require Import GenPrelude FromSource FromTransformers Loop Leaf_imain LoopProofs Ctx CtxProofs.
(* the solving loop never raises (no attribute access on None, no comparison with None), for all options, results, parts, atom bases *)
Theorem C15_loop_never_raises : forall imax imin istop parts res future fuel, exists evs, imain_run imax imin istop parts res future fuel = Steps evs.
Proof. intros. eexists. apply run_closed_form. Qed.
(* the acceptance decision for atoms is total: accepted or rejected with a diagnostic, never an internal failure *)
Theorem C15_atom_decision_total : forall sh pl lead stem trail initially, wf_place sh pl = true -> (initially = true -> lead = 0 /\ trail = 0) ->
  decide sh pl lead stem trail initially <> Raises.
Proof.
  intros sh pl lead stem trail ini W I E. pose proof (decide_spec sh pl lead stem trail ini W I) as S. rewrite E in S. discriminate S.
Qed.
Theorem C15_theory_context_total : forall n c, tel_ctx_reject_gen n c <> None /\ del_ctx_reject_gen n c <> None.
Proof. intros n c. destruct (tel_ctx_spec n c) as [-> ->]. split; discriminate. Qed.
Require Import HeadShift HeadDefs HeadRulesProofs.
(* the head translation step is total: for every head formula (of the model's formula language), every distance from the state it was introduced at and
   every atom base, every clause of the unfolding becomes a rule - the step has no failing branch (the assertion-free reading of ClauseToRule) *)
Theorem C15_head_translation_step_total : forall (A : Type) (inbase : A -> bool) (F : hf A) (d : nat), exists rs, rules_at A inbase F d = Some rs.
Proof. exact rules_at_total. Qed.
Require Import FutTransform FutTransformProofs.
(* the translation of a program (fragment of Model/FutTransform.v, compared with transformers.transform on every run) has exactly one way to fail: a rule
   with an atom at a forbidden placement, which is the diagnostic case; the regenerated look-ahead test of the transformer never raises *)
Theorem C15_translation_fails_only_on_a_forbidden_placement : forall (A : Type) (leA : A -> A -> bool) (P : list (frule A)),
  transform_program A leA P = None <->
  exists r, In r P /\ ~ (head_allowed A (fh A r) = true /\ forallb (lit_allowed A (shape_of A (fh A r))) (fb A r) = true).
Proof. exact transform_program_fails_iff_forbidden_placement. Qed.
Print Assumptions C15_translation_fails_only_on_a_forbidden_placement.
Print Assumptions C15_head_translation_step_total.
Print Assumptions C15_loop_never_raises.
Print Assumptions C15_atom_decision_total.
Print Assumptions C15_theory_context_total.
