(* C02 — Future references obey the end of the trace while the trace is extended.  Property theorems only.
   Model: Model/Window.v (look-ahead constraints: temporary copies guarded by __final(u) for offsets 0..L-1, permanent
   copy at offset L, gringo's unknown-atom simplification) and Spec/DefElim.v (the auxiliary __future_p atoms of future
   heads with their defining rules, bridge rules and assumptions are a definitional extension). *)
From Coq Require Import List Bool Arith ZArith Lia.
Require Import HT TEL TELext DecP DefElim CoreRun Window Combined GenPrelude FromSource Loop Leaf_imain LoopProofs FromTransformers Ctx FutTransform FutTransformProofs.
Require FutureHeads.

(* The instances accumulated by the incremental run of steps 0..h for look-ahead constraints (any depth, any part) are
   satisfied exactly if every constraint holds, read with atoms beyond h false, at every admissible position k <= h:
   no stale instance survives and no needed instance is lost, including h smaller than the look-ahead. *)
Theorem C02_window_exact : forall (A : Type) (P : list (crule A)) (h : nat) (H T : interp (gatom A)),
  agrees _ (dec A h) H -> agrees _ (dec A h) T ->
  (modelP _ H T (of_list _ (rules A P h)) <-> Window.tmodel A P h (tr A H) (tr A T)).
Proof. exact C02_window. Qed.

(* Core rules (every head form, four parts) and look-ahead constraints (any depth) in ONE program: the equilibrium
   models of everything the incremental run of steps 0..h has accumulated - core instances, temporary copies of every
   earlier step (dead), temporary copies of step h, permanent copies - are exactly the temporal stable models of all
   rules together over the trace of length h+1, for every h (including h smaller than the look-ahead). *)
Theorem C02_core_and_lookahead_exact : forall (A : Type) (h : nat) (P1 : list (CoreRun.srule A)) (P2 : list (Window.crule A)) (T' : interp (gatom A)),
  equilibriumP _ T' (union _ (prog12 A h P1 P2) (aux_theory _ (dec A h))) <-> agrees _ (dec A h) T' /\ tsm12 A h P1 P2 (tr A T').
Proof. exact combined_exact. Qed.

(* the temporary copy grounded at the current last step h means the constraint with atoms beyond h false *)
Theorem C02_temporary_copy_live : forall (A : Type) (h : nat) (H T : interp (gatom A)),
  agrees _ (dec A h) H -> agrees _ (dec A h) T -> forall (r : crule A) (k : nat), k <= h ->
  hsat _ H T (ginst A h k true r) = tsat A h (tr A H) (tr A T) (rule_tf A r) k.
Proof. exact temp_live. Qed.

(* temporary copies of earlier steps are dead: what was concluded for the shorter trace never constrains the longer one *)
Theorem C02_no_stale_instance : forall (A : Type) (h : nat) (H T : interp (gatom A)),
  agrees _ (dec A h) H -> agrees _ (dec A h) T -> forall (r : crule A) (s k : nat), s < h ->
  hsat _ H T (ginst A s k true r) = true.
Proof. exact temp_dead. Qed.

(* the permanent copy, grounded once the whole look-ahead window exists, is the constraint itself *)
Theorem C02_permanent_copy : forall (A : Type) (h : nat) (H T : interp (gatom A)),
  agrees _ (dec A h) H -> agrees _ (dec A h) T -> forall (r : crule A) (k : nat), k + lookahead A (cb A r) <= h ->
  hsat _ H T (ginst A (k + lookahead A (cb A r)) k false r) = tsat A h (tr A H) (tr A T) (rule_tf A r) k.
Proof. exact perm_meaning. Qed.

(* Future heads: auxiliary atoms x (= __future_p(..,n,t)) with defining bodies defs x and one use x -> p (the bridge
   rule if t <= h, the assumption "x false" otherwise) can be eliminated in both directions: the equilibrium models of
   the program with the auxiliaries, projected, are exactly those of the program in which every definition derives
   the use directly; the value of every auxiliary atom is determined (canonical: x holds iff one of its bodies does). *)
Theorem C02_future_aux_elim_forward : forall (A : Type) (isx : A -> bool) (G : theory A) (defs : A -> list (form A)) (use : A -> form A),
  (forall f, G f -> clean A isx f) -> (forall x B, isx x = true -> In B (defs x) -> clean A isx B) ->
  (forall x, isx x = true -> clean A isx (use x)) -> (forall a b : A, {a = b} + {a <> b}) ->
  forall T, equilibriumP A T (with_aux A isx G defs use) -> canonical A isx defs T /\ equilibrium_clean A isx T (without_aux A isx G defs use).
Proof. exact elim_forward. Qed.
Theorem C02_future_aux_elim_backward : forall (A : Type) (isx : A -> bool) (G : theory A) (defs : A -> list (form A)) (use : A -> form A),
  (forall x B, isx x = true -> In B (defs x) -> clean A isx B) ->
  forall T, canonical A isx defs T -> equilibrium_clean A isx T (without_aux A isx G defs use) -> equilibriumP A T (with_aux A isx G defs use).
Proof. exact elim_backward. Qed.

(* Tie to the regenerated loop decisions: a future atom with time stamp t is assumed false at step s exactly if t > s;
   a part with offset i and root always is grounded at step s for the position s-i exactly if i <= s (dynamic: i < s,
   initial: i = s), with parameters (s-i, s). *)
Theorem C02_assumption_filter : forall t s, assume_false_gen t s = Some (s <? t).
Proof. exact assume_false_gen_spec. Qed.
Theorem C02_window_parts : forall r s i, part_selected_gen r s i = Some (part_sel r s i) /\
  part_params_gen s i = (Some (Z.of_nat s - Z.of_nat i)%Z, Some (Z.of_nat s)).
Proof. intros r s i. split; [exact (part_selected_gen_spec r s i)|exact (part_params_gen_spec s i)]. Qed.
(* The solving loop (model of imain over the REGENERATED part selection) grounds, for the two program parts that the
   transformer emits for a look-ahead constraint of depth L in part p - the temporary part with offsets 0..L-1 and the
   permanent part with offset L - exactly the instances of the window model above: at step s the temporary copy with
   parameters (t,u) = (s-i, s) for every offset i < L whose position s-i is admissible, and the permanent copy with
   (s-L, s) if position s-L is admissible. *)
Definition root_of_part (p : spart) : root := match p with Always => RAlways | Dynamic => RDynamic | Initial => RInitial end.
Lemma part_sel_window p s i : part_sel (root_of_part p) s i = (i <=? s) && selected p (s - i).
Proof.
  destruct p; cbn [root_of_part part_sel selected].
  - destruct (Nat.leb_spec i s); destruct (Nat.eqb_spec i s); destruct (Nat.eqb_spec (s - i) 0); cbn; try reflexivity; lia.
  - now rewrite andb_true_r.
  - destruct (Nat.leb_spec i s); destruct (Nat.ltb_spec i s); destruct (Nat.ltb_spec 0 (s - i)); cbn; try reflexivity; lia.
Qed.
Theorem C02_loop_grounds_window : forall (p : spart) (tmp perm : string) (L s : nat),
  sel_parts_spec [(root_of_part p, tmp, seq 0 L); (root_of_part p, perm, [L])] s =
  (map (fun i => (tmp, (Z.of_nat s - Z.of_nat i)%Z, Z.of_nat s)) (filter (fun i => (i <=? s) && selected p (s - i)) (seq 0 L))
   ++ (if (L <=? s) && selected p (s - L) then [(perm, (Z.of_nat s - Z.of_nat L)%Z, Z.of_nat s)] else []))%list.
Proof.
  intros p tmp perm L s. unfold sel_parts_spec. cbn [flat_map]. rewrite app_nil_r. unfold sel_rng_spec. f_equal.
  - f_equal. apply filter_ext. intros i. apply part_sel_window.
  - cbn [filter]. rewrite part_sel_window. destruct ((L <=? s) && selected p (s - L)); reflexivity.
Qed.
(* ---- the program transformer itself (Model/FutTransform.v: every per-atom decision is the REGENERATED Ctx.decide; the model's output is compared
   with transformers.transform statement by statement on every run) ---- *)
(* a constraint (over atoms and the two markers; theory atoms have no counterpart in the window model) in the initial, always or dynamic part is accepted whatever atoms it mentions; the depth under which the transformer files it is
   the look-ahead of the window model; the ground instance of its temporary copy (with `__final(__u)`, parameters (t,u) = (k,s)) means the
   window instance `ginst s k true`, that of its permanent copy means `ginst s k false` - here-and-there and classically, for all interpretations *)
Theorem C02_transformer_emits_the_window_copies : forall (A : Type) (r : frule A), fh A r = FCons A -> is_final (fp A r) = false -> tel_free A (fb A r) ->
  exists t, transform_rule A r = Some t /\ t_shift A t = Window.lookahead A (Window.cb A (to_crule A r)) /\ t_fut A t = [] /\
    forall (H T : interp (gatom A)) (s k : nat),
      (hsat _ H T (ground_cons A s (Z.of_nat k) (Z.of_nat s) (tmp_of A (t_rule A t))) = hsat _ H T (Window.ginst A s k true (to_crule A r)) /\
       csat _ T (ground_cons A s (Z.of_nat k) (Z.of_nat s) (tmp_of A (t_rule A t))) = csat _ T (Window.ginst A s k true (to_crule A r))) /\
      (hsat _ H T (ground_cons A s (Z.of_nat k) (Z.of_nat s) (t_rule A t)) = hsat _ H T (Window.ginst A s k false (to_crule A r)) /\
       csat _ T (ground_cons A s (Z.of_nat k) (Z.of_nat s) (t_rule A t)) = csat _ T (Window.ginst A s k false (to_crule A r))).
Proof. exact constraint_copies. Qed.
(* the parts the transformer asks the loop to ground for a group of look-ahead constraints of depth L: temporary part with offsets 0..L-1,
   permanent part with offset L (the input of C02_loop_grounds_window), next to the three ordinary parts with offset 0 *)
Theorem C02_transformer_lists_the_window_parts : forall (A : Type) (leA : A -> A -> bool) (P : list (frule A)) (o : output A), transform_program A leA P = Some o ->
  (forall rt L rs, In ((rt, L), rs) (o_cons A o) -> In (rt, KTmp L, seq 0 L) (o_parts A o) /\ In (rt, KPerm L, [L]) (o_parts A o)) /\
  In (ORAlways, KMain, [0]) (o_parts A o) /\ In (ORDynamic, KMain, [0]) (o_parts A o) /\ In (ORInitial, KMain, [0]) (o_parts A o).
Proof. intros A leA P o E. split; [exact (cons_parts A leA P o E)|exact (main_parts A leA P o E)]. Qed.
(* every future head p'..' (n primes) of an accepted program has its future predicate (p, n): a bridge rule and a future signature *)
Theorem C02_future_heads_have_bridge_rules : forall (A : Type) (leA : A -> A -> bool), (forall a, leA a a = true) ->
  forall (P : list (frule A)) (o : output A), transform_program A leA P = Some o ->
  forall r a n, In r P -> fh A r = FNorm A a n -> 0 < n -> has A leA (o_bridge A o) (a, n).
Proof. intros A leA R P o E r a n. exact (future_heads_have_bridges A leA R P o E r a n). Qed.
(* where the auxiliary atoms occur - the instance of the cleanliness hypotheses of C02_future_aux_elim_* for the rewritten program: the bodies of
   accepted rules mention ordinary atoms and the two markers only, a normal rule head with n > 0 primes becomes `__future_p(n, __t+n)` and
   contributes the future predicate (p, n), every other head is unchanged *)
Theorem C02_future_atoms_only_in_heads_of_normal_rules : forall (A : Type) (r : frule A) (t : tres A), transform_rule A r = Some t ->
  forallb (fun y => plain_atom A (snd y)) (qb A (t_rule A t)) = true /\
  match fh A r with
  | FNorm _ a n => qh A (t_rule A t) = QHAtom A (if 0 <? n then QFut A a n (QRel (Z.of_nat n)) else QU A a (QRel 0%Z)) /\ t_fut A t = (if 0 <? n then [(a, n)] else [])
  | FDisj _ l => qh A (t_rule A t) = QHDisj A l /\ t_fut A t = []
  | FChoice _ l => qh A (t_rule A t) = QHChoice A l /\ t_fut A t = []
  | FCons _ => qh A (t_rule A t) = QHCons A /\ t_fut A t = []
  | FTelHead _ => qh A (t_rule A t) = QHAux A 0 /\ t_fut A t = []
  end.
Proof. exact accepted_rule_shape. Qed.
(* future heads, concretely (Proofs/FutureHeads.v): for the rewritten program of the transformer model - `__future_p(n, __t+n) :- body` in the part of
   the rule, bridge rules, assumptions beyond the horizon - next to any rest G without auxiliary atoms and for any grounding Bg of rule bodies without
   auxiliary atoms, the equilibrium models of the program with the auxiliaries are, up to the (determined) values of the auxiliaries, those of the
   program without them, ... *)
Theorem C02_future_heads_eliminate : forall (A : Type) (D : forall a b : A, {a = b} + {a <> b}) (o : output A) (h : nat) (G : theory (FutureHeads.xatom A)),
  (forall f, G f -> clean (FutureHeads.xatom A) (FutureHeads.isx A) f) -> forall (Bg : list (fsgn * qatom A) -> nat -> form (FutureHeads.xatom A)), (forall bd t, clean (FutureHeads.xatom A) (FutureHeads.isx A) (Bg bd t)) ->
  forall T : interp (FutureHeads.xatom A),
    (equilibriumP (FutureHeads.xatom A) T (FutureHeads.program_with_future_atoms A D o h G Bg) ->
     canonical (FutureHeads.xatom A) (FutureHeads.isx A) (FutureHeads.defs A D o h Bg) T /\ equilibrium_clean (FutureHeads.xatom A) (FutureHeads.isx A) T (FutureHeads.program_without_future_atoms A D o h G Bg)) /\
    (canonical (FutureHeads.xatom A) (FutureHeads.isx A) (FutureHeads.defs A D o h Bg) T -> equilibrium_clean (FutureHeads.xatom A) (FutureHeads.isx A) T (FutureHeads.program_without_future_atoms A D o h G Bg) ->
     equilibriumP (FutureHeads.xatom A) T (FutureHeads.program_with_future_atoms A D o h G Bg)).
Proof.
  intros A D o h G Gc Bg Bc T. split; [exact (FutureHeads.future_heads_elim_forward A D o h G Gc Bg Bc T)|exact (FutureHeads.future_heads_elim_backward A D o h G Bg Bc T)].
Qed.
(* ... and that program says: every instance, at an admissible state t <= h, of a rule whose head has n primes derives the head atom at state t+n when
   that state exists and forces its body to be false when it does not *)
Theorem C02_future_head_reading : forall (A : Type) (D : forall a b : A, {a = b} + {a <> b}) (o : output A) (h : nat) (G : theory (FutureHeads.xatom A))
  (Bg : list (fsgn * qatom A) -> nat -> form (FutureHeads.xatom A)) (f : form (FutureHeads.xatom A)),
  FutureHeads.program_without_future_atoms A D o h G Bg f <->
  G f \/ exists rt r a n t, In (rt, r) (o_main A o) /\ FutureHeads.head_is A D r a n = true /\ t <= h /\ FutureHeads.selected rt t = true /\
         f = Imp _ (Bg (qb A r) t) (if t + n <=? h then Var _ (FutureHeads.XG A (CoreRun.GU A a (Z.of_nat (t + n)))) else Bot _).
Proof. exact FutureHeads.program_without_future_atoms_spec. Qed.
Print Assumptions C02_window_exact.
Print Assumptions C02_temporary_copy_live.
Print Assumptions C02_no_stale_instance.
Print Assumptions C02_permanent_copy.
Print Assumptions C02_future_aux_elim_forward.
Print Assumptions C02_future_aux_elim_backward.
Print Assumptions C02_assumption_filter.
Print Assumptions C02_window_parts.
Print Assumptions C02_loop_grounds_window.
Print Assumptions C02_core_and_lookahead_exact.
Print Assumptions C02_transformer_emits_the_window_copies.
Print Assumptions C02_transformer_lists_the_window_parts.
Print Assumptions C02_future_heads_have_bridge_rules.
Print Assumptions C02_future_atoms_only_in_heads_of_normal_rules.
Print Assumptions C02_future_heads_eliminate.
Print Assumptions C02_future_head_reading.
