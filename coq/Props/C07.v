(* C07 — Temporal formulas are parsed with the documented precedence and associativity.  Property theorems only.
   Tables: regenerated from the three places of the code (Gen/FromTables.v); documented tables: Spec/DocTables.v;
   parser: Model/Parser.v (frame model of TheoryParser.parse / gringo's theory-term parser), instantiated in
   Model/ParserTable.v. *)
From Coq Require Import List Bool Arith Lia.
Require Import GenPrelude FromTables DocTables Parser ParserTable TheoryPrelude FormPrelude FromBodyForm BodyForm.
(* all copies of the operator table agree with the documented one *)
Theorem C07_tables_agree :
  same_table tel_body_table_gen documented_tel = true /\ same_table tel_head_table_gen documented_head = true /\
  same_table py_head_table_gen documented_head = true /\ same_table del_table_gen documented_del = true /\
  sub_table py_head_table_gen tel_body_table_gen = true /\
  wf_table tel_body_table_gen = true /\ wf_table py_head_table_gen = true /\ wf_table del_table_gen = true.
Proof. vm_compute. repeat split; reflexivity. Qed.
(* head theory atoms are parsed by gringo with the body table (the declared head table is not used by the grounder)
   and re-parsed by telingo with the Python table; body and dynamic atoms by gringo with their tables *)
Theorem C07_theory_atoms : theory_atoms_gen =
  [("tel", 1, "formula_body", "body"); ("__tel_head", 1, "formula_body", "head"); ("del", 1, "formula_body", "body")]%string.
Proof. reflexivity. Qed.
(* the reduction test of the Python parser is the one of the model *)
Theorem C07_reduce_test : forall (tbl : list tentry) (f : frame string) (o : string),
  parser_check_gen (fprio string (prio_of tbl) f) (prio_of tbl o false) (lassoc_of tbl o) = Some (stronger string (prio_of tbl) (lassoc_of tbl) f o).
Proof.
  intros tbl f o. unfold parser_check_gen, stronger. set (a := fprio string (prio_of tbl) f). set (b := prio_of tbl o false).
  cbn [por pand olift2]. rewrite Z.gtb_ltb.
  destruct (Z.ltb_spec (Z.of_nat b) (Z.of_nat a)); destruct (Nat.ltb_spec b a); try lia; cbn [por orb]; [reflexivity|].
  destruct (Z.eqb_spec (Z.of_nat a) (Z.of_nat b)); destruct (Nat.eqb_spec a b); try lia; cbn [pand andb]; reflexivity.
Qed.
(* for EVERY table: the tree built by the parser has exactly the input tokens as its frontier, in order ... *)
Theorem C07_parse_flat : forall (tbl : list tentry) (first : elem string) (rest : list (string * elem string)),
  flat string (parse_tbl tbl first rest) = (map inr (fst first) ++ [inl (snd first)] ++ List.concat (map (etoks string) rest))%list.
Proof. intros tbl. exact (parse_flat string (prio_of tbl) (lassoc_of tbl)). Qed.
(* ... and respects the table: below a binary operator o, every operator on the right spine of its left operand binds
   tighter than o or equally with o left-associative; every operator on the left spine of its right operand (and of the
   operand of a prefix operator) binds tighter, or equally and is right-associative.  This is the fully parenthesised
   reading of the documented table. *)
Theorem C07_parse_respects : forall (tbl : list tentry) (first : elem string) (rest : list (string * elem string)),
  respects string (prio_of tbl) (lassoc_of tbl) (parse_tbl tbl first rest).
Proof. intros tbl. exact (parse_respects string (prio_of tbl) (lassoc_of tbl)). Qed.
(* arithmetic in n-fold prefixes is evaluated: create_number (theory/formula.py, REGENERATED) computes + and - over non-negative literals as
   integer arithmetic, whatever the sign of intermediate values (1-2+3 = 2); a negative literal is no number; the dispatch unary / n-fold of
   the four prefix operators is by the number of arguments and a negative count is rejected *)
Theorem C07_prefix_arithmetic : forall e, nwf e = true -> neval e = Some (zeval e).
Proof. exact create_number_is_arithmetic. Qed.
Theorem C07_prefix_negative_literal : forall n, (n < 0)%Z -> neval (NLit n) = None.
Proof. exact create_number_rejects_negative_literals. Qed.
Theorem C07_prefix_dispatch : forall op, In op ["<"; "<:"; ">"; ">:"]%string -> exists e, create_formula_gen op 2 = Some (true, e).
Proof. exact negative_counts_rejected. Qed.
Print Assumptions C07_tables_agree.
Print Assumptions C07_theory_atoms.
Print Assumptions C07_reduce_test.
Print Assumptions C07_parse_flat.
Print Assumptions C07_parse_respects.
Print Assumptions C07_prefix_arithmetic.
Print Assumptions C07_prefix_negative_literal.
Print Assumptions C07_prefix_dispatch.
