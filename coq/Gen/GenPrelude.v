(* Prelude of the regenerated leaf layer: the types the generated definitions range over and
   Python's partial, short-circuit Boolean evaluation (None = the expression would raise). *)
From Coq Require Export List Bool Arith ZArith Lia String.
Export ListNotations.
Inductive result := SAT | UNSAT | UNKNOWN.
Inductive stopc := StopSAT | StopUNSAT | StopUNKNOWN.
Inductive root := RAlways | RDynamic | RInitial.
Definition satisfiable r := match r with SAT => true | _ => false end.
Definition unsatisfiable r := match r with UNSAT => true | _ => false end.
Definition unknown r := match r with UNKNOWN => true | _ => false end.
Definition stopc_eqb a b := match a, b with StopSAT,StopSAT | StopUNSAT,StopUNSAT | StopUNKNOWN,StopUNKNOWN => true | _,_ => false end.
Definition root_eqb a b := match a, b with RAlways,RAlways | RDynamic,RDynamic | RInitial,RInitial => true | _,_ => false end.
Definition pand (a : option bool) (b : unit -> option bool) := match a with Some true => b tt | x => x end.
Definition por  (a : option bool) (b : unit -> option bool) := match a with Some false => b tt | x => x end.
Definition pnot (a : option bool) := option_map negb a.
Definition attr (f : result -> bool) (ret : option result) : option bool := option_map f ret.
Definition olift2 {X Y} (f : X -> X -> Y) (a b : option X) : option Y := match a, b with Some x, Some y => Some (f x y) | _, _ => None end.
Definition olift1 {X Y} (f : X -> Y) (a : option X) : option Y := option_map f a.
(* decision-style tactics: survive equivalent rewrites of the source expression *)
Ltac cmp_split :=
  repeat match goal with
  | |- context [Z.gtb ?a ?b] => rewrite (Z.gtb_ltb a b)
  | |- context [Z.geb ?a ?b] => rewrite (Z.geb_leb a b)
  | |- context [Z.ltb ?a ?b] => destruct (Z.ltb_spec a b)
  | |- context [Z.leb ?a ?b] => destruct (Z.leb_spec a b)
  | |- context [Z.eqb ?a ?b] => destruct (Z.eqb_spec a b)
  | |- context [Nat.ltb ?a ?b] => destruct (Nat.ltb_spec a b)
  | |- context [Nat.leb ?a ?b] => destruct (Nat.leb_spec a b)
  | |- context [Nat.eqb ?a ?b] => destruct (Nat.eqb_spec a b)
  end.
Ltac pbool := cbn [pand por pnot attr olift2 olift1 option_map negb andb orb]; cmp_split;
              cbn [pand por pnot attr olift2 olift1 option_map negb andb orb]; try reflexivity; try (exfalso; lia); try congruence.
(* tokens of a rendered source location (transformers/transformer.py: str_location) *)
Inductive ltok := LFile (f : nat) | LNum (n : nat) | LColon | LDash.
(* tokens of a representation string (_rep of the formula and path classes): a literal piece of the format string, a number, a name or an argument list *)
Inductive rtok := RL (s : string) | RN (n : nat) | RName (k : nat) | RArgs (k : nat) | RC (c : Ascii.ascii).     (* RC: one character of a literal piece (Proofs/RepsProofs.v) *)
