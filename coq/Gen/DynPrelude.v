(* types of the regenerated construction tables of the dynamic (LDLf) layer: what DiamondFormula / BoxFormula.translate_X build *)
Require Import GenPrelude TheoryPrelude.
Inductive psel := PSelLhs | PSelRhs | PSelArg | PSkipC.          (* self._path._lhs / _rhs / _arg (as a path), SkipPath() *)
Inductive pshape := ShChoice | ShSeq | ShCheck | ShStar | ShSkip.
Inductive cexp :=
  | CSelf | CRhs | CTest                                            (* self, self._rhs, self._path._arg used as a formula *)
  | CDia (p : psel) (f : cexp) | CBox (p : psel) (f : cexp)
  | CBool (op : boolop) (a b : cexp) | CNeg (a : cexp) | CNext (a : cexp) (n : nat) (weak : bool) | CConst (b : bool).
Inductive pcon := PKChoice | PKSeq | PKCheck | PKStar.
Inductive modality := MDia | MBox.
