(* types of the regenerated clause tables of the theory layer *)
Inductive lvar := La | Lb | Llit | Llhs | Lrhs | Lpre.
Inductive telop := OpSince | OpTrigger | OpUntil | OpRelease.
Inductive boolop := OpAnd | OpOr | OpLImp | OpRImp | OpEqv.
Inductive slit := P (x : lvar) | N (x : lvar).
