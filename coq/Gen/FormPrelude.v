(* types of the regenerated table of create_formula (theory/body.py): which formula object every operator builds *)
Require Import GenPrelude TheoryPrelude.
Inductive cnt := NOne | NArg.                       (* the count of a prefix operator: 1, or the evaluated first argument *)
Definition cntv (c : cnt) (n : nat) : nat := match c with NOne => 1 | NArg => n end.
Inductive fexp :=
  | XRhs | XLhs                                                       (* create_formula(args[-1]) / create_formula(args[0]) *)
  | XPrev (a : fexp) (n : cnt) (weak : bool) | XNext (a : fexp) (n : cnt) (weak : bool)
  | XBool (op : boolop) (a b : fexp) | XNeg (a : fexp)
  | XTelP (op : telop) (lhs : option fexp) (rhs : fexp)              (* TelFormulaP *)
  | XTelN (op : telop) (lhs : option fexp) (rhs : fexp) (fut_weak : bool)   (* TelFormulaN with set_future(Next(self, 1, fut_weak)) *)
  | XInit (a : fexp)
  | XAtomKw (name : string)                                           (* Atom("__initial") / Atom("__final") *)
  | XConst (b : bool)
  | XIfZero (a b : fexp).                                             (* a if the count is 0 else b *)
(* head formulas (theory/head.py): TelClause of two elements, TelNegation, TelNext, TelUntil, TelAtom (keywords), TelConstant *)
Inductive hexp :=
  | HxRhs | HxLhs
  | HxClause (conj : bool) (a b : hexp) | HxNeg (a : hexp)
  | HxNext (n : cnt) (a : hexp) (weak : bool)
  | HxUntil (lhs : option hexp) (rhs : hexp) (until : bool)
  | HxAtomKw (name : string) | HxConst (b : bool)
  | HxIfZero (a b : hexp).
