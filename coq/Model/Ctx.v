(* Model of the context flags of ProgramTransformer (visit_Rule / visit_Literal / visit_ConditionalLiteral /
   visit_SymbolicAtom) and of the acceptance test of TermTransformer.__get_param.  The traversal (which flag values a
   syntactic position sees) is hand-written here and validated exhaustively by correspondence S1; every DECISION is the
   definition regenerated from the source (Gen/FromTransformers.v). *)
Require Import GenPrelude FromTransformers.
(* shape of the statement that contains the atom, as far as is_constraint / is_normal look at it *)
Record shape := { is_rule : bool; head_is_literal : bool; atom_is_boolconst : bool; atom_is_symbolic : bool; value : bool; nosign : bool }.
(* where the atom occurs; the Boolean is "the literal carrying the atom has no default negation" *)
Inductive place :=
| HeadLit                        (* the literal that is the whole head (sign = nosign of the shape) *)
| HeadElem (ns : bool)           (* literal of a disjunction / choice / head aggregate element *)
| HeadCond (ns : bool)           (* condition of such an element *)
| BodyLit (ns : bool)            (* body literal, conditional literal, aggregate element, #external/#show/weak/minimize body *)
| BodyCond (ns : bool).          (* condition of a body conditional literal / theory element *)
Definition lit_nosign (sh : shape) (pl : place) : bool :=
  match pl with HeadLit => nosign sh | HeadElem ns | HeadCond ns | BodyLit ns | BodyCond ns => ns end.
(* value of the head flag when the Literal node is entered *)
Definition head_before (pl : place) : bool := match pl with HeadLit | HeadElem _ => true | _ => false end.
Definition obind {X Y} (a : option X) (f : X -> option Y) : option Y := match a with Some x => f x | None => None end.
(* flags (replace_future, fail_future, fail_past) seen by the atom *)
Definition flags (sh : shape) (pl : place) : option (bool * bool * bool) :=
  obind (is_constraint_gen (is_rule sh) (head_is_literal sh) (atom_is_boolconst sh) (atom_is_symbolic sh) (value sh) (nosign sh)) (fun c =>
  obind (is_normal_gen (is_rule sh) (head_is_literal sh) (atom_is_boolconst sh) (atom_is_symbolic sh) (value sh) (nosign sh)) (fun n =>
  obind (literal_head_gen (head_before pl) (lit_nosign sh pl)) (fun hd =>
  match atom_flags_gen hd c n with (Some r, Some ff, Some fp) => Some (r, ff, fp) | _ => None end))).
(* the number the prime loop and the update compute for a name with [lead] leading and [trail] trailing primes *)
Definition shift_of (lead stem trail : nat) : option Z := shift_update_gen lead stem trail (- Z.of_nat lead)%Z.
Inductive verdict := Accept (renamed : bool) (lookahead : bool) (time_shift : Z) (time_zero : bool) | RejectFuture | RejectPast | Raises.
(* outcome of __get_param for an atom with [shift] and the initially marker, under the flags of its position *)
Definition get_param (shift : Z) (initially : bool) (fl : bool * bool * bool) : verdict :=
  let '(r, ff, fp) := fl in
  match fail_future_gen shift false ff with
  | None => Raises | Some true => RejectFuture
  | Some false =>
    match fail_past_gen shift initially fp with
    | None => Raises | Some true => RejectPast
    | Some false =>
      match future_test_gen shift, time_shifted_gen shift, time_zero_gen initially with
      | Some fut, Some sh, Some z => Accept (fut && r) (fut && negb r) (if sh then shift else 0%Z) (negb sh && z)
      | _, _, _ => Raises
      end
    end
  end.
Definition decide (sh : shape) (pl : place) (lead stem trail : nat) (initially : bool) : verdict :=
  match flags sh pl, shift_of lead stem trail with
  | Some fl, Some s => get_param s initially fl
  | _, _ => Raises
  end.
