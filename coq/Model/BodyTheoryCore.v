From Coq Require Import List Bool Arith Lia.
Import ListNotations.
(* Reduced model of telingo/theory/body.py + theory/__init__.py (after the F1 repair: object identity = formula) *)
Section BT.
Variable A : Type.
Hypothesis A_eq_dec : forall a b : A, {a = b} + {a <> b}.
Inductive bf := At (a:A) | Neg (x:bf) | And (x y:bf) | Nx (weak:bool) (x:bf) | Un (x y:bf) | Si (x y:bf).
Lemma bf_eq_dec : forall f g : bf, {f = g} + {f <> g}.
Proof. decide equality. apply Bool.bool_dec. Qed.
(* ---------------- LTLf semantics at horizon h ---------------- *)
Definition trace := nat -> A -> bool.
Fixpoint fut (sx sy : nat -> bool) (d k:nat) : bool :=
  match d with 0 => sy k | S d' => sy k || (sx k && fut sx sy d' (S k)) end.
Fixpoint pst (sx sy : nat -> bool) (k:nat) : bool :=
  match k with 0 => sy 0 | S k' => sy k || (sx k && pst sx sy k') end.
Fixpoint lsat (h:nat) (T:trace) (p:bf) : nat -> bool :=
  match p with
  | At a => fun k => T k a
  | Neg x => fun k => negb (lsat h T x k)
  | And x y => fun k => lsat h T x k && lsat h T y k
  | Nx w x => fun k => if k+1 <=? h then lsat h T x (k+1) else w
  | Un x y => fun k => fut (lsat h T x) (lsat h T y) (h-k) k
  | Si x y => fun k => pst (lsat h T x) (lsat h T y) k
  end.
(* equations on a dependency-closed set S of (formula, step) pairs *)
Definition eqs (h:nat) (T:trace) (D : bf -> nat -> Prop) (v : bf -> nat -> bool) : Prop := forall f k, D f k ->
  k <= h /\
  match f with
  | At a => v f k = T k a
  | Neg x => D x k /\ v f k = negb (v x k)
  | And x y => D x k /\ D y k /\ v f k = v x k && v y k
  | Nx w x => if k+1 <=? h then D x (k+1) /\ v f k = v x (k+1) else v f k = w
  | Un x y => D x k /\ D y k /\ D (Nx false (Un x y)) k /\ v f k = v y k || (v x k && v (Nx false (Un x y)) k)
  | Si x y => match k with
              | 0 => D y 0 /\ v f k = v y 0
              | S k' => D x k /\ D y k /\ D (Si x y) k' /\ v f k = v y k || (v x k && v (Si x y) k')
              end
  end.
Theorem unique_on h T D v : eqs h T D v -> forall p k, D p k -> v p k = lsat h T p k.
Proof.
  intros E p; induction p as [a|x IH|x IHx y IHy|w x IH|x IHx y IHy|x IHx y IHy]; intros k Sk; cbn [lsat].
  - now destruct (E _ _ Sk) as [_ ->].
  - destruct (E _ _ Sk) as [_ [Sx ->]]. now rewrite IH.
  - destruct (E _ _ Sk) as [_ [Sx [Sy ->]]]. now rewrite IHx, IHy.
  - destruct (E _ _ Sk) as [_ Eq]. destruct (k+1 <=? h); [destruct Eq as [Sx ->]; now apply IH|exact Eq].
  - remember (h-k) as d eqn:Hd. revert k Sk Hd. induction d as [|d IHd]; intros k Sk Hd;
      destruct (E _ _ Sk) as [Hk [Sx [Sy [Sn ->]]]]; rewrite (IHx _ Sx), (IHy _ Sy); cbn [fut];
      destruct (E _ _ Sn) as [_ En].
    + assert (k+1 <=? h = false) as R by (apply Nat.leb_gt; lia). rewrite R in En. rewrite En.
      now rewrite andb_false_r, orb_false_r.
    + assert (k+1 <=? h = true) as R by (apply Nat.leb_le; lia). rewrite R in En. destruct En as [Su ->].
      replace (k+1) with (S k) in * by lia. f_equal. f_equal. apply IHd; [assumption|lia].
  - induction k as [|k IHk]; destruct (E _ _ Sk) as [Hk Eq]; cbn [pst].
    + destruct Eq as [Sy ->]. now apply IHy.
    + destruct Eq as [Sx [Sy [Sp ->]]]. rewrite (IHx _ Sx), (IHy _ Sy). f_equal. f_equal. now apply IHk.
Qed.
(* ---------------- executable model of the translation ---------------- *)
Inductive var := VU (a:A) (k:nat) | VX (n:nat).
Definition lit := (bool * var)%type.
Definition nlit (l:lit) : lit := (negb (fst l), snd l).
Inductive kind := KChoice | KFalse | KExt (val : option bool).          (* KExt None = free external *)
Record st := mkst { nxt : nat; kinds : list (nat * kind); cls : list (list lit);
                    cache : list ((bf * nat) * (lit * bool)); pending : list (nat * bf);
                    owner : list (nat * (bf * nat));                     (* ghost: which entry allocated which auxiliary atom *)
                    groups : list ((bf * nat) * list (list lit)) }.      (* ghost: which entry emitted which clause group *)
Definition keyb (f:bf) (k:nat) (p : (bf*nat) * (lit*bool)) : bool := if bf_eq_dec (fst (fst p)) f then snd (fst p) =? k else false.
Definition lookup (s:st) f k : option (lit*bool) := option_map snd (find (keyb f k) (cache s)).
Definition kind_of (s:st) n : option kind := option_map snd (find (fun p => fst p =? n) (kinds s)).
Definition set_cache s f k l d := mkst (nxt s) (kinds s) (cls s) (((f,k),(l,d)) :: cache s) (pending s) (owner s) (groups s).
Definition set_kind s n kd := mkst (nxt s) ((n,kd) :: kinds s) (cls s) (cache s) (pending s) (owner s) (groups s).
Definition fresh s kd (key:bf*nat) : nat * st := (nxt s, mkst (S (nxt s)) ((nxt s,kd) :: kinds s) (cls s) (cache s) (pending s) ((nxt s,key) :: owner s) (groups s)).
Definition add_cls s (key:bf*nat) cs := mkst (nxt s) (kinds s) (cs ++ cls s) (cache s) (pending s) (owner s) ((key,cs) :: groups s).
Definition add_pending s k f := mkst (nxt s) (kinds s) (cls s) (cache s) ((k,f) :: pending s) (owner s) (groups s).
Definition init : st := mkst 1 [(0,KFalse)] [] [] [] [] [].                     (* VX 0 is the false literal *)
Definition lfalse : lit := (true, VX 0).
Definition ltrue : lit := (false, VX 0).
(* clause tables: in the real development these come from Gen/FromSource.v *)
Definition and_cls (l lx ly:lit) := [[nlit l; lx; ly]; [l; nlit lx]; [l; nlit ly]].
Definition tel_cls (l lx ly lp:lit) := [[nlit l; ly]; [nlit ly; nlit lp; l]; [nlit l; lx; lp]; [nlit ly; nlit lx; l]].
Definition eq_cls (a b:lit) := [[a; nlit b]; [nlit a; b]].
(* after the recursive calls the entry must still be unset: StepData.add_literal asserts this (an Internal outcome = None here) *)
Definition fin (s:st) (f:bf) (k:nat) (l:lit) (d:bool) (cs:list (list lit)) : option (lit * st) :=
  match lookup s f k with Some _ => None | None => Some (l, set_cache (add_cls s (f,k) cs) f k l d) end.
Fixpoint translate (fuel h:nat) (f:bf) (k:nat) (s:st) : option (lit * st) :=
  match fuel with 0 => None | S fu =>
  match lookup s f k with
  | Some (l, true) => Some (l, s)
  | Some (l, false) =>
      match f with
      | Nx w x =>
          if k+1 <=? h then
            match translate fu h x (k+1) s with None => None | Some (lx, s1) =>
              Some (l, set_cache (add_cls s1 (f,k) (eq_cls l lx)) f k l true) end
          else Some (l, add_pending s k f)
      | _ => Some (l, s)
      end
  | None =>
      match f with
      | At a => fin s f k (true, VU a k) true []
      | Neg x => match translate fu h x k s with None => None | Some (lx, s1) => fin s1 f k (nlit lx) true [] end
      | And x y =>
          match translate fu h x k s with None => None | Some (lx, s1) =>
          match translate fu h y k s1 with None => None | Some (ly, s2) =>
            let (z, s3) := fresh s2 KChoice (f,k) in let l := (true, VX z) in fin s3 f k l true (and_cls l lx ly) end end
      | Nx w x =>
          if k+1 <=? h then
            match translate fu h x (k+1) s with None => None | Some (lx, s1) => fin s1 f k lx true [] end
          else let (e, s1) := fresh s (KExt (Some w)) (f,k) in fin (add_pending s1 k f) f k (true, VX e) false []
      | Un x y =>
          match translate fu h (Nx false (Un x y)) k s with None => None | Some (lp, s0) =>
          match translate fu h x k s0 with None => None | Some (lx, s1) =>
          match translate fu h y k s1 with None => None | Some (ly, s2) =>
            let (z, s3) := fresh s2 KChoice (f,k) in let l := (true, VX z) in fin s3 f k l true (tel_cls l lx ly lp) end end end
      | Si x y =>
          match k with
          | 0 => match translate fu h y 0 s with None => None | Some (ly, s1) => fin s1 f k ly true [] end
          | S k' =>
              match translate fu h (Si x y) k' s with None => None | Some (lp, s0) =>
              match translate fu h x k s0 with None => None | Some (lx, s1) =>
              match translate fu h y k s1 with None => None | Some (ly, s2) =>
                let (z, s3) := fresh s2 KChoice (f,k) in let l := (true, VX z) in fin s3 f k l true (tel_cls l lx ly lp) end end end
          end
      end
  end end.
(* Theory.translate for one horizon: roots are the (formula, step) pairs of the ground theory atoms; then the old pending list *)
Fixpoint run_list (fuel h:nat) (todo : list (nat*bf)) (s:st) : option st :=
  match todo with [] => Some s | (k,f)::r => match translate fuel h f k s with None => None | Some (_, s1) => run_list fuel h r s1 end end.
Definition theory_translate (fuel h:nat) (roots : list (nat*bf)) (s:st) : option st :=
  let todo := rev (pending s) ++ roots in
  run_list fuel h todo (mkst (nxt s) (kinds s) (cls s) (cache s) [] (owner s) (groups s)).
(* ---------------- semantics of a state ---------------- *)
Definition ev (T:trace) (v:nat->bool) (l:lit) : bool :=
  let b := match snd l with VU a k => T k a | VX n => v n end in if fst l then b else negb b.
Definition ok_cls T v (s:st) := forall b, In b (cls s) -> forallb (ev T v) b = false.
(* external values read off the cache: an unresolved placeholder of (Nx w x) has the boundary value w; VX 0 is false.
   (That the kinds list agrees with this is a separate, simpler invariant needed only for existence/uniqueness.) *)
Definition ok_ext (v:nat->bool) (s:st) := v 0 = false /\ forall w x k e, lookup s (Nx w x) k = Some ((true, VX e), false) -> v e = w.
Definition cached s f k l := exists d, lookup s f k = Some (l,d).
(* the invariant; todo = pending entries of the previous horizon that are still to be processed *)
Definition entry_ok (h:nat) (todo:list (nat*bf)) (s:st) (f:bf) (k:nat) (l:lit) (d:bool) : Prop :=
  k <= h /\
  match f with
  | At a => l = (true, VU a k)
  | Neg x => exists lx, cached s x k lx /\ l = nlit lx
  | And x y => exists lx ly, cached s x k lx /\ cached s y k ly /\ forall T v, ok_cls T v s -> ev T v l = ev T v lx && ev T v ly
  | Nx w x =>
      (d = true /\ k+1 <= h /\ exists lx, cached s x (k+1) lx /\ forall T v, ok_cls T v s -> ev T v l = ev T v lx)
      \/ (d = false /\ exists e, l = (true, VX e)
          /\ (if k+1 <=? h then In (k,f) todo else In (k,f) todo \/ In (k,f) (pending s)))
  | Un x y => exists lx ly lp, cached s x k lx /\ cached s y k ly /\ cached s (Nx false (Un x y)) k lp /\
                forall T v, ok_cls T v s -> ev T v l = ev T v ly || (ev T v lx && ev T v lp)
  | Si x y => match k with
              | 0 => exists ly, cached s y 0 ly /\ l = ly
              | S k' => exists lx ly lp, cached s x k lx /\ cached s y k ly /\ cached s (Si x y) k' lp /\
                          forall T v, ok_cls T v s -> ev T v l = ev T v ly || (ev T v lx && ev T v lp)
              end
  end.
Definition Inv h todo s := forall f k l d, lookup s f k = Some (l,d) -> entry_ok h todo s f k l d.
(* ---------------- soundness at a stable point (nothing left to process) ---------------- *)
Lemma ev_nlit T v l : ev T v (nlit l) = negb (ev T v l).
Proof. destruct l as [[|] x]; unfold ev, nlit; cbn; [reflexivity|now rewrite negb_involutive]. Qed.
Theorem C03_value h s : Inv h [] s -> forall T v, ok_cls T v s -> ok_ext v s ->
  forall f k l, cached s f k l -> ev T v l = lsat h T f k.
Proof.
  intros I T v Oc Oe f k l C.
  set (D := fun f k => exists l, cached s f k l).
  set (val := fun f k => match lookup s f k with Some (l,_) => ev T v l | None => false end).
  assert (forall f k l, cached s f k l -> val f k = ev T v l) as Hval.
  { intros f0 k0 l0 [d0 E0]. unfold val. now rewrite E0. }
  assert (eqs h T D val) as E.
  { intros f0 k0 [l0 [d0 L0]]. pose proof (I _ _ _ _ L0) as [Hk EO]. split; [exact Hk|].
    assert (val f0 k0 = ev T v l0) as V0 by (apply Hval; now exists d0).
    destruct f0 as [a|x|x y|w x|x y|x y].
    - rewrite V0, EO. reflexivity.
    - destruct EO as [lx [Cx ->]]. split; [now exists lx|]. rewrite V0, (Hval _ _ _ Cx). apply ev_nlit.
    - destruct EO as [lx [ly [Cx [Cy Eq]]]]. split; [now exists lx|]. split; [now exists ly|].
      rewrite V0, (Hval _ _ _ Cx), (Hval _ _ _ Cy). now apply Eq.
    - destruct EO as [[_ [Hle [lx [Cx Eq]]]]|[Hd [e [-> Pend]]]].
      + assert (k0+1 <=? h = true) as -> by (apply Nat.leb_le; lia). split; [now exists lx|].
        rewrite V0, (Hval _ _ _ Cx). now apply Eq.
      + destruct (k0+1 <=? h) eqn:R; [destruct Pend|].
        rewrite V0. unfold ev. cbn. subst d0. exact (proj2 Oe _ _ _ _ L0).
    - destruct EO as [lx [ly [lp [Cx [Cy [Cp Eq]]]]]]. split; [now exists lx|]. split; [now exists ly|]. split; [now exists lp|].
      rewrite V0, (Hval _ _ _ Cx), (Hval _ _ _ Cy), (Hval _ _ _ Cp). now apply Eq.
    - destruct k0 as [|k'].
      + destruct EO as [ly [Cy ->]]. split; [now exists ly|]. now rewrite V0, (Hval _ _ _ Cy).
      + destruct EO as [lx [ly [lp [Cx [Cy [Cp Eq]]]]]]. split; [now exists lx|]. split; [now exists ly|]. split; [now exists lp|].
        rewrite V0, (Hval _ _ _ Cx), (Hval _ _ _ Cy), (Hval _ _ _ Cp). now apply Eq. }
  rewrite <- (Hval _ _ _ C). apply (unique_on h T D val E). now exists l.
Qed.
(* ---------------- horizon step: what was pending becomes the todo list ---------------- *)
Definition clear_pending (s:st) := mkst (nxt s) (kinds s) (cls s) (cache s) [] (owner s) (groups s).
Lemma Inv_init h : Inv h [] init.
Proof. intros f k l d L. unfold lookup, init in L. cbn in L. discriminate. Qed.
Lemma Inv_next_horizon h s : Inv h [] s -> Inv (S h) (pending s) (clear_pending s).
Proof.
  intros I f k l d L. change (lookup s f k = Some (l,d)) in L. destruct (I _ _ _ _ L) as [Hk EO]. split; [lia|].
  destruct f as [a|x|x y|w x|x y|x y]; try exact EO.
  - destruct EO as [[-> [Hle Rest]]|[-> [e [-> Pend]]]]; [left; repeat split; auto; lia|right].
    split; [reflexivity|]. exists e. split; [reflexivity|].
    destruct (k+1 <=? h) eqn:R; [destruct Pend|]. destruct Pend as [[]|Pend].
    destruct (k+1 <=? S h); [exact Pend|left; exact Pend].
Qed.
(* ---------------- infrastructure for preservation ---------------- *)
Lemma keyb_true f k p : keyb f k p = true <-> fst p = (f,k).
Proof.
  destruct p as [[f' k'] ld]. unfold keyb. cbn. destruct (bf_eq_dec f' f) as [->|N].
  - rewrite Nat.eqb_eq. split; [now intros ->|]. intros E. now inversion E.
  - split; [discriminate|]. intros E. inversion E. contradiction.
Qed.
Lemma lookup_set_same s f k l d : lookup (set_cache s f k l d) f k = Some (l,d).
Proof. unfold lookup, set_cache. cbn [cache find]. assert (keyb f k ((f,k),(l,d)) = true) as -> by now apply keyb_true. reflexivity. Qed.
Lemma lookup_set_other s f k l d f' k' : (f',k') <> (f,k) -> lookup (set_cache s f k l d) f' k' = lookup s f' k'.
Proof.
  intros N. unfold lookup, set_cache. cbn [cache find]. destruct (keyb f' k' ((f,k),(l,d))) eqn:E; [|reflexivity].
  apply keyb_true in E. cbn in E. congruence.
Qed.
Lemma key_dec (f f':bf) (k k':nat) : {(f',k') = (f,k)} + {(f',k') <> (f,k)}.
Proof. destruct (bf_eq_dec f' f) as [->|N]; [destruct (Nat.eq_dec k' k) as [->|N]|]; [left; reflexivity|right; congruence|right; congruence]. Qed.
Record ext (s s':st) : Prop := {
  ext_cache : forall f k l d, lookup s f k = Some (l,d) -> exists d', lookup s' f k = Some (l,d') /\ (d = true -> d' = true);
  ext_cls : forall b, In b (cls s) -> In b (cls s');
  ext_pending : forall p, In p (pending s) -> In p (pending s') }.
Lemma ext_refl s : ext s s.
Proof. split; eauto. Qed.
Lemma ext_trans a b c : ext a b -> ext b c -> ext a c.
Proof.
  intros [C1 L1 P1] [C2 L2 P2]. split; auto.
  intros f k l d E. destruct (C1 _ _ _ _ E) as [d1 [E1 H1]]. destruct (C2 _ _ _ _ E1) as [d2 [E2 H2]]. exists d2. auto.
Qed.
Lemma ext_cached s s' f k l : ext s s' -> cached s f k l -> cached s' f k l.
Proof. intros X [d E]. destruct (ext_cache _ _ X _ _ _ _ E) as [d' [E' _]]. now exists d'. Qed.
Lemma ext_ok_cls s s' T v : ext s s' -> ok_cls T v s' -> ok_cls T v s.
Proof. intros X O b Hb. apply O. now apply (ext_cls _ _ X). Qed.
Lemma entry_ok_ext h todo s s' f k l d : ext s s' -> entry_ok h todo s f k l d -> entry_ok h todo s' f k l d.
Proof.
  intros X [Hk EO]. split; [exact Hk|]. pose proof (ext_cached s s') as EC. pose proof (ext_ok_cls s s') as OC.
  destruct f as [a|x|x y|w x|x y|x y].
  - exact EO.
  - destruct EO as [lx [Cx E]]. exists lx. eauto.
  - destruct EO as [lx [ly [Cx [Cy E]]]]. exists lx, ly. repeat split; eauto.
  - destruct EO as [[Hd [Hle [lx [Cx E]]]]|[Hd [e [El Pend]]]].
    + left. repeat split; auto. exists lx. split; eauto.
    + right. split; [exact Hd|]. exists e. split; [exact El|].
      destruct (k+1 <=? h); [exact Pend|]. destruct Pend as [P|P]; [now left|right; now apply (ext_pending _ _ X)].
  - destruct EO as [lx [ly [lp [Cx [Cy [Cp E]]]]]]. exists lx, ly, lp. repeat split; eauto.
  - destruct k as [|k'].
    + destruct EO as [ly [Cy E]]. exists ly. eauto.
    + destruct EO as [lx [ly [lp [Cx [Cy [Cp E]]]]]]. exists lx, ly, lp. repeat split; eauto.
Qed.
(* a state update that only touches key (f,k) *)
Lemma Inv_update h todo s s' f k : Inv h todo s -> ext s s' ->
  (forall f' k' l d, (f',k') <> (f,k) -> lookup s' f' k' = Some (l,d) -> lookup s f' k' = Some (l,d)) ->
  (forall l d, lookup s' f k = Some (l,d) -> entry_ok h todo s' f k l d) ->
  Inv h todo s'.
Proof.
  intros I X Old New f' k' l d L. destruct (key_dec f f' k k') as [E|N].
  - inversion E; subst. now apply New.
  - apply (entry_ok_ext h todo s s'); [exact X|]. apply I. now apply Old.
Qed.
(* clause tables mean what they should (in the real development: leaf lemmas over regenerated tables) *)
Lemma forallb_ev_false T v (b:list lit) : forallb (ev T v) b = false <-> exists l, In l b /\ ev T v l = false.
Proof.
  induction b as [|l b IH]; cbn [forallb].
  - split; [discriminate|intros [l [[] _]]].
  - rewrite andb_false_iff, IH. split.
    + intros [E|[l' [Hl E]]]; [exists l; cbn; auto|exists l'; cbn; auto].
    + intros [l' [[<-|Hl] E]]; [now left|right; eauto].
Qed.
Lemma and_cls_spec T v l lx ly : (forall b, In b (and_cls l lx ly) -> forallb (ev T v) b = false) -> ev T v l = ev T v lx && ev T v ly.
Proof.
  intros O. pose proof (O _ (or_introl eq_refl)) as O1. pose proof (O _ (or_intror (or_introl eq_refl))) as O2.
  pose proof (O _ (or_intror (or_intror (or_introl eq_refl)))) as O3.
  cbn [forallb] in O1, O2, O3. rewrite !ev_nlit in *. destruct (ev T v l), (ev T v lx), (ev T v ly); cbn in *; congruence.
Qed.
Lemma tel_cls_spec T v l lx ly lp : (forall b, In b (tel_cls l lx ly lp) -> forallb (ev T v) b = false) -> ev T v l = ev T v ly || (ev T v lx && ev T v lp).
Proof.
  intros O. pose proof (O _ (or_introl eq_refl)) as O1. pose proof (O _ (or_intror (or_introl eq_refl))) as O2.
  pose proof (O _ (or_intror (or_intror (or_introl eq_refl)))) as O3. pose proof (O _ (or_intror (or_intror (or_intror (or_introl eq_refl))))) as O4.
  cbn [forallb] in O1, O2, O3, O4. rewrite !ev_nlit in *. destruct (ev T v l), (ev T v lx), (ev T v ly), (ev T v lp); cbn in *; congruence.
Qed.
Lemma eq_cls_spec T v a b : (forall c, In c (eq_cls a b) -> forallb (ev T v) c = false) -> ev T v a = ev T v b.
Proof.
  intros O. pose proof (O _ (or_introl eq_refl)) as O1. pose proof (O _ (or_intror (or_introl eq_refl))) as O2.
  cbn [forallb] in O1, O2. rewrite !ev_nlit in *. destruct (ev T v a), (ev T v b); cbn in *; congruence.
Qed.
(* ---------------- preservation of the invariant by translate ---------------- *)
Lemma cls_set_add s key cs f k l d : cls (set_cache (add_cls s key cs) f k l d) = cs ++ cls s.
Proof. reflexivity. Qed.
Lemma ext_set_new s key f k l d cs : lookup s f k = None -> ext s (set_cache (add_cls s key cs) f k l d).
Proof.
  intros L. split.
  - intros f' k' l0 d0 E. destruct (key_dec f f' k k') as [Ek|N]; [inversion Ek; subst; congruence|].
    exists d0. split; [|auto]. rewrite lookup_set_other by exact N. exact E.
  - intros b Hb. rewrite cls_set_add. apply in_or_app. now right.
  - intros p Hp. exact Hp.
Qed.
Lemma fin_inv h todo s f k l d cs s' l' : Inv h todo s -> fin s f k l d cs = Some (l', s') ->
  (forall s'', ext s s'' -> s'' = set_cache (add_cls s (f,k) cs) f k l d -> entry_ok h todo s'' f k l d) ->
  l' = l /\ Inv h todo s' /\ ext s s' /\ cached s' f k l.
Proof.
  intros I F EO. unfold fin in F. destruct (lookup s f k) eqn:L; [discriminate|]. inversion F; subst l' s'. clear F.
  set (s' := set_cache (add_cls s (f,k) cs) f k l d).
  assert (ext s s') as X by now apply ext_set_new.
  split; [reflexivity|]. split; [|split; [exact X|exists d; apply lookup_set_same]].
  apply (Inv_update h todo s s' f k I X).
  - intros f' k' l0 d0 N E. unfold s' in E. rewrite lookup_set_other in E by exact N. exact E.
  - intros l0 d0 E. unfold s' in E. rewrite lookup_set_same in E. inversion E; subst. now apply EO.
Qed.
Lemma ok_cls_add T v s key cs f k l d : ok_cls T v (set_cache (add_cls s key cs) f k l d) -> forall b, In b cs -> forallb (ev T v) b = false.
Proof. intros O b Hb. apply O. rewrite cls_set_add. apply in_or_app. now left. Qed.
Lemma fresh_ext s kd key : ext s (snd (fresh s kd key)).
Proof. split; cbn; eauto. Qed.
Lemma add_pending_ext s k f : ext s (add_pending s k f).
Proof. split; cbn; eauto. Qed.
Lemma Inv_ext_same h todo s s' : Inv h todo s -> ext s s' -> (forall f k, lookup s' f k = lookup s f k) -> Inv h todo s'.
Proof. intros I X Same f k l d L. rewrite Same in L. apply (entry_ok_ext h todo s s' f k l d X). now apply I. Qed.
Theorem translate_inv fuel h todo : forall f k s l s', Inv h todo s -> k <= h -> translate fuel h f k s = Some (l, s') ->
  Inv h todo s' /\ ext s s' /\ cached s' f k l.
Proof.
  induction fuel as [|fu IH]; intros f k s l s' I Hk Tr; [discriminate|]. cbn [translate] in Tr.
  destruct (lookup s f k) as [[l0 [|]]|] eqn:L.
  - (* cached and done *) inversion Tr; subst. split; [exact I|]. split; [apply ext_refl|now exists true].
  - (* cached, not done: only Nx can be resolved *)
    destruct f as [a|x|x y|w x|x y|x y]; try (inversion Tr; subst; split; [exact I|]; split; [apply ext_refl|now exists false]).
    destruct (k+1 <=? h) eqn:R.
    + apply Nat.leb_le in R. destruct (translate fu h x (k+1) s) as [[lx s1]|] eqn:Tx; [|discriminate]. inversion Tr; subst l s'. clear Tr.
      destruct (IH x (k+1) s lx s1 I R Tx) as [I1 [X1 Cx]].
      set (s' := set_cache (add_cls s1 (Nx w x, k) (eq_cls l0 lx)) (Nx w x) k l0 true).
      destruct (ext_cache _ _ X1 _ _ _ _ L) as [d1 [L1 _]].
      assert (ext s1 s') as X'.
      { split.
        - intros f' k' l1 d0 E. destruct (key_dec (Nx w x) f' k k') as [Ek|N].
          + inversion Ek; subst. rewrite L1 in E. inversion E; subst. exists true. split; [apply lookup_set_same|auto].
          + exists d0. split; [|auto]. unfold s'. now rewrite lookup_set_other by exact N.
        - intros b Hb. unfold s'. rewrite cls_set_add. apply in_or_app. now right.
        - auto. }
      split; [|split; [eapply ext_trans; eauto|exists true; apply lookup_set_same]].
      apply (Inv_update h todo s1 s' (Nx w x) k I1 X').
      * intros f' k' l1 d0 N E. unfold s' in E. now rewrite lookup_set_other in E by exact N.
      * intros l1 d0 E. unfold s' in E. rewrite lookup_set_same in E. inversion E; subst. split; [exact Hk|]. left.
        repeat split; auto. exists lx. split; [now apply (ext_cached s1 s')|].
        intros T v O. apply eq_cls_spec. intros c Hc. now apply (ok_cls_add T v s1 (Nx w x, k) (eq_cls l1 lx) (Nx w x) k l1 true O).
    + inversion Tr; subst l s'. clear Tr. split; [|split; [apply add_pending_ext|exists false; exact L]].
      apply (Inv_update h todo s (add_pending s k (Nx w x)) (Nx w x) k I (add_pending_ext _ _ _)).
      * intros f' k' l1 d0 _ E. exact E.
      * intros l1 d0 E. change (lookup s (Nx w x) k = Some (l1,d0)) in E. rewrite L in E. inversion E; subst.
        destruct (I _ _ _ _ L) as [_ EO]. split; [exact Hk|].
        destruct EO as [[Hd _]|[_ [e [El Pend]]]]; [discriminate|]. right. split; [reflexivity|]. exists e. split; [exact El|].
        rewrite R in *. right. cbn. now left.
  - (* not cached *)
    destruct f as [a|x|x y|w x|x y|x y].
    + (* At *) destruct (fin_inv h todo s (At a) k _ _ _ _ _ I Tr) as [-> R]; [|exact R].
      intros s'' _ _. split; [exact Hk|reflexivity].
    + (* Neg *) destruct (translate fu h x k s) as [[lx s1]|] eqn:Tx; [|discriminate].
      destruct (IH _ _ _ _ _ I Hk Tx) as [I1 [X1 Cx]].
      destruct (fin_inv h todo s1 (Neg x) k _ _ _ _ _ I1 Tr) as [-> [I' [X' C']]].
      * intros s'' X'' _. split; [exact Hk|]. exists lx. split; [now apply (ext_cached s1 s'')|reflexivity].
      * split; [exact I'|]. split; [eapply ext_trans; eauto|exact C'].
    + (* And *) destruct (translate fu h x k s) as [[lx s1]|] eqn:Tx; [|discriminate].
      destruct (translate fu h y k s1) as [[ly s2]|] eqn:Ty; [|discriminate].
      destruct (IH _ _ _ _ _ I Hk Tx) as [I1 [X1 Cx]]. destruct (IH _ _ _ _ _ I1 Hk Ty) as [I2 [X2 Cy]].
      cbn [fresh] in Tr.
      set (s3 := mkst (S (nxt s2)) ((nxt s2, KChoice) :: kinds s2) (cls s2) (cache s2) (pending s2) ((nxt s2, (And x y, k)) :: owner s2) (groups s2)) in *.
      assert (ext s2 s3) as X3 by (split; cbn; eauto).
      assert (Inv h todo s3) as I3 by (apply (Inv_ext_same h todo s2 s3 I2 X3); reflexivity).
      destruct (fin_inv h todo s3 (And x y) k _ _ _ _ _ I3 Tr) as [-> [I' [X' C']]].
      * intros s'' X'' Es.
        split; [exact Hk|]. exists lx, ly. split; [apply (ext_cached s3 s'' _ _ _ X''), (ext_cached s2 s3 _ _ _ X3), (ext_cached s1 s2 _ _ _ X2), Cx|].
        split; [apply (ext_cached s3 s'' _ _ _ X''), (ext_cached s2 s3 _ _ _ X3), Cy|].
        intros T v O. apply and_cls_spec. intros b Hb. subst s''. now apply (ok_cls_add T v s3 _ _ (And x y) k _ true O).
      * split; [exact I'|]. split; [eapply ext_trans; [exact X1|]; eapply ext_trans; [exact X2|]; eapply ext_trans; eauto|exact C'].
    + (* Nx, new *) destruct (k+1 <=? h) eqn:R.
      * apply Nat.leb_le in R. destruct (translate fu h x (k+1) s) as [[lx s1]|] eqn:Tx; [|discriminate].
        destruct (IH x (k+1) s lx s1 I R Tx) as [I1 [X1 Cx]].
        destruct (fin_inv h todo s1 (Nx w x) k _ _ _ _ _ I1 Tr) as [-> [I' [X' C']]].
        -- intros s'' X'' _. split; [exact Hk|]. left. repeat split; auto. exists lx. split; [now apply (ext_cached s1 s'')|reflexivity].
        -- split; [exact I'|]. split; [eapply ext_trans; eauto|exact C'].
      * cbn [fresh] in Tr.
        set (s1 := mkst (S (nxt s)) ((nxt s, KExt (Some w)) :: kinds s) (cls s) (cache s) (pending s) ((nxt s, (Nx w x, k)) :: owner s) (groups s)) in *.
        set (s2 := add_pending s1 k (Nx w x)) in *.
        assert (ext s s2) as X2 by (split; cbn; eauto).
        assert (Inv h todo s2) as I2 by (apply (Inv_ext_same h todo s s2 I X2); reflexivity).
        destruct (fin_inv h todo s2 (Nx w x) k _ _ _ _ _ I2 Tr) as [-> [I' [X' C']]].
        -- intros s'' X'' _. split; [exact Hk|]. right. split; [reflexivity|]. exists (nxt s). split; [reflexivity|].
           rewrite R. right. apply (ext_pending _ _ X''). cbn. now left.
        -- split; [exact I'|]. split; [eapply ext_trans; eauto|exact C'].
    + (* Un *) destruct (translate fu h (Nx false (Un x y)) k s) as [[lp s0]|] eqn:Tp; [|discriminate].
      destruct (translate fu h x k s0) as [[lx s1]|] eqn:Tx; [|discriminate].
      destruct (translate fu h y k s1) as [[ly s2]|] eqn:Ty; [|discriminate].
      destruct (IH _ _ _ _ _ I Hk Tp) as [I0 [X0 Cp]]. destruct (IH _ _ _ _ _ I0 Hk Tx) as [I1 [X1 Cx]]. destruct (IH _ _ _ _ _ I1 Hk Ty) as [I2 [X2 Cy]].
      cbn [fresh] in Tr.
      set (s3 := mkst (S (nxt s2)) ((nxt s2, KChoice) :: kinds s2) (cls s2) (cache s2) (pending s2) ((nxt s2, (Un x y, k)) :: owner s2) (groups s2)) in *.
      assert (ext s2 s3) as X3 by (split; cbn; eauto).
      assert (Inv h todo s3) as I3 by (apply (Inv_ext_same h todo s2 s3 I2 X3); reflexivity).
      destruct (fin_inv h todo s3 (Un x y) k _ _ _ _ _ I3 Tr) as [-> [I' [X' C']]].
      * intros s'' X'' Es. split; [exact Hk|]. exists lx, ly, lp.
        split; [apply (ext_cached s3 s'' _ _ _ X''), (ext_cached s2 s3 _ _ _ X3), (ext_cached s1 s2 _ _ _ X2), Cx|].
        split; [apply (ext_cached s3 s'' _ _ _ X''), (ext_cached s2 s3 _ _ _ X3), Cy|].
        split; [apply (ext_cached s3 s'' _ _ _ X''), (ext_cached s2 s3 _ _ _ X3), (ext_cached s1 s2 _ _ _ X2), (ext_cached s0 s1 _ _ _ X1), Cp|].
        intros T v O. apply tel_cls_spec. intros b Hb. subst s''. now apply (ok_cls_add T v s3 _ _ (Un x y) k _ true O).
      * split; [exact I'|]. split; [|exact C'].
        eapply ext_trans; [exact X0|]. eapply ext_trans; [exact X1|]. eapply ext_trans; [exact X2|]. eapply ext_trans; eauto.
    + (* Si *) destruct k as [|k'].
      * destruct (translate fu h y 0 s) as [[ly s1]|] eqn:Ty; [|discriminate].
        destruct (IH _ _ _ _ _ I Hk Ty) as [I1 [X1 Cy]].
        destruct (fin_inv h todo s1 (Si x y) 0 _ _ _ _ _ I1 Tr) as [-> [I' [X' C']]].
        -- intros s'' X'' _. split; [exact Hk|]. exists ly. split; [now apply (ext_cached s1 s'')|reflexivity].
        -- split; [exact I'|]. split; [eapply ext_trans; eauto|exact C'].
      * destruct (translate fu h (Si x y) k' s) as [[lp s0]|] eqn:Tp; [|discriminate].
        destruct (translate fu h x (S k') s0) as [[lx s1]|] eqn:Tx; [|discriminate].
        destruct (translate fu h y (S k') s1) as [[ly s2]|] eqn:Ty; [|discriminate].
        assert (k' <= h) as Hk' by lia.
        destruct (IH _ _ _ _ _ I Hk' Tp) as [I0 [X0 Cp]]. destruct (IH _ _ _ _ _ I0 Hk Tx) as [I1 [X1 Cx]]. destruct (IH _ _ _ _ _ I1 Hk Ty) as [I2 [X2 Cy]].
        cbn [fresh] in Tr.
        set (s3 := mkst (S (nxt s2)) ((nxt s2, KChoice) :: kinds s2) (cls s2) (cache s2) (pending s2) ((nxt s2, (Si x y, S k')) :: owner s2) (groups s2)) in *.
        assert (ext s2 s3) as X3 by (split; cbn; eauto).
        assert (Inv h todo s3) as I3 by (apply (Inv_ext_same h todo s2 s3 I2 X3); reflexivity).
        destruct (fin_inv h todo s3 (Si x y) (S k') _ _ _ _ _ I3 Tr) as [-> [I' [X' C']]].
        -- intros s'' X'' Es. split; [exact Hk|]. exists lx, ly, lp.
           split; [apply (ext_cached s3 s'' _ _ _ X''), (ext_cached s2 s3 _ _ _ X3), (ext_cached s1 s2 _ _ _ X2), Cx|].
           split; [apply (ext_cached s3 s'' _ _ _ X''), (ext_cached s2 s3 _ _ _ X3), Cy|].
           split; [apply (ext_cached s3 s'' _ _ _ X''), (ext_cached s2 s3 _ _ _ X3), (ext_cached s1 s2 _ _ _ X2), (ext_cached s0 s1 _ _ _ X1), Cp|].
           intros T v O. apply tel_cls_spec. intros b Hb. subst s''. now apply (ok_cls_add T v s3 _ _ (Si x y) (S k') _ true O).
        -- split; [exact I'|]. split; [|exact C'].
           eapply ext_trans; [exact X0|]. eapply ext_trans; [exact X1|]. eapply ext_trans; [exact X2|]. eapply ext_trans; eauto.
Qed.
(* ---------------- one horizon of Theory.translate ---------------- *)
Lemma nx_resolved_or_requeued fuel h todo w x k s l s' : Inv h todo s -> translate fuel h (Nx w x) k s = Some (l,s') ->
  forall l0, lookup s' (Nx w x) k = Some (l0,false) -> (k+1 <=? h) = false /\ In (k, Nx w x) (pending s').
Proof.
  intros I Tr l0 L'. destruct fuel as [|fu]; [discriminate|]. cbn [translate] in Tr.
  destruct (lookup s (Nx w x) k) as [[l1 [|]]|] eqn:L.
  - inversion Tr; subst. congruence.
  - destruct (k+1 <=? h) eqn:R.
    + destruct (translate fu h x (k+1) s) as [[lx s1]|]; [|discriminate]. inversion Tr; subst. rewrite lookup_set_same in L'. discriminate.
    + inversion Tr; subst. split; [reflexivity|]. cbn. now left.
  - destruct (k+1 <=? h) eqn:R.
    + destruct (translate fu h x (k+1) s) as [[lx s1]|]; [|discriminate]. unfold fin in Tr.
      destruct (lookup s1 (Nx w x) k); [discriminate|]. inversion Tr; subst. rewrite lookup_set_same in L'. discriminate.
    + cbn [fresh] in Tr. unfold fin in Tr. match type of Tr with match ?c with _ => _ end = _ => destruct c end; [discriminate|].
      inversion Tr; subst. split; [reflexivity|]. cbn. now left.
Qed.
Definition neqb (k:nat) (f:bf) (p:nat*bf) : bool := negb ((fst p =? k) && (if bf_eq_dec (snd p) f then true else false)).
Lemma Inv_drop h todo s k f :
  Inv h todo s -> (forall w x l0, f = Nx w x -> lookup s f k = Some (l0,false) -> (k+1 <=? h) = false /\ In (k,f) (pending s)) ->
  Inv h (filter (neqb k f) todo) s.
Proof.
  intros I Hf f' k' l d L. destruct (I _ _ _ _ L) as [Hk EO]. split; [exact Hk|].
  destruct f' as [a|x|x y|w x|x y|x y]; try exact EO.
  destruct EO as [E|[Hd [e [El Pend]]]]; [now left|]. right. split; [exact Hd|]. exists e. split; [exact El|].
  destruct (key_dec f (Nx w x) k k') as [Ek|N].
  - inversion Ek; subst. destruct (Hf w x _ eq_refl L) as [R P]. rewrite R. now right.
  - assert (neqb k f (k', Nx w x) = true) as NB.
    { unfold neqb. cbn. destruct (Nat.eqb_spec k' k) as [->|]; [|reflexivity]. destruct (bf_eq_dec (Nx w x) f) as [<-|]; [congruence|reflexivity]. }
    destruct (k'+1 <=? h).
    + apply filter_In. now split.
    + destruct Pend as [P|P]; [left; apply filter_In; now split|now right].
Qed.
Lemma run_list_inv fuel h : forall r todo s s', Inv h todo s -> (forall p, In p todo -> In p r) -> (forall p, In p r -> fst p <= h) ->
  run_list fuel h r s = Some s' -> Inv h [] s'.
Proof.
  induction r as [|[k f] r IH]; intros todo s s' I Sub Bd Run; cbn [run_list] in Run.
  - inversion Run; subst. destruct todo as [|p t]; [exact I|destruct (Sub p (or_introl eq_refl))].
  - destruct (translate fuel h f k s) as [[l s1]|] eqn:Tr; [|discriminate].
    assert (k <= h) as Hk by (apply (Bd (k,f)); now left).
    destruct (translate_inv fuel h todo f k s l s1 I Hk Tr) as [I1 [X1 C1]].
    apply (IH (filter (neqb k f) todo) s1 s'); [| | |exact Run].
    + apply Inv_drop; [exact I1|]. intros w x l0 -> L0. exact (nx_resolved_or_requeued fuel h todo w x k s l s1 I Tr l0 L0).
    + intros p Hp. apply filter_In in Hp as [Hp NB]. destruct (Sub p Hp) as [<-|Hr]; [|exact Hr].
      unfold neqb in NB. cbn in NB. rewrite Nat.eqb_refl in NB. destruct (bf_eq_dec f f); [discriminate|contradiction].
    + intros p Hp. apply Bd. now right.
Qed.
Theorem theory_translate_inv fuel h s roots s' :
  Inv h [] s -> (forall p, In p (pending s) -> fst p <= S h) -> (forall p, In p roots -> fst p <= S h) ->
  theory_translate fuel (S h) roots s = Some s' -> Inv (S h) [] s'.
Proof.
  intros I Bp Br Run. unfold theory_translate in Run.
  apply (run_list_inv fuel (S h) (rev (pending s) ++ roots) (pending s) (clear_pending s) s' (Inv_next_horizon h s I)); [| |exact Run].
  - intros p Hp. apply in_or_app. left. now apply in_rev in Hp.
  - intros p Hp. apply in_app_or in Hp as [Hp|Hp]; [apply Bp; now apply in_rev|now apply Br].
Qed.
(* the incremental theorem: after any number of horizons, every cached literal has the LTLf value of its formula at the current horizon *)
Corollary C03_incremental fuel h s roots s' T v :
  Inv h [] s -> (forall p, In p (pending s) -> fst p <= S h) -> (forall p, In p roots -> fst p <= S h) ->
  theory_translate fuel (S h) roots s = Some s' -> ok_cls T v s' -> ok_ext v s' ->
  forall f k l, cached s' f k l -> ev T v l = lsat (S h) T f k.
Proof. intros I Bp Br Run Oc Oe. apply (C03_value (S h) s'); auto. eapply theory_translate_inv; eauto. Qed.
(* ================= existence and uniqueness of the auxiliary assignment ================= *)
Definition owner_of (s:st) (n:nat) : option (bf*nat) := option_map snd (find (fun p => fst p =? n) (owner s)).
Definition owned s n f k := owner_of s n = Some (f,k).
(* literal shapes: which entries allocate their own auxiliary atom, which alias another literal *)
Definition syn_ok (h:nat) (s:st) (f:bf) (k:nat) (l:lit) (d:bool) : Prop :=
  match f with
  | At a => l = (true, VU a k)
  | Neg x => exists lx, cached s x k lx /\ l = nlit lx
  | And _ _ | Un _ _ => exists z, l = (true, VX z) /\ owned s z f k
  | Nx w x => (d = true /\ k+1 <= h /\ ((exists lx, cached s x (k+1) lx /\ l = lx) \/ (exists e, l = (true, VX e) /\ owned s e f k)))
              \/ (d = false /\ exists e, l = (true, VX e) /\ owned s e f k)
  | Si x y => match k with 0 => exists ly, cached s y 0 ly /\ l = ly | S _ => exists z, l = (true, VX z) /\ owned s z f k end
  end.
Definition grp_ok (h:nat) (s:st) (key:bf*nat) (grp:list (list lit)) : Prop :=
  let (f,k) := key in
  grp = [] \/
  match f with
  | And x y => exists l lx ly, cached s f k l /\ cached s x k lx /\ cached s y k ly /\ grp = and_cls l lx ly
  | Un x y => exists l lx ly lp, cached s f k l /\ cached s x k lx /\ cached s y k ly /\ cached s (Nx false (Un x y)) k lp /\ grp = tel_cls l lx ly lp
  | Si x y => exists k' l lx ly lp, k = S k' /\ cached s f k l /\ cached s x k lx /\ cached s y k ly /\ cached s (Si x y) k' lp /\ grp = tel_cls l lx ly lp
  | Nx w x => exists l lx, k+1 <= h /\ lookup s f k = Some (l,true) /\ cached s x (k+1) lx /\ grp = eq_cls l lx
  | _ => False
  end.
Record Gh (h:nat) (s:st) : Prop := {
  gh_nxt : 1 <= nxt s;
  gh_range : forall n key, In (n,key) (owner s) -> 1 <= n < nxt s;
  gh_fun : forall n key key', In (n,key) (owner s) -> In (n,key') (owner s) -> key = key';
  gh_all : forall n, 1 <= n < nxt s -> exists key, In (n,key) (owner s);
  gh_entry : forall n f k, In (n,(f,k)) (owner s) -> exists d, lookup s f k = Some ((true, VX n), d);
  gh_syn : forall f k l d, lookup s f k = Some (l,d) -> syn_ok h s f k l d;
  gh_cls : forall b, In b (cls s) -> exists key grp, In (key,grp) (groups s) /\ In b grp;
  gh_grp : forall key grp, In (key,grp) (groups s) -> grp_ok h s key grp }.
Lemma owner_of_in s n key : (forall n key key', In (n,key) (owner s) -> In (n,key') (owner s) -> key = key') -> In (n,key) (owner s) -> owner_of s n = Some key.
Proof.
  intros Fun Hin. unfold owner_of. destruct (find (fun p => fst p =? n) (owner s)) as [[n' key']|] eqn:E.
  - apply find_some in E as [Hin' En]. cbn in En. apply Nat.eqb_eq in En. subst n'. cbn. f_equal. eapply Fun; eauto.
  - exfalso. pose proof (find_none _ _ E _ Hin) as N. cbn in N. now rewrite Nat.eqb_refl in N.
Qed.
Lemma owner_of_some s n key : owner_of s n = Some key -> In (n,key) (owner s).
Proof.
  unfold owner_of. destruct (find (fun p => fst p =? n) (owner s)) as [[n' key']|] eqn:E; [|discriminate].
  apply find_some in E as [Hin En]. cbn in En. apply Nat.eqb_eq in En. subst n'. cbn. now intros [= ->].
Qed.
(* ---- the canonical assignment and the existence theorem ---- *)
Definition vstar (h:nat) (T:trace) (s:st) (n:nat) : bool := match owner_of s n with Some (f,k) => lsat h T f k | None => false end.
Lemma lsat_un_step h T x y k : k <= h -> lsat h T (Un x y) k = lsat h T y k || (lsat h T x k && lsat h T (Nx false (Un x y)) k).
Proof.
  intros Hk. cbn [lsat]. destruct (h-k) as [|d] eqn:E; cbn [fut].
  - assert (k+1 <=? h = false) as -> by (apply Nat.leb_gt; lia). now rewrite andb_false_r, orb_false_r.
  - assert (k+1 <=? h = true) as -> by (apply Nat.leb_le; lia). replace (h-(k+1)) with d by lia. now replace (k+1) with (S k) by lia.
Qed.
Lemma and_cls_holds T v l lx ly : ev T v l = ev T v lx && ev T v ly -> forall b, In b (and_cls l lx ly) -> forallb (ev T v) b = false.
Proof. intros E b [<-|[<-|[<-|[]]]]; cbn [forallb]; rewrite ?ev_nlit, E; destruct (ev T v lx), (ev T v ly); reflexivity. Qed.
Lemma tel_cls_holds T v l lx ly lp : ev T v l = ev T v ly || (ev T v lx && ev T v lp) -> forall b, In b (tel_cls l lx ly lp) -> forallb (ev T v) b = false.
Proof. intros E b [<-|[<-|[<-|[<-|[]]]]]; cbn [forallb]; rewrite ?ev_nlit, E; destruct (ev T v lx), (ev T v ly), (ev T v lp); reflexivity. Qed.
Lemma eq_cls_holds T v a b : ev T v a = ev T v b -> forall c, In c (eq_cls a b) -> forallb (ev T v) c = false.
Proof. intros E c [<-|[<-|[]]]; cbn [forallb]; rewrite ?ev_nlit, E; destruct (ev T v b); reflexivity. Qed.
Lemma vstar_entries h s T : Inv h [] s -> Gh h s -> forall f k l, cached s f k l -> ev T (vstar h T s) l = lsat h T f k.
Proof.
  intros I G f. induction f as [a|x IH|x IHx y IHy|w x IH|x IHx y IHy|x IHx y IHy]; intros k l [d L];
    pose proof (gh_syn h s G _ _ _ _ L) as Sy; cbn [syn_ok] in Sy; destruct (I _ _ _ _ L) as [Hk EO].
  - subst l. reflexivity.
  - destruct Sy as [lx [Cx ->]]. rewrite ev_nlit, (IH _ _ Cx). reflexivity.
  - destruct Sy as [z [-> Ow]]. unfold ev, vstar. cbn. unfold owned in Ow. now rewrite Ow.
  - destruct Sy as [[_ [Hle [[lx [Cx ->]]|[e [-> Ow]]]]]|[_ [e [-> Ow]]]].
    + rewrite (IH _ _ Cx). cbn [lsat]. now assert (k+1 <=? h = true) as -> by now apply Nat.leb_le.
    + unfold ev, vstar. cbn. unfold owned in Ow. now rewrite Ow.
    + unfold ev, vstar. cbn. unfold owned in Ow. now rewrite Ow.
  - destruct Sy as [z [-> Ow]]. unfold ev, vstar. cbn. unfold owned in Ow. now rewrite Ow.
  - destruct k as [|k'].
    + destruct Sy as [ly [Cy ->]]. now rewrite (IHy _ _ Cy).
    + destruct Sy as [z [-> Ow]]. unfold ev, vstar. cbn. unfold owned in Ow. now rewrite Ow.
Qed.
Theorem C03_exists h s T : Inv h [] s -> Gh h s -> ok_cls T (vstar h T s) s /\ ok_ext (vstar h T s) s.
Proof.
  intros I G. pose proof (vstar_entries h s T I G) as E. split.
  - intros b Hb. destruct (gh_cls h s G b Hb) as [[f k] [grp [Hg Hbg]]]. pose proof (gh_grp h s G _ _ Hg) as GO. cbn [grp_ok] in GO.
    destruct GO as [->|GO]; [destruct Hbg|]. destruct f as [a|x|x y|w x|x y|x y]; try contradiction.
    + destruct GO as [l [lx [ly [C [Cx [Cy ->]]]]]]. apply (and_cls_holds T _ l lx ly); [|exact Hbg].
      rewrite (E _ _ _ C), (E _ _ _ Cx), (E _ _ _ Cy). reflexivity.
    + destruct GO as [l [lx [Hle [L [Cx ->]]]]]. apply (eq_cls_holds T _ l lx); [|exact Hbg].
      rewrite (E (Nx w x) k l (ex_intro _ true L)), (E _ _ _ Cx). cbn [lsat]. now assert (k+1 <=? h = true) as -> by now apply Nat.leb_le.
    + destruct GO as [l [lx [ly [lp [C [Cx [Cy [Cp ->]]]]]]]]. apply (tel_cls_holds T _ l lx ly lp); [|exact Hbg].
      destruct C as [d L]. destruct (I _ _ _ _ L) as [Hk _].
      rewrite (E _ _ _ (ex_intro _ d L)), (E _ _ _ Cx), (E _ _ _ Cy), (E _ _ _ Cp). now apply lsat_un_step.
    + destruct GO as [k' [l [lx [ly [lp [-> [C [Cx [Cy [Cp ->]]]]]]]]]]. apply (tel_cls_holds T _ l lx ly lp); [|exact Hbg].
      rewrite (E _ _ _ C), (E _ _ _ Cx), (E _ _ _ Cy), (E _ _ _ Cp). reflexivity.
  - split.
    + unfold vstar. destruct (owner_of s 0) as [[f k]|] eqn:O; [|reflexivity].
      apply owner_of_some in O. pose proof (gh_range h s G _ _ O). lia.
    + intros w x k e L. pose proof (E (Nx w x) k _ (ex_intro _ false L)) as Ee. unfold ev in Ee. cbn in Ee. rewrite Ee.
      destruct (I _ _ _ _ L) as [Hk EO]. destruct EO as [[Hd _]|[_ [e' [_ Pend]]]]; [discriminate|].
      cbn [lsat]. destruct (k+1 <=? h); [destruct Pend|reflexivity].
Qed.
Theorem C03_unique h s T v : Inv h [] s -> Gh h s -> ok_cls T v s -> ok_ext v s -> forall n, n < nxt s -> v n = vstar h T s n.
Proof.
  intros I G Oc Oe n Hn. destruct n as [|n].
  - destruct (C03_exists h s T I G) as [_ [Z _]]. rewrite Z. exact (proj1 Oe).
  - destruct (gh_all h s G (S n) ltac:(lia)) as [[f k] Hin]. destruct (gh_entry h s G _ _ _ Hin) as [d L].
    pose proof (C03_value h s I T v Oc Oe f k _ (ex_intro _ d L)) as V.
    pose proof (vstar_entries h s T I G f k _ (ex_intro _ d L)) as V'. unfold ev in V, V'. cbn in V, V'. congruence.
Qed.
(* ================= preservation of the ghost invariant ================= *)
Lemma syn_ok_mono h s s' f k l d : ext s s' -> (forall z key, owner_of s z = Some key -> owner_of s' z = Some key) ->
  syn_ok h s f k l d -> syn_ok h s' f k l d.
Proof.
  intros X O Sy. pose proof (ext_cached s s') as EC.
  destruct f as [a|x|x y|w x|x y|x y]; cbn [syn_ok] in *; unfold owned in *.
  - exact Sy.
  - destruct Sy as [lx [Cx E]]. eauto.
  - destruct Sy as [z [E Ow]]. eauto.
  - destruct Sy as [[Hd [Hle [[lx [Cx E]]|[e [E Ow]]]]]|[Hd [e [E Ow]]]]; [left|left|right]; repeat split; eauto.
  - destruct Sy as [z [E Ow]]. eauto.
  - destruct k; [destruct Sy as [ly [Cy E]]; eauto|destruct Sy as [z [E Ow]]; eauto].
Qed.
Lemma grp_ok_mono h s s' key grp : ext s s' -> grp_ok h s key grp -> grp_ok h s' key grp.
Proof.
  intros X. pose proof (ext_cached s s') as EC. destruct key as [f k]. cbn [grp_ok]. intros [E|GO]; [now left|right].
  destruct f as [a|x|x y|w x|x y|x y]; try contradiction.
  - destruct GO as [l [lx [ly [C [Cx [Cy E]]]]]]. exists l, lx, ly. repeat split; eauto.
  - destruct GO as [l [lx [Hle [L [Cx E]]]]]. exists l, lx. repeat split; eauto.
    destruct (ext_cache _ _ X _ _ _ _ L) as [d' [L' Hd]]. now rewrite (Hd eq_refl) in L'.
  - destruct GO as [l [lx [ly [lp [C [Cx [Cy [Cp E]]]]]]]]. exists l, lx, ly, lp. repeat split; eauto.
  - destruct GO as [k' [l [lx [ly [lp [Ek [C [Cx [Cy [Cp E]]]]]]]]]]. exists k', l, lx, ly, lp. repeat split; eauto.
Qed.
Lemma owner_of_cons_other s n key z : z <> n -> option_map snd (find (fun p => fst p =? z) ((n,key) :: owner s)) = owner_of s z.
Proof. intros N. cbn [find fst]. destruct (Nat.eqb_spec n z); [congruence|reflexivity]. Qed.
(* (c1)/(c2): a new entry, possibly with a freshly allocated auxiliary atom *)
Lemma Gh_new_entry h s s' f k l d cs (alloc:bool) :
  Gh h s -> lookup s f k = None -> ext s s' ->
  nxt s' = (if alloc then S (nxt s) else nxt s) ->
  owner s' = (if alloc then [(nxt s,(f,k))] else []) ++ owner s ->
  groups s' = ((f,k),cs) :: groups s -> cls s' = cs ++ cls s ->
  (forall f' k', (f',k') <> (f,k) -> lookup s' f' k' = lookup s f' k') -> lookup s' f k = Some (l,d) ->
  (alloc = true -> l = (true, VX (nxt s))) ->
  syn_ok h s' f k l d -> grp_ok h s' (f,k) cs -> Gh h s'.
Proof.
  intros G L X En Eo Eg Ec Oth New Al Sy Go.
  assert (forall z key, owner_of s z = Some key -> owner_of s' z = Some key) as OM.
  { intros z key O. apply owner_of_some in O. pose proof (gh_range h s G _ _ O) as R. unfold owner_of. rewrite Eo.
    destruct alloc; cbn [app]; [rewrite owner_of_cons_other by lia|]; now apply owner_of_in; [apply (gh_fun h s G)|]. }
  split.
  - pose proof (gh_nxt h s G). rewrite En. destruct alloc; lia.
  - intros n key Hin. rewrite Eo in Hin. rewrite En. destruct alloc; cbn [app] in Hin.
    + destruct Hin as [E|Hin]; [inversion E; subst; pose proof (gh_nxt h s G); lia|pose proof (gh_range h s G _ _ Hin); lia].
    + apply (gh_range h s G _ _ Hin).
  - intros n key key' H1 H2. rewrite Eo in H1, H2. destruct alloc; cbn [app] in H1, H2; [|now apply (gh_fun h s G n)].
    destruct H1 as [E1|H1], H2 as [E2|H2].
    + congruence.
    + inversion E1; subst. pose proof (gh_range h s G _ _ H2). lia.
    + inversion E2; subst. pose proof (gh_range h s G _ _ H1). lia.
    + now apply (gh_fun h s G n).
  - intros n Hn. rewrite En in Hn. rewrite Eo. destruct alloc; cbn [app].
    + destruct (Nat.eq_dec n (nxt s)) as [->|N]; [exists (f,k); now left|].
      destruct (gh_all h s G n ltac:(lia)) as [key Hin]. exists key. now right.
    + now apply (gh_all h s G).
  - intros n f' k' Hin. rewrite Eo in Hin.
    assert (In (n,(f',k')) (owner s) -> exists d0, lookup s' f' k' = Some ((true, VX n), d0)) as Old.
    { intros Hin'. destruct (gh_entry h s G _ _ _ Hin') as [d0 L0]. exists d0. rewrite Oth; [exact L0|]. intros E. inversion E; subst. congruence. }
    destruct alloc; cbn [app] in Hin; [|now apply Old].
    destruct Hin as [E|Hin]; [|now apply Old]. inversion E; subst. exists d. rewrite New. f_equal. f_equal. now apply Al.
  - intros f' k' l' d' L'. destruct (key_dec f f' k k') as [E|N].
    + inversion E; subst. rewrite New in L'. inversion L'; subst. exact Sy.
    + rewrite Oth in L' by exact N. apply (syn_ok_mono h s s' _ _ _ _ X OM). now apply (gh_syn h s G).
  - intros b Hb. rewrite Ec in Hb. rewrite Eg. apply in_app_or in Hb as [Hb|Hb].
    + exists (f,k), cs. split; [now left|exact Hb].
    + destruct (gh_cls h s G b Hb) as [key [grp [Hg Hbg]]]. exists key, grp. split; [now right|exact Hbg].
  - intros key grp Hg. rewrite Eg in Hg. destruct Hg as [E|Hg].
    + inversion E; subst. exact Go.
    + apply (grp_ok_mono h s s' _ _ X). now apply (gh_grp h s G).
Qed.
(* (c3): resolving a placeholder *)
Lemma Gh_resolve h s1 w x k l d1 lx :
  Gh h s1 -> lookup s1 (Nx w x) k = Some (l,d1) -> k+1 <= h -> cached s1 x (k+1) lx ->
  Gh h (set_cache (add_cls s1 (Nx w x, k) (eq_cls l lx)) (Nx w x) k l true).
Proof.
  intros G L1 Hle Cx. set (s' := set_cache (add_cls s1 (Nx w x, k) (eq_cls l lx)) (Nx w x) k l true).
  assert (ext s1 s') as X.
  { split.
    - intros f' k' l1 d0 E. destruct (key_dec (Nx w x) f' k k') as [Ek|N].
      + inversion Ek; subst. rewrite L1 in E. inversion E; subst. exists true. split; [apply lookup_set_same|auto].
      + exists d0. split; [|auto]. unfold s'. now rewrite lookup_set_other by exact N.
    - intros b Hb. unfold s'. rewrite cls_set_add. apply in_or_app. now right.
    - auto. }
  assert (forall z key, owner_of s1 z = Some key -> owner_of s' z = Some key) as OM by (intros z key O; exact O).
  split.
  - apply (gh_nxt h s1 G).
  - apply (gh_range h s1 G).
  - apply (gh_fun h s1 G).
  - apply (gh_all h s1 G).
  - intros n f' k' Hin. destruct (gh_entry h s1 G _ _ _ Hin) as [d0 L0]. destruct (key_dec (Nx w x) f' k k') as [E|N].
    + inversion E; subst. rewrite L1 in L0. inversion L0; subst. exists true. apply lookup_set_same.
    + exists d0. unfold s'. now rewrite lookup_set_other by exact N.
  - intros f' k' l' d' L'. destruct (key_dec (Nx w x) f' k k') as [E|N].
    + inversion E; subst. unfold s' in L'. rewrite lookup_set_same in L'. inversion L'; subst.
      pose proof (gh_syn h s1 G _ _ _ _ L1) as Sy. cbn [syn_ok] in *. left. split; [reflexivity|]. split; [exact Hle|].
      destruct Sy as [[_ [_ [[ly [Cy E']]|[e [E' Ow]]]]]|[_ [e [E' Ow]]]].
      * left. exists ly. split; [now apply (ext_cached s1 s')|exact E'].
      * right. exists e. split; [exact E'|exact Ow].
      * right. exists e. split; [exact E'|exact Ow].
    + unfold s' in L'. rewrite lookup_set_other in L' by exact N. apply (syn_ok_mono h s1 s' _ _ _ _ X OM). now apply (gh_syn h s1 G).
  - intros b Hb. unfold s' in Hb. rewrite cls_set_add in Hb. apply in_app_or in Hb as [Hb|Hb].
    + exists (Nx w x, k), (eq_cls l lx). split; [now left|exact Hb].
    + destruct (gh_cls h s1 G b Hb) as [key [grp [Hg Hbg]]]. exists key, grp. split; [now right|exact Hbg].
  - intros key grp Hg. destruct Hg as [E|Hg].
    + inversion E; subst. cbn [grp_ok]. right. exists l, lx. split; [exact Hle|]. split; [apply lookup_set_same|]. split; [now apply (ext_cached s1 s')|reflexivity].
    + apply (grp_ok_mono h s1 s' _ _ X). now apply (gh_grp h s1 G).
Qed.
Lemma Gh_add_pending h s k f : Gh h s -> Gh h (add_pending s k f).
Proof.
  intros G. assert (ext s (add_pending s k f)) as X by apply add_pending_ext. split.
  - apply (gh_nxt h s G). - apply (gh_range h s G). - apply (gh_fun h s G). - apply (gh_all h s G). - apply (gh_entry h s G).
  - intros f' k' l d L. apply (syn_ok_mono h s _ _ _ _ _ X (fun z key O => O)). now apply (gh_syn h s G).
  - apply (gh_cls h s G).
  - intros key grp Hg. apply (grp_ok_mono h s _ _ _ X). now apply (gh_grp h s G).
Qed.
Lemma Gh_next_horizon h s : Gh h s -> Gh (S h) (clear_pending s).
Proof.
  intros G. split.
  - apply (gh_nxt h s G). - apply (gh_range h s G). - apply (gh_fun h s G). - apply (gh_all h s G). - apply (gh_entry h s G).
  - intros f k l d L. pose proof (gh_syn h s G f k l d L) as Sy. destruct f as [a|x|x y|w x|x y|x y]; try exact Sy.
    cbn [syn_ok] in *. destruct Sy as [[Hd [Hle R]]|R]; [left; repeat split; auto; lia|right; exact R].
  - apply (gh_cls h s G).
  - intros [f k] grp Hg. pose proof (gh_grp h s G _ _ Hg) as GO. cbn [grp_ok] in *. destruct GO as [E|GO]; [now left|right].
    destruct f as [a|x|x y|w x|x y|x y]; try exact GO.
    destruct GO as [l [lx [Hle R]]]. exists l, lx. split; [lia|exact R].
Qed.
Lemma Gh_init h : Gh h init.
Proof.
  split.
  - cbn. lia.
  - intros n key []. - intros n key key' []. - cbn. intros n Hn. exfalso. lia. - intros n f k [].
  - intros f k l d L. unfold lookup in L. cbn in L. discriminate.
  - intros b []. - intros key grp [].
Qed.
Lemma owned_head s' n f k rest : owner s' = (n,(f,k)) :: rest -> owned s' n f k.
Proof. intros E. unfold owned, owner_of. rewrite E. cbn [find fst]. now rewrite Nat.eqb_refl. Qed.
Lemma fin_some s f k l d cs l' s' : fin s f k l d cs = Some (l', s') -> lookup s f k = None /\ l' = l /\ s' = set_cache (add_cls s (f,k) cs) f k l d.
Proof. unfold fin. destruct (lookup s f k); [discriminate|]. intros E. inversion E. auto. Qed.
Theorem translate_gh fuel h todo : forall f k s l s', Inv h todo s -> Gh h s -> k <= h -> translate fuel h f k s = Some (l, s') -> Gh h s'.
Proof.
  induction fuel as [|fu IH]; intros f k s l s' I G Hk Tr; [discriminate|]. cbn [translate] in Tr.
  destruct (lookup s f k) as [[l0 [|]]|] eqn:L.
  - inversion Tr; subst. exact G.
  - destruct f as [a|x|x y|w x|x y|x y]; try (inversion Tr; subst; exact G).
    destruct (k+1 <=? h) eqn:R.
    + apply Nat.leb_le in R. destruct (translate fu h x (k+1) s) as [[lx s1]|] eqn:Tx; [|discriminate]. inversion Tr; subst l s'. clear Tr.
      destruct (translate_inv fu h todo x (k+1) s lx s1 I R Tx) as [I1 [X1 Cx]].
      pose proof (IH _ _ _ _ _ I G R Tx) as G1.
      destruct (ext_cache _ _ X1 _ _ _ _ L) as [d1 [L1 _]].
      now apply (Gh_resolve h s1 w x k l0 d1 lx).
    + inversion Tr; subst. now apply Gh_add_pending.
  - destruct f as [a|x|x y|w x|x y|x y].
    + (* At *) apply fin_some in Tr as [Ln [-> ->]].
      apply (Gh_new_entry h s _ (At a) k (true, VU a k) true [] false G Ln (ext_set_new s _ _ _ _ _ _ Ln)); try reflexivity.
      * intros f' k' N. rewrite lookup_set_other by exact N. reflexivity.
      * apply lookup_set_same.
      * discriminate.
      * now left.
    + (* Neg *) destruct (translate fu h x k s) as [[lx s1]|] eqn:Tx; [|discriminate].
      destruct (translate_inv fu h todo x k s lx s1 I Hk Tx) as [I1 [X1 Cx]]. pose proof (IH _ _ _ _ _ I G Hk Tx) as G1.
      apply fin_some in Tr as [Ln [-> ->]]. pose proof (ext_set_new s1 (Neg x, k) (Neg x) k (nlit lx) true [] Ln) as X'.
      apply (Gh_new_entry h s1 _ (Neg x) k (nlit lx) true [] false G1 Ln X'); try reflexivity.
      * intros f' k' N. rewrite lookup_set_other by exact N. reflexivity.
      * apply lookup_set_same.
      * discriminate.
      * cbn [syn_ok]. exists lx. split; [now apply (ext_cached s1 _ _ _ _ X')|reflexivity].
      * now left.
    + (* And *) destruct (translate fu h x k s) as [[lx s1]|] eqn:Tx; [|discriminate].
      destruct (translate fu h y k s1) as [[ly s2]|] eqn:Ty; [|discriminate].
      destruct (translate_inv fu h todo x k s lx s1 I Hk Tx) as [I1 [X1 Cx]]. pose proof (IH _ _ _ _ _ I G Hk Tx) as G1.
      destruct (translate_inv fu h todo y k s1 ly s2 I1 Hk Ty) as [I2 [X2 Cy]]. pose proof (IH _ _ _ _ _ I1 G1 Hk Ty) as G2.
      cbn [fresh] in Tr.
      set (s3 := mkst (S (nxt s2)) ((nxt s2, KChoice) :: kinds s2) (cls s2) (cache s2) (pending s2) ((nxt s2, (And x y, k)) :: owner s2) (groups s2)) in *.
      apply fin_some in Tr as [Ln [-> ->]]. change (lookup s2 (And x y) k = None) in Ln.
      assert (ext s2 s3) as X3 by (split; cbn; eauto).
      set (lz := (true, VX (nxt s2))) in *. set (s' := set_cache (add_cls s3 (And x y, k) (and_cls lz lx ly)) (And x y) k lz true).
      assert (ext s2 s') as X' by (eapply ext_trans; [exact X3|apply ext_set_new; exact Ln]).
      apply (Gh_new_entry h s2 s' (And x y) k lz true (and_cls lz lx ly) true G2 Ln X'); try reflexivity.
      * intros f' k' N. unfold s'. rewrite lookup_set_other by exact N. reflexivity.
      * apply lookup_set_same.
      * cbn [syn_ok]. exists (nxt s2). split; [reflexivity|]. now apply (owned_head s' _ _ _ (owner s2)).
      * cbn [grp_ok]. right. exists lz, lx, ly. split; [exists true; apply lookup_set_same|].
        split; [apply (ext_cached s2 s' _ _ _ X'), (ext_cached s1 s2 _ _ _ X2), Cx|]. split; [apply (ext_cached s2 s' _ _ _ X'), Cy|reflexivity].
    + (* Nx *) destruct (k+1 <=? h) eqn:R.
      * apply Nat.leb_le in R. destruct (translate fu h x (k+1) s) as [[lx s1]|] eqn:Tx; [|discriminate].
        destruct (translate_inv fu h todo x (k+1) s lx s1 I R Tx) as [I1 [X1 Cx]]. pose proof (IH _ _ _ _ _ I G R Tx) as G1.
        apply fin_some in Tr as [Ln [-> ->]]. pose proof (ext_set_new s1 (Nx w x, k) (Nx w x) k lx true [] Ln) as X'.
        apply (Gh_new_entry h s1 _ (Nx w x) k lx true [] false G1 Ln X'); try reflexivity.
        -- intros f' k' N. rewrite lookup_set_other by exact N. reflexivity.
        -- apply lookup_set_same.
        -- discriminate.
        -- cbn [syn_ok]. left. split; [reflexivity|]. split; [exact R|]. left. exists lx. split; [now apply (ext_cached s1 _ _ _ _ X')|reflexivity].
        -- now left.
      * cbn [fresh] in Tr.
        set (s1 := mkst (S (nxt s)) ((nxt s, KExt (Some w)) :: kinds s) (cls s) (cache s) (pending s) ((nxt s, (Nx w x, k)) :: owner s) (groups s)) in *.
        set (s2 := add_pending s1 k (Nx w x)) in *.
        apply fin_some in Tr as [Ln [-> ->]]. change (lookup s (Nx w x) k = None) in Ln.
        assert (ext s s2) as X2 by (split; cbn; eauto).
        set (le := (true, VX (nxt s))) in *. set (s' := set_cache (add_cls s2 (Nx w x, k) []) (Nx w x) k le false).
        assert (ext s s') as X' by (eapply ext_trans; [exact X2|apply ext_set_new; exact Ln]).
        apply (Gh_new_entry h s s' (Nx w x) k le false [] true G Ln X'); try reflexivity.
        -- intros f' k' N. unfold s'. rewrite lookup_set_other by exact N. reflexivity.
        -- apply lookup_set_same.
        -- cbn [syn_ok]. right. split; [reflexivity|]. exists (nxt s). split; [reflexivity|]. now apply (owned_head s' _ _ _ (owner s)).
        -- now left.
    + (* Un *) destruct (translate fu h (Nx false (Un x y)) k s) as [[lp s0]|] eqn:Tp; [|discriminate].
      destruct (translate fu h x k s0) as [[lx s1]|] eqn:Tx; [|discriminate].
      destruct (translate fu h y k s1) as [[ly s2]|] eqn:Ty; [|discriminate].
      destruct (translate_inv fu h todo _ k s lp s0 I Hk Tp) as [I0 [X0 Cp]]. pose proof (IH _ _ _ _ _ I G Hk Tp) as G0.
      destruct (translate_inv fu h todo x k s0 lx s1 I0 Hk Tx) as [I1 [X1 Cx]]. pose proof (IH _ _ _ _ _ I0 G0 Hk Tx) as G1.
      destruct (translate_inv fu h todo y k s1 ly s2 I1 Hk Ty) as [I2 [X2 Cy]]. pose proof (IH _ _ _ _ _ I1 G1 Hk Ty) as G2.
      cbn [fresh] in Tr.
      set (s3 := mkst (S (nxt s2)) ((nxt s2, KChoice) :: kinds s2) (cls s2) (cache s2) (pending s2) ((nxt s2, (Un x y, k)) :: owner s2) (groups s2)) in *.
      apply fin_some in Tr as [Ln [-> ->]]. change (lookup s2 (Un x y) k = None) in Ln.
      assert (ext s2 s3) as X3 by (split; cbn; eauto).
      set (lz := (true, VX (nxt s2))) in *. set (s' := set_cache (add_cls s3 (Un x y, k) (tel_cls lz lx ly lp)) (Un x y) k lz true).
      assert (ext s2 s') as X' by (eapply ext_trans; [exact X3|apply ext_set_new; exact Ln]).
      apply (Gh_new_entry h s2 s' (Un x y) k lz true (tel_cls lz lx ly lp) true G2 Ln X'); try reflexivity.
      * intros f' k' N. unfold s'. rewrite lookup_set_other by exact N. reflexivity.
      * apply lookup_set_same.
      * cbn [syn_ok]. exists (nxt s2). split; [reflexivity|]. now apply (owned_head s' _ _ _ (owner s2)).
      * cbn [grp_ok]. right. exists lz, lx, ly, lp. split; [exists true; apply lookup_set_same|].
        split; [apply (ext_cached s2 s' _ _ _ X'), (ext_cached s1 s2 _ _ _ X2), Cx|]. split; [apply (ext_cached s2 s' _ _ _ X'), Cy|].
        split; [apply (ext_cached s2 s' _ _ _ X'), (ext_cached s1 s2 _ _ _ X2), (ext_cached s0 s1 _ _ _ X1), Cp|reflexivity].
    + (* Si *) destruct k as [|k'].
      * destruct (translate fu h y 0 s) as [[ly s1]|] eqn:Ty; [|discriminate].
        destruct (translate_inv fu h todo y 0 s ly s1 I Hk Ty) as [I1 [X1 Cy]]. pose proof (IH _ _ _ _ _ I G Hk Ty) as G1.
        apply fin_some in Tr as [Ln [-> ->]]. pose proof (ext_set_new s1 (Si x y, 0) (Si x y) 0 ly true [] Ln) as X'.
        apply (Gh_new_entry h s1 _ (Si x y) 0 ly true [] false G1 Ln X'); try reflexivity.
        -- intros f' k' N. rewrite lookup_set_other by exact N. reflexivity.
        -- apply lookup_set_same.
        -- discriminate.
        -- cbn [syn_ok]. exists ly. split; [now apply (ext_cached s1 _ _ _ _ X')|reflexivity].
        -- now left.
      * destruct (translate fu h (Si x y) k' s) as [[lp s0]|] eqn:Tp; [|discriminate].
        destruct (translate fu h x (S k') s0) as [[lx s1]|] eqn:Tx; [|discriminate].
        destruct (translate fu h y (S k') s1) as [[ly s2]|] eqn:Ty; [|discriminate].
        assert (k' <= h) as Hk' by lia.
        destruct (translate_inv fu h todo _ k' s lp s0 I Hk' Tp) as [I0 [X0 Cp]]. pose proof (IH _ _ _ _ _ I G Hk' Tp) as G0.
        destruct (translate_inv fu h todo x (S k') s0 lx s1 I0 Hk Tx) as [I1 [X1 Cx]]. pose proof (IH _ _ _ _ _ I0 G0 Hk Tx) as G1.
        destruct (translate_inv fu h todo y (S k') s1 ly s2 I1 Hk Ty) as [I2 [X2 Cy]]. pose proof (IH _ _ _ _ _ I1 G1 Hk Ty) as G2.
        cbn [fresh] in Tr.
        set (s3 := mkst (S (nxt s2)) ((nxt s2, KChoice) :: kinds s2) (cls s2) (cache s2) (pending s2) ((nxt s2, (Si x y, S k')) :: owner s2) (groups s2)) in *.
        apply fin_some in Tr as [Ln [-> ->]]. change (lookup s2 (Si x y) (S k') = None) in Ln.
        assert (ext s2 s3) as X3 by (split; cbn; eauto).
        set (lz := (true, VX (nxt s2))) in *. set (s' := set_cache (add_cls s3 (Si x y, S k') (tel_cls lz lx ly lp)) (Si x y) (S k') lz true).
        assert (ext s2 s') as X' by (eapply ext_trans; [exact X3|apply ext_set_new; exact Ln]).
        apply (Gh_new_entry h s2 s' (Si x y) (S k') lz true (tel_cls lz lx ly lp) true G2 Ln X'); try reflexivity.
        -- intros f' k'' N. unfold s'. rewrite lookup_set_other by exact N. reflexivity.
        -- apply lookup_set_same.
        -- cbn [syn_ok]. exists (nxt s2). split; [reflexivity|]. now apply (owned_head s' _ _ _ (owner s2)).
        -- cbn [grp_ok]. right. exists k', lz, lx, ly, lp. split; [reflexivity|]. split; [exists true; apply lookup_set_same|].
           split; [apply (ext_cached s2 s' _ _ _ X'), (ext_cached s1 s2 _ _ _ X2), Cx|]. split; [apply (ext_cached s2 s' _ _ _ X'), Cy|].
           split; [apply (ext_cached s2 s' _ _ _ X'), (ext_cached s1 s2 _ _ _ X2), (ext_cached s0 s1 _ _ _ X1), Cp|reflexivity].
Qed.
Lemma run_list_both fuel h : forall r todo s s', Inv h todo s -> Gh h s -> (forall p, In p todo -> In p r) -> (forall p, In p r -> fst p <= h) ->
  run_list fuel h r s = Some s' -> Inv h [] s' /\ Gh h s'.
Proof.
  induction r as [|[k f] r IH]; intros todo s s' I G Sub Bd Run; cbn [run_list] in Run.
  - inversion Run; subst. split; [|exact G]. destruct todo as [|p t]; [exact I|destruct (Sub p (or_introl eq_refl))].
  - destruct (translate fuel h f k s) as [[l s1]|] eqn:Tr; [|discriminate].
    assert (k <= h) as Hk by (apply (Bd (k,f)); now left).
    destruct (translate_inv fuel h todo f k s l s1 I Hk Tr) as [I1 [X1 C1]].
    pose proof (translate_gh fuel h todo f k s l s1 I G Hk Tr) as G1.
    apply (IH (filter (neqb k f) todo) s1 s'); [| | | |exact Run].
    + apply Inv_drop; [exact I1|]. intros w x l0 -> L0. exact (nx_resolved_or_requeued fuel h todo w x k s l s1 I Tr l0 L0).
    + exact G1.
    + intros p Hp. apply filter_In in Hp as [Hp NB]. destruct (Sub p Hp) as [<-|Hr]; [|exact Hr].
      unfold neqb in NB. cbn in NB. rewrite Nat.eqb_refl in NB. destruct (bf_eq_dec f f); [discriminate|contradiction].
    + intros p Hp. apply Bd. now right.
Qed.
(* The whole story for one more horizon: after Theory.translate at horizon S h, for every trace T there is exactly one assignment
   of the auxiliary atoms that satisfies the emitted constraints and external values, and under it every cached literal has the
   LTLf value of its formula at horizon S h. *)
Theorem C03_definitional_extension fuel h s roots s' :
  Inv h [] s -> Gh h s -> (forall p, In p (pending s) -> fst p <= S h) -> (forall p, In p roots -> fst p <= S h) ->
  theory_translate fuel (S h) roots s = Some s' ->
  Inv (S h) [] s' /\ Gh (S h) s' /\
  forall T, (ok_cls T (vstar (S h) T s') s' /\ ok_ext (vstar (S h) T s') s')
         /\ (forall v, ok_cls T v s' -> ok_ext v s' -> (forall n, n < nxt s' -> v n = vstar (S h) T s' n)
                       /\ forall f k l, cached s' f k l -> ev T v l = lsat (S h) T f k).
Proof.
  intros I G Bp Br Run. unfold theory_translate in Run.
  destruct (run_list_both fuel (S h) (rev (pending s) ++ roots) (pending s) (clear_pending s) s' (Inv_next_horizon h s I) (Gh_next_horizon h s G)) as [I' G']; [| |exact Run|].
  - intros p Hp. apply in_or_app. left. now apply in_rev in Hp.
  - intros p Hp. apply in_app_or in Hp as [Hp|Hp]; [apply Bp; now apply in_rev|now apply Br].
  - split; [exact I'|]. split; [exact G'|]. intros T. split; [now apply C03_exists|].
    intros v Oc Oe. split; [now apply (C03_unique (S h) s' T v)|now apply (C03_value (S h) s')].
Qed.
End BT.

