(* Model of the program transformer (transformers/program.py, term.py, __init__.py transform) on the fragment of C01 + C02: normal rules
   (head atom possibly with trailing primes = future head), disjunctions, choice rules and constraints over atoms with leading / trailing primes,
   initially atoms, &initial / &final, in the parts initial / always / dynamic / final.  Definitions only (extracted, driver command `ftr`);
   every decision about an atom is Ctx.decide, i.e. the decisions REGENERATED from TermTransformer.__get_param and the context flags, and the
   test that moves a look-ahead constraint into its own program parts is the regenerated lookahead_part_gen.
   Output: the rewritten rules in input order with the part in force, the future predicates (sorted, without repetition: one bridge rule and one
   future signature each), the look-ahead constraints grouped by (part, depth) in order of first use - each with its temporary copy
   (`__final(__u)` appended) and its permanent copy - and the list of parts to ground with their offsets. *)
From Coq Require Import List Bool Arith ZArith Lia.
Require Import GenPrelude FromTransformers Ctx.
Import ListNotations.
Section Fut.
Variable A : Type.
Variable leA : A -> A -> bool.                       (* the order of sorted(future_predicates) on (name, arity, sign) *)
Inductive fsgn := FPos | FNeg | FNegNeg.
Inductive fbatom := FAt (a : A) (lead trail : nat) | FInit (a : A) | FKwI | FKwF | FTel.          (* FTel: a &tel / &del atom (its formula is not looked at here) *)
Inductive fhead := FNorm (a : A) (trail : nat) | FDisj (l : list A) | FChoice (l : list A) | FCons | FTelHead.        (* FTelHead: the head is one &tel atom *)
Inductive fpart := FInitial | FAlways | FDynamic | FFinal.
Record frule := { fp : fpart; fh : fhead; fb : list (fsgn * fbatom) }.
(* rewritten rules *)
Inductive qterm := QRel (z : Z) | QZero.             (* __t + z  |  0 *)
Inductive qatom := QU (a : A) (tm : qterm) | QFut (a : A) (n : nat) (tm : qterm) | QI | QF | QFU | QTel.      (* &tel(__t) {..}; p(tm) | __future_p(n,tm) | __initial(__t) | __final(__t) | __final(__u) *)
Inductive qhead := QHAtom (p : qatom) | QHDisj (l : list A) | QHChoice (l : list A) | QHCons | QHAux (k : nat).       (* __aux_k(__t): stands for the k-th head formula *)
Record qrule := { qh : qhead; qb : list (fsgn * qatom) }.
Inductive oroot := ORInitial | ORAlways | ORDynamic.
Inductive okind := KMain | KTmp (L : nat) | KPerm (L : nat).       (* part `root`, `root_0_{L-1}`, `root_L` *)
Definition root_of (p : fpart) : oroot := match p with FInitial => ORInitial | FAlways => ORAlways | FDynamic => ORDynamic | FFinal => ORAlways end.
Definition is_final (p : fpart) : bool := match p with FFinal => true | _ => false end.
(* the statement shape is_constraint / is_normal look at *)
Definition shape_of (h : fhead) : shape :=
  match h with
  | FNorm _ _ => {| is_rule := true; head_is_literal := true; atom_is_boolconst := false; atom_is_symbolic := true; value := false; nosign := true |}
  | FCons => {| is_rule := true; head_is_literal := true; atom_is_boolconst := true; atom_is_symbolic := false; value := false; nosign := true |}
  | FTelHead => {| is_rule := true; head_is_literal := true; atom_is_boolconst := false; atom_is_symbolic := false; value := false; nosign := true |}
  | _ => {| is_rule := true; head_is_literal := false; atom_is_boolconst := false; atom_is_symbolic := false; value := false; nosign := true |}
  end.
Definition tr_time (ts : Z) (tz : bool) : qterm := if tz then QZero else QRel ts.
Definition is_pos (s : fsgn) : bool := match s with FPos => true | _ => false end.
(* a body literal: the rewritten literal and its contribution to the look-ahead depth of the rule *)
Definition tr_blit (sh : shape) (l : fsgn * fbatom) : option ((fsgn * qatom) * nat) :=
  let (s, b) := l in
  match b with
  | FAt a lead trail =>
      match decide sh (BodyLit (is_pos s)) lead 1 trail false with
      | Accept false la ts tz => Some ((s, QU a (tr_time ts tz)), if la then Z.to_nat ts else 0)
      | _ => None
      end
  | FInit a =>
      match decide sh (BodyLit (is_pos s)) 0 1 0 true with
      | Accept false la ts tz => Some ((s, QU a (tr_time ts tz)), if la then Z.to_nat ts else 0)
      | _ => None
      end
  | FKwI => Some ((s, QI), 0)
  | FKwF => Some ((s, QF), 0)
  | FTel =>      (* visit_TheoryAtom: accepted behind default negation or in a constraint (regenerated test), the term gets the time parameter *)
      match is_constraint_gen (is_rule sh) (head_is_literal sh) (atom_is_boolconst sh) (atom_is_symbolic sh) (value sh) (nosign sh) with
      | Some c => match tel_ctx_reject_gen (negb (is_pos s)) c with Some false => Some ((s, QTel), 0) | _ => None end
      | None => None
      end
  end.
Fixpoint tr_body (sh : shape) (l : list (fsgn * fbatom)) : option (list (fsgn * qatom) * nat) :=
  match l with
  | [] => Some ([], 0)
  | x :: r => match tr_blit sh x, tr_body sh r with Some (y, m), Some (ys, n) => Some (y :: ys, Nat.max m n) | _, _ => None end
  end.
Definition plain_elem (sh : shape) : bool := match decide sh (HeadElem true) 0 1 0 false with Accept false false 0%Z false => true | _ => false end.
Definition tr_head (h : fhead) : option (qhead * list (A * nat)) :=
  let sh := shape_of h in
  match h with
  | FNorm a n =>
      match decide sh HeadLit 0 1 n false with
      | Accept ren false ts tz => Some (QHAtom (if ren then QFut a n (tr_time ts tz) else QU a (tr_time ts tz)), if ren then [(a, n)] else [])
      | _ => None
      end
  | FDisj l => if plain_elem sh then Some (QHDisj l, []) else None
  | FChoice l => if plain_elem sh then Some (QHChoice l, []) else None
  | FCons => Some (QHCons, [])
  | FTelHead => Some (QHAux 0, [])                      (* the number is given by the running counter (step below) *)
  end.
Record tres := { t_rule : qrule; t_shift : nat; t_fut : list (A * nat) }.
Definition transform_rule (r : frule) : option tres :=
  match tr_head (fh r), tr_body (shape_of (fh r)) (fb r) with
  | Some (hd, fut), Some (bd, m) =>
      Some {| t_rule := {| qh := hd; qb := (bd ++ (if is_final (fp r) then [(FPos, QF)] else []))%list |}; t_shift := m; t_fut := fut |}
  | _, _ => None
  end.
(* the set of future predicates, kept sorted *)
Definition le_fut (x y : A * nat) : bool := if leA (fst x) (fst y) then (if leA (fst y) (fst x) then snd x <=? snd y else true) else false.
Definition eq_fut (x y : A * nat) : bool := le_fut x y && le_fut y x.
Fixpoint insert_fut (x : A * nat) (l : list (A * nat)) : list (A * nat) :=
  match l with
  | [] => [x]
  | y :: r => if eq_fut x y then l else if le_fut x y then x :: l else y :: insert_fut x r
  end.
Definition eq_root (a b : oroot) : bool := match a, b with ORInitial, ORInitial | ORAlways, ORAlways | ORDynamic, ORDynamic => true | _, _ => false end.
(* constraint_parts: a dictionary in order of first insertion *)
Fixpoint add_cons (key : oroot * nat) (v : qrule * qrule) (l : list ((oroot * nat) * list (qrule * qrule))) : list ((oroot * nat) * list (qrule * qrule)) :=
  match l with
  | [] => [(key, [v])]
  | (k, vs) :: r => if eq_root (fst k) (fst key) && (snd k =? snd key) then (k, (vs ++ [v])%list) :: r else (k, vs) :: add_cons key v r
  end.
Record output := { o_main : list (oroot * qrule); o_bridge : list (A * nat); o_cons : list ((oroot * nat) * list (qrule * qrule));
                   o_parts : list (oroot * okind * list nat); o_naux : nat }.             (* o_naux: head formulas seen so far (HeadTransformer.__num_aux) *)
Definition empty : output := {| o_main := []; o_bridge := []; o_cons := []; o_parts := []; o_naux := 0 |}.
Definition number_head (k : nat) (r : qrule) : qrule := match qh r with QHAux _ => {| qh := QHAux k; qb := qb r |} | _ => r end.
Definition is_tel_head (h : fhead) : bool := match h with FTelHead => true | _ => false end.
Definition step (acc : option output) (r : frule) : option output :=
  match acc, transform_rule r with
  | Some o, Some t =>
      let fut := fold_left (fun l x => insert_fut x l) (t_fut t) (o_bridge o) in
      let rl := number_head (o_naux o) (t_rule t) in
      let na := if is_tel_head (fh r) then S (o_naux o) else o_naux o in
      match lookahead_part_gen (Z.of_nat (t_shift t)) (is_final (fp r)) with
      | Some true =>
          let tmp := {| qh := qh rl; qb := (qb rl ++ [(FPos, QFU)])%list |} in
          Some {| o_main := o_main o; o_bridge := fut; o_cons := add_cons (root_of (fp r), t_shift t) (tmp, rl) (o_cons o); o_parts := []; o_naux := na |}
      | Some false => Some {| o_main := (o_main o ++ [(root_of (fp r), rl)])%list; o_bridge := fut; o_cons := o_cons o; o_parts := []; o_naux := na |}
      | None => None
      end
  | _, _ => None
  end.
Definition parts_of (cons : list ((oroot * nat) * list (qrule * qrule))) : list (oroot * okind * list nat) :=
  (flat_map (fun e => let '((rt, L), _) := e in [(rt, KTmp L, seq 0 L); (rt, KPerm L, [L])]) cons
   ++ [(ORAlways, KMain, [0]); (ORDynamic, KMain, [0]); (ORInitial, KMain, [0])])%list.
Definition transform_program (P : list frule) : option output :=
  match fold_left step P (Some empty) with
  | Some o => Some {| o_main := o_main o; o_bridge := o_bridge o; o_cons := o_cons o; o_parts := parts_of (o_cons o); o_naux := o_naux o |}
  | None => None
  end.
End Fut.
