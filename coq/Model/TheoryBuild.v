(* Building the formula objects of the body theory model from raw operator applications THROUGH the table of create_formula regenerated
   from the source (Gen/FromBodyForm.v), and the executable run of the model over several horizons with its event log - what the
   correspondence compares with the calls telingo makes on clingo's backend. *)
From Coq Require Import List Bool Arith ZArith Lia String.
Require Import GenPrelude TheoryPrelude FromTheory DynPrelude FromDynamic FormPrelude FromBodyForm TEL LDL TheorySem BodyTheoryFull.
Import ListNotations.
Local Open Scope string_scope.
Local Open Scope nat_scope.
Notation bfn := (bf nat).
(* path expressions of &del as written: an atom (test, then step), &true (step), ? atom / ? constant (test), unary * and binary + ;; *)
Inductive rpath := PAtom (a : nat) | PTrue | PCheckA (a : nat) | PCheckC (b : bool) | POp1 (op : string) (p : rpath) | POp2 (op : string) (p q : rpath).
Inductive raw := RAtom (a : nat) | RKw (name : string) | ROp1 (op : string) (x : raw) | ROp2 (op : string) (x y : raw) | ROpN (op : string) (n : nat) (y : raw)
             | RDel (op : string) (p : rpath) (x : raw).                  (* rho .>? phi / rho .>* phi *)
(* create_path over the REGENERATED operator tables of paths *)
Fixpoint pbuild (p : rpath) : option (LDL.path nat) :=
  match p with
  | PAtom a => if path_atom_is_test_then_step_gen then Some (Seq nat (Test nat (TAtom nat a)) (Skip nat)) else None
  | PTrue => Some (Skip nat)
  | PCheckA a => match path_unary_gen "?" with Some PKCheck => Some (Test nat (TAtom nat a)) | _ => None end
  | PCheckC b => match path_unary_gen "?" with Some PKCheck => Some (Test nat (TConst nat b)) | _ => None end
  | POp1 op q => match path_unary_gen op, pbuild q with Some PKStar, Some x => Some (Star nat x) | _, _ => None end
  | POp2 op q r => match path_binary_gen op, pbuild q, pbuild r with
                   | Some PKChoice, Some x, Some y => Some (Choice nat x y)
                   | Some PKSeq, Some x, Some y => Some (Seq nat x y)
                   | _, _, _ => None end
  end.
Section Build.
Variable ini fin : nat.                      (* atom ids standing for __initial / __final *)
Fixpoint den (e : fexp) (L R : bfn) (n : nat) : option bfn :=
  match e with
  | XRhs => Some R
  | XLhs => Some L
  | XPrev a c w => option_map (Pv nat (cntv c n) w) (den a L R n)
  | XNext a c w => option_map (Nx nat (cntv c n) w) (den a L R n)
  | XBool op a b => match den a L R n, den b L R n with Some x, Some y => Some (Bin nat op x y) | _, _ => None end
  | XNeg a => option_map (Neg nat) (den a L R n)
  | XTelP op lhs rhs =>
      match (match op with OpSince => Some true | OpTrigger => Some false | _ => None end), den rhs L R n with
      | Some u, Some r => match lhs with None => Some (TP1 nat u r) | Some l => option_map (fun x => TP2 nat u x r) (den l L R n) end
      | _, _ => None
      end
  | XTelN op lhs rhs fw =>
      match (match op with OpUntil => Some true | OpRelease => Some false | _ => None end), den rhs L R n with
      | Some u, Some r => if Bool.eqb fw (negb u)
                          then match lhs with None => Some (TN1 nat u r) | Some l => option_map (fun x => TN2 nat u x r) (den l L R n) end
                          else None                  (* the model fixes the deferred next to Next(self, 1, not until) *)
      | _, _ => None
      end
  | XInit a => option_map (Ini nat) (den a L R n)
  | XAtomKw name => if String.eqb name "__initial" then Some (At nat ini) else if String.eqb name "__final" then Some (At nat fin) else None
  | XConst b => Some (Cst nat b)
  | XIfZero a b => if n =? 0 then den a L R n else den b L R n
  end.
Fixpoint build (r : raw) : option bfn :=
  match r with
  | RAtom a => Some (At nat a)
  | RKw name => match keyword_gen name with Some e => den e (Cst nat false) (Cst nat false) 0 | None => None end
  | ROp1 op x => match build x, create_formula_gen op 1 with Some bx, Some (_, e) => den e (Cst nat false) bx 0 | _, _ => None end
  | ROp2 op x y => match build x, build y, create_formula_gen op 2 with Some bx, Some by_, Some (_, e) => den e bx by_ 0 | _, _, _ => None end
  | ROpN op n y => match build y, create_formula_gen op 2 with Some by_, Some (_, e) => den e (Cst nat false) by_ n | _, _ => None end
  | RDel op p x => match del_modality_gen op, pbuild p, build x with
                   | Some MDia, Some q, Some bx => Some (Dia nat q bx)
                   | Some MBox, Some q, Some bx => Some (Box nat q bx)
                   | _, _, _ => None end
  end.
End Build.
(* the executable run: one call of Theory.translate per horizon, with the events it adds to the log and the pending list it leaves *)
Definition new_events (old new : st nat) : list (event nat) := rev (firstn (List.length (log nat new) - List.length (log nat old)) (log nat new)).
(* the literal cached for every root after the call: what the literals of the ground theory atoms are tied to (Proofs/TheoryAtomsProofs.v: link) *)
Definition root_lits (s : st nat) (roots : list (nat * bfn)) : list (option (lit nat)) := map (fun r => option_map fst (lookup nat Nat.eq_dec s (snd r) (fst r))) roots.
Fixpoint run_h (fuel h : nat) (steps : list (list (nat * bfn))) (s : st nat) : option (list ((list (event nat) * list (nat * bfn)) * list (option (lit nat)))) :=
  match steps with
  | [] => Some []
  | roots :: rest =>
      match theory_translate nat Nat.eq_dec fuel h roots s with
      | None => None
      | Some s' => match run_h fuel (S h) rest s' with None => None | Some r => Some ((new_events s s', pending nat s', root_lits s' roots) :: r) end
      end
  end.
Definition run_model (fuel : nat) (steps : list (list (nat * bfn))) := run_h fuel 0 steps (init nat).
(* at horizon 0 Theory.translate on the initial state is the plain work-list run *)
Lemma first_call fuel roots : theory_translate nat Nat.eq_dec fuel 0 roots (init nat) = run_list nat Nat.eq_dec fuel 0 roots (init nat).
Proof. reflexivity. Qed.
