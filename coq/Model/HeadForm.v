(* The implementation side of head formulas (theory/head.py), over tables and guards REGENERATED from the source (Gen/FromHeadForm.v):
   - create_formula: the head formula object of every operator denotes the documented THT_f formula (head_create_sound);
   - ShiftFormula: the hand-written model HeadShift.shift takes exactly the regenerated decisions (shift_*_spec);
   - UnfoldFormula: the clause list is the conjunctive normal form of the shifted formula (unfold_sat). *)
From Coq Require Import List Bool Arith ZArith Lia String.
Require Import GenPrelude TheoryPrelude FormPrelude FromHeadForm HT TEL TELext PrefixSpec Laws HeadShift BodyForm.
Require Export HeadDefs.
Local Open Scope string_scope.
Local Open Scope nat_scope.
Section HeadForm.
Variable A : Type.
Variable h : nat.
Variable ini fin : A.                              (* the marker atoms __initial / __final *)
Notation hf := (hf A).
Notation tf := (tf A).
Notation denote := (HeadDefs.denote A ini fin).
(* head formulas as formulas of the specification *)
Fixpoint emb (p : hf) : tf :=
  match p with
  | HAt _ a => TAt A a
  | HConst _ b => if b then LTop A else TBot A
  | HNeg _ x => LNot A (emb x)
  | HNx _ n w x => TNx A w n (emb x)
  | HUn _ u l r => if u then TUn A (emb l) (emb r) else TRl A (emb l) (emb r)
  | HUn1 _ u r => if u then TUn A (LTop A) (emb r) else TRl A (TBot A) (emb r)
  | HAnd _ x y => TAnd A (emb x) (emb y)
  | HOr _ x y => TOr A (emb x) (emb y)
  end.
Lemma fut_eq u sx sy : forall d k, HeadShift.fut u sx sy d k = TEL.fut u sx sy d k.
Proof. induction d as [|d IH]; intros k; cbn [HeadShift.fut TEL.fut]; [reflexivity|now rewrite IH]. Qed.
Lemma fut_ext2 u sx sy sx' sy' d k : (forall j, sx j = sx' j) -> (forall j, sy j = sy' j) -> TEL.fut u sx sy d k = TEL.fut u sx' sy' d k.
Proof. intros Ex Ey. revert k. induction d as [|d IH]; intros k; cbn [TEL.fut]; [apply Ey|]. now rewrite Ex, Ey, IH. Qed.
Lemma emb_csat (T : trace A) p : forall k, csat A h T p k = lsat A h T (emb p) k.
Proof.
  induction p as [a|b|x IH|n w x IH|u l IHl r IHr|u r IHr|x IHx y IHy|x IHx y IHy]; intros k; cbn [HeadShift.csat emb].
  - reflexivity.
  - now destruct b.
  - cbn [LNot TEL.lsat]. rewrite IH. now destruct (lsat A h T (emb x) k).
  - cbn [TEL.lsat]. destruct (k + n <=? h); [apply IH|reflexivity].
  - rewrite fut_eq. destruct u; cbn [TEL.lsat]; apply fut_ext2; auto.
  - rewrite fut_eq. destruct u; cbn [TEL.lsat]; apply fut_ext2; auto.
  - cbn [TEL.lsat]. now rewrite IHx, IHy.
  - cbn [TEL.lsat]. now rewrite IHx, IHy.
Qed.
Lemma emb_hsat (H T : trace A) : tle A H T -> forall p k, hsat A h H T p k = tsat A h H T (emb p) k.
Proof.
  intros L. induction p as [a|b|x IH|n w x IH|u l IHl r IHr|u r IHr|x IHx y IHy|x IHx y IHy]; intros k; cbn [HeadShift.hsat emb].
  - reflexivity.
  - now destruct b.
  - cbn [LNot TEL.tsat TEL.lsat]. rewrite (emb_csat T x k).
    destruct (lsat A h T (emb x) k) eqn:E; [now rewrite andb_false_r|]. destruct (tsat A h H T (emb x) k) eqn:E2; [|reflexivity].
    apply (tsat_persist A h H T (emb x) k) in E2; [congruence|exact L].
  - cbn [TEL.tsat]. destruct (k + n <=? h); [apply IH|reflexivity].
  - rewrite fut_eq. destruct u; cbn [TEL.tsat]; apply fut_ext2; auto.
  - rewrite fut_eq. destruct u; cbn [TEL.tsat]; apply fut_ext2; auto.
  - cbn [TEL.tsat]. now rewrite IHx, IHy.
  - cbn [TEL.tsat]. now rewrite IHx, IHy.
Qed.
(* the documented reading of the head operators *)
Definition head_docf (op : string) (nargs : nat) : option (tf -> tf -> nat -> tf) :=
  match op, nargs with
  | "&", 2 => Some (fun l r _ => TAnd A l r)
  | "|", 2 => Some (fun l r _ => TOr A l r)
  | "~", 1 => Some (fun _ r _ => LNot A r)
  | ">", 1 => Some (fun _ r _ => TNx A false 1 r)
  | ">", 2 => Some (fun _ r n => TNx A false n r)
  | ">:", 1 => Some (fun _ r _ => TNx A true 1 r)
  | ">:", 2 => Some (fun _ r n => TNx A true n r)
  | ";>", 2 => Some (fun l r _ => LSeqNext A false l r)
  | ";>:", 2 => Some (fun l r _ => LSeqNext A true l r)
  | ">?", 1 => Some (fun _ r _ => TUn A (LTop A) r)
  | ">?", 2 => Some (fun l r _ => TUn A l r)
  | ">*", 1 => Some (fun _ r _ => TRl A (TBot A) r)
  | ">*", 2 => Some (fun l r _ => TRl A l r)
  | ">>", 1 => Some (fun _ r _ => LFinally A r)
  | _, _ => None
  end.
Definition head_doc_ops : list (string * nat) :=
  [("&", 2); ("|", 2); ("~", 1); (">", 1); (">", 2); (">:", 1); (">:", 2); (";>", 2); (";>:", 2); (">?", 1); (">?", 2); (">*", 1); (">*", 2); (">>", 1)].
(* operators of the body grammar that must NOT be accepted in heads *)
Definition head_forbidden : list string := ["<"; "<:"; "<;"; "<:;"; "<*"; "<?"; "<<"; "->"; "<-"; "<>"].
Definition markers (X : trace A) := forall k, k <= h -> X k fin = (k =? h) /\ X k ini = (k =? 0).
Definition head_entry_ok (H T : trace A) (on : string * nat) : Prop :=
  match head_create_gen (fst on) (snd on), head_docf (fst on) (snd on) with
  | Some (_, e), Some d => forall (l r : hf) (n k : nat), k <= h -> hsat A h H T (denote e l r n) k = tsat A h H T (d (emb l) (emb r) n) k
  | _, _ => False
  end.
Lemma tsat_final_marker (H T : trace A) k : k <= h -> tsat A h H T (LFinal A) k = (k =? h).
Proof. apply tsat_final. Qed.
Theorem head_create_sound (H T : trace A) : tle A H T -> markers H -> markers T -> Forall (head_entry_ok H T) head_doc_ops.
Proof.
  intros L MH MT. unfold head_doc_ops. repeat (apply Forall_cons || apply Forall_nil); unfold head_entry_ok; cbn [fst snd head_create_gen head_docf];
    intros l r n k Hk; cbn [HeadDefs.denote cntv].
  - now rewrite (emb_hsat H T L).
  - now rewrite (emb_hsat H T L).
  - now rewrite (emb_hsat H T L).
  - now rewrite (emb_hsat H T L).
  - destruct (Nat.eqb_spec n 0) as [->|Ne]; rewrite (emb_hsat H T L); [|reflexivity]. now rewrite (law_nfold0_next A h H T false (emb r) k Hk).
  - now rewrite (emb_hsat H T L).
  - destruct (Nat.eqb_spec n 0) as [->|Ne]; rewrite (emb_hsat H T L); [|reflexivity]. now rewrite (law_nfold0_next A h H T true (emb r) k Hk).
  - now rewrite (emb_hsat H T L).
  - now rewrite (emb_hsat H T L).
  - now rewrite (emb_hsat H T L).
  - now rewrite (emb_hsat H T L).
  - now rewrite (emb_hsat H T L).
  - now rewrite (emb_hsat H T L).
  - (* >> p = >* (~ &final | p): the marker atom is the keyword *)
    rewrite (emb_hsat H T L). cbn [emb String.eqb Ascii.eqb Bool.eqb]. unfold LFinally. cbn [TEL.tsat].
    apply fut_ext_range; intros j Hj; [reflexivity|].
    assert (j <= h) as Hjh by lia. destruct (MH j Hjh) as [Hf _]. destruct (MT j Hjh) as [Tf _].
    f_equal. unfold LNot. cbn [TEL.tsat TEL.lsat]. rewrite (tsat_final A h H T j Hjh), <- (tsat_total A h T (LFinal A) j), (tsat_final A h T T j Hjh), Hf, Tf. reflexivity.
Qed.
(* past operators and implications of the body grammar are rejected in heads; n-fold counts below zero are rejected *)
Theorem head_forbidden_rejected : forall op, In op head_forbidden -> head_create_gen op 1 = None /\ head_create_gen op 2 = None.
Proof. intros op I. repeat (destruct I as [<-|I]; [split; reflexivity|]). destruct I. Qed.
Theorem head_negative_counts_rejected : forall op, In op [">"; ">:"] -> exists e, head_create_gen op 2 = Some (true, e).
Proof. intros op [<-|[<-|[]]]; eexists; reflexivity. Qed.
(* keywords in heads: ~ ~ __initial / ~ ~ __final (evaluated classically, never derived) and the constants *)
Theorem head_keyword_values (H T : trace A) : markers T -> forall k, k <= h ->
  option_map (fun e => hsat A h H T (denote e (HConst A false) (HConst A false) 0) k) (head_keyword_gen "initial") = Some (k =? 0) /\
  option_map (fun e => hsat A h H T (denote e (HConst A false) (HConst A false) 0) k) (head_keyword_gen "final") = Some (k =? h) /\
  option_map (fun e => hsat A h H T (denote e (HConst A false) (HConst A false) 0) k) (head_keyword_gen "true") = Some true /\
  option_map (fun e => hsat A h H T (denote e (HConst A false) (HConst A false) 0) k) (head_keyword_gen "false") = Some false.
Proof.
  intros MT k Hk. destruct (MT k Hk) as [Tf Ti]. cbn [head_keyword_gen option_map HeadDefs.denote String.eqb Ascii.eqb Bool.eqb HeadShift.hsat HeadShift.csat].
  rewrite Tf, Ti, !negb_involutive. repeat split; reflexivity.
Qed.
(* ---- ShiftFormula: the model HeadShift.shift takes the regenerated decisions ---- *)
Lemma shift_guards_spec n d :
  shift_atom_here_gen d = Some (d =? 0) /\ shift_next_inside_gen n d = Some (n <=? d) /\
  shift_next_rest_gen n d = Some (Z.of_nat d - Z.of_nat n)%Z /\ shift_next_ahead_gen n d = Some (Z.of_nat n - Z.of_nat d)%Z.
Proof. unfold shift_atom_here_gen, shift_next_inside_gen, shift_next_rest_gen, shift_next_ahead_gen. repeat split; pbool. Qed.
Theorem shift_atom_spec (a : A) d :
  shift A (HAt A a) d = match shift_atom_here_gen d with Some true => SAt A a | _ => SBack A d (HAt A a) end.
Proof. destruct (shift_guards_spec 0 d) as (E & _). rewrite E. now destruct d. Qed.
Theorem shift_next_spec n w (x : hf) d :
  shift A (HNx A n w x) d =
  match shift_next_inside_gen n d, shift_next_rest_gen n d, shift_next_ahead_gen n d with
  | Some true, Some rest, _ => shift A x (Z.to_nat rest)
  | Some false, _, Some ahead => SFwd A (Z.to_nat ahead) w x
  | _, _, _ => SBack A d (HNx A n w x)
  end.
Proof.
  destruct (shift_guards_spec n d) as (_ & E1 & E2 & E3). rewrite E1, E2, E3. cbn [HeadShift.shift].
  destruct (n <=? d) eqn:L; f_equal; [apply Nat.leb_le in L|apply Nat.leb_gt in L]; lia.
Qed.
Definition clause_of (conj : bool) := if conj then SAnd A else SOr A.
Theorem shift_until_spec u (l r : hf) d :
  shift A (HUn A u l r) d =
  clause_of (shift_until_outer_conj_gen u) (shift A r d)
    (clause_of (shift_until_inner_conj_gen u) (shift A l d)
       (match d with 0 => SFwd A 1 (shift_until_next_weak_gen u) (HUn A u l r) | S e => shift A (HUn A u l r) e end)).
Proof. rewrite (shift_un_unfold A). unfold outer, inner, clause_of, shift_until_outer_conj_gen, shift_until_inner_conj_gen, shift_until_next_weak_gen. now destruct u. Qed.
Theorem shift_until1_spec u (r : hf) d :
  shift A (HUn1 A u r) d =
  clause_of (shift_until_outer_conj_gen u) (shift A r d)
    (match d with 0 => SFwd A 1 (shift_until_next_weak_gen u) (HUn1 A u r) | S e => shift A (HUn1 A u r) e end).
Proof. rewrite (shift_un1_unfold A). unfold outer, clause_of, shift_until_outer_conj_gen, shift_until_next_weak_gen. now destruct u. Qed.
Lemma head_step_arith step timestep : timestep <= step ->
  head_shift_amount_gen step timestep = Some (Z.of_nat (step - timestep)) /\ head_requeue_step_gen step = Some (Z.of_nat (S step)).
Proof. intros L. unfold head_shift_amount_gen, head_requeue_step_gen. cbn [olift2]. split; f_equal; lia. Qed.
(* ---- UnfoldFormula: conjunctions concatenate the clause lists, disjunctions take one clause per combination ---- *)
Notation unfold := (HeadDefs.unfold A).
Definition clause_sat (H T : trace A) (k : nat) (c : list (sf A)) : bool := existsb (fun l => ssat A h H T l k) c.
Lemma existsb_app_sat H T k c1 c2 : clause_sat H T k ((c1 ++ c2)%list) = clause_sat H T k c1 || clause_sat H T k c2.
Proof. unfold clause_sat. apply existsb_app. Qed.
Lemma forallb_prefix H T k c1 (ys : list (list (sf A))) :
  forallb (clause_sat H T k) (map (fun c2 => (c1 ++ c2)%list) ys) = clause_sat H T k c1 || forallb (clause_sat H T k) ys.
Proof.
  induction ys as [|c2 ys IHy]; cbn [map forallb]; [now rewrite orb_true_r|]. rewrite existsb_app_sat, IHy.
  destruct (clause_sat H T k c1), (clause_sat H T k c2); reflexivity.
Qed.
Lemma forallb_product H T k (xs ys : list (list (sf A))) :
  forallb (clause_sat H T k) (flat_map (fun c1 => map (fun c2 => (c1 ++ c2)%list) ys) xs) = forallb (clause_sat H T k) xs || forallb (clause_sat H T k) ys.
Proof.
  induction xs as [|c1 xs IH]; cbn [flat_map forallb]; [reflexivity|]. rewrite forallb_app, IH, forallb_prefix.
  destruct (clause_sat H T k c1), (forallb (clause_sat H T k) xs), (forallb (clause_sat H T k) ys); reflexivity.
Qed.
Theorem unfold_sat (H T : trace A) k : forall g, forallb (clause_sat H T k) (unfold g) = ssat A h H T g k.
Proof.
  induction g as [a|x IHx y IHy|x IHx y IHy|d x|n w x]; cbn [HeadDefs.unfold forallb clause_sat existsb HeadShift.ssat]; try now rewrite orb_false_r, andb_true_r.
  - unfold unfold_conjunction_concatenates_gen. now rewrite forallb_app, IHx, IHy.
  - unfold unfold_disjunction_is_product_gen. now rewrite forallb_product, IHx, IHy.
Qed.
End HeadForm.
