(* Model of telingo/theory/formula.py: create_symbol / create_number - how the arguments of an atom inside a body formula (&tel / &del), which the
   grounder delivers as THEORY TERMS, are turned back into the symbols the atom is looked up with.  Hand-written after the source; the evaluation of
   numbers uses the pieces REGENERATED from create_number (Gen/FromBodyForm.v), the operator sets are the regenerated ones (Gen/FromTables.v).  Tied to
   the code by the correspondence of C06: create_symbol of /repo and this function on the theory terms gringo produces for a list of written and
   substituted terms, and both against the symbol clingo itself binds the variable to.  Definitions only (extracted: driver command `csym`). *)
From Coq Require Import List Bool Arith ZArith String Ascii.
Require Import GenPrelude FromTables TheoryPrelude FormPrelude FromBodyForm.
Import ListNotations.
Local Open Scope string_scope.
Inductive sym := YNum (z : Z) | YStr (s : string) | YFun (name : string) (args : list sym) (pos : bool) | YInf | YSup.
(* theory terms: numbers (never negative: gringo writes -1 as the operator - applied to 1), symbols (constants, quoted strings, #inf, #sup), functions
   (also the operators), tuples, lists / sets *)
Inductive tterm := TNum (n : Z) | TSym (name : string) | TFun (name : string) (args : list tterm) | TTup (args : list tterm) | TSeq (args : list tterm).
Definition mem (x : string) (l : list string) : bool := existsb (String.eqb x) l.
Definition obind {X Y} (a : option X) (f : X -> option Y) : option Y := match a with Some x => f x | None => None end.
(* create_number *)
Fixpoint create_number (t : tterm) : option Z :=
  match t with
  | TNum n => num_leaf_gen n
  | TFun name [a] => if String.eqb name "-" then obind (create_number a) num_neg_gen else None
  | TFun name [a; b] =>
      if mem name arithmetic_operators_gen then
        obind (create_number a) (fun x => obind (create_number b) (fun y =>
          if String.eqb name "+" then num_add_gen x y else if String.eqb name "-" then num_sub_gen x y else None))
      else None
  | _ => None
  end.
(* the text of a string between its quotes: what clingo.parse_term makes of a quoted name (contract of clingo; the escape sequences are backslash-backslash, backslash-quote and backslash-n) *)
Definition bsl : ascii := "\"%char.
Definition dq : ascii := """"%char.
Definition nl : ascii := "010"%char.
Fixpoint unescape (s : string) : string :=
  match s with
  | String c r =>
      if Ascii.eqb c bsl then
        match r with
        | String d r' => String (if Ascii.eqb d "n"%char then nl else d) (unescape r')
        | EmptyString => String c EmptyString
        end
      else String c (unescape r)
  | EmptyString => EmptyString
  end.
Fixpoint drop_last (s : string) : string := match s with String c EmptyString => EmptyString | String c r => String c (drop_last r) | EmptyString => EmptyString end.
Fixpoint last_is (q : ascii) (s : string) : bool := match s with String c EmptyString => Ascii.eqb c q | String _ r => last_is q r | EmptyString => false end.
Definition is_quoted (name : string) : bool := match name with String c (String _ _ as r) => Ascii.eqb c dq && last_is dq r | _ => false end.     (* len > 1, starts and ends with a quote *)
Definition unquote (name : string) : string := match name with String _ r => unescape (drop_last r) | EmptyString => EmptyString end.
Definition all_some {X} (l : list (option X)) : option (list X) :=
  fold_right (fun a acc => match a, acc with Some x, Some xs => Some (x :: xs) | _, _ => None end) (Some []) l.
Definition is_operator (name : string) : bool := mem name g_binary_operators_gen || mem name g_unary_operators_gen || mem name g_tel_operators_gen.
(* create_symbol; None = RuntimeError("invalid symbol") / "number expected" *)
Fixpoint create_symbol (t : tterm) : option sym :=
  let generic (name : string) (args : list tterm) : option sym :=
    if is_operator name then None
    else match args with
         | [] => if String.eqb name "#inf" then Some YInf else if String.eqb name "#sup" then Some YSup
                 else if is_quoted name then Some (YStr (unquote name)) else Some (YFun name [] true)
         | _ => option_map (fun l => YFun name l true) (all_some (map create_symbol args))
         end in
  match t with
  | TNum n => Some (YNum n)
  | TSeq _ => None
  | TSym name => if is_operator name then None
                 else if String.eqb name "#inf" then Some YInf else if String.eqb name "#sup" then Some YSup
                 else if is_quoted name then Some (YStr (unquote name)) else Some (YFun name [] true)
  | TTup args => option_map (fun l => YFun "" l true) (all_some (map create_symbol args))
  | TFun name args =>
      if mem name arithmetic_operators_gen then
        match args with
        | [a] => if String.eqb name "-" then
                   match create_symbol a with
                   | Some (YNum n) => Some (YNum (- n))
                   | Some (YFun f l p) => Some (YFun f l (negb p))
                   | _ => None
                   end
                 else None
        | [_; _] => option_map YNum (create_number t)
        | _ => None
        end
      else generic name args
  end.
(* how gringo writes a symbol a variable is bound to into a theory term *)
Fixpoint escape (s : string) : string :=
  match s with
  | String c r => if Ascii.eqb c bsl then String bsl (String bsl (escape r)) else if Ascii.eqb c dq then String bsl (String dq (escape r))
                  else if Ascii.eqb c nl then String bsl (String "n"%char (escape r)) else String c (escape r)
  | EmptyString => EmptyString
  end.
Definition quote (s : string) : string := String dq (escape s ++ String dq EmptyString).
Fixpoint encode (s : sym) : tterm :=
  match s with
  | YNum z => if (z <? 0)%Z then TFun "-" [TNum (- z)] else TNum z
  | YStr x => TSym (quote x)
  | YInf => TSym "#inf"
  | YSup => TSym "#sup"
  | YFun name args pos =>
      let body := if String.eqb name "" then TTup (map encode args) else match args with [] => TSym name | _ => TFun name (map encode args) end in
      if pos then body else TFun "-" [body]
  end.
(* ---------------- head side: transformers/head.py, TheoryTermToTermTransformer ----------------
   The arguments of an atom inside a HEAD formula are not looked up: they are turned into ordinary (non-ground) terms of the rewritten rule, and gringo
   evaluates them.  Hand-written after the source; the operator names it refuses are the regenerated table (Gen/FromTables.v: py_head_table_gen). *)
Inductive hterm := HSym (s : sym) | HVar (x : string) | HFun (name : string) (args : list hterm) | HTup (args : list hterm) | HSeq (args : list hterm).
Inductive aterm := ASym (s : sym) | AVar (x : string) | AFun (name : string) (args : list aterm) | ANeg (t : aterm) | ABin (plus : bool) (l r : aterm).
Definition in_head_table (name : string) : bool := existsb (fun e => String.eqb (fst (fst (fst e))) name) py_head_table_gen.
Definition anum (t : aterm) : option Z := match t with ASym (YNum n) => Some n | _ => None end.
Fixpoint to_term (t : hterm) : option aterm :=
  match t with
  | HSym s => Some (ASym s)
  | HVar x => Some (AVar x)
  | HSeq _ => None
  | HTup args => option_map (AFun "") (all_some (map to_term args))
  | HFun name args =>
      match args with
      | [a] =>
          if String.eqb name "-" then option_map (fun r => match anum r with Some n => ASym (YNum (- n)) | None => ANeg r end) (to_term a)
          else if in_head_table name then None else option_map (AFun name) (all_some (map to_term args))
      | [a; b] =>
          if String.eqb name "+" || String.eqb name "-" then
            obind (to_term a) (fun l => obind (to_term b) (fun r =>
              match anum l, anum r with
              | Some x, Some y => Some (ASym (YNum (if String.eqb name "+" then x + y else x - y)))
              | _, _ => Some (ABin (String.eqb name "+") l r)
              end))
          else if in_head_table name then None else option_map (AFun name) (all_some (map to_term args))
      | _ => if in_head_table name then None else option_map (AFun name) (all_some (map to_term args))
      end
  end.
(* how gringo evaluates a term under a substitution (contract of gringo; None = undefined, the rule instance is dropped) *)
Fixpoint eval (sg : string -> sym) (t : aterm) : option sym :=
  match t with
  | ASym s => Some s
  | AVar x => Some (sg x)
  | AFun name args => option_map (fun l => YFun name l true) (all_some (map (eval sg) args))
  | ANeg a => match eval sg a with Some (YNum n) => Some (YNum (- n)) | Some (YFun f l p) => Some (YFun f l (negb p)) | _ => None end
  | ABin plus l r => match eval sg l, eval sg r with Some (YNum x), Some (YNum y) => Some (YNum (if plus then x + y else x - y)) | _, _ => None end
  end.
(* a ground term as it is written, and the two forms it reaches telingo in: the theory term gringo delivers for it inside a body formula, and the syntax
   tree clingo's parser delivers for it inside a head formula *)
Inductive wterm := WNum (n : Z) | WStr (s : string) | WConst (name : string) | WInf | WSup | WFun (name : string) (args : list wterm) | WTup (args : list wterm)
                 | WNeg (w : wterm) | WBin (plus : bool) (l r : wterm).
Fixpoint in_body (w : wterm) : tterm :=
  match w with
  | WNum n => TNum n | WStr s => TSym (quote s) | WConst c => TSym c | WInf => TSym "#inf" | WSup => TSym "#sup"
  | WFun name args => TFun name (map in_body args) | WTup args => TTup (map in_body args)
  | WNeg a => TFun "-" [in_body a] | WBin plus l r => TFun (if plus then "+" else "-") [in_body l; in_body r]
  end.
Fixpoint in_head (w : wterm) : hterm :=
  match w with
  | WNum n => HSym (YNum n) | WStr s => HSym (YStr s) | WConst c => HSym (YFun c [] true) | WInf => HSym YInf | WSup => HSym YSup
  | WFun name args => HFun name (map in_head args) | WTup args => HTup (map in_head args)
  | WNeg a => HFun "-" [in_head a] | WBin plus l r => HFun (if plus then "+" else "-") [in_head l; in_head r]
  end.
