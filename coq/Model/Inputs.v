(* Input texts and #program directives (transformers/__init__.py: transform, transformers/program.py: ProgramTransformer.visit_Program).
   Every input text is parsed on its own; the parser of clingo starts every text with the directive `#program base.` (contract, checked by the
   correspondence on every run); ONE ProgramTransformer object visits the statements of all texts in order, its flag `__final` and its `__part`
   live on from statement to statement and from text to text.  What a directive does to them is REGENERATED from the source (Gen/FromParts.v:
   visit_program_gen).  Definitions only (extracted: driver command `ftri`). *)
From Coq Require Import List Bool Arith String.
Require Import GenPrelude FromParts FutTransform.
Import ListNotations.
Local Open Scope string_scope.
Section Inputs.
Variable R : Type.                                             (* a statement that is not a directive *)
Inductive stmt := SProg (name : string) | SRule (r : R).
Definition pstate := (bool * option string)%type.             (* the flag __final, the part in force (none before the first directive) *)
Definition st0 : pstate := (initial_final_gen, None).
Definition on_prog (st : pstate) (name : string) : pstate :=
  let '(_, f, p) := visit_program_gen name (fst st) (match snd st with Some p => p | None => "" end) in (f, Some p).
Fixpoint resolve (st : pstate) (l : list stmt) : list (pstate * R) :=
  match l with
  | [] => []
  | SProg n :: r => resolve (on_prog st n) r
  | SRule x :: r => (st, x) :: resolve st r
  end.
Fixpoint state_after (st : pstate) (l : list stmt) : pstate :=
  match l with [] => st | SProg n :: r => state_after (on_prog st n) r | SRule _ :: r => state_after st r end.
Definition text (i : list stmt) : list stmt := SProg "base" :: i.         (* what the parser delivers for one input text *)
Definition resolve_inputs (inputs : list (list stmt)) : list (pstate * R) := resolve st0 (List.concat (map text inputs)).
End Inputs.
(* from resolved statements to the rules of Model/FutTransform.v *)
Section ToRules.
Variable A : Type.
Definition body_of := (fhead A * list (fsgn * fbatom A))%type.
Definition fpart_of (st : pstate) : option fpart :=
  match snd st with
  | Some p => if String.eqb p "initial" then (if fst st then None else Some FInitial)
              else if String.eqb p "always" then Some (if fst st then FFinal else FAlways)
              else if String.eqb p "dynamic" then (if fst st then None else Some FDynamic)
              else None
  | None => None
  end.
Definition to_rule (x : pstate * body_of) : option (frule A) :=
  match fpart_of (fst x) with Some p => Some {| fp := p; fh := fst (snd x); fb := snd (snd x) |} | None => None end.
Fixpoint all_rules (l : list (pstate * body_of)) : option (list (frule A)) :=
  match l with
  | [] => Some []
  | x :: r => match to_rule x, all_rules r with Some y, Some ys => Some (y :: ys) | _, _ => None end
  end.
Definition transform_inputs (leA : A -> A -> bool) (inputs : list (list (stmt body_of))) : option (output A) :=
  match all_rules (resolve_inputs body_of inputs) with Some P => transform_program A leA P | None => None end.
End ToRules.
