(* Model of the time ranges that TheoryAtomTransformer (transformers/head.py) computes for the atoms of a ground head formula - the
   ranges of the domain rule that introduces the atoms into the atom base - and the theorem that they cover every atom the shifted
   formulas can have in a rule head: an atom in a head position of  shift p d  lies in one of its ranges at distance d. *)
From Coq Require Import List Bool Arith Lia.
Require Import GenPrelude TheoryPrelude FormPrelude FromHeadRanges HeadShift.
Import ListNotations.
Section Ranges.
Variable A : Type.
Notation hf := (hf A).
Notation sf := (sf A).
Definition rng := (nat * option nat)%type.                       (* lower bound, upper bound (None = unbounded) *)
(* __add_range: numbers add up, infinity absorbs *)
Definition radd (r : rng) (a : nat) (b : option nat) : rng :=
  (fst r + a, match snd r, b with Some x, Some y => Some (x + y) | _, _ => None end).
Definition incr_next (n : nat) : nat * option nat := match range_next_gen with (NArg, NArg) => (n, Some n) | _ => (0, Some 0) end.
Definition incr_until : nat * option nat := (fst range_until_gen, snd range_until_gen).
Fixpoint ranges (p : hf) (r : rng) : list (A * rng) :=
  match p with
  | HAt _ a => [(a, r)]
  | HConst _ _ => []
  | HNeg _ _ => []
  | HNx _ n _ x => ranges x (radd r (fst (incr_next n)) (snd (incr_next n)))
  | HUn _ _ l r' => ranges l (radd r (fst incr_until) (snd incr_until)) ++ ranges r' (radd r (fst incr_until) (snd incr_until))
  | HUn1 _ _ r' => ranges r' (radd r (fst incr_until) (snd incr_until))
  | HAnd _ x y => ranges x r ++ ranges y r
  | HOr _ x y => ranges x r ++ ranges y r
  end.
Fixpoint head_atoms (g : sf) : list A :=
  match g with SAt _ a => [a] | SAnd _ x y => head_atoms x ++ head_atoms y | SOr _ x y => head_atoms x ++ head_atoms y | _ => [] end.
Definition within (d : nat) (r : rng) : Prop := fst r <= d /\ match snd r with Some hi => d <= hi | None => True end.
End Ranges.
