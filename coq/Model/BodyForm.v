(* Model of create_formula (theory/body.py): the formula object every operator of the &tel body grammar builds (table REGENERATED
   from the source, Gen/FromBodyForm.v), the value such an object takes at every state (the object semantics established for the
   classes Previous / Next / BooleanFormula / Negation / TelFormulaP / TelFormulaN / Initially / Atom / BooleanConstant by the
   clause-table theorems of Proofs/FullOps.v), and the theorem that this value is the LTLf value of the DOCUMENTED reading of
   the operator (README: a ;> b = a & > b, << p = <* (~ &initial | p), >> p = >* (~ &final | p), 0 > p = p, ...). *)
From Coq Require Import List Bool Arith ZArith Lia String.
Require Import GenPrelude TheoryPrelude FormPrelude FromBodyForm HT TEL TELext PrefixSpec Laws Leaf_theory.
Local Open Scope string_scope.
Local Open Scope nat_scope.
Section BodyForm.
Variable A : Type.
Variable h : nat.
Variable T : trace A.
Notation tf := (tf A).
Notation lsat := (lsat A h T).
(* until / release whose deferred next (set_future) has the boundary value w at the last state *)
Fixpoint futw (until w : bool) (sx sy : nat -> bool) (d k : nat) : bool :=
  match d with
  | 0 => if until then sy k || (sx k && w) else sy k && (sx k || w)
  | S d' => if until then sy k || (sx k && futw until w sx sy d' (S k)) else sy k && (sx k || futw until w sx sy d' (S k))
  end.
Fixpoint fval (e : fexp) (L R : nat -> bool) (n : nat) : nat -> bool :=
  match e with
  | XRhs => R
  | XLhs => L
  | XPrev a c w => fun k => if cntv c n <=? k then fval a L R n (k - cntv c n) else w
  | XNext a c w => fun k => if k + cntv c n <=? h then fval a L R n (k + cntv c n) else w
  | XBool op a b => fun k => bool_spec op (fval a L R n k) (fval b L R n k)
  | XNeg a => fun k => negb (fval a L R n k)
  | XTelP op lhs rhs => fun k =>
      match op with
      | OpSince => pst true (match lhs with Some l => fval l L R n | None => fun _ => true end) (fval rhs L R n) k
      | OpTrigger => pst false (match lhs with Some l => fval l L R n | None => fun _ => false end) (fval rhs L R n) k
      | _ => false
      end
  | XTelN op lhs rhs w => fun k =>
      match op with
      | OpUntil => futw true w (match lhs with Some l => fval l L R n | None => fun _ => true end) (fval rhs L R n) (h - k) k
      | OpRelease => futw false w (match lhs with Some l => fval l L R n | None => fun _ => false end) (fval rhs L R n) (h - k) k
      | _ => false
      end
  | XInit a => fun _ => fval a L R n 0
  | XAtomKw name => fun k => if String.eqb name "__initial" then k =? 0 else if String.eqb name "__final" then k =? h else false
  | XConst b => fun _ => b
  | XIfZero a b => if n =? 0 then fval a L R n else fval b L R n
  end.
(* the deferred next of TelFormulaN is the per-state definitional equation of Leaf_theory.tel_spec *)
Lemma futw_step u w sx sy k : k <= h ->
  futw u w sx sy (h - k) k = tel_spec (if u then OpUntil else OpRelease) true (sx k) (sy k) (if k + 1 <=? h then futw u w sx sy (h - (k + 1)) (k + 1) else w).
Proof.
  intros Hk. destruct (h - k) as [|d] eqn:E.
  - assert (k + 1 <=? h = false) as -> by (apply Nat.leb_gt; lia). destruct u; reflexivity.
  - assert (k + 1 <=? h = true) as -> by (apply Nat.leb_le; lia). replace (h - (k + 1)) with d by lia. replace (k + 1) with (S k) by lia. destruct u; reflexivity.
Qed.
Lemma futw_until sx sy : forall d k, futw true false sx sy d k = fut true sx sy d k.
Proof. induction d as [|d IH]; intros k; cbn [futw fut]; [now rewrite andb_false_r, orb_false_r|now rewrite IH]. Qed.
Lemma futw_release sx sy : forall d k, futw false true sx sy d k = fut false sx sy d k.
Proof. induction d as [|d IH]; intros k; cbn [futw fut]; [now rewrite orb_true_r, andb_true_r|now rewrite IH]. Qed.
(* the documented reading of every operator, as a formula of the specification *)
Definition docf (op : string) (nargs : nat) : option (tf -> tf -> nat -> tf) :=
  match op, nargs with
  | "&", 2 => Some (fun l r _ => TAnd A l r)
  | "|", 2 => Some (fun l r _ => TOr A l r)
  | "->", 2 => Some (fun l r _ => TImp A l r)
  | "<-", 2 => Some (fun l r _ => TImp A r l)
  | "<>", 2 => Some (fun l r _ => TAnd A (TImp A l r) (TImp A r l))
  | "~", 1 => Some (fun _ r _ => LNot A r)
  | "<", 1 => Some (fun _ r _ => TPv A false 1 r)
  | "<", 2 => Some (fun _ r n => TPv A false n r)
  | "<:", 1 => Some (fun _ r _ => TPv A true 1 r)
  | "<:", 2 => Some (fun _ r n => TPv A true n r)
  | ">", 1 => Some (fun _ r _ => TNx A false 1 r)
  | ">", 2 => Some (fun _ r n => TNx A false n r)
  | ">:", 1 => Some (fun _ r _ => TNx A true 1 r)
  | ">:", 2 => Some (fun _ r n => TNx A true n r)
  | "<;", 2 => Some (fun l r _ => LSeqPrev A false l r)
  | "<:;", 2 => Some (fun l r _ => LSeqPrev A true l r)
  | ";>", 2 => Some (fun l r _ => LSeqNext A false l r)
  | ";>:", 2 => Some (fun l r _ => LSeqNext A true l r)
  | "<?", 1 => Some (fun _ r _ => TSi A (LTop A) r)
  | "<?", 2 => Some (fun l r _ => TSi A l r)
  | "<*", 1 => Some (fun _ r _ => TTr A (TBot A) r)
  | "<*", 2 => Some (fun l r _ => TTr A l r)
  | ">?", 1 => Some (fun _ r _ => TUn A (LTop A) r)
  | ">?", 2 => Some (fun l r _ => TUn A l r)
  | ">*", 1 => Some (fun _ r _ => TRl A (TBot A) r)
  | ">*", 2 => Some (fun l r _ => TRl A l r)
  | "<<", 1 => Some (fun _ r _ => LInitially A r)
  | ">>", 1 => Some (fun _ r _ => LFinally A r)
  | _, _ => None
  end.
Definition doc_ops : list (string * nat) :=
  [("&", 2); ("|", 2); ("->", 2); ("<-", 2); ("<>", 2); ("~", 1); ("<", 1); ("<", 2); ("<:", 1); ("<:", 2); (">", 1); (">", 2); (">:", 1); (">:", 2);
   ("<;", 2); ("<:;", 2); (";>", 2); (";>:", 2); ("<?", 1); ("<?", 2); ("<*", 1); ("<*", 2); (">?", 1); (">?", 2); (">*", 1); (">*", 2); ("<<", 1); (">>", 1)].
Definition entry_ok (on : string * nat) : Prop :=
  match create_formula_gen (fst on) (snd on), docf (fst on) (snd on) with
  | Some (_, e), Some d => forall (l r : tf) (n k : nat), k <= h -> fval e (lsat l) (lsat r) n k = lsat (d l r n) k
  | _, _ => False
  end.
Lemma lsat_top k : lsat (LTop A) k = true.  Proof. reflexivity. Qed.
Lemma lsat_initially r k : lsat (LInitially A r) k = lsat r 0.
Proof. rewrite <- !(tsat_total A h T). apply law_initially. Qed.
Lemma lsat_finally r k : k <= h -> lsat (LFinally A r) k = lsat r h.
Proof. intros Hk. rewrite <- !(tsat_total A h T). now apply law_finally. Qed.
Lemma lsat_final k : k <= h -> lsat (LFinal A) k = (k =? h).
Proof. intros Hk. rewrite <- (tsat_total A h T). now apply tsat_final. Qed.
Lemma prev_entry w (r : tf) n k : (if n =? 0 then lsat r else fun k => if n <=? k then lsat r (k - n) else w) k = lsat (TPv A w n r) k.
Proof. cbn [TEL.lsat]. destruct (Nat.eqb_spec n 0) as [->|Ne]; [now rewrite Nat.sub_0_r|reflexivity]. Qed.
Lemma next_entry w (r : tf) n k : k <= h -> (if n =? 0 then lsat r else fun k => if k + n <=? h then lsat r (k + n) else w) k = lsat (TNx A w n r) k.
Proof.
  intros Hk. cbn [TEL.lsat]. destruct (Nat.eqb_spec n 0) as [->|Ne]; [|reflexivity].
  rewrite Nat.add_0_r. now assert (k <=? h = true) as -> by now apply Nat.leb_le.
Qed.
(* >> p is built as the release of (~ __final | p) with a weak deferred next: the value of p at the last state *)
Lemma finally_entry (r : tf) k : k <= h ->
  futw false true (fun _ => false) (fun j => negb (j =? h) || lsat r j) (h - k) k = lsat r h.
Proof.
  intros Hk. rewrite futw_release. remember (h - k) as d eqn:Hd. revert k Hk Hd. induction d as [|d IH]; intros k Hk Hd; cbn [fut].
  - assert (k = h) as -> by lia. now rewrite Nat.eqb_refl.
  - assert (k =? h = false) as -> by (apply Nat.eqb_neq; lia). cbn. apply IH; lia.
Qed.
Theorem create_formula_sound : Forall entry_ok doc_ops.
Proof.
  unfold doc_ops. repeat (apply Forall_cons || apply Forall_nil); unfold entry_ok; cbn [fst snd create_formula_gen docf]; intros l r n k Hk; cbn [fval cntv bool_spec].
  - reflexivity.
  - reflexivity.
  - cbn [TEL.lsat]. now destruct (lsat l k), (lsat r k).
  - cbn [TEL.lsat]. now destruct (lsat l k), (lsat r k).
  - cbn [TEL.lsat]. now destruct (lsat l k), (lsat r k).
  - now rewrite lsat_not.
  - reflexivity.
  - apply prev_entry.
  - reflexivity.
  - apply prev_entry.
  - reflexivity.
  - now apply next_entry.
  - reflexivity.
  - now apply next_entry.
  - reflexivity.
  - reflexivity.
  - reflexivity.
  - reflexivity.
  - cbn [TEL.lsat]. apply pst_ext; [intros j; now rewrite lsat_top|reflexivity].
  - reflexivity.
  - reflexivity.
  - reflexivity.
  - cbn [TEL.lsat]. rewrite futw_until. apply fut_ext; [intros j; now rewrite lsat_top|reflexivity].
  - cbn [TEL.lsat]. now rewrite futw_until.
  - cbn [TEL.lsat]. now rewrite futw_release.
  - cbn [TEL.lsat]. now rewrite futw_release.
  - now rewrite lsat_initially.
  - rewrite (lsat_finally r k Hk). cbn [String.eqb Ascii.eqb Bool.eqb]. now apply finally_entry.
Qed.
(* the table covers the grammar: every operator of the theory definition with its admissible numbers of arguments is documented, and
   counts that evaluate to a negative number are rejected exactly for the four prefix operators *)
Theorem negative_counts_rejected : forall op, In op ["<"; "<:"; ">"; ">:"] -> exists e, create_formula_gen op 2 = Some (true, e).
Proof. intros op [<-|[<-|[<-|[<-|[]]]]]; eexists; reflexivity. Qed.
(* keywords inside formulas *)
Theorem keyword_values : forall k, k <= h ->
  option_map (fun e => fval e (fun _ => false) (fun _ => false) 0 k) (keyword_gen "initial") = Some (lsat (LInitial A) k) /\
  option_map (fun e => fval e (fun _ => false) (fun _ => false) 0 k) (keyword_gen "final") = Some (lsat (LFinal A) k) /\
  option_map (fun e => fval e (fun _ => false) (fun _ => false) 0 k) (keyword_gen "true") = Some true /\
  option_map (fun e => fval e (fun _ => false) (fun _ => false) 0 k) (keyword_gen "false") = Some false.
Proof.
  intros k Hk. cbn [keyword_gen option_map fval]. repeat split.
  - f_equal. cbn. now destruct k.
  - f_equal. rewrite (lsat_final k Hk). reflexivity.
Qed.
End BodyForm.
(* counts: create_number evaluates + and - over non-negative literals as integer arithmetic (no truncation, any intermediate sign) *)
Inductive nexp := NLit (n : Z) | NNeg (e : nexp) | NBin (op : string) (a b : nexp).
Definition obind {X Y} (a : option X) (f : X -> option Y) : option Y := match a with Some x => f x | None => None end.
Fixpoint neval (e : nexp) : option Z :=
  match e with
  | NLit n => num_leaf_gen n
  | NNeg a => obind (neval a) num_neg_gen
  | NBin op a b => obind (neval a) (fun x => obind (neval b) (fun y =>
      if String.eqb op "+" then num_add_gen x y else if String.eqb op "-" then num_sub_gen x y else None))
  end.
Fixpoint zeval (e : nexp) : Z :=
  match e with NLit n => n | NNeg a => (- zeval a)%Z | NBin op a b => if String.eqb op "+" then (zeval a + zeval b)%Z else (zeval a - zeval b)%Z end.
Fixpoint nwf (e : nexp) : bool :=
  match e with NLit n => (0 <=? n)%Z | NNeg a => nwf a | NBin op a b => (String.eqb op "+" || String.eqb op "-") && nwf a && nwf b end.
Theorem create_number_is_arithmetic : forall e, nwf e = true -> neval e = Some (zeval e).
Proof.
  induction e as [n|a IH|op a IHa b IHb]; cbn [nwf neval zeval]; intros W.
  - unfold num_leaf_gen. cbn [olift2]. rewrite Z.geb_leb, W. reflexivity.
  - rewrite (IH W). reflexivity.
  - apply andb_true_iff in W as [W Wb]. apply andb_true_iff in W as [Wo Wa]. rewrite (IHa Wa), (IHb Wb). cbn [obind].
    destruct (String.eqb op "+") eqn:E1; [reflexivity|]. destruct (String.eqb op "-") eqn:E2; [reflexivity|discriminate].
Qed.
Theorem create_number_rejects_negative_literals : forall n, (n < 0)%Z -> neval (NLit n) = None.
Proof. intros n Hn. cbn [neval]. unfold num_leaf_gen. cbn [olift2]. rewrite Z.geb_leb. now assert ((0 <=? n)%Z = false) as -> by (apply Z.leb_gt; lia). Qed.
Example create_number_example : neval (NBin "+" (NBin "-" (NLit 1) (NLit 2)) (NLit 3)) = Some 2%Z.
Proof. reflexivity. Qed.
